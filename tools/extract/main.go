// Command extract is the fact extractor (tie T1): it parses /repo's current source with go/ast
// and regenerates lean/GoSup/Generated/*.lean — the synchronisation skeleton of every function
// of the anchored packages, the FSM transition table of the pinned go-fsm module, the
// SetState/Transition call sites, the IsRunning bodies, the use of lifecycle.StartStop by the
// bundled runners, the `go` statement inventory and the field/lock access table.
// It is deliberately syntactic; what it cannot classify is emitted verbatim, so that a tie
// theorem fails rather than passes.
package main

import (
	"bytes"
	"flag"
	"fmt"
	"go/ast"
	"go/parser"
	"go/printer"
	"go/token"
	"os"
	"os/exec"
	"path/filepath"
	"sort"
	"strings"
)

var fset = token.NewFileSet()

type pkgSpec struct{ name, dir string }

var packages = []pkgSpec{
	{"supervisor", "supervisor"},
	{"lifecycle", "supervisor/lifecycle"},
	{"finitestate", "internal/finitestate"},
	{"networking", "internal/networking"},
	{"composite", "runnables/composite"},
	{"httpserver", "runnables/httpserver"},
	{"httpcluster", "runnables/httpcluster"},
	{"mw.recovery", "runnables/httpserver/middleware/recovery"},
	{"mw.headers", "runnables/httpserver/middleware/headers"},
	{"mw.wildcard", "runnables/httpserver/middleware/wildcard"},
	{"mw.state", "runnables/httpserver/middleware/state"},
	{"mw.logger", "runnables/httpserver/middleware/logger"},
	{"mw.metrics", "runnables/httpserver/middleware/metrics"},
}

func src(n ast.Node) string {
	var b bytes.Buffer
	_ = printer.Fprint(&b, fset, n)
	s := strings.Join(strings.Fields(b.String()), " ")
	return s
}

func leanStr(s string) string {
	s = strings.ReplaceAll(s, "\\", "\\\\")
	s = strings.ReplaceAll(s, "\"", "\\\"")
	s = strings.ReplaceAll(s, "\n", "\\n")
	s = strings.ReplaceAll(s, "\t", " ")
	return "\"" + s + "\""
}

func leanList(l []string) string {
	q := make([]string, len(l))
	for i, s := range l {
		q[i] = leanStr(s)
	}
	return "[" + strings.Join(q, ", ") + "]"
}

// ---------------------------------------------------------------------------------------------
// parsing

type fn struct {
	pkg, recv, name string
	decl            *ast.FuncDecl
	file            string
}

func (f fn) key() string {
	if f.recv != "" {
		return f.pkg + "." + f.recv + "." + f.name
	}
	return f.pkg + "." + f.name
}

func recvName(d *ast.FuncDecl) string {
	if d.Recv == nil || len(d.Recv.List) == 0 {
		return ""
	}
	t := d.Recv.List[0].Type
	for {
		switch x := t.(type) {
		case *ast.StarExpr:
			t = x.X
		case *ast.IndexExpr:
			t = x.X
		case *ast.IndexListExpr:
			t = x.X
		case *ast.Ident:
			return x.Name
		default:
			return src(t)
		}
	}
}

func isVerifFile(f *ast.File) bool {
	for _, cg := range f.Comments {
		for _, c := range cg.List {
			if strings.HasPrefix(c.Text, "//go:build") && strings.Contains(c.Text, "verif") {
				return true
			}
		}
		if cg.Pos() > f.Package {
			break
		}
	}
	return false
}

func loadPkg(repo string, p pkgSpec) ([]fn, []*ast.File) {
	dir := filepath.Join(repo, p.dir)
	ents, err := os.ReadDir(dir)
	if err != nil {
		fmt.Fprintln(os.Stderr, "extract: cannot read", dir, err)
		os.Exit(1)
	}
	var out []fn
	var files []*ast.File
	for _, e := range ents {
		n := e.Name()
		if e.IsDir() || !strings.HasSuffix(n, ".go") || strings.HasSuffix(n, "_test.go") {
			continue
		}
		f, err := parser.ParseFile(fset, filepath.Join(dir, n), nil, parser.ParseComments)
		if err != nil {
			fmt.Fprintln(os.Stderr, "extract: parse error", err)
			os.Exit(1)
		}
		if isVerifFile(f) { // hook files (either variant) are not part of the modelled code
			continue
		}
		files = append(files, f)
		for _, d := range f.Decls {
			if fd, ok := d.(*ast.FuncDecl); ok && fd.Body != nil {
				out = append(out, fn{pkg: p.name, recv: recvName(fd), name: fd.Name.Name, decl: fd, file: p.dir + "/" + n})
			}
		}
	}
	return out, files
}

// ---------------------------------------------------------------------------------------------
// skeleton

var erasedCallPrefixes = []string{"logger.", "p.logger.", "r.logger.", "slog.", "slogger.", "fmt.Errorf", "fmt.Sprintf", "errors.New",
	"time.Now", "time.Since", "len", "cap", "append", "make", "string", "verifYield", "min", "max", "strings.", "strconv.Itoa", "any"}

func erasedCall(s string) bool {
	for _, p := range erasedCallPrefixes {
		if s == p || strings.HasPrefix(s, p) {
			if strings.HasSuffix(p, ".") || s == p || strings.HasPrefix(s, p+"(") || !isIdentChar(s[len(p)]) {
				return true
			}
		}
	}
	// logger chains: x.Debug/Info/Warn/Error/With/WithGroup on something named *logger*
	return false
}

func isIdentChar(c byte) bool {
	return c == '_' || (c >= 'a' && c <= 'z') || (c >= 'A' && c <= 'Z') || (c >= '0' && c <= '9')
}

func isLoggerExpr(e ast.Expr) bool {
	s := src(e)
	return strings.Contains(strings.ToLower(s), "logger") || strings.HasPrefix(s, "slog.")
}

type skel struct{ toks []string }

func (k *skel) emit(f string, a ...any) { k.toks = append(k.toks, fmt.Sprintf(f, a...)) }

// callTokens emits one token per call expression inside e (pre-order), except erased ones.
func (k *skel) exprCalls(e ast.Node) {
	if e == nil {
		return
	}
	ast.Inspect(e, func(n ast.Node) bool {
		switch x := n.(type) {
		case *ast.FuncLit:
			k.emit("func {")
			k.block(x.Body)
			k.emit("}")
			return false
		case *ast.CallExpr:
			fs := src(x.Fun)
			if sel, ok := x.Fun.(*ast.SelectorExpr); ok && isLoggerExpr(sel.X) {
				return false // logging call incl. its arguments
			}
			if erasedCall(fs) {
				return true // erased, but arguments may contain relevant calls
			}
			if fs == "close" && len(x.Args) == 1 {
				k.emit("close %s", src(x.Args[0]))
				return false
			}
			// a func literal argument is rendered as a nested block after the call token
			args := make([]string, 0, len(x.Args))
			for _, a := range x.Args {
				if _, ok := a.(*ast.FuncLit); ok {
					args = append(args, "func")
				} else if isLoggerExpr(a) {
					args = append(args, "_")
				} else {
					args = append(args, src(a))
				}
			}
			k.emit("call %s(%s)", fs, strings.Join(args, ", "))
			for _, a := range x.Args {
				k.exprCalls(a)
			}
			if _, ok := x.Fun.(*ast.FuncLit); ok {
				k.exprCalls(x.Fun)
			}
			return false
		case *ast.UnaryExpr:
			if x.Op == token.ARROW {
				k.emit("recv %s", src(x.X))
				return false
			}
		case *ast.TypeAssertExpr:
			if x.Type != nil {
				k.emit("typeassert %s", src(x))
			}
		}
		return true
	})
}

func (k *skel) block(b *ast.BlockStmt) {
	if b == nil {
		return
	}
	for _, s := range b.List {
		k.stmt(s)
	}
}

func onlyLogging(s ast.Stmt) bool {
	es, ok := s.(*ast.ExprStmt)
	if !ok {
		return false
	}
	c, ok := es.X.(*ast.CallExpr)
	if !ok {
		return false
	}
	if sel, ok := c.Fun.(*ast.SelectorExpr); ok && isLoggerExpr(sel.X) {
		return true
	}
	return false
}

func (k *skel) stmt(s ast.Stmt) {
	switch x := s.(type) {
	case nil:
	case *ast.ExprStmt:
		if onlyLogging(x) {
			return
		}
		k.exprCalls(x.X)
	case *ast.SendStmt:
		k.emit("send %s", src(x.Chan))
		k.exprCalls(x.Value)
	case *ast.AssignStmt:
		before := len(k.toks)
		for _, r := range x.Rhs {
			k.exprCalls(r)
		}
		// assignments to receiver fields are state changes: keep them
		for i, l := range x.Lhs {
			if sel, ok := l.(*ast.SelectorExpr); ok {
				rhs := ""
				if len(x.Rhs) == len(x.Lhs) {
					rhs = src(x.Rhs[i])
				} else if len(x.Rhs) == 1 {
					rhs = src(x.Rhs[0])
				}
				k.emit("set %s = %s", src(sel), rhs)
			}
		}
		_ = before
	case *ast.IncDecStmt:
		if _, ok := x.X.(*ast.SelectorExpr); ok {
			k.emit("set %s %s", src(x.X), x.Tok)
		}
	case *ast.GoStmt:
		if fl, ok := x.Call.Fun.(*ast.FuncLit); ok {
			k.emit("go {")
			k.block(fl.Body)
			k.emit("}")
		} else {
			k.emit("go %s", src(x.Call))
		}
	case *ast.DeferStmt:
		if fl, ok := x.Call.Fun.(*ast.FuncLit); ok {
			k.emit("defer {")
			k.block(fl.Body)
			k.emit("}")
		} else {
			if sel, ok := x.Call.Fun.(*ast.SelectorExpr); ok && isLoggerExpr(sel.X) {
				return
			}
			k.emit("defer %s", src(x.Call))
		}
	case *ast.ReturnStmt:
		for _, r := range x.Results {
			k.exprCalls(r)
		}
		rs := make([]string, len(x.Results))
		for i, r := range x.Results {
			rs[i] = src(r)
		}
		k.emit("return %s", strings.Join(rs, ", "))
	case *ast.BlockStmt:
		k.block(x)
	case *ast.IfStmt:
		if x.Init != nil {
			k.stmt(x.Init)
		}
		k.exprCalls(x.Cond)
		k.emit("if %s {", src(x.Cond))
		k.block(x.Body)
		if x.Else != nil {
			k.emit("} else {")
			switch e := x.Else.(type) {
			case *ast.BlockStmt:
				k.block(e)
			default:
				k.stmt(e)
			}
		}
		k.emit("}")
	case *ast.ForStmt:
		hdr := ""
		if x.Init != nil {
			hdr += src(x.Init)
		}
		hdr += "; "
		if x.Cond != nil {
			hdr += src(x.Cond)
		}
		hdr += "; "
		if x.Post != nil {
			hdr += src(x.Post)
		}
		if x.Init == nil && x.Cond == nil && x.Post == nil {
			hdr = ""
		}
		k.emit("for %s {", hdr)
		k.block(x.Body)
		k.emit("}")
	case *ast.RangeStmt:
		k.emit("range %s {", src(x.X))
		k.block(x.Body)
		k.emit("}")
	case *ast.SelectStmt:
		k.emit("select {")
		for _, c := range x.Body.List {
			cc := c.(*ast.CommClause)
			switch comm := cc.Comm.(type) {
			case nil:
				k.emit("default:")
			case *ast.SendStmt:
				k.emit("case send %s:", src(comm.Chan))
			case *ast.ExprStmt:
				k.emit("case %s:", strings.TrimPrefix(src(comm.X), "<-"))
			case *ast.AssignStmt:
				k.emit("case %s:", strings.TrimPrefix(src(comm.Rhs[0]), "<-"))
			}
			for _, b := range cc.Body {
				k.stmt(b)
			}
		}
		k.emit("}")
	case *ast.SwitchStmt:
		if x.Init != nil {
			k.stmt(x.Init)
		}
		tag := ""
		if x.Tag != nil {
			tag = src(x.Tag)
		}
		k.emit("switch %s {", tag)
		for _, c := range x.Body.List {
			cc := c.(*ast.CaseClause)
			if cc.List == nil {
				k.emit("default:")
			} else {
				es := make([]string, len(cc.List))
				for i, e := range cc.List {
					es[i] = src(e)
				}
				k.emit("case %s:", strings.Join(es, ", "))
			}
			for _, b := range cc.Body {
				k.stmt(b)
			}
		}
		k.emit("}")
	case *ast.TypeSwitchStmt:
		k.emit("typeswitch %s {", src(x.Assign))
		for _, c := range x.Body.List {
			cc := c.(*ast.CaseClause)
			es := make([]string, len(cc.List))
			for i, e := range cc.List {
				es[i] = src(e)
			}
			k.emit("case %s:", strings.Join(es, ", "))
			for _, b := range cc.Body {
				k.stmt(b)
			}
		}
		k.emit("}")
	case *ast.BranchStmt:
		k.emit("%s", x.Tok.String())
	case *ast.DeclStmt:
		k.exprCalls(x)
	case *ast.LabeledStmt:
		k.stmt(x.Stmt)
	default:
		k.emit("unknown %T", s)
	}
}

func splitLocks(s string) []string {
	if s == "" {
		return nil
	}
	return strings.Split(s, ",")
}

func mangle(key string) string {
	r := strings.NewReplacer(".", "_", "[", "_", "]", "_")
	return "skel_" + r.Replace(key)
}

func fnv(toks []string) uint64 {
	h := uint64(14695981039346656037)
	for _, t := range toks {
		for i := 0; i < len(t); i++ {
			h ^= uint64(t[i])
			h *= 1099511628211
		}
		h ^= 0xff
		h *= 1099511628211
	}
	return h % 1000000007
}

// ---------------------------------------------------------------------------------------------
// tables

type access struct {
	strct, field, kind, fn, locks, phase string
}

// runner structs whose fields are tracked (C17)
var trackedStructs = map[string]string{ // package.Type -> receiver struct name
	"supervisor.PIDZero": "", "composite.Runner": "", "httpserver.Runner": "", "httpcluster.Runner": "", "lifecycle.StartStop": "",
}

type lockState map[string]string // mutex field -> "W" or "R"

func (l lockState) String() string {
	ks := make([]string, 0, len(l))
	for k, v := range l {
		ks = append(ks, k+":"+v)
	}
	sort.Strings(ks)
	return strings.Join(ks, ",")
}

func (l lockState) clone() lockState {
	c := lockState{}
	for k, v := range l {
		c[k] = v
	}
	return c
}

type accessScanner struct {
	recv     string // receiver identifier in this function
	strct    string
	fn       string
	out      *[]access
	calls    *[]callSite
	mutexes  map[string]bool
	deferred lockState
}

type callSite struct {
	caller, callee, locks string
	inGo                  bool
}

// scanBlock walks statements in order tracking the lock set (straight-line; branches are scanned
// with a copy of the current set; a lock taken in a branch does not leak out of it).
func (a *accessScanner) scanBlock(b *ast.BlockStmt, held lockState, inGo bool) {
	if b == nil {
		return
	}
	for _, s := range b.List {
		a.scanStmt(s, held, inGo)
	}
}

func (a *accessScanner) lockOp(c *ast.CallExpr) (mutex, op string, ok bool) {
	sel, isSel := c.Fun.(*ast.SelectorExpr)
	if !isSel {
		return
	}
	inner, isSel2 := sel.X.(*ast.SelectorExpr)
	if !isSel2 {
		return
	}
	id, isId := inner.X.(*ast.Ident)
	if !isId || id.Name != a.recv {
		return
	}
	switch sel.Sel.Name {
	case "Lock", "Unlock", "RLock", "RUnlock":
		return inner.Sel.Name, sel.Sel.Name, true
	}
	return
}

func (a *accessScanner) scanStmt(s ast.Stmt, held lockState, inGo bool) {
	switch x := s.(type) {
	case *ast.ExprStmt:
		if c, ok := x.X.(*ast.CallExpr); ok {
			if m, op, ok := a.lockOp(c); ok {
				a.mutexes[m] = true
				switch op {
				case "Lock":
					held[m] = "W"
				case "RLock":
					held[m] = "R"
				default:
					delete(held, m)
				}
				return
			}
		}
		a.scanExpr(x.X, held, inGo, false)
	case *ast.DeferStmt:
		if m, op, ok := a.lockOp(x.Call); ok && (op == "Unlock" || op == "RUnlock") {
			a.mutexes[m] = true
			return // stays held to the end of the function
		}
		if fl, ok := x.Call.Fun.(*ast.FuncLit); ok {
			a.scanBlock(fl.Body, held.clone(), inGo)
			return
		}
		a.scanExpr(x.Call, held, inGo, false)
	case *ast.GoStmt:
		if fl, ok := x.Call.Fun.(*ast.FuncLit); ok {
			for _, arg := range x.Call.Args {
				a.scanExpr(arg, held, inGo, false)
			}
			a.scanBlock(fl.Body, lockState{}, true)
			return
		}
		// go p.method(): the callee runs with no lock held
		a.noteCall(x.Call, lockState{}, true)
		for _, arg := range x.Call.Args {
			a.scanExpr(arg, held, inGo, false)
		}
	case *ast.AssignStmt:
		for _, r := range x.Rhs {
			a.scanExpr(r, held, inGo, false)
		}
		for _, l := range x.Lhs {
			a.scanExpr(l, held, inGo, true)
		}
	case *ast.IncDecStmt:
		a.scanExpr(x.X, held, inGo, true)
	case *ast.SendStmt:
		a.scanExpr(x.Chan, held, inGo, false)
		a.scanExpr(x.Value, held, inGo, false)
	case *ast.ReturnStmt:
		for _, r := range x.Results {
			a.scanExpr(r, held, inGo, false)
		}
	case *ast.BlockStmt:
		a.scanBlock(x, held, inGo)
	case *ast.IfStmt:
		if x.Init != nil {
			a.scanStmt(x.Init, held, inGo)
		}
		a.scanExpr(x.Cond, held, inGo, false)
		a.scanBlock(x.Body, held.clone(), inGo)
		if x.Else != nil {
			a.scanStmt(x.Else, held.clone(), inGo)
		}
	case *ast.ForStmt:
		if x.Init != nil {
			a.scanStmt(x.Init, held, inGo)
		}
		if x.Cond != nil {
			a.scanExpr(x.Cond, held, inGo, false)
		}
		a.scanBlock(x.Body, held.clone(), inGo)
	case *ast.RangeStmt:
		a.scanExpr(x.X, held, inGo, false)
		a.scanBlock(x.Body, held.clone(), inGo)
	case *ast.SelectStmt:
		for _, c := range x.Body.List {
			cc := c.(*ast.CommClause)
			h := held.clone()
			if cc.Comm != nil {
				a.scanStmt(cc.Comm, h, inGo)
			}
			for _, b := range cc.Body {
				a.scanStmt(b, h, inGo)
			}
		}
	case *ast.SwitchStmt:
		if x.Init != nil {
			a.scanStmt(x.Init, held, inGo)
		}
		if x.Tag != nil {
			a.scanExpr(x.Tag, held, inGo, false)
		}
		for _, c := range x.Body.List {
			cc := c.(*ast.CaseClause)
			h := held.clone()
			for _, e := range cc.List {
				a.scanExpr(e, h, inGo, false)
			}
			for _, b := range cc.Body {
				a.scanStmt(b, h, inGo)
			}
		}
	case *ast.TypeSwitchStmt:
		for _, c := range x.Body.List {
			cc := c.(*ast.CaseClause)
			h := held.clone()
			for _, b := range cc.Body {
				a.scanStmt(b, h, inGo)
			}
		}
	case *ast.DeclStmt:
		ast.Inspect(x, func(n ast.Node) bool {
			if e, ok := n.(ast.Expr); ok {
				a.scanExpr(e, held, inGo, false)
				return false
			}
			return true
		})
	case *ast.LabeledStmt:
		a.scanStmt(x.Stmt, held, inGo)
	}
}

func (a *accessScanner) noteCall(c *ast.CallExpr, held lockState, inGo bool) {
	if sel, ok := c.Fun.(*ast.SelectorExpr); ok {
		if id, ok := sel.X.(*ast.Ident); ok && id.Name == a.recv {
			*a.calls = append(*a.calls, callSite{caller: a.fn, callee: a.strct + "." + sel.Sel.Name, locks: held.String(), inGo: inGo})
		}
	}
}

func (a *accessScanner) scanExpr(e ast.Expr, held lockState, inGo bool, write bool) {
	if e == nil {
		return
	}
	switch x := e.(type) {
	case *ast.SelectorExpr:
		if id, ok := x.X.(*ast.Ident); ok && id.Name == a.recv {
			kind := "R"
			if write {
				kind = "W"
			}
			phase := ""
			if inGo {
				phase = "go"
			}
			*a.out = append(*a.out, access{a.strct, x.Sel.Name, kind, a.fn, held.String(), phase})
			return
		}
		a.scanExpr(x.X, held, inGo, false)
	case *ast.CallExpr:
		a.noteCall(x, held, inGo)
		// method call on a field: recv.field.M(...) reads the field (the callee synchronises itself)
		if sel, ok := x.Fun.(*ast.SelectorExpr); ok {
			if _, _, isLock := a.lockOp(x); !isLock {
				if inner, ok := sel.X.(*ast.SelectorExpr); ok {
					if id, ok := inner.X.(*ast.Ident); ok && id.Name == a.recv {
						phase := ""
						if inGo {
							phase = "go"
						}
						*a.out = append(*a.out, access{a.strct, inner.Sel.Name, "M:" + sel.Sel.Name, a.fn, held.String(), phase})
					} else {
						a.scanExpr(sel.X, held, inGo, false)
					}
				} else if _, ok := sel.X.(*ast.Ident); !ok {
					a.scanExpr(sel.X, held, inGo, false)
				}
			}
		} else if fl, ok := x.Fun.(*ast.FuncLit); ok {
			a.scanBlock(fl.Body, held.clone(), inGo)
		}
		for _, arg := range x.Args {
			if fl, ok := arg.(*ast.FuncLit); ok {
				// a callback: may run later on another goroutine (wg.Go, once.Do run it inline or async)
				fs := src(x.Fun)
				async := strings.HasSuffix(fs, ".Go")
				h := held.clone()
				if async {
					h = lockState{}
				}
				a.scanBlock(fl.Body, h, inGo || async)
				continue
			}
			a.scanExpr(arg, held, inGo, false)
		}
	case *ast.UnaryExpr:
		a.scanExpr(x.X, held, inGo, x.Op == token.AND && write)
	case *ast.BinaryExpr:
		a.scanExpr(x.X, held, inGo, false)
		a.scanExpr(x.Y, held, inGo, false)
	case *ast.ParenExpr:
		a.scanExpr(x.X, held, inGo, write)
	case *ast.StarExpr:
		a.scanExpr(x.X, held, inGo, false)
	case *ast.IndexExpr:
		a.scanExpr(x.X, held, inGo, false)
		a.scanExpr(x.Index, held, inGo, false)
	case *ast.SliceExpr:
		a.scanExpr(x.X, held, inGo, false)
	case *ast.TypeAssertExpr:
		a.scanExpr(x.X, held, inGo, false)
	case *ast.CompositeLit:
		for _, el := range x.Elts {
			if kv, ok := el.(*ast.KeyValueExpr); ok {
				a.scanExpr(kv.Value, held, inGo, false)
			} else {
				a.scanExpr(el, held, inGo, false)
			}
		}
	case *ast.FuncLit:
		a.scanBlock(x.Body, held.clone(), inGo)
	case *ast.KeyValueExpr:
		a.scanExpr(x.Value, held, inGo, false)
	}
}

// ---------------------------------------------------------------------------------------------

func main() {
	repo := flag.String("repo", "/repo", "repository root")
	out := flag.String("out", "", "output directory (lean/GoSup/Generated)")
	ns := flag.String("ns", "Generated", "Lean namespace suffix (Generated | Expected)")
	flag.Parse()
	if *out == "" {
		fmt.Fprintln(os.Stderr, "extract: --out required")
		os.Exit(2)
	}
	var fns []fn
	filesByPkg := map[string][]*ast.File{}
	for _, p := range packages {
		f, files := loadPkg(*repo, p)
		fns = append(fns, f...)
		filesByPkg[p.name] = files
	}
	sort.Slice(fns, func(i, j int) bool { return fns[i].key() < fns[j].key() })

	// ---- Skeleton.lean
	var b strings.Builder
	fmt.Fprintf(&b, "/-! REGENERATED by tools/extract from the source tree on every run. Do not edit. -/\nnamespace GoSup.%s\n\n", *ns)
	fmt.Fprintf(&b, "/-! synchronisation skeleton of every function of the anchored packages, one definition per function -/\n\n")
	var names []string
	for _, f := range fns {
		k := &skel{}
		k.block(f.decl.Body)
		fmt.Fprintf(&b, "def %s : List String :=\n  %s\n\n", mangle(f.key()), leanList(k.toks))
		names = append(names, f.key())
	}
	fmt.Fprintf(&b, "def skeletonIndex : List String :=\n  %s\n\n", leanList(names))
	// the function inventory of every anchored package (a new method on a modelled type changes it)
	byPkg := map[string][]string{}
	var pkgs []string
	for _, n := range names {
		pk := n
		if i := strings.Index(n, "."); i >= 0 {
			pk = n[:i]
		}
		if _, ok := byPkg[pk]; !ok {
			pkgs = append(pkgs, pk)
		}
		byPkg[pk] = append(byPkg[pk], n)
	}
	sort.Strings(pkgs)
	for _, pk := range pkgs {
		fmt.Fprintf(&b, "def inventory_%s : List String :=\n  %s\n\n", pk, leanList(byPkg[pk]))
	}
	fmt.Fprintf(&b, "end GoSup.%s\n", *ns)
	write(*out, "Skeleton.lean", b.String())

	// ---- Fsm.lean : transitions.Typical of the pinned go-fsm module
	b.Reset()
	fmt.Fprintf(&b, "/-! REGENERATED by tools/extract. -/\nnamespace GoSup.%s\n\n", *ns)
	typ := extractTypical(*repo)
	fmt.Fprintf(&b, "/-- `transitions.Typical` of github.com/robbyt/go-fsm/v2 as pinned by go.mod -/\ndef typical : List (String × List String) := [\n")
	for i, e := range typ {
		sep := ","
		if i == len(typ)-1 {
			sep = ""
		}
		fmt.Fprintf(&b, "  (%s, %s)%s\n", leanStr(e.from), leanList(e.to), sep)
	}
	fmt.Fprintf(&b, "]\n\n")
	// FSM call sites in the runner packages
	fmt.Fprintf(&b, "/-- every FSM mutation call in the bundled runners: (function, method, arguments) -/\ndef fsmSites : List (String × String × String) := [\n")
	var sites []string
	for _, f := range fns {
		if f.pkg != "composite" && f.pkg != "httpserver" && f.pkg != "httpcluster" {
			continue
		}
		ast.Inspect(f.decl.Body, func(n ast.Node) bool {
			c, ok := n.(*ast.CallExpr)
			if !ok {
				return true
			}
			sel, ok := c.Fun.(*ast.SelectorExpr)
			if !ok {
				return true
			}
			switch sel.Sel.Name {
			case "Transition", "TransitionBool", "TransitionIfCurrentState", "SetState":
				if strings.HasSuffix(src(sel.X), "fsm") {
					args := make([]string, len(c.Args))
					for i, a := range c.Args {
						args[i] = strings.TrimPrefix(src(a), "finitestate.Status")
					}
					sites = append(sites, fmt.Sprintf("  (%s, %s, %s)", leanStr(f.key()), leanStr(sel.Sel.Name), leanStr(strings.Join(args, ","))))
				}
			}
			return true
		})
	}
	fmt.Fprintf(&b, "%s\n]\n\n", strings.Join(sites, ",\n"))
	// IsRunning bodies
	fmt.Fprintf(&b, "/-- body of every IsRunning() of the bundled runners -/\ndef isRunningBodies : List (String × String) := [\n")
	var irb []string
	for _, f := range fns {
		if f.name == "IsRunning" && f.recv == "Runner" {
			irb = append(irb, fmt.Sprintf("  (%s, %s)", leanStr(f.key()), leanStr(src(f.decl.Body))))
		}
	}
	fmt.Fprintf(&b, "%s\n]\n\n", strings.Join(irb, ",\n"))
	// lifecycle use
	fmt.Fprintf(&b, "/-- how each bundled runner uses lifecycle.StartStop: (function, first two statements of Run / whole body of Stop, has `case <-r.lc.StopCh():`) -/\ndef lifecycleUse : List (String × List String × Bool) := [\n")
	var lu []string
	for _, f := range fns {
		if f.recv != "Runner" || (f.name != "Run" && f.name != "Stop") {
			continue
		}
		var stmts []string
		lim := len(f.decl.Body.List)
		if f.name == "Run" {
			lim = 0
			// statements up to and including `defer done()`, logging erased
			for _, s := range f.decl.Body.List {
				if onlyLogging(s) {
					continue
				}
				if as, ok := s.(*ast.AssignStmt); ok && len(as.Rhs) == 1 && isLoggerExpr(as.Rhs[0]) {
					continue
				}
				stmts = append(stmts, src(s))
				lim++
				if lim == 2 {
					break
				}
			}
		} else {
			for _, s := range f.decl.Body.List {
				if onlyLogging(s) {
					continue
				}
				if as, ok := s.(*ast.AssignStmt); ok && len(as.Rhs) == 1 && isLoggerExpr(as.Rhs[0]) {
					continue
				}
				stmts = append(stmts, src(s))
			}
		}
		hasStopCh := false
		ast.Inspect(f.decl.Body, func(n ast.Node) bool {
			if cc, ok := n.(*ast.CommClause); ok && cc.Comm != nil && strings.Contains(src(cc.Comm), "lc.StopCh()") {
				hasStopCh = true
			}
			return true
		})
		lu = append(lu, fmt.Sprintf("  (%s, %s, %v)", leanStr(f.key()), leanList(stmts), hasStopCh))
	}
	fmt.Fprintf(&b, "%s\n]\n\n", strings.Join(lu, ",\n"))
	// go statements
	fmt.Fprintf(&b, "/-- every goroutine creation: (function, what is started) -/\ndef goStmts : List (String × String) := [\n")
	var gs []string
	for _, f := range fns {
		ast.Inspect(f.decl.Body, func(n ast.Node) bool {
			switch x := n.(type) {
			case *ast.GoStmt:
				what := src(x.Call.Fun)
				if _, ok := x.Call.Fun.(*ast.FuncLit); ok {
					what = "func" + waitSet(x.Call.Fun)
				}
				gs = append(gs, fmt.Sprintf("  (%s, %s)", leanStr(f.key()), leanStr("go "+what)))
			case *ast.CallExpr:
				if sel, ok := x.Fun.(*ast.SelectorExpr); ok && sel.Sel.Name == "Go" && len(x.Args) == 1 {
					what := src(x.Args[0])
					if _, ok := x.Args[0].(*ast.FuncLit); ok {
						what = "func" + waitSet(x.Args[0])
					}
					gs = append(gs, fmt.Sprintf("  (%s, %s)", leanStr(f.key()), leanStr(src(sel.X)+".Go "+what)))
				}
			}
			return true
		})
	}
	fmt.Fprintf(&b, "%s\n]\n\nend GoSup.%s\n", strings.Join(gs, ",\n"), *ns)
	write(*out, "Tables.lean", b.String())

	// ---- Goroutines.lean : every goroutine the library starts, with the points where it can block
	if *ns == "Generated" {
		var gb strings.Builder
		fmt.Fprintf(&gb, "/-! REGENERATED by tools/extract. -/\nnamespace GoSup.%s\n\n", *ns)
		fmt.Fprintf(&gb, "/-- (function that starts it, what is started, blocking points); a blocking point is the list of its\nalternatives: one element for a bare receive / send / range / call, several for a `select` -/\n")
		fmt.Fprintf(&gb, "def goroutines : List (String × String × List (List String)) := [\n")
		byName := map[string]*ast.FuncDecl{}
		for _, f := range fns {
			byName[f.pkg+"."+f.name] = f.decl
		}
		// spawn wrappers: functions that start their func parameter as a goroutine (`wg.Go(f)` / `go f()`),
		// e.g. PIDZero.goTracked; a call of a wrapper is a goroutine creation at the call site
		wrappers := map[string]bool{}
		for _, f := range fns {
			params := map[string]bool{}
			for _, fl := range f.decl.Type.Params.List {
				if _, ok := fl.Type.(*ast.FuncType); ok {
					for _, n := range fl.Names {
						params[n.Name] = true
					}
				}
			}
			if len(params) == 0 {
				continue
			}
			ast.Inspect(f.decl.Body, func(n ast.Node) bool {
				switch x := n.(type) {
				case *ast.GoStmt:
					if id, ok := x.Call.Fun.(*ast.Ident); ok && params[id.Name] {
						wrappers[f.pkg+"."+f.name] = true
					}
				case *ast.CallExpr:
					if sel, ok := x.Fun.(*ast.SelectorExpr); ok && sel.Sel.Name == "Go" && len(x.Args) == 1 {
						if id, ok := x.Args[0].(*ast.Ident); ok && params[id.Name] {
							wrappers[f.pkg+"."+f.name] = true
						}
					}
				}
				return true
			})
		}
		var rows []string
		for _, f := range fns {
			if wrappers[f.pkg+"."+f.name] {
				continue // its own `wg.Go(f)` is accounted for at the call sites
			}
			k := 0
			add := func(label string, body ast.Node, recvOf string) {
				pts := blockingPoints(body, recvOf, func(short string) *ast.FuncDecl { return byName[f.pkg+"."+short] }, 0, map[string]bool{})
				var ps []string
				for _, p := range pts {
					ps = append(ps, leanList(p))
				}
				rows = append(rows, fmt.Sprintf("  (%s, %s, [%s])", leanStr(f.key()), leanStr(label), strings.Join(ps, ", ")))
			}
			start := func(fun ast.Expr, how string) {
				if fl, ok := fun.(*ast.FuncLit); ok {
					add(fmt.Sprintf("%s func#%d", how, k), fl.Body, declRecv(f.decl))
					k++
					return
				}
				name := src(fun)
				short := name
				if i := strings.LastIndex(short, "."); i >= 0 {
					short = short[i+1:]
				}
				if d, ok := byName[f.pkg+"."+short]; ok {
					add(how+" "+name, d.Body, declRecv(d))
				} else {
					rows = append(rows, fmt.Sprintf("  (%s, %s, [[\"call unresolved\"]])", leanStr(f.key()), leanStr(how+" "+name)))
				}
			}
			ast.Inspect(f.decl.Body, func(n ast.Node) bool {
				switch x := n.(type) {
				case *ast.GoStmt:
					start(x.Call.Fun, "go")
				case *ast.CallExpr:
					if sel, ok := x.Fun.(*ast.SelectorExpr); ok && len(x.Args) == 1 {
						if sel.Sel.Name == "Go" {
							start(x.Args[0], src(sel.X)+".Go")
						} else if wrappers[f.pkg+"."+sel.Sel.Name] {
							start(x.Args[0], src(x.Fun))
						}
					}
				}
				return true
			})
		}
		fmt.Fprintf(&gb, "%s\n]\n\nend GoSup.%s\n", strings.Join(rows, ",\n"), *ns)
		write(*out, "Goroutines.lean", gb.String())
	}

	// ---- Accesses.lean : field accesses with lock sets
	b.Reset()
	fmt.Fprintf(&b, "/-! REGENERATED by tools/extract. -/\nnamespace GoSup.%s\n\n", *ns)
	var acc []access
	var calls []callSite
	for _, f := range fns {
		key := f.pkg + "." + f.recv
		if _, ok := trackedStructs[key]; !ok || f.decl.Recv == nil || len(f.decl.Recv.List[0].Names) == 0 {
			continue
		}
		sc := &accessScanner{recv: f.decl.Recv.List[0].Names[0].Name, strct: key, fn: f.key(), out: &acc, calls: &calls, mutexes: map[string]bool{}}
		sc.scanBlock(f.decl.Body, lockState{}, false)
	}
	// option / constructor functions: closures assigning to a struct value that is not yet shared
	for _, f := range fns {
		if f.recv != "" {
			continue
		}
		ast.Inspect(f.decl.Body, func(n ast.Node) bool {
			fl, ok := n.(*ast.FuncLit)
			if !ok || fl.Type.Params == nil || len(fl.Type.Params.List) != 1 || len(fl.Type.Params.List[0].Names) != 1 {
				return true
			}
			pt := src(fl.Type.Params.List[0].Type)
			pt = strings.TrimPrefix(pt, "*")
			if i := strings.Index(pt, "["); i >= 0 {
				pt = pt[:i]
			}
			key := f.pkg + "." + pt
			if _, ok := trackedStructs[key]; !ok {
				return true
			}
			var tmp []access
			var tmpc []callSite
			sc := &accessScanner{recv: fl.Type.Params.List[0].Names[0].Name, strct: key, fn: f.key(), out: &tmp, calls: &tmpc, mutexes: map[string]bool{}}
			sc.scanBlock(fl.Body, lockState{}, false)
			for _, a := range tmp {
				a.phase = "ctor"
				acc = append(acc, a)
			}
			return false
		})
	}
	// dedupe
	seen := map[string]bool{}
	fmt.Fprintf(&b, "/-- (struct, field, kind R|W|M:<method>, function, locks held (mutex:R|W), phase: \"\"|go|ctor) -/\ndef accesses : List (String × String × String × String × List String × String) := [\n")
	var al []string
	for _, a := range acc {
		s := fmt.Sprintf("  (%s, %s, %s, %s, %s, %s)", leanStr(a.strct), leanStr(a.field), leanStr(a.kind), leanStr(a.fn), leanList(splitLocks(a.locks)), leanStr(a.phase))
		if !seen[s] {
			seen[s] = true
			al = append(al, s)
		}
	}
	sort.Strings(al)
	fmt.Fprintf(&b, "%s\n]\n\n", strings.Join(al, ",\n"))
	fmt.Fprintf(&b, "/-- calls of a method of the same struct: (caller, callee, locks held at the call, inside a goroutine) -/\ndef selfCalls : List (String × String × List String × Bool) := [\n")
	seen = map[string]bool{}
	var cl []string
	for _, c := range calls {
		s := fmt.Sprintf("  (%s, %s, %s, %v)", leanStr(c.caller), leanStr(c.callee), leanList(splitLocks(c.locks)), c.inGo)
		if !seen[s] {
			seen[s] = true
			cl = append(cl, s)
		}
	}
	sort.Strings(cl)
	fmt.Fprintf(&b, "%s\n]\n\n", strings.Join(cl, ",\n"))
	// exported methods (callable from outside the package, with no lock held) and the mutex names
	var exp []string
	mset := map[string]bool{}
	for _, f := range fns {
		if f.recv != "" && ast.IsExported(f.name) {
			exp = append(exp, f.key())
		}
	}
	for _, a := range acc {
		for _, l := range splitLocks(a.locks) {
			mset[strings.SplitN(l, ":", 2)[0]] = true
		}
	}
	var ms []string
	for m := range mset {
		ms = append(ms, m)
	}
	sort.Strings(ms)
	fmt.Fprintf(&b, "def exportedMethods : List String :=\n  %s\n\ndef mutexes : List String :=\n  %s\n\nend GoSup.%s\n", leanList(exp), leanList(ms), *ns)
	write(*out, "Accesses.lean", b.String())
}

func declRecv(d *ast.FuncDecl) string {
	if d.Recv == nil || len(d.Recv.List) == 0 || len(d.Recv.List[0].Names) == 0 {
		return ""
	}
	return d.Recv.List[0].Names[0].Name
}

// blockingPoints lists, in source order, the points of a goroutine body where it can block: a select
// statement is one point with its alternatives; a receive, send or channel range outside a select
// and every call that is not logging or a pure helper is a point with one alternative.  Bodies of
// nested goroutines are not entered (they have their own row).
func blockingPoints(body ast.Node, recv string, resolve func(string) *ast.FuncDecl, depth int, stack map[string]bool) [][]string {
	var pts [][]string
	var walk func(n ast.Node)
	quiet := func(c *ast.CallExpr) bool {
		f := src(c.Fun)
		if strings.Contains(strings.ToLower(f), "logger") || strings.Contains(f, "verifYield") {
			return true
		}
		switch f {
		case "close", "len", "cap", "append", "make", "new", "delete", "panic", "recover", "string", "cancel", "done", "any", "error":
			return true
		}
		if strings.HasSuffix(f, ".cancel") || strings.HasSuffix(f, "Cancel") {
			return true
		}
		for _, p := range []string{"fmt.", "errors.", "strings.", "slog.", "context.", "time.After", "time.Since", "time.Now", "time.NewTimer", "time.NewTicker", "atomic.", "sort.", "maps.", "slices."} {
			if strings.HasPrefix(f, p) {
				return true
			}
		}
		if sel, ok := c.Fun.(*ast.SelectorExpr); ok {
			switch sel.Sel.Name {
			case "Done", "Err", "Load", "Store", "Swap", "Range", "Delete", "Lock", "Unlock", "RLock", "RUnlock", "Error", "String", "Add", "Is", "Stop",
				"Debug", "Info", "Warn", "With", "WithGroup", "GetState", "IsRunning", "LoadOrStore", "CompareAndSwap":
				// Stop here is Timer/Ticker.Stop in goroutine bodies; runnable Stop calls are listed by name below
				if sel.Sel.Name == "Stop" && !strings.Contains(strings.ToLower(src(sel.X)), "tick") && !strings.Contains(strings.ToLower(src(sel.X)), "timer") {
					return false
				}
				return true
			}
		}
		return false
	}
	walk = func(n ast.Node) {
		ast.Inspect(n, func(m ast.Node) bool {
			switch x := m.(type) {
			case *ast.GoStmt:
				return false
			case *ast.SelectStmt:
				var alts []string
				for _, c := range x.Body.List {
					cc := c.(*ast.CommClause)
					if cc.Comm == nil {
						alts = append(alts, "default")
						continue
					}
					switch y := cc.Comm.(type) {
					case *ast.SendStmt:
						alts = append(alts, src(y.Chan)+"<-")
					case *ast.ExprStmt:
						alts = append(alts, src(y.X))
					case *ast.AssignStmt:
						alts = append(alts, src(y.Rhs[0]))
					}
				}
				pts = append(pts, alts)
				for _, c := range x.Body.List {
					for _, st := range c.(*ast.CommClause).Body {
						walk(st)
					}
				}
				return false
			case *ast.UnaryExpr:
				if x.Op == token.ARROW {
					pts = append(pts, []string{"<-" + src(x.X)})
				}
			case *ast.SendStmt:
				pts = append(pts, []string{src(x.Chan) + "<-"})
			case *ast.RangeStmt:
				if x.Value == nil {
					if _, lit := x.X.(*ast.BasicLit); !lit {
						pts = append(pts, []string{"range " + src(x.X)})
					}
				}
			case *ast.CallExpr:
				if sel, ok := x.Fun.(*ast.SelectorExpr); ok && (sel.Sel.Name == "Go" || sel.Sel.Name == "goTracked") && len(x.Args) == 1 {
					return false
				}
				if _, ok := x.Fun.(*ast.FuncLit); ok {
					return true
				}
				if !quiet(x) {
					name := src(x.Fun)
					short := name
					if i := strings.LastIndex(short, "."); i >= 0 {
						short = short[i+1:]
					}
					// a call of a function of the same package is replaced by that function's own blocking points
					own := name == short || (recv != "" && name == recv+"."+short)
					if d := resolve(short); d != nil && own && depth < 4 && !stack[short] {
						stack[short] = true
						pts = append(pts, blockingPoints(d.Body, declRecv(d), resolve, depth+1, stack)...)
						delete(stack, short)
					} else {
						pts = append(pts, []string{"call " + name})
					}
				}
			}
			return true
		})
	}
	walk(body)
	return pts
}

// waitSet lists the channel receives / selects inside a goroutine body (what it can block on).
func waitSet(n ast.Node) string {
	var w []string
	ast.Inspect(n, func(m ast.Node) bool {
		switch x := m.(type) {
		case *ast.UnaryExpr:
			if x.Op == token.ARROW {
				w = append(w, "<-"+src(x.X))
			}
		case *ast.SendStmt:
			w = append(w, src(x.Chan)+"<-")
		case *ast.RangeStmt:
			w = append(w, "range "+src(x.X))
		}
		return true
	})
	if len(w) == 0 {
		return ""
	}
	return " waits[" + strings.Join(w, " ") + "]"
}

type typEntry struct {
	from string
	to   []string
}

func extractTypical(repo string) []typEntry {
	cmd := exec.Command("go", "list", "-m", "-f", "{{.Dir}}", "github.com/robbyt/go-fsm/v2")
	cmd.Dir = repo
	cmd.Env = append(os.Environ(), "GOFLAGS=-mod=mod", "GOPROXY=off")
	outb, err := cmd.Output()
	if err != nil {
		fmt.Fprintln(os.Stderr, "extract: go list -m go-fsm failed:", err)
		os.Exit(1)
	}
	dir := strings.TrimSpace(string(outb))
	f, err := parser.ParseFile(fset, filepath.Join(dir, "transitions", "common.go"), nil, 0)
	if err != nil {
		fmt.Fprintln(os.Stderr, "extract:", err)
		os.Exit(1)
	}
	consts := map[string]string{}
	var res []typEntry
	for _, d := range f.Decls {
		gd, ok := d.(*ast.GenDecl)
		if !ok {
			continue
		}
		for _, sp := range gd.Specs {
			vs, ok := sp.(*ast.ValueSpec)
			if !ok {
				continue
			}
			for i, n := range vs.Names {
				if i < len(vs.Values) {
					if bl, ok := vs.Values[i].(*ast.BasicLit); ok && bl.Kind == token.STRING {
						consts[n.Name] = strings.Trim(bl.Value, "\"")
					}
					if n.Name == "Typical" {
						ast.Inspect(vs.Values[i], func(m ast.Node) bool {
							cl, ok := m.(*ast.CompositeLit)
							if !ok {
								return true
							}
							if _, isMap := cl.Type.(*ast.MapType); !isMap {
								return true
							}
							for _, el := range cl.Elts {
								kv := el.(*ast.KeyValueExpr)
								e := typEntry{from: src(kv.Key)}
								for _, t := range kv.Value.(*ast.CompositeLit).Elts {
									e.to = append(e.to, src(t))
								}
								res = append(res, e)
							}
							return false
						})
					}
				}
			}
		}
	}
	for i := range res {
		if v, ok := consts[res[i].from]; ok {
			res[i].from = v
		}
		for j := range res[i].to {
			if v, ok := consts[res[i].to[j]]; ok {
				res[i].to[j] = v
			}
		}
	}
	return res
}

func write(dir, name, content string) {
	if err := os.MkdirAll(dir, 0o755); err != nil {
		fmt.Fprintln(os.Stderr, err)
		os.Exit(1)
	}
	if err := os.WriteFile(filepath.Join(dir, name), []byte(content), 0o644); err != nil {
		fmt.Fprintln(os.Stderr, err)
		os.Exit(1)
	}
}
