#!/usr/bin/env python3
"""Validate the seeded changes delivered by the independent sub-agents (/tmp/mut/out/<Cxx>/mN) against
/repo's HEAD in a scratch worktree, and keep the confirmed ones under /verif/seeded/<Cxx>-mN/.

  tools/mutants.py validate [Cxx ...]     confirm: patch applies, builds, demo fails with / passes without, suite passes
  tools/mutants.py detect <Cxx-mN> <Cyy> [<Cyy> ...]   apply a kept patch to /repo, run ./check <Cyy>, undo
"""
import json, os, shutil, subprocess, sys, glob, time

ENV = dict(os.environ, GOFLAGS="-mod=mod", GOPROXY="off")
SRC = os.environ.get("MUT_SRC", "/tmp/mut/out")
SEEDED = "/verif/seeded"
WT = "/tmp/mutwt"
FLAKY = ["TestCompositeRunner_Reload", "address already in use", "TestRunnerConfigUpdate_TOCTOU", "TestWorker_", "TestServerErr",
         "TestRunServer", "TestConcurrentServerManagement", "TestConcurrentRestartStress"]


def sh(cmd, cwd=None, timeout=900):
    p = subprocess.run(cmd, cwd=cwd, env=ENV, shell=isinstance(cmd, str), stdout=subprocess.PIPE, stderr=subprocess.STDOUT, text=True, timeout=timeout)
    return p.returncode, p.stdout


def fresh_wt():
    sh(f"git -C /repo worktree remove --force {WT}")
    shutil.rmtree(WT, ignore_errors=True)
    sh("git -C /repo worktree prune")
    rc, out = sh(f"git -C /repo worktree add -q --detach {WT} HEAD")
    assert rc == 0, out


def validate(pid):
    for d in sorted(glob.glob(f"{SRC}/{pid}/m*")):
        name = f"{pid}-{os.path.basename(d)}"
        meta = json.load(open(f"{d}/meta.json")) if os.path.exists(f"{d}/meta.json") else {}
        res = {"name": name, "property": pid}
        fresh_wt()
        rc, out = sh(f"git apply --3way {d}/patch.diff", cwd=WT)
        if rc != 0:
            rc, out = sh(f"git apply {d}/patch.diff", cwd=WT)
        res["applies"] = rc == 0
        if rc != 0:
            res["apply_log"] = out[-500:]
            print(json.dumps(res)); continue
        sh("git reset -q", cwd=WT)   # 3way stages changes
        rc, out = sh("go build ./...", cwd=WT)
        res["builds"] = rc == 0
        demo = glob.glob(f"{d}/zz_demo_test.go") + glob.glob(f"{d}/*_test.go")
        pkg = meta.get("demo_pkg_dir", "").strip("./")
        if demo and pkg and res["builds"]:
            shutil.copy(demo[0], f"{WT}/{pkg}/zz_demo_test.go")
            race = "-race " if "-race" in (meta.get("demo_cmd") or "") else ""
            run = "-run 'ZZDemo|TestDemo|TestZZ' "
            rc1, out1 = sh(f"timeout 300 go test {race}-vet=off -count=1 {run}./{pkg}/", cwd=WT)
            res["demo_fails_with_patch"] = rc1 != 0
            # without the patch
            rc, diff = sh("git diff", cwd=WT)
            open("/tmp/mut_regen.diff", "w").write(diff)
            sh("git checkout -- .", cwd=WT)
            rc2, out2 = sh(f"timeout 300 go test {race}-vet=off -count=1 {run}./{pkg}/", cwd=WT)
            res["demo_passes_without"] = rc2 == 0
            if rc2 != 0:
                res["demo_without_log"] = out2[-800:]
            os.remove(f"{WT}/{pkg}/zz_demo_test.go")
            sh("git apply /tmp/mut_regen.diff", cwd=WT)
        # full suite with the patch (twice if the first run fails only in known-flaky tests)
        ok = False
        for attempt in range(3):
            rc, out = sh("timeout 600 go test -vet=off -count=1 ./... 2>&1 | grep -E '^(FAIL|---|panic|ok)' | grep -v '^ok'", cwd=WT)
            fails = [l for l in out.splitlines() if l.startswith("--- FAIL") or l.startswith("FAIL") or l.startswith("panic")]
            real = [l for l in fails if l.startswith("--- FAIL") and not any(f in l for f in FLAKY)]
            if not fails or not real and attempt >= 0 and all(any(f in l for f in FLAKY) or l.startswith("FAIL") for l in fails):
                ok = not real
                if not fails:
                    break
            if not real and attempt == 2:
                ok = True
        res["suite_passes_with_patch"] = ok
        if not ok:
            res["suite_log"] = out[-600:]
        good = res.get("applies") and res.get("builds") and res.get("demo_fails_with_patch") and res.get("demo_passes_without") and ok
        res["kept"] = bool(good)
        if good:
            dst = f"{SEEDED}/{name}"
            os.makedirs(dst, exist_ok=True)
            rc, diff = sh("git diff", cwd=WT)
            open(f"{dst}/patch.diff", "w").write(diff)
            if demo:
                shutil.copy(demo[0], f"{dst}/zz_demo_test.go.txt")
            json.dump({"property": pid, "summary": meta.get("summary"), "needs_to_manifest": meta.get("needs_to_manifest"),
                       "files_changed": meta.get("files_changed"), "demo_pkg_dir": pkg,
                       "confirmed": {"base": subprocess.run("git -C /repo rev-parse --short HEAD", shell=True, stdout=subprocess.PIPE, text=True).stdout.strip(),
                                     "patch_applies_and_builds": True, "demo_fails_with_patch": True, "demo_passes_without": True,
                                     "existing_suite_passes_with_patch": True,
                                     "how": "tools/mutants.py validate (scratch worktree of /repo HEAD, removed afterwards)"},
                       "detected_by": {}}, open(f"{dst}/meta.json", "w"), indent=1)
        print(json.dumps(res), flush=True)
    sh(f"git -C /repo worktree remove --force {WT}")
    sh("git -C /repo worktree prune")


def detect(name, props):
    patch = f"{SEEDED}/{name}/patch.diff"
    rc, out = sh(f"git -C /repo apply {patch}")
    assert rc == 0, out
    results = {}
    try:
        for p in props:
            t0 = time.time()
            rc, out = sh(f"VERIF_NO_EVIDENCE=1 ./check {p}", cwd="/verif", timeout=1800)
            v = [l for l in out.splitlines() if l.startswith("VIOLATION")]
            results[p] = {"rc": rc, "violation": v[:2], "wall_s": round(time.time() - t0)}
            print(name, p, "rc=%d" % rc, v[:1], flush=True)
    finally:
        sh("git -C /repo checkout -- .")
    mp = f"{SEEDED}/{name}/meta.json"
    m = json.load(open(mp))
    m.setdefault("detected_by", {}).update(results)
    json.dump(m, open(mp, "w"), indent=1)


def revalidate(name):
    """Re-confirm a kept change against /repo's current HEAD (after repairs moved the base)."""
    d = f"{SEEDED}/{name}"
    meta = json.load(open(f"{d}/meta.json"))
    fresh_wt()
    res = {"name": name}
    rc, out = sh(f"git apply {d}/patch.diff", cwd=WT)
    res["applies"] = rc == 0
    if rc == 0:
        rc, out = sh("go build ./...", cwd=WT)
        res["builds"] = rc == 0
    pkg = meta.get("demo_pkg_dir", "").strip("./")
    demo = f"{d}/zz_demo_test.go.txt"
    if res.get("builds") and pkg and os.path.exists(demo):
        shutil.copy(demo, f"{WT}/{pkg}/zz_demo_test.go")
        race = "-race " if "race" in open(demo).read()[:4000].lower() and name.startswith("C17") else ""
        run = "-run 'ZZDemo|TestDemo|TestZZ' "
        rc1, out1 = sh(f"timeout 300 go test {race}-vet=off -count=1 {run}./{pkg}/", cwd=WT)
        res["demo_fails_with_patch"] = rc1 != 0
        sh(f"git apply -R {d}/patch.diff", cwd=WT)
        rc2, out2 = sh(f"timeout 300 go test {race}-vet=off -count=1 {run}./{pkg}/", cwd=WT)
        res["demo_passes_without"] = rc2 == 0
        if rc2 != 0:
            res["demo_without_log"] = out2[-600:]
        os.remove(f"{WT}/{pkg}/zz_demo_test.go")
        sh(f"git apply {d}/patch.diff", cwd=WT)
        ok = False
        for attempt in range(3):
            rc, out = sh("timeout 600 go test -vet=off -count=1 ./... 2>&1 | grep -E '^(FAIL|---|panic|ok)' | grep -v '^ok'", cwd=WT)
            real = [l for l in out.splitlines() if l.startswith("--- FAIL") and not any(f in l for f in FLAKY)]
            if not real:
                ok = True
                break
        res["suite_passes_with_patch"] = ok
        if not ok:
            res["suite_log"] = out[-500:]
    head = subprocess.run("git -C /repo rev-parse --short HEAD", shell=True, stdout=subprocess.PIPE, text=True).stdout.strip()
    res["base"] = head
    meta["reconfirmed"] = res
    json.dump(meta, open(f"{d}/meta.json", "w"), indent=1)
    print(json.dumps(res), flush=True)
    sh(f"git -C /repo worktree remove --force {WT}")
    sh("git -C /repo worktree prune")


if __name__ == "__main__":
    if sys.argv[1] == "validate":
        for pid in sys.argv[2:] or sorted(os.listdir(SRC)):
            validate(pid)
    elif sys.argv[1] == "detect":
        detect(sys.argv[2], sys.argv[3:])
    elif sys.argv[1] == "revalidate":
        for n in sys.argv[2:] or sorted(os.listdir(SEEDED)):
            revalidate(n)
