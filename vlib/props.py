"""Per-property configuration of ./check: Lean obligations, tie theorems, correspondence legs."""

PROPS = {}
HOOK_COMMITS = ["1bd059d", "b048242", "43b5979"]          # /repo commits that add `verif`-tagged hooks
NOT_APPLICABLE = {}        # property id -> reason (only for properties without a check)

COMMON_NOTE = ("Trusted: Lean 4.33.0 kernel (axioms propext, Classical.choice, Quot.sound only, audited on every run); the hand-written "
               "model and the Lean statement of the property; the Go fact extractor and correspondence harness. The theorems are about "
               "the model; agreement of model and code is checked by regenerated tables and by sampled differential runs, not proved. ")

# --- anchored functions (names as in lean/GoSup/Generated/Skeleton.lean, without the skel_ prefix) ---
SUP_CORE = ["supervisor_New", "supervisor_PIDZero_Run", "supervisor_PIDZero_Shutdown", "supervisor_PIDZero_reap",
            "supervisor_PIDZero_startRunnable", "supervisor_PIDZero_goTracked", "supervisor_PIDZero_blockUntilRunnableReady",
            "supervisor_PIDZero_SendSignal",
            "supervisor_PIDZero_listenForSignals", "supervisor_PIDZero_startShutdownManager", "supervisor_WithContext",
            "supervisor_WithShutdownTimeout", "supervisor_WithStartupInitial", "supervisor_WithStartupTimeout",
            "supervisor_WithRunnables", "supervisor_WithSignals"]
SUP_RELOAD = ["supervisor_PIDZero_ReloadAll", "supervisor_PIDZero_reloadOnSignal", "supervisor_PIDZero_startReloadManager",
              "supervisor_PIDZero_reloadAllRunnables"]
SUP_STATE = ["supervisor_PIDZero_startStateMonitor", "supervisor_PIDZero_broadcastState", "supervisor_PIDZero_AddStateSubscriber",
             "supervisor_PIDZero_SubscribeStateChanges", "supervisor_PIDZero_unsubscribeState", "supervisor_PIDZero_GetStateMap",
             "finitestate_Machine_getStateChanInternal", "finitestate_Machine_GetStateChan"]
LIFECYCLE = ["lifecycle_New", "lifecycle_StartStop_Started", "lifecycle_StartStop_Stop", "lifecycle_StartStop_StopCh"]
COMPOSITE = ["composite_Runner_Run", "composite_Runner_Stop", "composite_Runner_boot", "composite_Runner_startRunnable",
             "composite_Runner_stopAllRunnables", "composite_Runner_getConfig", "composite_Runner_setConfig", "composite_Runner_Reload",
             "composite_Runner_reloadWithRestart", "composite_Runner_reloadSkipRestart", "composite_hasMembershipChanged",
             "composite_Runner_setStateError", "composite_NewRunner", "composite_NewConfig", "composite_NewConfigFromRunnables"]
HTTPSERVER = ["httpserver_Runner_Run", "httpserver_Runner_Stop", "httpserver_Runner_boot", "httpserver_Runner_serverReadinessProbe",
              "httpserver_Runner_stopServer", "httpserver_Runner_shutdown", "httpserver_Runner_Reload", "httpserver_Runner_reloadConfig",
              "httpserver_Runner_getConfig", "httpserver_Runner_setConfig", "httpserver_Runner_setStateError", "httpserver_NewRunner",
              "httpserver_Config_createServer", "httpserver_Config_getMux", "httpserver_DefaultServerCreator", "httpserver_NewConfig",
              "httpserver_newRoute", "httpserver_NewRouteFromHandlerFunc", "httpserver_WithConfigCopy"]
EQUAL = ["httpserver_Config_Equal", "httpserver_Route_Equal", "httpserver_Routes_Equal"]
MIDDLEWARE = ["httpserver_RequestProcessor_Next", "httpserver_RequestProcessor_Abort", "httpserver_RequestProcessor_IsAborted",
              "httpserver_RequestProcessor_Writer", "httpserver_RequestProcessor_Request", "httpserver_RequestProcessor_SetWriter",
              "httpserver_Route_ServeHTTP", "httpserver_newResponseWriter", "httpserver_responseWriter_WriteHeader",
              "httpserver_responseWriter_Write", "httpserver_responseWriter_Status", "httpserver_responseWriter_Written",
              "httpserver_responseWriter_Size", "mw_recovery_New", "mw_headers_New", "mw_headers_NewWithOperations", "mw_headers_WithSet",
              "mw_headers_WithSetHeader", "mw_headers_WithAdd", "mw_headers_WithAddHeader", "mw_headers_WithRemove",
              "mw_headers_WithSetRequest", "mw_headers_WithSetRequestHeader", "mw_headers_WithAddRequest",
              "mw_headers_WithAddRequestHeader", "mw_headers_WithRemoveRequest", "mw_wildcard_New", "mw_state_New", "mw_logger_New",
              "mw_metrics_New"]
CLUSTER = ["httpcluster_Runner_Run", "httpcluster_Runner_Stop", "httpcluster_Runner_shutdown", "httpcluster_Runner_processConfigUpdate",
           "httpcluster_Runner_executeActions", "httpcluster_Runner_stopServers", "httpcluster_Runner_startServers",
           "httpcluster_Runner_createAndStartServer", "httpcluster_Runner_waitForIsRunning", "httpcluster_Runner_setStateError",
           "httpcluster_NewRunner", "httpcluster_Runner_GetServerCount", "httpcluster_defaultRunnerFactory"]
PLANNER = ["httpcluster_entries_buildPendingEntries", "httpcluster_entries_clearRuntime", "httpcluster_entries_commit",
           "httpcluster_entries_count", "httpcluster_entries_get", "httpcluster_entries_getPendingActions",
           "httpcluster_entries_removeEntry", "httpcluster_entries_setRuntime", "httpcluster_newEntries",
           "httpcluster_processExistingServer"]
PORT = ["networking_ValidatePort"]
STATEFNS = ["composite_Runner_IsRunning", "composite_Runner_GetState", "composite_Runner_GetStateChan",
            "httpserver_Runner_IsRunning", "httpserver_Runner_GetState", "httpserver_Runner_GetStateChan",
            "httpcluster_Runner_IsRunning", "httpcluster_Runner_GetState", "httpcluster_Runner_GetStateChan"]

PROPS["C20"] = {
    "skeleton_fns": PORT,
    "lean_modules": ["GoSup.Props.C20"],
    "theorems": [
        "GoSup.Props.C20.vp_empty", "GoSup.Props.C20.vp_accept_port", "GoSup.Props.C20.vp_accept_host_port",
        "GoSup.Props.C20.vp_accept_bracketed", "GoSup.Props.C20.vp_reject_out_of_range", "GoSup.Props.C20.vp_reject_negative",
        "GoSup.Props.C20.vp_roundtrip", "GoSup.Props.C20.original_code_breaks_roundtrip",
    ],
    "ties": [],
    "legs": [{"name": "port", "cmd": "port"}],
    "rule": "inputs: committed boundary corpus, ALL strings over a 16-symbol alphabet (digits, signs, colon, brackets, dot, letter, "
            "%, space, NUL, a 2-byte UTF-8 char) up to length 3 (quick) / 4 (thorough), seeded structured host:port forms with "
            "0-2 mutations, byte-random strings; per input 4 lines: ValidatePort, net.SplitHostPort, strconv.Atoi vs the model, "
            "and the Lean statement Spec.C20.holds on the implementation's outputs. Non-trivial = accepted, or rejected while "
            "containing one of : [ ] + - or longer than 5 bytes; distinct by input string.",
    "assumptions": [
        "net.SplitHostPort, strconv.Atoi are modelled (Model/Port.lean) and validated differentially on every run, not verified",
    ],
    "trusted_base": [],
    "level_text": "Theorems about a byte-exact model of ValidatePort for ALL byte strings of any length (accept/reject classes, "
                  "idempotent normal form, split-back); the model is tied to the code by exhaustive-to-bounded-length plus seeded "
                  "differential execution of ValidatePort, net.SplitHostPort and strconv.Atoi against the model.",
    "level_note": COMMON_NOTE + "net.SplitHostPort/strconv.Atoi/net.JoinHostPort are modelled, validated differentially.",
    "design_ref": "DESIGN.md section 5, C20",
}

PROPS["C15"] = {
    "skeleton_fns": MIDDLEWARE,
    "lean_modules": ["GoSup.Props.C15"],
    "theorems": ["GoSup.Props.C15.c15_refines", "GoSup.Props.C15.c15_spec_total", "GoSup.Props.C15.c15_nothing_after_consumed"],
    "ties": [],
    "legs": [{"name": "middleware", "cmd": "middleware"}],
    "rule": "programs: committed corpus, ALL chains of <=2 (quick) / <=3 (thorough) handlers with <=2 actions over the core alphabet "
            "{Next, Abort, WriteHeader, Write, panic, mark} plus empty and recovery handlers, and seeded random chains of 1-6 handlers "
            "(0-6 actions each, built-in recovery/logger/metrics/state/wildcard/headers middlewares, status codes incl. 1xx/204/304/"
            "invalid, a connection that fails after k bytes); each served by the real Route.ServeHTTP over a logging underlying writer; "
            "3 lines per program: implementation vs execImpl, vs execSpec, and Spec.C15.holds on the observed outcome. Non-trivial = "
            "an Abort, a recovered or escaped panic, a header actually sent, or a short write occurred; distinct by (path, program).",
    "assumptions": [
        "underlying writer contract = httptest.ResponseRecorder behind a call-logging wrapper (observation point of the property); "
        "a real net/http connection differs for 1xx informational codes (see DESIGN.md C15)",
    ],
    "trusted_base": [],
    "level_text": "Refinement theorem: the index-based implementation model of RequestProcessor.Next/Abort equals a reference "
                  "interpreter over the list of not-yet-started handlers, for all chains of all lengths; writer-consistency "
                  "invariant for all action sequences; tied to the code by differential execution of generated programs.",
    "level_note": COMMON_NOTE + "http.ResponseWriter contract modelled after httptest.ResponseRecorder.",
    "design_ref": "DESIGN.md section 5, C15",
}

PROPS["C13"] = {
    "skeleton_fns": EQUAL + ["httpserver_Runner_Reload", "httpserver_Runner_reloadConfig", "httpserver_Runner_boot", "httpserver_Runner_stopServer",
                             # what a configuration handed to Reload() is made of and how the fresh server gets its routes
                             "httpserver_NewConfig", "httpserver_WithConfigCopy", "httpserver_Config_getMux", "httpserver_Config_createServer",
                             "httpserver_validateRoutes"],
    "lean_modules": ["GoSup.Props.C13", "GoSup.Props.C12L"],
    "theorems": ["GoSup.Props.C12L.c13_same_untouched", "GoSup.Props.C12L.c13_same_untouched_later", "GoSup.Props.C12L.c13_changed_fresh", "GoSup.Props.C13.routesEqual_iff", "GoSup.Props.C13.configEqual_iff", "GoSup.Props.C13.configEqual_symm",
                 "GoSup.Props.C13.c13_reload"],
    "ties": [],
    "legs": [{"name": "equal", "cmd": "equal"}, {"name": "httpsrv", "cmd": "httpsrv"}],
    "rule": "pairs (active, new) of configurations: a seeded base configuration (1-4 routes, names incl. ones with spaces, "
            "mux-style paths) and 1-3 mutations drawn from {addr, each timeout, one name, one path, order, swap two names, add, drop} "
            "or an independent configuration, both argument orders; Config.Equal vs the model, and Spec.C13.holdsEqual on the "
            "result. Non-trivial = at least one mutation; distinct by the encoded pair.",
    "assumptions": [],
    "trusted_base": [],
    "level_text": "Theorems: Config.Equal model decides exactly 'same address, timeouts and route (name,path) set' on "
                  "configurations with pairwise distinct paths, for route lists of any length; reload model restarts iff not Equal.",
    "level_note": COMMON_NOTE,
    "design_ref": "DESIGN.md section 5, C13",
}

PROPS["C11"] = {
    "skeleton_fns": COMPOSITE,
    "lean_modules": ["GoSup.Props.C11"],
    "theorems": ["GoSup.Props.C11.member_spec_nodup", "GoSup.Props.C11.holdsMember_model",
                 "GoSup.Props.C11.member_spec_fails_with_duplicates", "GoSup.Props.C11.c11_reload"],
    "ties": [],
    "legs": [{"name": "member", "cmd": "member"}, {"name": "composite", "cmd": "composite"}],
    "rule": "hasMembershipChanged (through the verif export) on ALL pairs of identity lists up to length 2 (quick) / 3 (thorough) "
            "over a 4-name pool, plus seeded random lists (length 0-6, duplicates, permutations); vs the model and "
            "Spec.C11.holdsMember. Non-trivial = not both empty; distinct by the pair.",
    "assumptions": [],
    "trusted_base": [],
    "level_text": "Theorems about the membership decision for identity lists of any length; composite reload model.",
    "level_note": COMMON_NOTE,
    "design_ref": "DESIGN.md section 5, C11",
}

PROPS["C16"] = {
    "skeleton_fns": CLUSTER + PLANNER + ["httpserver_Config_Equal"],
    "lean_modules": ["GoSup.Props.C16"],
    "theorems": ["GoSup.Props.C16.commit_clean", "GoSup.Props.C16.processExisting_cases", "GoSup.Props.C16.plan_unchanged",
                 "GoSup.Props.C16.plan_changed_running", "GoSup.Props.C16.plan_removed_running", "GoSup.Props.C16.plan_no_leak",
                 "GoSup.Props.C16.plan_fails_with_clash",
                 "GoSup.Props.C16.c16_unchanged_kept", "GoSup.Props.C16.c16_removed_gone", "GoSup.Props.C16.c16_new_or_changed",
                 "GoSup.Props.C16.c16_committed", "GoSup.Props.C16.c16_accounting", "GoSup.Props.C16.c16_old_stopped_first",
                 "GoSup.Props.C16.c16_count", "GoSup.Props.C16.c16_every_sequence", "GoSup.Props.C16.c16_run_all_stopped",
                 "GoSup.Props.C16.c16_run_all_stopped_cut"],
    "ties": [],
    "legs": [{"name": "planner", "cmd": "planner"}, {"name": "cluster", "cmd": "cluster"}],
    "rule": "planner (newEntries/buildPendingEntries/getPendingActions/commit through the verif export) on seeded (current, desired) "
            "pairs over an id pool containing a, a:stop, a:stop:stop, b:stop, the empty id, prefixes and suffixes; nil configs; "
            "result compared with the model (for clashing ids: membership in the set of model results over all iteration orders) "
            "and Spec.C16.planOk. Non-trivial = the plan starts or stops something; distinct by (current, desired). Cluster leg: the real "
            "httpcluster.Runner with instrumented server runners (factory through the verif export, 150 ms readiness deadline) over "
            "sequences of 1-6 configuration maps on pools of 5-7 ids (one pool with a, a:stop, a:stop:stop, b:stop), configs "
            "equal/changed/nil, factory errors, never-ready servers and slow stops per id, ended by Stop, cancel or siphon close after "
            "any number of pushes; after every processed map: running instances, GetServerCount, cluster state; oracle "
            "Spec.Cluster.holds; every history is also replayed on the Lean update model (Cluster.applyUpdate over the planner).",
    "assumptions": [],
    "trusted_base": [],
    "level_text": "Theorems about the diff planner (buildPendingEntries as a sequence of map assignments) for maps of any size and "
                  "any iteration order under the NoClash precondition: unchanged entries are carried over untouched with their "
                  "instance, changed running entries get a stop entry under id:stop and a fresh start entry, removed running "
                  "entries get a stop entry, hence no running instance leaks; commit leaves no pending work; the clash witness. "
                  "Theorems about the update executor (plan, stop phase, start phase, commit; shutdown = the update to the empty map) "
                  "for every sequence of maps over ids that do not collide with the ':stop' keys, every iteration order and every "
                  "pattern of factory errors and never-ready servers (transient or permanent): unchanged entries keep their instance, "
                  "removed ids are gone, new/changed ids are served by a fresh instance with the desired configuration or dropped, "
                  "every instance not kept is stopped in the stop phase before any start, the runners of the committed entries "
                  "enumerate exactly the instances started and not yet stopped (GetServerCount), and when Run() returns the "
                  "entries are empty and no instance ever started is live - also when the last update is cut short by the end of "
                  "the context during restartDelay (c16_run_all_stopped_cut).",
    "level_note": COMMON_NOTE,
    "design_ref": "DESIGN.md section 5, C16",
}

PROPS["C17"] = {
    "skeleton_fns": [],
    "lean_modules": ["GoSup.Props.C17", "GoSup.Tie.C17"],
    "theorems": ["GoSup.Props.C17.discipline_sound"],
    "ties": ["GoSup.Tie.C17.tie_discipline"],
    "legs": [{"name": "race", "cmd": "race", "race": True, "timeout": 3000}],
    "rule": "static: the extractor lists every access (read, write, method call on a field) to every field of PIDZero, lifecycle.StartStop "
            "and the composite/httpserver/httpcluster Runner structs with the mutexes certainly held there (intraprocedural lock-set "
            "scan, callers' locks propagated through internal call sites to depth 4); the kernel evaluates the discipline on that "
            "table on every run. Dynamic: a harness built with the Go race detector runs seeded random programs of 3-4 goroutines "
            "calling the public API (state queries, String, GetStateMap/GetCurrentStates, SendSignal, subscriptions, Reload, "
            "configuration pushes, GetServerCount, GetChildStates) against a live supervisor, composite (membership-changing reloads), "
            "HTTP server on a loopback socket (also with the context cancelled before Run) and HTTP cluster, continuing while "
            "Shutdown/Stop is in progress; every report whose stacks contain library frames is a failing input (the report is the replay). "
            "Non-trivial = every program; distinct by (target, seed).",
    "assumptions": ["the race detector observes only the schedules that occurred; absence of a report is not a proof - the theorem is "
                    "about the lock machine, the table ties it to the code",
                    "fields of type sync.Map, atomic.*, channels, sync.Once and the FSM (own mutex) are synchronisation objects and are "
                    "treated as safe; fields never written after construction are safe",
                    "three fields are ordered by a protocol instead of one mutex (lean/GoSup/Expected/Guards.lean, each with its "
                    "justification); for those only the race-detector runs apply"],
    "trusted_base": ["lock-set scan of tools/extract (intraprocedural, defer-aware; aliasing through local copies of struct pointers is "
                     "not tracked)", "Go race detector"],
    "level_text": "Theorem: in the lock machine (any number of threads, RW locks, variables, any schedule) a table of accesses that "
                  "obeys the discipline (every write under the exclusive lock of the variable's guard, every read under at least the "
                  "shared lock) has no reachable state with two conflicting accesses in progress. Tie: the access table regenerated "
                  "from the source obeys the discipline (decide +kernel).",
    "level_note": COMMON_NOTE + "Partial: accesses to data reachable through the fields (maps, slices, configs behind pointers) are "
                  "attributed to the field that holds them; values handed out to callers (e.g. a returned map) are not followed.",
    "design_ref": "DESIGN.md section 5, C17",
}

PROPS["C18"] = {
    # every function that starts a goroutine, ends one, or owns what a started goroutine waits for
    "skeleton_fns": ["supervisor_PIDZero_ReloadAll", "supervisor_PIDZero_reloadOnSignal", "finitestate_Machine_getStateChanInternal",
                     "supervisor_PIDZero_SubscribeStateChanges", "supervisor_PIDZero_unsubscribeState", "supervisor_PIDZero_Run",
                     "supervisor_PIDZero_goTracked", "supervisor_PIDZero_Shutdown", "supervisor_PIDZero_reap",
                     "supervisor_PIDZero_startReloadManager", "supervisor_PIDZero_startStateMonitor", "supervisor_PIDZero_startShutdownManager",
                     "composite_Runner_boot", "composite_Runner_startRunnable", "composite_Runner_stopAllRunnables",
                     "httpserver_Runner_boot", "httpserver_Runner_stopServer", "httpserver_Runner_shutdown", "httpserver_Runner_Reload",
                     "httpserver_Runner_Run", "httpcluster_Runner_createAndStartServer", "httpcluster_Runner_stopServers",
                     "httpcluster_Runner_startServers", "httpcluster_Runner_shutdown"],
    "lean_modules": ["GoSup.Props.C18", "GoSup.Tie.C18"],
    "theorems": ["GoSup.Props.C18.c18_no_leak", "GoSup.Props.C18.c18_unsafe_point_leaks", "GoSup.Props.C18.tableSafe_sound",
                 "GoSup.Props.C18.c18_table_no_leak"],
    "ties": ["GoSup.Tie.C18.tie_goroutines"],
    "legs": [{"name": "leak", "cmd": "leak", "timeout": 3000}],
    "rule": "static: the extractor lists every go statement / WaitGroup.Go of the supervisor, finitestate and the three runner packages "
            "with the points where the goroutine can block (select alternatives, bare channel operations, calls; calls of functions "
            "of the same receiver are inlined to depth 4); the kernel checks on every run that every point has an alternative "
            "classified (lean/GoSup/Expected/GoroutineClasses.lean, each with its justification) as never blocking, enabled after "
            "termination, or a WaitGroup wait on lower-ranked sites. Dynamic: seeded scenarios against a live supervisor (1-4 mock "
            "runnables over 12 capability combinations, a state flapper, a real httpserver runner), composite, HTTP server (loopback), "
            "HTTP cluster (real servers) and the bare FSM: 1-4 rounds of SIGHUP / unknown signals / reload triggers / reloads with and "
            "without membership or configuration change / config pushes / requests / idle connections / state subscriptions that drain "
            "or are abandoned unread / subscribe-unsubscribe pairs, then SIGTERM, SIGINT, cancel, Shutdown, a shutdown trigger, Stop; "
            "after every round the library's goroutines (created by library frames, or WaitGroup.Go of a library function) are counted "
            "at quiescence; after termination and cancellation of every subscription context the remaining library goroutines, "
            "including connection goroutines of the http.Server the library created, are listed (waiting up to 6.5 s, i.e. past "
            "go-fsm's 5 s broadcast timeout, before anything is called a leak). Oracle Spec.C18.holds. One scenario at a time per "
            "process (goroutine dumps are process-wide), 12 processes. Non-trivial = every scenario; distinct by configuration and operations.",
    "assumptions": ["runnables honour the Runnable contract (Run returns after Stop / cancellation); goroutines of go-fsm and net/http are "
                    "observed by the oracle but not part of the static table",
                    "clean termination = Run returned nil; histories that end with an error are only checked for accumulation"],
    "trusted_base": ["blocking-point scan of tools/extract (syntactic; channel types are not resolved, a call through an interface or a "
                     "different receiver is listed by name and classified by hand)",
                     "the hand-written classification lean/GoSup/Expected/GoroutineClasses.lean",
                     "runtime.Stack goroutine dumps and the harness's attribution of goroutines to the library"],
    "level_text": "Theorem: in the goroutine machine (any number of sites, goroutines, spawns, any control flow between the blocking points of "
                  "a site, any schedule) a table in which every blocking point has a safe alternative has no reachable terminated quiescent "
                  "state with a live goroutine; the condition is necessary (a point with only partner alternatives leaks). Tie: the "
                  "regenerated goroutine table passes the check (decide +kernel).",
    "level_note": COMMON_NOTE + "Partial: the non-accumulation half of the property (repeated operations do not add goroutines while running) "
                  "is decided by the oracle on sampled histories only; the theorem covers the termination half.",
    "design_ref": "DESIGN.md section 5, C18",
}

PROPS["C06"] = {
    "skeleton_fns": SUP_STATE + ["supervisor_PIDZero_Shutdown", "supervisor_PIDZero_startRunnable", "supervisor_PIDZero_reloadAllRunnables"],
    "lean_modules": ["GoSup.Props.C06", "GoSup.Props.C06A", "GoSup.Props.C08S"],
    "theorems": ["GoSup.Props.C06A.c06_join_converges", "GoSup.Props.C06A.split_join_loses_update",
                 "GoSup.Props.C08S.c08_sub_last_is_current", "GoSup.Props.C06.c06_converges_partial", "GoSup.Props.C06.c06_snapshot", "GoSup.Props.C06.c06_snapshot_at_rest",
                 "GoSup.Props.C06.c06_snapshot_partial", "GoSup.Props.C06.c06_dedup",
                 "GoSup.Props.C06.c06_after_exit", "GoSup.Props.C06.c06_store_is_last_word", "GoSup.Props.C06.c06_reload_store_broadcasts",
                 "GoSup.Props.C06.c06_close_once",
                 "GoSup.Props.C06.c06_f1_pinned_late_subscription", "GoSup.Props.C06.c06_stale_store"],
    "ties": [],
    "legs": [{"name": "statemap", "cmd": "statemap", "panic_is_failure": True}],
    "rule": "scenarios: committed corpus, then seeded supervisors with 1-3 scripted Stateable runnables (state scripts of 2-8 emissions on a "
            "0-30 ms grid with bursts in one millisecond and repeated emissions of the same state; GetStateChan contract: current state "
            "first, then every emission in order; one in six registers the supervisor's subscription 2-9 ms late; one in three is "
            "Reloadable and passes through Reloading), 0-1 plain runnables, 0-3 subscribers (SubscribeStateChanges or AddStateSubscriber "
            "with its callback; arriving before Run or at 0-19 ms, one in three leaving after 1-20 ms, one in five slow), 0-2 SIGHUPs, "
            "ended by SIGTERM, context cancellation or Shutdown(); 12 scenarios in parallel. At rest (every script played, every delayed "
            "subscription registered, two equal consecutive samples; on disagreement re-sampled for up to 0.5 s so that a goroutine "
            "that merely has not been scheduled yet is not mistaken for a stuck cache) GetStateMap() is compared with GetState() of "
            "every runnable; after Run() returned GetStateMap() is compared with the states at the return of each Stop(); every "
            "subscriber reports its snapshot count, its last snapshot and how its channel was closed. Oracle Spec.C06.holds. "
            "A panic of the process (send on a closed channel, double close) is a failing input. Non-trivial = every scenario; "
            "distinct by the observation.",
    "assumptions": ["the runnables honour the GetStateChan contract (the mock's channel is buffered beyond any script, nothing is dropped)",
                    "entries of different runnables are independent (sync.Map, one monitor goroutine per runnable): the model is per entry"],
    "trusted_base": [],
    "level_text": "Invariant proof over the per-entry LTS (true state, subscription FIFO, monitor, any number of two-step writers, "
                  "broadcast snapshots) for every state history, subscription time and schedule: without a state change inside a "
                  "writer's read-store window the entry equals the true state at rest and the last snapshot carries it; duplicates "
                  "cause no snapshot; after the monitors exited only Shutdown's re-store writes. Separate invariant proof for the "
                  "subscription channel protocol: no send on closed, closed once, after unsubscription.",
    "level_note": COMMON_NOTE + "Partial: (a) and (c) are proved under the no-stale-store hypothesis (the theorem c06_stale_store shows it is "
                  "needed; the post-reload store of reloadAllRunnables can still write a state that a concurrent change has just made "
                  "stale - a microsecond window no run has hit); the lift from one entry to the whole map is by independence, not proved.",
    "design_ref": "DESIGN.md section 5, C06",
}

PROPS["C07"] = {
    "skeleton_fns": LIFECYCLE + ["composite_Runner_Run", "composite_Runner_Stop", "httpserver_Runner_Run", "httpserver_Runner_Stop",
                                 "httpcluster_Runner_Run", "httpcluster_Runner_Stop"],
    "lean_modules": ["GoSup.Props.C07", "GoSup.Tie.Lifecycle"],
    "theorems": ["GoSup.Props.C07.c07_safety", "GoSup.Props.C07.c07_signalled", "GoSup.Props.C07.c07_started_passable",
                 "GoSup.Props.C07.c07_immediate"],
    "ties": ["GoSup.Tie.Lifecycle.runners_use_lifecycle"],
    "legs": [{"name": "lifecycle", "cmd": "lifecycle"}, {"name": "runstop", "cmd": "runstop"}],
    "rule": "schedules: a yield-point controller (build tag verif) releases one goroutine at a time between the critical sections "
            "and blocking receives of lifecycle.StartStop.Stop with k=1..4 concurrent Stop callers and m=1..4 consecutive Run cycles; "
            "committed corpus of schedules first, then seeded random schedules; every trace is replayed on the Lean model (each "
            "observed step must be enabled; at the quiescent end the blocked threads must be exactly the model's disabled ones) and "
            "Spec.C07.holds is evaluated on it. Non-trivial = a Stop overlapped a Run cycle; distinct by the event trace. "
            "Lifted leg (runstop): a real composite (children built on lifecycle.StartStop), HTTP server (loopback) and HTTP cluster, "
            "12 fixed and 30 (thorough: 600) random orderings of Run(), 1-3 Stop() callers before / during / after it, Reload() or a "
            "configuration push before Run(), context cancelled before or after Run(); oracle Spec.C07.liftHolds (a Stop() returns "
            "only after the Run() returned; everything returns once a Run() was invoked).",
    "assumptions": ["Run cycles are consecutive (a second Run starts only after the previous one returned)",
                    "a goroutine that does not reach its next yield point within 0.6 ms of being released into a blocking receive "
                    "is treated as blocked; late arrivals are still recorded when they happen"],
    "trusted_base": [],
    "level_text": "Invariant proof over the LTS of StartStop for any number of Stop callers, any interleaving and any number of "
                  "cycles: a returned Stop targeted a finished Run; a Stop blocked on an unfinished Run has closed that Run's stop "
                  "channel; immediate return after the last Run. Lifted to the bundled runners by a regenerated table theorem.",
    "level_note": COMMON_NOTE + "Go mutex/channel semantics are modelled (one action per critical section).",
    "design_ref": "DESIGN.md section 5, C07",
}

SUP_RULE = ("scenarios: committed corpus (one per repaired or recorded finding and the classic shapes), then seeded random supervisor "
            "scenarios: 1-5 instrumented mock runnables with every capability mix (Stateable/Reloadable/ReloadSender/ShutdownSender), "
            "free or lifecycle-style Stop, Run that waits for Stop/cancel, exits by itself (nil / cancellation-wrapped / real error) or "
            "never returns, readiness after 0..4 polls or never; 0-4 external stimuli (INT, TERM, HUP, USR1, parent cancel, Shutdown() "
            "callers, ShutdownSender/ReloadSender triggers, ReloadAll) on a 0-50 ms grid, often within 0-1 ms of each other, during "
            "startup, steady state and shutdown; real time with 1-3 ms startup delay, 40-100 ms startup timeout. The recorded event "
            "trace must be a trace of the Lean supervisor model (acceptor over sets of model states) and satisfy the Lean statement of "
            "the property. Non-trivial = at least 2 runnables or 2 stimuli and a shutdown happened; distinct by the event trace.")
SUP_ASSUME = ["Go scheduler, channels, sync.Once, WaitGroup and context semantics are modelled (DESIGN.md section 4.0), not verified",
              "events are recorded inside the mock calls by one mutex-protected recorder: the order is consistent with happens-before"]
for _pid, _thms, _text in [
    ("C01", ["GoSup.Props.C01.c01_order", "GoSup.Props.C01.c01_all_stopped_when_run_returns",
             "GoSup.Props.C01.c01_cancel_only_after_all_stops"],
     "Invariant proofs over the supervisor LTS for any number of runnables, callers and any schedule: the Stop events are always a "
     "prefix of the reverse-order, one-at-a-time sequence; complete when Run()/Shutdown() return; no assumption on runnables."),
    ("C02", ["GoSup.Props.C02.c02_no_panic", "GoSup.Props.C02.c02_body_never_stuck", "GoSup.Props.C02.c02_body_can_finish"],
     "Invariant proof that the panic transitions (send on the closed error channel, addition to the WaitGroup during Shutdown's wait) "
     "are unreachable for any runnable behaviour; progress theorems for the body of Shutdown() in every state: its next action is "
     "always enabled except inside a Stop() call (the property's hypothesis), the timer bounds the wait, and for any number of "
     "runnables the body can be run to its end. That Run()/Shutdown() return promptly in real time is checked on traces."),
    ("C03", ["GoSup.Props.C03.c03_gated", "GoSup.Props.C03.c03_no_launch_after_abort", "GoSup.Props.C03.c03_invoke_once",
             "GoSup.Props.C03.c03_gate_exit"],
     "Invariant proof over the supervisor LTS for any number of runnables and any schedule: when a runnable's Run has been invoked, "
     "every Stateable registered before it has answered a readiness poll with true, or the context is cancelled (c03_gated); step "
     "theorems for every state and action: a gate is left towards the rest of the loop only by a true poll or with the context "
     "cancelled; after an abort nothing is launched; Run is invoked from a state left for good."),
    ("C04", ["GoSup.Props.C04.c04_result_is_a_returned_error", "GoSup.Props.C04.c04_nil_without_failure",
             "GoSup.Props.C04.c04_hup_and_unknown_signals_keep_reaping"],
     "Invariant proof over the supervisor LTS: every error value in flight or returned by Run() was returned by some runnable's "
     "Run; without a real failure the result is nil (or the startup timeout); error classification model validated against errors.Is."),
]:
    PROPS[_pid] = {
        "skeleton_fns": SUP_CORE + (SUP_RELOAD + LIFECYCLE if _pid == "C02" else []),
        "lean_modules": ["GoSup.Props." + _pid],
        "theorems": _thms,
        "ties": [],
        "legs": ([{"name": "sup", "cmd": "sup", "panic_is_failure": _pid == "C02"}]
                 + ([{"name": "errclass", "cmd": "errclass"}] if _pid == "C04" else [])
                 + ([{"name": "wgstress", "cmd": "wgstress", "panic_is_failure": True, "timeout": 3000}] if _pid == "C02" else [])),
        "rule": SUP_RULE + (" Stress leg (C02 only): 3 processes with GOMAXPROCS=4 and 6 spinning goroutines each run 2500 (thorough: 40000) "
                            "supervisors of 12 immediately-ready runnables with 20 us start-up delay and call Shutdown() 50-350 us "
                            "after Run() began; a panic or fatal error with library frames in any process of a leg of this property "
                            "is a failing input (the report is the replay)." if _pid == "C02" else ""),
        "assumptions": SUP_ASSUME,
        "trusted_base": [],
        "level_text": _text,
        "level_note": COMMON_NOTE + "Runnables are arbitrary environment processes unless a theorem states an assumption.",
        "design_ref": "DESIGN.md section 5, " + _pid,
    }

PROPS["C05"] = {
    "skeleton_fns": SUP_RELOAD + ["supervisor_PIDZero_reap", "supervisor_PIDZero_Run"],
    "lean_modules": ["GoSup.Props.C05"],
    "theorems": ["GoSup.Props.C05.c05_passes", "GoSup.Props.C05.c05_one_pass_per_request", "GoSup.Props.C05.c05_trigger_taken"],
    "ties": [],
    "legs": [{"name": "sup", "cmd": "sup"}],
    "rule": SUP_RULE + " For C05 the trace is projected on the reload events (ReloadAll call/return, SIGHUP, ReloadSender trigger "
            "intent/delivery, Reload begin/return per runnable); 'quiet' scenarios fire bursts of 0-4 reload requests from the three "
            "sources and are snapshotted at rest while the supervisor is running.",
    "assumptions": SUP_ASSUME,
    "trusted_base": [],
    "level_text": "Invariant proofs over the reload LTS (unbuffered hand-off as rendezvous) for any number of requesters and runnables: "
                  "the Reload events are complete in-order passes followed by a prefix of one; passes started = requests handed over "
                  "<= requests issued; a reload action touches no shutdown state.",
    "level_note": COMMON_NOTE,
    "design_ref": "DESIGN.md section 5, C05",
}

COMP_RULE = ("histories on the real composite.Runner with instrumented children from a pool of 2-5 (free or lifecycle-style Stop; "
             "ReloadWithConfig / Reload / neither): an initial configuration and 1-5 operations - Reload with the next callback result "
             "(any subset/permutation of the pool with new per-entry values, same membership permuted, empty set, callback error, nil), "
             "Stop, context cancel, a running child exiting (real error, joined error, cancellation error, nil) - issued sequentially "
             "(with a snapshot of state and running children after each) or concurrently on a 0-40 ms grid; in a fifth of the cases a "
             "Stop/cancel is placed at the verif yield point between setConfig and boot of a restart reload. Oracles: Lean statements "
             "Spec.Comp.holdsC09/C10/C11 on the event trace; sequential histories are also replayed on the operation-level model "
             "CompSeq and every observed state/snapshot/return must agree; every trace (sequential or not, hung or not) is replayed "
             "on the concurrent model CompLts by the trace acceptor (compaccept: set of compatible model states, closure under the "
             "internal actions of the Run and Reload threads) and must be accepted. Non-trivial = at least one reload or child exit; distinct by "
             "(scenario, trace).")
for _pid, _thms, _text in [
    ("C09", ["GoSup.Props.C09.c09_conserve", "GoSup.Props.C09.sortNat_perm", "GoSup.Props.C09.unchanged_perm"],
     "Invariant proof over the operation-level model for histories of any length and pools of any size: Running and not returned "
     "=> running children = configured children; returned => none running. Overlapping operations (incl. the recorded deadlock) are "
     "covered by the yield-point harness and the trace oracle, not by a theorem."),
    ("C10", ["GoSup.Props.C10.c10_failure_propagates", "GoSup.Props.C10.c10_benign_exit", "GoSup.Props.C10.isCancel_join"],
     "Step theorems over the operation-level model (from ANY state, so after any reload history incl. membership growth): a real "
     "child error gives ErrRunnableFailed, Error, no child running; nil/cancellation exits change neither state nor result. "
     "Error classification model validated against errors.Is."),
]:
    PROPS[_pid] = {
        "skeleton_fns": COMPOSITE,
        "lean_modules": ["GoSup.Props." + _pid],
        "theorems": _thms,
        "ties": [],
        "legs": [{"name": "composite", "cmd": "composite"}] + ([{"name": "errclass", "cmd": "errclass"}] if _pid == "C10" else []),
        "rule": COMP_RULE,
        "assumptions": ["children are mock runnables honouring the Runnable contract in the stated style",
                        "the operation-level model CompSeq treats each public operation as atomic"],
        "trusted_base": [],
        "level_text": _text,
        "level_note": COMMON_NOTE,
        "design_ref": "DESIGN.md section 5, " + _pid,
    }
PROPS["C11"]["rule"] += " " + COMP_RULE
# the concurrent composite model (CompLts): every interleaving of Run, Reload(), Stop(), cancellation and child events
PROPS["C09"]["lean_modules"].append("GoSup.Props.C09L")
PROPS["C09"]["theorems"] += ["GoSup.Props.C09L.c09_none_survive", "GoSup.Props.C09L.c09_one_live_generation",
                             "GoSup.Props.C09L.c09_no_nil_context", "GoSup.Props.C09L.stuck_step",
                             "GoSup.Props.C09L.c09_f1_stuck_forever", "GoSup.Props.C09L.c09_f1_reachable",
                             "GoSup.Props.C09L.c09_running_is_configured", "GoSup.Props.C09L.c09_stop_never_stuck_nonblocking",
                             "GoSup.Props.C09L.c09_lib_steps_bounded", "GoSup.Props.C09L.c09_stop_returns_nonblocking"]
PROPS["C10"]["lean_modules"].append("GoSup.Props.C09L")
PROPS["C10"]["theorems"] += ["GoSup.Props.C09L.c10_failed_is_real", "GoSup.Props.C09L.c10_failure_taken"]
PROPS["C10"]["level_text"] += (" Concurrent model CompLts, every interleaving: Run() returns ErrRunnableFailed naming a child only if "
                               "a Run of that child returned a non-cancellation error (c10_failed_is_real); a pending child error "
                               "enables the failure arm of Run's select (c10_failure_taken).")
PROPS["C09"]["level_text"] = (
    "Concurrent model CompLts (one action per critical section of Run/boot/stopAllRunnables/Reload/reloadWithRestart, children "
    "as arbitrary processes, any number of reloads and generations): invariant proofs over every reachable state, i.e. every "
    "interleaving - while Run waits in its select and no reload is under way the children launched in the one live generation are "
    "the configured ones by the code's membership criterion and every other generation is cancelled; once Run() has returned the context of every generation of children ever booted is done, also of one booted "
    "afterwards by an overtaken reload; at most one generation is alive at any time; boot never gets a nil context; the recorded "
    "deadlock C09-F1 is a reachable configuration of the model that no action leaves (Run() and Reload() never return), while with "
    "children whose Stop() never waits no reachable state with a waiting Stop() is stuck and the library's own steps reach the "
    "return of Run() within a computed bound, without another answer of the configuration callback "
    "(c09_stop_never_stuck_nonblocking, c09_stop_returns_nonblocking, c09_lib_steps_bounded). "
    "Operation-level model CompSeq: Running and not returned => running children = configured children, for histories of any "
    "length. That Stop()/Reload() return in the remaining interleavings is checked on traces.")
PROPS["C09"]["assumptions"] = ["children are mock runnables honouring the Runnable contract in the stated style",
                               "CompLts is validated against the code by the skeleton ties of the composite package and by the "
                               "trace acceptor over every history of the composite leg (accepted = a behaviour of the model); its "
                               "atomic steps are the critical sections of runner.go/reload.go"]
for _p in ("C09", "C10", "C11"):
    PROPS[_p]["lean_modules"].append("GoSup.Tie.Lts")
    PROPS[_p]["ties"] = list(PROPS[_p].get("ties", [])) + ["GoSup.Tie.Lts.tie_comp_table"]
PROPS["C11"]["lean_modules"].append("GoSup.Props.C09L")
PROPS["C11"]["theorems"] += ["GoSup.Props.C09L.c11_restart_stops_first", "GoSup.Props.C09L.c09_one_live_generation",
                             "GoSup.Props.C09L.c11_callback_failure_untouched", "GoSup.Props.C09L.c11_callback_failure_untouched_later", "GoSup.Props.C09L.c11_in_place",
                             "GoSup.Props.C09L.c11_restart_order"]
PROPS["C11"]["level_text"] += (" Concurrent model CompLts: in every interleaving a restart reload boots the new children only after "
                               "the previous generation has been stopped and its context cancelled (c11_restart_stops_first, "
                               "c09_one_live_generation).")
PROPS["C18"]["lean_modules"] += ["GoSup.Props.C09L", "GoSup.Props.C12L", "GoSup.Props.C16"]
PROPS["C18"]["theorems"] += ["GoSup.Props.C09L.c09_none_survive", "GoSup.Props.C09L.c09_one_live_generation",
                             "GoSup.Props.C12L.c12_one_open_instance", "GoSup.Props.C12L.c12_released",
                             "GoSup.Props.C16.c16_every_sequence", "GoSup.Props.C16.c16_run_all_stopped"]
PROPS["C18"]["level_text"] += (" Composite: in every interleaving of the concurrent model CompLts, once Run() has returned the context of "
                               "every generation of child goroutines ever started is done (c09_none_survive); while it runs, however many reloads have "
                               "restarted the children, at most one generation has a context that is not cancelled (c09_one_live_generation): "
                               "generations of child goroutines do not accumulate. HTTP server: in every interleaving of HttpLts at most one server "
                               "instance (with its serving goroutine) is open, whatever the number of reloads, and none once Run() has returned "
                               "through its shutdown path (c12_one_open_instance, c12_released). HTTP cluster: after any sequence of maps the live server "
                               "instances are exactly the runners of the committed entries (the Acc invariant, c16_every_sequence) and none is live "
                               "when Run() returns (c16_run_all_stopped), under the no-clash hypothesis of C16.")

HTTP_RULE = ("histories on the real httpserver.Runner over loopback TCP (ephemeral ports): an initial configuration (1-3 routes whose "
             "handlers answer with their own name) and 1-4 operations - Reload with an unchanged / permuted / changed configuration "
             "(address, drain timeout, read timeout, routes, two names swapped), callback error, nil, an address held by a foreign "
             "listener; Stop; context cancel; 1-3 in-flight requests lasting 0.2x/0.5x/1.8x/3x the drain timeout followed by Stop, "
             "cancel or a changed-config reload; a Stop/cancel racing an address-changing reload at 0-110 ms. Observed: server "
             "creations through the public ServerCreator hook, a probe (dial + every route) whenever Running is reported, re-binding "
             "of every address after Run returned, request outcomes and durations, the state stream of a subscriber. Oracles: "
             "Spec.Http.holdsC12/C13/C14/C08; sequential histories are replayed on the operation-level model HttpSeq; every history "
             "without a foreign listener is replayed on the concurrent model HttpLts by the trace acceptor (httpaccept). "
             "Non-trivial = at least one reload or in-flight request; distinct by the event trace.")
PROPS["C13"]["rule"] += " " + HTTP_RULE
for _pid, _thms, _text in [
    ("C12", ["GoSup.Props.C12.c12_running", "GoSup.Props.C12.c12_released"],
     "Invariant proof over the operation-level model for histories of any length: Running => own instance bound and serving the "
     "held configuration; returned => nothing bound. TCP reachability and immediate re-binding are kernel facts: measured on every "
     "run by the harness (partial by nature, DESIGN.md section 6)."),
    ("C14", ["GoSup.Props.C14.c14_stop", "GoSup.Props.C14.c14_stop_no_instance"],
     "Decision-logic theorems for stopServer/shutdown from every state (in-time drain => nil/Stopped, timed-out drain => "
     "ErrGracefulShutdownTimeout/Error, nothing left listening). The wall-clock bounds and full responses are measured by the "
     "harness with in-flight requests around the drain timeout (partial by nature)."),
]:
    PROPS[_pid] = {
        "skeleton_fns": HTTPSERVER,
        "lean_modules": ["GoSup.Props." + _pid],
        "theorems": _thms,
        "ties": [],
        "legs": [{"name": "httpsrv", "cmd": "httpsrv"}],
        "rule": HTTP_RULE,
        "assumptions": ["net/http.Server.ListenAndServe/Shutdown contract and the kernel's TCP stack are modelled by an abstract port table",
                        "timing assertions use a +/-40% band around the drain timeout and 150-400 ms scheduling slack"],
        "trusted_base": [],
        "level_text": _text,
        "level_note": COMMON_NOTE + "Partial by nature: wall-clock and kernel behaviour enter as assumptions and are sampled.",
        "design_ref": "DESIGN.md section 5, " + _pid,
    }

# the concurrent HTTP server model (HttpLts): every interleaving of Run, Reload(), Stop(), cancellation and server events
PROPS["C12"]["lean_modules"].append("GoSup.Props.C12L")
PROPS["C13"]["theorems"] += ["GoSup.Props.C12L.c13_stop_never_stuck", "GoSup.Props.C12L.c14_stop_returns"]
PROPS["C14"]["lean_modules"].append("GoSup.Props.C12L")
PROPS["C14"]["theorems"] += ["GoSup.Props.C12L.c13_stop_never_stuck", "GoSup.Props.C12L.c14_lib_steps_bounded",
                             "GoSup.Props.C12L.c14_stop_returns"]
PROPS["C14"]["level_text"] += (" Concurrent model HttpLts, every interleaving: from every reachable state with a waiting Stop() the "
                               "library's own steps reach the return of Run() within `measure s` steps (what is left of Run, of the "
                               "reload under way and of the reloads waiting), and no execution of library steps is longer "
                               "(c14_stop_returns, c14_lib_steps_bounded: no deadlock, no livelock).")
PROPS["C12"]["theorems"] += ["GoSup.Props.C12L.c12_one_open_instance", "GoSup.Props.C12L.c12_released",
                             "GoSup.Props.C12L.c12_running_serving", "GoSup.Props.C12L.c12_f1_reachable"]
PROPS["C12"]["level_text"] = (
    "Concurrent model HttpLts (one action per critical section of Run/boot/stopServer/shutdown/Reload, r.mutex as an owner field, "
    "the serverCloseOnce guard, server instances created/listening/failed/closed, any number of reloads): invariant proofs over "
    "every reachable state, i.e. every interleaving - at most one instance is open and it is the current one with the shutdown "
    "guard unused; once Run() has returned (other than through the server-error arm) no instance is open unless an overtaken "
    "Reload() is inside its readiness probe; while Run waits in its select, no restart is under way and the state is not Error the "
    "current instance is listening; finding C12-F1 is a reachable state of the model. Model assumptions: the probe succeeds only "
    "while the context is live and the awaited instance listens; an instance fails only when it binds. " + PROPS["C12"]["level_text"])
for _p in ("C12", "C13"):
    PROPS[_p]["lean_modules"].append("GoSup.Tie.Lts")
    PROPS[_p]["ties"] = list(PROPS[_p].get("ties", [])) + ["GoSup.Tie.Lts.tie_http_table"]
PROPS["C12"]["assumptions"].append("HttpLts is validated against the code by the skeleton ties of the httpserver package and by the "
                                   "trace acceptor over every history of the httpsrv leg without a foreign listener")
PROPS["C13"]["level_text"] = PROPS["C13"].get("level_text", "") + (
    " Concurrent model HttpLts: in no reachable state with a waiting Stop() is the library stuck - Run can move on or the reload "
    "holding r.mutex can (c13_stop_never_stuck); an equivalent configuration ends the reload without touching instance, guard or instance table "
    "(c13_same_untouched); a changed one shuts the current instance down and boots one that did not exist before (c13_changed_fresh).")

PROPS["C08"] = {
    "skeleton_fns": STATEFNS + ["finitestate_Machine_getStateChanInternal", "finitestate_Machine_GetStateChan", "finitestate_newMachine",
                                "finitestate_NewTypicalFSM", "composite_Runner_setStateError", "httpserver_Runner_setStateError",
                                "httpcluster_Runner_setStateError", "composite_Runner_Run", "composite_Runner_Reload",
                                "httpserver_Runner_Run", "httpserver_Runner_Reload", "httpserver_Runner_shutdown",
                                "httpcluster_Runner_Run", "httpcluster_Runner_shutdown", "httpcluster_Runner_processConfigUpdate"],
    "lean_modules": ["GoSup.Props.C08", "GoSup.Props.C08L", "GoSup.Tie.Lts", "GoSup.Props.C08S", "GoSup.Props.C08C"],
    "theorems": ["GoSup.Props.C08.c08_walk", "GoSup.Props.C08.edge_apply", "GoSup.Props.C08L.c08_result_comp",
                 "GoSup.Props.C08L.c08_result_http", "GoSup.Props.C08S.c08_sub_stream", "GoSup.Props.C08S.c08_sub_in_order",
                 "GoSup.Props.C08S.c08_sub_last_is_current", "GoSup.Props.C08S.c08_f1_witness",
                 "GoSup.Props.C08S.read_first_loses_update", "GoSup.Props.C08C.c08_cluster_walk", "GoSup.Props.C08C.c08_cluster_refuses",
                 "GoSup.Props.C08C.c08_result_cluster", "GoSup.Props.C08C.c08_cluster_edges"],
    "ties": ["GoSup.Props.C08.tie_setState_sites", "GoSup.Props.C08.tie_error_reachable", "GoSup.Props.C08.tie_table_documented",
             "GoSup.Props.C08.tie_isRunning", "GoSup.Tie.Lts.tie_comp_table", "GoSup.Tie.Lts.tie_http_table"],
    "legs": [{"name": "httpsrv", "cmd": "httpsrv"}, {"name": "composite", "cmd": "composite"}, {"name": "cluster", "cmd": "cluster"}],
    "rule": "state streams of the real composite, HTTP server and HTTP cluster runners over the histories of the composite, httpsrv and "
            "cluster legs "
            "(Run/Stop/Reload/cancel, child failures, boot failures, callback errors), observed by a subscriber present from the start "
            "and by one joining 0-60 ms later; Spec.C08.holdsStream on (streams, Run result, state at return, channel closure). "
            + COMP_RULE + " " + HTTP_RULE,
    "assumptions": ["go-fsm v2.3.0: Transition follows only table edges, SetState bypasses them, broadcasts are serial and in order; its "
                    "transition table is extracted from the pinned module on every run, not assumed"],
    "trusted_base": [],
    "level_text": "Theorem: for ANY sequence of FSM calls in which SetState is only used with Error, over ANY transition table, the "
                  "successive states are a walk in the lifecycle graph with only Error entered out of turn; regenerated table theorems "
                  "(decide +kernel) show the runners' SetState call sites, IsRunning bodies and the extracted transitions.Typical satisfy "
                  "the hypotheses. Result clause, for every interleaving of the concurrent models CompLts (composite) and HttpLts (HTTP "
                  "server): the step that makes Run() return leaves the state machine in Stopped exactly when the result is nil and "
                  "in Error for every other result (c08_result_comp, c08_result_http). Subscriber clause, for every interleaving of state "
                  "changes with the two steps of getStateChanInternal (model FsmSub): a subscriber that keeps up has received the "
                  "state that was read, then every change since its registration, in order; exactly the documented stream when no "
                  "change falls between registration and read; its last value is always the current state; finding C08-F1 and the "
                  "lost update of the read-first variant are witnesses. Cluster (every state change is made by the Run goroutine: "
                  "sequential model ClusterRun): for any number of configuration maps a fresh cluster walks Booting, Running, "
                  "(Reloading, Running)^n, Stopping, Stopped and returns nil; from any other state Run() refuses, leaves Error and "
                  "returns an error; nil iff Stopped for every start state; every state entered along a table edge or Error "
                  "(c08_cluster_walk, c08_cluster_refuses, c08_result_cluster, c08_cluster_edges), compared with the real cluster on "
                  "every history of the cluster leg (state after every map, result and state at return, a second Run()). Channel "
                  "closure is checked on traces of the real runners.",
    "level_note": COMMON_NOTE,
    "design_ref": "DESIGN.md section 5, C08",
}

PROPS["C19"] = {
    "skeleton_fns": ["httpserver_NewConfig", "httpserver_newRoute", "httpserver_NewRouteFromHandlerFunc", "httpserver_Config_getMux",
                     "httpserver_Config_createServer", "httpserver_Runner_boot", "httpserver_Runner_reloadConfig", "httpserver_NewRunner",
                     "composite_NewConfig", "composite_NewRunner", "composite_Runner_boot", "mw_wildcard_New", "mw_headers_New",
                     "mw_headers_NewWithOperations", "mw_headers_WithSet", "mw_headers_WithAdd", "mw_headers_WithSetRequest",
                     "mw_headers_WithAddRequest", "supervisor_New", "supervisor_WithStartupInitial", "supervisor_WithStartupTimeout",
                     "supervisor_WithShutdownTimeout", "supervisor_PIDZero_blockUntilRunnableReady"],
    "lean_modules": ["GoSup.Props.C19"],
    "theorems": ["GoSup.Props.C19.c19_accepted_never_panics", "GoSup.Props.C19.c19_boot_never_panics",
                 "GoSup.Props.C19.original_code_could_panic"],
    "ties": [],
    "legs": [{"name": "crash", "cmd": "crash"}],
    "rule": "inputs from a grammar of valid, boundary and malformed values, each exercised under recover(): route sets (1-3 routes over 28 "
            "patterns: duplicates, conflicting wildcards, method-qualified, {x...}, {$}, unbalanced braces, no leading slash, empty, "
            "unicode, 10 kB) delivered at construction AND at reload time (through NewConfig in the callback, and as a raw struct copy "
            "that bypasses it), then Run / request / Reload / Stop; supervisor duration options (negative, zero, 1 ns, huge) with a "
            "Stateable runnable; header maps with nil / empty value lists and invalid names through request handling; wildcard "
            "prefixes x request paths; composite configurations with nil / empty entry lists at construction and reload; listen "
            "addresses x timeouts. muxPanics is learned from the real ServeMux per route sequence and handed to the model. Oracle: "
            "Spec.C19.holds (no panic, no hang, acceptance as the model predicts). Non-trivial = anything but accept-and-run-normally; "
            "distinct by input.",
    "assumptions": ["ServeMux.Handle panics as a deterministic function of the registered pattern sequence (uninterpreted in the model)",
                    "panics inside constructors themselves (e.g. httpcluster.WithSiphonBuffer(-1)) are outside the property: nothing was accepted"],
    "trusted_base": [],
    "level_text": "Theorems for ANY mux behaviour: a route set accepted by the (repaired) constructors never panics the mux at boot, and a "
                  "configuration that bypassed the constructor is turned into ErrCreateConfig by boot's re-validation; the constructor "
                  "logic is tied to the code by exercising generated inputs at construction and reload time.",
    "level_note": COMMON_NOTE,
    "design_ref": "DESIGN.md section 5, C19",
}
