"""Per-property configuration of ./check: Lean obligations, tie theorems, correspondence legs."""

PROPS = {}
HOOK_COMMITS = ["1bd059d", "b048242", "43b5979"]          # /repo commits that add `verif`-tagged hooks
NOT_APPLICABLE = {}        # property id -> reason (only for properties without a check)

COMMON_NOTE = ("Trusted: Lean 4.33.0 kernel (axioms propext, Classical.choice, Quot.sound only, audited on every run); the hand-written "
               "model and the Lean statement of the property; the Go fact extractor and correspondence harness. The theorems are about "
               "the model; agreement of model and code is checked by regenerated tables and by sampled differential runs, not proved. ")

PROPS["C20"] = {
    "lean_modules": ["GoSup.Props.C20"],
    "theorems": [
        "GoSup.Props.C20.vp_empty",
        
    ],
    "ties": [],
    "legs": [{"name": "port", "cmd": "port"}],
    "rule": "inputs: committed boundary corpus, ALL strings over a 16-symbol alphabet (digits, signs, colon, brackets, dot, letter, "
            "%, space, NUL, a 2-byte UTF-8 char) up to length 3 (quick) / 4 (thorough), seeded structured host:port forms with "
            "0-2 mutations, byte-random strings; per input 4 lines: ValidatePort, net.SplitHostPort, strconv.Atoi vs the model, "
            "and the Lean statement Spec.C20.holds on the implementation's outputs. Non-trivial = accepted, or rejected while "
            "containing one of : [ ] + - or longer than 5 bytes; distinct by input string.",
    "assumptions": [
        "net.SplitHostPort, strconv.Atoi are modelled (Model/Port.lean) and validated differentially on every run, not verified",
    ],
    "trusted_base": [],
    "level_text": "Theorems about a byte-exact model of ValidatePort for ALL byte strings of any length (accept/reject classes, "
                  "idempotent normal form, split-back); the model is tied to the code by exhaustive-to-bounded-length plus seeded "
                  "differential execution of ValidatePort, net.SplitHostPort and strconv.Atoi against the model.",
    "level_note": COMMON_NOTE + "net.SplitHostPort/strconv.Atoi/net.JoinHostPort are modelled, validated differentially.",
    "design_ref": "DESIGN.md section 5, C20",
}

PROPS["C15"] = {
    "lean_modules": ["GoSup.Props.C15"],
    "theorems": [],
    "ties": [],
    "legs": [{"name": "middleware", "cmd": "middleware"}],
    "rule": "programs: committed corpus, ALL chains of <=2 (quick) / <=3 (thorough) handlers with <=2 actions over the core alphabet "
            "{Next, Abort, WriteHeader, Write, panic, mark} plus empty and recovery handlers, and seeded random chains of 1-6 handlers "
            "(0-6 actions each, built-in recovery/logger/metrics/state/wildcard/headers middlewares, status codes incl. 1xx/204/304/"
            "invalid, a connection that fails after k bytes); each served by the real Route.ServeHTTP over a logging underlying writer; "
            "3 lines per program: implementation vs execImpl, vs execSpec, and Spec.C15.holds on the observed outcome. Non-trivial = "
            "an Abort, a recovered or escaped panic, a header actually sent, or a short write occurred; distinct by (path, program).",
    "assumptions": [
        "underlying writer contract = httptest.ResponseRecorder behind a call-logging wrapper (observation point of the property); "
        "a real net/http connection differs for 1xx informational codes (see DESIGN.md C15)",
    ],
    "trusted_base": [],
    "level_text": "Refinement theorem: the index-based implementation model of RequestProcessor.Next/Abort equals a reference "
                  "interpreter over the list of not-yet-started handlers, for all chains of all lengths; writer-consistency "
                  "invariant for all action sequences; tied to the code by differential execution of generated programs.",
    "level_note": COMMON_NOTE + "http.ResponseWriter contract modelled after httptest.ResponseRecorder.",
    "design_ref": "DESIGN.md section 5, C15",
}

PROPS["C13"] = {
    "lean_modules": ["GoSup.Props.C13"],
    "theorems": [],
    "ties": [],
    "legs": [{"name": "equal", "cmd": "equal"}],
    "rule": "pairs (active, new) of configurations: a seeded base configuration (1-4 routes, names incl. ones with spaces, "
            "mux-style paths) and 1-3 mutations drawn from {addr, each timeout, one name, one path, order, swap two names, add, drop} "
            "or an independent configuration, both argument orders; Config.Equal vs the model, and Spec.C13.holdsEqual on the "
            "result. Non-trivial = at least one mutation; distinct by the encoded pair.",
    "assumptions": [],
    "trusted_base": [],
    "level_text": "Theorems: Config.Equal model decides exactly 'same address, timeouts and route (name,path) set' on "
                  "configurations with pairwise distinct paths, for route lists of any length; reload model restarts iff not Equal.",
    "level_note": COMMON_NOTE,
    "design_ref": "DESIGN.md section 5, C13",
}

PROPS["C11"] = {
    "lean_modules": ["GoSup.Props.C11"],
    "theorems": [],
    "ties": [],
    "legs": [{"name": "member", "cmd": "member"}],
    "rule": "hasMembershipChanged (through the verif export) on ALL pairs of identity lists up to length 2 (quick) / 3 (thorough) "
            "over a 4-name pool, plus seeded random lists (length 0-6, duplicates, permutations); vs the model and "
            "Spec.C11.holdsMember. Non-trivial = not both empty; distinct by the pair.",
    "assumptions": [],
    "trusted_base": [],
    "level_text": "Theorems about the membership decision for identity lists of any length; composite reload model.",
    "level_note": COMMON_NOTE,
    "design_ref": "DESIGN.md section 5, C11",
}

PROPS["C16"] = {
    "lean_modules": ["GoSup.Props.C16"],
    "theorems": [],
    "ties": [],
    "legs": [{"name": "planner", "cmd": "planner"}],
    "rule": "planner (newEntries/buildPendingEntries/getPendingActions/commit through the verif export) on seeded (current, desired) "
            "pairs over an id pool containing a, a:stop, a:stop:stop, b:stop, the empty id, prefixes and suffixes; nil configs; "
            "result compared with the model (for clashing ids: membership in the set of model results over all iteration orders) "
            "and Spec.C16.planOk. Non-trivial = the plan starts or stops something; distinct by (current, desired).",
    "assumptions": [],
    "trusted_base": [],
    "level_text": "Theorems about the diff planner over finite maps of any size under the NoClash precondition; cluster model.",
    "level_note": COMMON_NOTE,
    "design_ref": "DESIGN.md section 5, C16",
}
