#!/usr/bin/env python3
"""Regenerates MANIFEST.json from vlib/props.py (run after every change of the configuration)."""
import json, os, sys
ROOT = os.path.dirname(os.path.dirname(os.path.abspath(__file__)))
sys.path.insert(0, os.path.join(ROOT, "vlib"))
from props import PROPS, HOOK_COMMITS, NOT_APPLICABLE

ALL = [json.loads(l)["id"] for l in open(os.path.join(ROOT, "properties.jsonl"))]
checks = []
for pid in ALL:
    if pid not in PROPS or not PROPS[pid]["theorems"]:
        continue
    c = PROPS[pid]
    checks.append({
        "property_id": pid,
        "quick_cmd": f"./check {pid} --tier quick",
        "thorough_cmd": f"./check {pid} --tier thorough",
        "evidence_file": f"evidence/{pid}.json",
        "replay_cmd_template": "./check replay {path}",
        "engine": "lean-proofs+correspondence",
        "level_claimed": {"category": "proof", "text": c["level_text"], "design_ref": c.get("design_ref", "DESIGN.md section 5")},
        "level_note": c["level_note"],
        "technique": c.get("technique", "Lean 4 theorems over an executable model; model tied to /repo by regenerated fact tables (tie theorems) and a differential correspondence check"),
    })
na = [{"property_id": p, "reason": NOT_APPLICABLE.get(p, "check not built yet in this session (see DESIGN.md section 8 for the order of construction); no claim is made")}
      for p in ALL if p not in PROPS or not PROPS[p]["theorems"]]
m = {
    "version": 1,
    "setup_cmd": "./check setup",
    "hooks": {
        "guard": "verif",
        "enable": "go build -tags verif (the harness module /verif/harness replaces github.com/robbyt/go-supervisor by /repo)",
        "baseline_off_cmd": "cd /repo && GOFLAGS=-mod=mod GOPROXY=off go test -json -vet=off -count=1 -timeout 25m ./...",
        "source_commits": HOOK_COMMITS,
        "add_only": True,
    },
    "engines": [
        {"name": "lean-proofs", "path": "lean/GoSup", "serves_properties": [c["property_id"] for c in checks],
         "kind_free_text": "Lean 4 models (Model/), executable property statements (Spec/), property theorems (Props/), tie theorems over regenerated tables (Tie/); kernel-checked, axioms audited"},
        {"name": "fact-extractor", "path": "tools/extract", "serves_properties": [c["property_id"] for c in checks],
         "kind_free_text": "go/ast extractor regenerating lean/GoSup/Generated/*.lean from /repo on every run (tie T1)"},
        {"name": "correspondence-harness", "path": "harness/cmd/vh", "serves_properties": [c["property_id"] for c in checks],
         "kind_free_text": "runs the real code (build tag verif) and the Lean driver on the same inputs / traces and diffs (tie T2); also the failing-input search with the Lean statement as oracle"},
    ],
    "checks": checks,
    "not_applicable": na,
    "notes": "One orchestrator (./check). Known findings: KNOWN_FINDINGS.json (never written at run time). Replays are written to replays/.",
}
json.dump(m, open(os.path.join(ROOT, "MANIFEST.json"), "w"), indent=1)
print("MANIFEST.json:", len(checks), "checks,", len(na), "not_applicable")
