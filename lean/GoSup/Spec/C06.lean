/-!
# C06 — the property as a statement about one observed history (oracle)
-/
namespace GoSup.Spec.C06

structure Sub where
  slow    : Bool      -- reads slower than the supervisor broadcasts (may miss snapshots by design)
  stayed  : Bool      -- still subscribed at the quiescent point
  full    : Bool      -- subscribed before Run()
  n       : Nat       -- snapshots received up to the quiescent point
  eq      : Bool      -- its last snapshot equals the quiescent GetStateMap()
  closed  : Bool      -- its channel was closed ...
  early   : Bool      -- ... before its context ended / its owner closed it

structure Obs where
  quietMap  : List (String × String)   -- GetStateMap() at rest
  quietTrue : List (String × String)   -- GetState() of every Stateable runnable at the same moment
  finalMap  : List (String × String)   -- GetStateMap() after Run() returned
  atStop    : List (String × String)   -- the state each runnable had when its Stop() returned
  bound     : Nat                      -- 1 + number of emissions that differ from their predecessor, over all runnables
  subs      : List Sub

def holds (o : Obs) : Bool :=
  -- (a) at rest the map reports exactly what the runnables report
  o.quietMap == o.quietTrue
  -- (b) after shutdown: the state each runnable had when its Stop() returned
  && o.finalMap == o.atStop
  && o.subs.all fun s =>
    -- (c) a subscriber that keeps up has received the quiescent map
    (s.slow || !s.stayed || s.eq)
    -- (d) identical consecutive states cause no additional snapshots
    && (s.slow || !s.full || s.n ≤ o.bound)
    -- (e) closed exactly once, after its context ended (a second close or a send on the closed channel
    --     would have crashed the run: the harness reports that separately)
    && s.closed && !s.early

end GoSup.Spec.C06
