import GoSup.Model.CompSeq
/-!
# C09–C11 — executable statements on an observed composite trace
-/
namespace GoSup.Spec.Comp
open GoSup.CompSeq

inductive Ev where
  | cb (k : Nat) (r : Option (Option Nat))      -- some (some v): configuration number v; some none: error; none: nil
  | runInv (c g : Nat) | runRet (c g : Nat) (o : Out) | stopInv (c : Nat) | stopRet (c : Nat)
  | wc (c v : Nat) | rl (c : Nat)
  | run | ret (failed : Option (Option Nat)) (state : String)
      -- none: nil; some (some c): ErrRunnableFailed naming child c; some none: any other error
  | reloadCall (k : Nat) | reloadRet (k : Nat) (state : String)
  | stopCall (k : Nat) | stopDone (k : Nat) | cancel | inject (c : Nat) (o : Out) | yieldPt
  | snap (tag : String) (state : String) (running : List Nat)
  | cbWait (done : Bool)      -- a callback that injected a child failure saw Run() return (or gave up waiting)
  deriving DecidableEq, Repr

structure Child where
  name : String
  lifecycleStop : Bool
  cap : String
  deriving Repr

structure Info where
  pool  : List Child
  cfgs  : List CbRes
  seq   : Bool
  hung  : Bool
  live  : Nat
  final : String
  deriving Repr

def isRet : Ev → Bool | .ret _ _ => true | _ => false

/-- children running at the end of a trace prefix -/
def runningAfter (t : List Ev) : List Nat :=
  t.foldl (fun acc e => match e with
    | .runInv c _ => if acc.contains c then acc else acc ++ [c]
    | .runRet c _ _ => acc.erase c
    | _ => acc) []

def cfgOf (i : Info) (v : Nat) : List (Nat × Nat) :=
  match i.cfgs[v]? with | some (.ok es) => es | _ => []

/-- the configuration in force after a trace prefix: the last successfully delivered one -/
def lastCfg (i : Info) (t : List Ev) : Option Nat :=
  t.foldl (fun acc e => match e with | .cb _ (some (some v)) => some v | _ => acc) none

/-! ## C09 -/
def holdsC09 (i : Info) (t : List Ev) : Bool :=
  -- (c) Stop() and Reload() always return
  !i.hung
  -- (b) when Run() has returned no child it ever started is left running
  && (!(t.any isRet) || i.live == 0)
  -- (a) Running and at rest: exactly the configured children are running (sequential histories in which
  --     no child left on its own)
  && (!i.seq || (List.range t.length).all fun k =>
      match t[k]? with
      | some (.snap _ "Running" run) =>
        let pre := t.take k
        let voluntary := pre.any fun e => match e with | .inject _ .nil | .inject _ .cancelErr => true | _ => false
        voluntary || (match lastCfg i pre with
          | some v => sortNat (names (cfgOf i v)) == sortNat run
          | none => false)
      | _ => true)

/-- known finding C09-F1: a Stop()/cancel overlapping a membership-changing reload makes `Run` call
Stop() on children of the new configuration that were never started; with children whose Stop
waits for their Run (every bundled runnable) Run, Stop and Reload deadlock -/
def knownC09F1 (i : Info) (t : List Ev) : Bool :=
  -- the deadlock leaves the composite in Reloading with a reload call that never returned
  i.hung && i.final == "Reloading"
  && (t.filter fun e => match e with | .reloadCall _ => true | _ => false).length
      > (t.filter fun e => match e with | .reloadRet _ _ => true | _ => false).length
  && (List.range i.pool.length).any fun c =>
    ((i.pool[c]?).map (·.lifecycleStop)).getD false
    && (t.filter (· == .stopInv c)).length > (t.filter (· == .stopRet c)).length
    && !(runningAfter t).contains c

/-! ## C10 -/
def isRealFail : Ev → Bool | .runRet _ _ .realErr => true | _ => false

def holdsC10 (i : Info) (t : List Ev) : Bool :=
  let pre := t.takeWhile fun e => !isRet e
  let fails := pre.filterMap fun e => match e with | .runRet c _ .realErr => some c | _ => none
  -- a failure propagates whenever it happens, also while a Reload() is parked in user code (its configuration
  -- callback): Run() returns without waiting for the reload
  (t.all fun e => match e with | .cbWait done => done | _ => true) &&
  -- the failure of a child of a Running composite propagates
  (match t.findIdx? isRealFail with
   | some k =>
     let before := t.take k
     -- no other cause of termination before the failure, and no Stop()/cancel of the history's own
     -- between the failure and Run's return (stop number 8 is the harness's final Stop, issued only
     -- after the composite had ample time to react)
     let untilRet := t.takeWhile fun e => !isRet e
     let clean := !(before.any fun e => match e with
        | .stopCall _ | .cancel | .cb _ (some none) | .cb _ none | .yieldPt => true | _ => false)
        && !(untilRet.any fun e => match e with | .stopCall j => j != 8 | .cancel => true | _ => false)
     if clean && !i.hung then
       (match t.find? isRet with
        | some (.ret (some (some c)) st) => fails.contains c && st == "Error"
        | _ => false)
       -- all other children are stopped (sequential histories: the configured ones at that moment)
       && (!i.seq || (runningAfter before).all fun c => (t.drop k).contains (.stopInv c) || fails.contains c)
     else true
   | none => true)
  -- children that exit with nil or a cancellation error never fail the composite
  && (match t.find? isRet with
      | some (.ret (some (some _)) _) =>
        !fails.isEmpty
      | _ => true)

/-! ## C11 (sequential histories) -/
def childEvents (t : List Ev) : List Ev :=
  t.filter fun e => match e with | .runInv _ _ | .stopInv _ | .wc _ _ | .rl _ => true | _ => false

/-- the events of reload number `k`: between its call and its return -/
def window (t : List Ev) (k : Nat) : Option (List Ev × List Ev × String) :=
  match t.findIdx? (· == .reloadCall k) with
  | none => none
  | some a =>
    let rest := t.drop (a + 1)
    match rest.findIdx? (fun e => match e with | .reloadRet k' _ => k' == k | _ => false) with
    | none => none
    | some b => match rest[b]? with
      | some (.reloadRet _ st) => some (t.take a, rest.take b, st)
      | _ => none

def stateBefore (pre : List Ev) : String :=
  pre.foldl (fun acc e => match e with
    | .snap _ st _ => st | .reloadRet _ st => st | .ret _ st => st | _ => acc) "New"

/-- the snapshot (state, running children) taken right after reload `k` returned, if nothing else was done in between -/
def snapAfter (t : List Ev) (k : Nat) : Option (String × List Nat) :=
  match t.findIdx? (fun e => match e with | .reloadRet k' _ => k' == k | _ => false) with
  | none => none
  | some a =>
    let rest := t.drop (a + 1)
    match rest.findIdx? (fun e => match e with | .snap _ _ _ => true | _ => false) with
    | none => none
    | some j =>
      if (rest.take j).any (fun e => match e with
          | .reloadCall _ | .stopCall _ | .cancel | .yieldPt | .inject _ _ | .ret _ _ => true | _ => false) then none
      else match rest[j]? with
        | some (.snap _ st run) => some (st, run)
        | _ => none

def holdsC11 (i : Info) (t : List Ev) : Bool :=
  !i.seq || (List.range (t.filter fun e => match e with | .reloadCall _ => true | _ => false).length).all fun k =>
    match window t k with
    | none => true     -- the reload never returned: C09 (c)
    | some (pre, w, st) =>
      let disturbed := (pre ++ w).any fun e => match e with
        | .stopCall _ | .cancel | .yieldPt | .inject _ _ | .ret _ _ => true | _ => false
      if disturbed || stateBefore pre != "Running" then true else
      match w.findSome? (fun e => match e with | .cb _ r => some r | _ => none) with
      | none => false                                 -- Reload must fetch the callback's configuration
      | some none | some (some none) =>
        -- callback error / nil configuration: children untouched, composite in Error
        (childEvents w).isEmpty && st == "Error"
      | some (some (some v)) =>
        let old := match lastCfg i pre with | some o => cfgOf i o | none => []
        let new := cfgOf i v
        let sameSet := (names old).all ((names new).contains ·) && (names new).all ((names old).contains ·)
        st == "Running" &&
        if sameSet then
          -- in place: nothing stopped or started; each child gets exactly its one reload call
          (w.all fun e => match e with | .runInv _ _ | .stopInv _ => false | _ => true)
          && (new.all fun (c, val) =>
              match ((i.pool[c]?).map (·.cap)).getD "-" with
              | "wc" => (w.filter (· == .wc c val)).length == 1
                        && (w.filter fun e => match e with | .wc c' _ => c' == c | _ => false).length == 1
              | "r" => (w.filter (· == .rl c)).length == 1
              | _ => true)
          && (w.all fun e => match e with
              | .wc c _ => ((i.pool[c]?).map (·.cap)).getD "-" == "wc" && (names new).contains c
              | .rl c => ((i.pool[c]?).map (·.cap)).getD "-" == "r" && (names new).contains c
              | _ => true)
        else
          -- restart: every previously running child is stopped before any child of the new configuration starts
          (match w.findIdx? (fun e => match e with | .runInv _ _ => true | _ => false) with
           | some f => (runningAfter pre).all fun c => (w.take f).contains (.stopRet c)
           | none => (runningAfter pre).all fun c => w.contains (.stopRet c))
          -- ... and exactly the new set is running afterwards (and stays: the snapshot is taken after the caller has
          -- released the context it gave to Reload())
          && (match snapAfter t k with
              | some (st', run) => st' != "Running" || sortNat run == sortNat (names new)
              | none => true)

end GoSup.Spec.Comp
