import GoSup.Model.Equal
/-!
# C13 — the equivalence the property speaks of
"equivalent to the active one (same address, timeouts and route name/path set)".
`specEquiv` is that relation, written without reference to the implementation's algorithm.
`holdsEqual a b r` evaluates the *decision* part of C13 on an observed result `r` of
`a.Equal(b)`; it is claimed for configurations whose route paths are pairwise distinct (the only
ones a `ServeMux` accepts).
-/
namespace GoSup.Spec.C13
open GoSup.Equal

def subset (a b : List Route) : Bool := a.all fun x => b.contains x

def specEquiv (a b : Config) : Bool :=
  a.addr == b.addr && a.drain == b.drain && a.read == b.read && a.write == b.write && a.idle == b.idle
  && subset a.routes b.routes && subset b.routes a.routes

def distinctPaths : List Route → Bool
  | [] => true
  | r :: t => !(t.any fun x => x.path == r.path) && distinctPaths t

def holdsEqual (a b : Config) (r : Bool) : Bool :=
  !(distinctPaths a.routes && distinctPaths b.routes) || r == specEquiv a b

end GoSup.Spec.C13
