import GoSup.Spec.Http
/-!
# C08 — executable statement on observed state streams
`ss`: everything a subscriber that was there from the start received; `sb`: what a subscriber
that joined later received; `ret`: class of `Run()`'s result and the state read when it returned.
-/
namespace GoSup.Spec.C08
open GoSup.Spec.Http

def isSuffix [BEq α] (a b : List α) : Bool := a.length ≤ b.length && b.drop (b.length - a.length) == a

/-- drop a repetition of the first element (the subscribe / read-current race may deliver the
state current at subscription twice) -/
def dedupHead : List String → List String
  | a :: b :: t => if a == b then b :: t else a :: b :: t
  | l => l

/-- a subscriber that joined later: the state current at its subscription first, then every later change, in order -/
def joinedOk (ss sb : List String) : Bool := sb.isEmpty || isSuffix sb ss || isSuffix (dedupHead sb) ss

def holdsStream (ss sb : List String) (hasRet : Bool) (retCls retState : String) (closed : Bool)
    (single : Bool) (extra : List (List String) := []) : Bool :=
  extra.all (joinedOk ss) &&
  -- a walk in the lifecycle graph, only Error entered out of turn; starts with the state at subscription
  isWalk ss && ss.head? == some "New"
  -- a later subscriber: the state current at its subscription first, then every later change, in order
  && (sb.isEmpty || isSuffix sb ss || isSuffix (dedupHead sb) ss)
  -- channels are closed after their contexts are cancelled
  && closed
  -- single Run on a fresh runnable: Stopped iff nil, Error otherwise
  && (!hasRet || !single || (if retCls == "nil" then retState == "Stopped" else retState == "Error"))

/-- known finding C08-F1: `getStateChanInternal` subscribes to the broadcast first and reads the current
state afterwards; when two transitions fall into that window the subscriber receives the *newer* state
first and the older queued one after it.  Recognised shape: everything but the first element of `sb`
is a suffix of `ss`, the first element occurs again later in `sb` (it was read ahead of its turn), and
nothing else is wrong. -/
def newerFirst (ss sb : List String) : Bool :=
  match sb with
  | x :: rest => !(joinedOk ss sb) && isSuffix rest ss && rest.contains x && rest.head? != some x
  | [] => false

def knownC08F1 (ss sb : List String) (hasRet : Bool) (retCls retState : String) (closed : Bool) (single : Bool)
    (extra : List (List String) := []) : Bool :=
  -- every joined subscriber is either fine or shows the newer-first shape, at least one shows it, nothing else is wrong
  (sb :: extra).all (fun s => joinedOk ss s || newerFirst ss s)
  && (sb :: extra).any (newerFirst ss)
  && holdsStream ss [] hasRet retCls retState closed single

end GoSup.Spec.C08
