import GoSup.Model.Member
/-!
# C11 — membership decision
"if the set of runnable identities is unchanged … / if the set changed …": the decision must be
`changed ↔ the two identity *sets* differ`.
-/
namespace GoSup.Spec.C11

def sameSet (a b : List String) : Bool := a.all (b.contains ·) && b.all (a.contains ·)

/-- `r` is the observed result of `hasMembershipChanged old new` -/
def holdsMember (old new : List String) (r : Bool) : Bool := r == !sameSet old new

def hasDup : List String → Bool
  | [] => false
  | a :: t => t.contains a || hasDup t

/-- known finding C11-F1: a configuration naming the same runnable identity twice -/
def knownDup (old new : List String) : Bool := hasDup old || hasDup new

end GoSup.Spec.C11
