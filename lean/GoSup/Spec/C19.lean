import GoSup.Model.Validate
/-!
# C19 — executable statement on one exercised input
`outcome` is the `;`-separated list of what happened at each step (`construct=…`, `runner=…`,
`run=…`, `reload=…`, `stop=…`, `serve=…`); a panic anywhere shows as `panic:<value>`.
-/
namespace GoSup.Spec.C19
open GoSup.Validate

def holds (kind : String) (rs : List RouteArg) (mux1 : Bool) (outcome : List String) : Bool :=
  -- nothing panics and nothing hangs, whatever was accepted
  (outcome.all fun f => !(f.splitOn "panic:").length > 1 && !f.endsWith "=hung")
  -- route sets: accepted exactly when the constructors' documented checks and the mux accept them
  && (kind != "routes" ||
      (let want := match construct (fun _ => mux1) rs with
         | .routeRejected => "construct=routeRejected"
         | .configRejected => "construct=configRejected"
         | .accepted => "construct=accepted"
       outcome.head? == some want))

end GoSup.Spec.C19
