import GoSup.Model.Sup
/-!
# C01–C04 — executable statements on an observed supervisor trace

The trace is the list of events recorded at the boundary between the supervisor and its
runnables / external actors (type `Sup.Ev`), in an order consistent with happens-before.
`Info` carries what the scenario declares about itself (capabilities, whether the runnables
behave like the bundled ones, their Stop style) and what was measured at the end.
-/
namespace GoSup.Spec.Sup
open GoSup.Sup

structure Info where
  caps      : List Caps
  lifecycleStop : List Bool := []   -- runnable i's Stop blocks until its Run was invoked and returned
  wb        : Bool := false   -- every runnable behaves like the bundled ones
  complete  : Bool := false   -- the scenario was run to quiescence (END seen)
  hung      : Bool := false   -- Run() had not returned when the scenario was given up
  late      : Bool := false   -- shutdown took longer than the configured shutdown timeout allows for "prompt"
  panicked  : Bool := false
  liveRg    : Nat := 0        -- runnable goroutines still alive at the end
  gateLate  : Nat := 0        -- ms by which a gate was passed after its startup timeout had elapsed (0: never)
  deriving Repr

def Info.n (c : Info) : Nat := c.caps.length

def isStop : Ev → Bool | .stopInvoke _ | .stopReturn _ => true | _ => false

/-- `[SI (n-1), SR (n-1), …, SI 0, SR 0]` -/
def fullStops : Nat → List Ev
  | 0 => []
  | k + 1 => [.stopInvoke k, .stopReturn k] ++ fullStops k

def isPrefix [BEq α] : List α → List α → Bool
  | [], _ => true
  | _ :: _, [] => false
  | a :: as, b :: bs => a == b && isPrefix as bs

def isRealErr : Ev → Bool | .runReturn _ (.realErr _) => true | _ => false

/-- events that may legitimately start a shutdown -/
def isTrigger : Ev → Bool
  | .sigSent .int | .sigSent .term | .parentCancel | .triggerSent _ | .userCall _ => true
  | .runReturn _ (.realErr _) => true
  | .poll _ false => true           -- a pending gate may run into the startup timeout
  | _ => false

def before (t : List Ev) (p : Ev → Bool) (q : Ev → Bool) : Bool :=
  -- every event satisfying q is preceded by one satisfying p
  let rec go (seen : Bool) : List Ev → Bool
    | [] => true
    | e :: es => (if q e then seen else true) && go (seen || p e) es
  go false t

/-! ## C01 -/
def holdsC01 (c : Info) (t : List Ev) : Bool :=
  let stops := t.filter isStop
  -- (a)+(b) at most once each, strictly reverse registration order, one at a time
  isPrefix stops (fullStops c.n)
  -- (c) no Stop before shutdown starts
  && before t isTrigger (fun e => match e with | .stopInvoke _ => true | _ => false)
  -- (d) the supervisor does not cancel the runnables' contexts before the last Stop returned
  && before t (fun e => e == .stopReturn 0 || e == .parentCancel) (fun e => match e with | .ctxSeen _ => true | _ => false)
  -- (e) once Run() has returned every runnable whose Run was invoked has been stopped
  && (!(t.any fun e => match e with | .mainReturn _ => true | _ => false)
      || (List.range c.n).all fun i => !(t.contains (.runInvoke i)) || t.contains (.stopReturn i))

/-! ## C03 -/
def lastGate (t : List Ev) : Option Nat :=
  t.foldl (fun acc e => match e with | .poll i _ => some i | _ => acc) none

def holdsC03 (c : Info) (t : List Ev) : Bool :=
  -- (a) a Stateable gates everything registered after it (unless the context is already cancelled)
  ((List.range c.n).all fun j => (List.range j).all fun i =>
      !(c.caps.getD i {}).stateable ||
      before t (fun e => e == .poll i true || e == .parentCancel || e == .stopReturn 0) (fun e => e == .runInvoke j))
  -- (b) each Run invoked at most once
  && ((List.range c.n).all fun i => (t.filter (· == .runInvoke i)).length ≤ 1)
  -- (c) a failed gate: nothing after it is started
  && (match t.find? (fun e => match e with | .mainReturn _ => true | _ => false), lastGate t with
      | some (.mainReturn r), some g =>
        let gatePassed := t.contains (.poll g true)
        -- (claimed when nothing else — cancellation, Shutdown(), a signal, a trigger — interferes:
        --  with the context cancelled the loop legitimately runs on, see clause (a))
        let interference := t.any fun e => match e with
          | .sigSent .int | .sigSent .term | .parentCancel | .triggerSent _ | .userCall _ => true
          | _ => false
        if r != .nil && !gatePassed && !interference
        then (List.range c.n).all fun j => j ≤ g || !(t.contains (.runInvoke j)) else true
      | _, _ => true)
  -- (c') readiness not reached within the startup timeout ends the gate: no gate is passed by a poll that comes
  --      more than a scheduling delay after the timeout
  && c.gateLate ≤ 50

/-! ## C04 -/
def gatePending (t : List Ev) : Bool :=
  match lastGate t with
  | some g => !(t.contains (.poll g true))
  | none => false

def otherTrigger : Ev → Bool
  | .sigSent .int | .sigSent .term | .parentCancel | .triggerSent _ | .userCall _ => true
  | _ => false

def holdsC04 (_c : Info) (t : List Ev) : Bool :=
  let pre := t.takeWhile (fun e => match e with | .mainReturn _ => false | _ => true)
  let realErrs := pre.filterMap fun e => match e with | .runReturn _ (.realErr e) => some e | _ => none
  (match t.find? (fun e => match e with | .mainReturn _ => true | _ => false) with
   | some (.mainReturn r) =>
     -- (a) a non-nil result is an error some Run actually returned, or the startup timeout of a pending gate
     (match r with
      | .nil => true
      | .err e => realErrs.contains e
      | .startupTimeout => gatePending pre
      | .spuriousTimeout => false)
     -- (c) a runnable failed and no other trigger intervened: Run() returns a runnable's error
     && (realErrs.isEmpty || pre.any otherTrigger || gatePending pre
         || (match r with | .err _ => true | _ => false))
   | _ => true)
  -- (d) nil exits, cancellation errors, SIGHUP and unknown signals never stop anything
  && (t.any (fun e => otherTrigger e || isRealErr e || (match e with | .poll _ false => true | _ => false))
      || !(t.any fun e => isStop e || (match e with | .mainReturn _ => true | _ => false)))

/-! ## C02 -/
def anyTrigger (t : List Ev) : Bool := t.any fun e => otherTrigger e || isRealErr e

/-- known finding C02-F2: a startup failure stops a registered runnable whose Run was never
invoked and whose Stop blocks until its Run has run (every bundled runnable): Stop() never
returns, so Run() never returns -/
def knownF2 (c : Info) (t : List Ev) : Bool :=
  (List.range c.n).any fun j =>
    c.lifecycleStop.getD j false && t.contains (.stopInvoke j) && !(t.contains (.stopReturn j))
      && !(t.contains (.runInvoke j))

def holdsC02 (c : Info) (t : List Ev) : Bool :=
  !c.panicked                                                    -- nothing panics, ever
  && (!c.complete || !c.wb || !(anyTrigger t || t.any (fun e => match e with | .mainReturn _ => true | _ => false))
      -- bundled-like runnables: Run() returned, every Shutdown() caller returned, promptly,
      -- and every runnable goroutine finished
      || (!c.hung && !c.late && c.liveRg == 0
          && t.all fun e => match e with | .userCall u => t.contains (.userReturn u) | _ => true))
  -- bundled-like runnables, no shutdown timeout: at the moment Run() returns, and at the moment any Shutdown() caller
  -- returns, every runnable whose Run was invoked has returned from it
  && (!c.complete || !c.wb || c.hung || c.late ||
      (List.range t.length).all fun k =>
        match t[k]? with
        | some (.mainReturn _) | some (.userReturn _) =>
          (List.range c.n).all fun i =>
            !((t.take k).contains (.runInvoke i)) || (t.take k).any fun e => match e with | .runReturn j _ => j == i | _ => false
        | _ => true)
  -- any runnables: if every Stop() that was invoked returned, Run() returns (at the timeout at the latest)
  && (!c.complete || !(anyTrigger t) ||
      !((List.range c.n).all fun i => !(t.contains (.stopInvoke i)) || t.contains (.stopReturn i)) || !c.hung)

end GoSup.Spec.Sup
