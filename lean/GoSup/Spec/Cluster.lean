import GoSup.Model.Cluster
/-!
# C16 — executable statement on an observed cluster trace
-/
namespace GoSup.Spec.Cluster

inductive Ev where
  | run | push (k : Nat)
  | factory (id : String) (cfg inst : Nat) | factoryErr (id : String)
  | runInv (inst : Nat) | runRet (inst : Nat) | stopInv (inst : Nat) | stopRet (inst : Nat)
  | count (k cnt : Nat) (state : String)
  | endOp | ret (cls state : String)
  deriving DecidableEq, Repr

structure Info where
  maps : List (List (String × Option Nat))     -- desired maps; `none` = nil configuration
  ff   : List String
  fo   : List String := []     -- ids whose factory fails once (the harness delivers every map twice: the retry succeeds)
  nr   : List String
  hung : Bool
  live : Nat
  second : String := "none"    -- result class and state of a second Run() after the first returned ("none": not tried)
  deriving Repr

def sortPairs (l : List (String × Nat)) : List (String × Nat) :=
  l.mergeSort fun a b => decide (a.1 < b.1 ∨ (a.1 = b.1 ∧ a.2 ≤ b.2))

/-- instances whose Run was invoked and has not returned, with id and configuration -/
def alive (t : List Ev) : List (String × Nat × Nat) :=
  let started := t.filterMap fun e => match e with | .runInv i => some i | _ => none
  let ended := t.filterMap fun e => match e with | .runRet i => some i | _ => none
  t.filterMap fun e => match e with
    | .factory id c i => if started.contains i && !ended.contains i then some (id, c, i) else none
    | _ => none

def expected (i : Info) (k : Nat) : List (String × Nat) :=
  ((i.maps[k]?).getD []).filterMap fun (id, v) =>
    match v with
    | some c => if i.ff.contains id || i.nr.contains id then none else some (id, c)
    | none => none

def prefixTo (t : List Ev) (k : Nat) : List Ev :=
  match t.findIdx? (fun e => match e with | .count k' _ _ => k' == k | _ => false) with
  | some j => t.take j
  | none => []

def holds (i : Info) (t : List Ev) : Bool :=
  !i.hung
  && ((List.range i.maps.length).all fun k =>
    match t.find? (fun e => match e with | .count k' _ _ => k' == k | _ => false) with
    | some (.count _ cnt st) =>
      let pre := prefixTo t k
      let act := alive pre
      -- exactly the desired entries that could be started, each with the given configuration
      sortPairs (act.map fun (id, c, _) => (id, c)) == sortPairs (expected i k)
      -- GetServerCount() = servers started and not yet stopped; the cluster stays Running
      && cnt == (expected i k).length && st == "Running"
      -- unchanged entries keep their server instance
      && (k == 0 || (let before := alive (prefixTo t (k - 1))
            before.all fun (id, c, inst) =>
              !((expected i k).contains (id, c)) || !((expected i (k - 1)).contains (id, c)) || act.contains (id, c, inst)))
    | _ => true)
  -- a replacement (or a retry) of an id is created only after the previous instance of that id was fully stopped
  && ((List.range t.length).all fun j =>
    match t[j]? with
    | some (.factory id _ inst) =>
      (t.take j).all fun e => match e with
        | .factory id' _ old => id' != id || old == inst || !(t.contains (.runInv old)) || (t.take j).contains (.stopRet old)
        | _ => true
    | _ => true)
  -- when Run() returns every server ever started has been stopped
  && (!(t.any fun e => match e with | .ret _ _ => true | _ => false) ||
      (i.live == 0 && t.all fun e => match e with | .runInv inst => t.contains (.runRet inst) | _ => true))
  -- ... at that moment, not a little later: the Run of every server started before the return has returned before it
  && (match t.findIdx? (fun e => match e with | .ret _ _ => true | _ => false) with
      | some r => (t.take r).all fun e => match e with | .runInv inst => (t.take r).contains (.runRet inst) | _ => true
      | none => true)

/-- known finding C16-F1: an id `x` together with the id `x:stop` in two consecutive maps -/
def knownClash (i : Info) (_t : List Ev) : Bool :=
  (List.range i.maps.length).any fun k =>
    let ids := (((i.maps[k]?).getD []) ++ (if k == 0 then [] else (i.maps[k - 1]?).getD [])).map (·.1)
    ids.any fun x => ids.contains (x ++ ":stop")

end GoSup.Spec.Cluster
