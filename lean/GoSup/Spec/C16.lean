import GoSup.Model.Planner
/-!
# C16 — what a correct plan looks like (planner part of the property)

For a committed current state `cur` (every action `none`) and desired configurations `des`:
after executing the plan and committing, the entries are exactly the desired ones with the
desired configuration; an entry whose configuration is unchanged keeps its runner instance and
is neither started nor stopped; every runner instance that is not kept is handed to a stop
action (nothing leaks); only new or changed ids are started.
-/
namespace GoSup.Spec.C16
open GoSup.Planner

def keys (m : Entries) : List String := m.map (·.1)

def sameKeys (a b : List String) : Bool := a.all (b.contains ·) && b.all (a.contains ·)

/-- `pending`, `committed` as produced by an implementation of the planner -/
def planOk (cur : Entries) (des : List (String × Nat)) (pending committed : Entries) : Bool :=
  -- committed = desired ids, each once, with the desired configuration
  sameKeys (keys committed) (des.map (·.1))
  && (keys committed).length == des.length
  && (des.all fun d => match get committed d.1 with
        | some e => e.cfg == d.2 && e.id == d.1 && e.action == .none
        | none => false)
  -- unchanged entries keep their instance and are untouched
  && (cur.all fun p => match lookupD des p.1 with
        | some c => if p.2.cfg == c then
            (match get pending p.1 with | some e => e.runner == p.2.runner && e.action == .none | none => false)
            else true
        | none => true)
  -- every running instance that is not kept is stopped by the plan
  && (cur.all fun p => match p.2.runner with
        | none => true
        | some inst =>
          let kept := match lookupD des p.1 with | some c => p.2.cfg == c | none => false
          kept || pending.any fun q => q.2.action == .stop && q.2.runner == some inst)
  -- started ids are exactly the desired ids that are new or changed
  && (des.all fun d =>
        let unchanged := match get cur d.1 with | some e => e.cfg == d.2 | none => false
        unchanged || (match get pending d.1 with | some e => e.action == .start && e.cfg == d.2 && e.runner.isNone | none => false))

end GoSup.Spec.C16
