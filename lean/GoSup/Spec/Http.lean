import GoSup.Model.Equal
/-!
# C12, C13, C14 (and the httpserver part of C08) — executable statements on an observed trace
-/
namespace GoSup.Spec.Http
open GoSup.Equal

inductive Ev where
  | run | cb (k : Nat) (r : Option (Option Nat))       -- some (some v) | some none = error | none = nil
  | created (id addr cfg : Nat)
  | reloadCall (k : Nat) | reloadRet (k : Nat) (state : String)
  | probe (tag : String) (ok : Bool) (detail : String)
  | oldAddr (k : Nat) (free : Bool)
  | stopCall | stopRet (ms : Nat) | cancel
  | stillInFlight (n : Nat)      -- requests still in flight 20 ms after Stop() returned
  | req (durMs : Nat) (outcome : String) (ms : Nat)
  | ret (cls : String) (state : String)
  | released (addr : Nat) (free : Bool)
  | stream (states : List String)
  deriving DecidableEq, Repr

structure HCfg where
  kind  : String
  addr  : Nat
  drain : Nat
  cfg   : Config         -- in the vocabulary of `Config.Equal`
  deriving Repr

structure Info where
  cfgs : List HCfg
  hung : Bool
  deriving Repr

def isRet : Ev → Bool | .ret _ _ => true | _ => false

/-! ## C12 -/
def holdsC12 (i : Info) (t : List Ev) : Bool :=
  !i.hung
  -- whenever Running was reported: the address accepts a connection and every route answers through its own handler
  && (t.all fun e => match e with | .probe _ ok _ => ok | _ => true)
  -- once Run() returned: every address ever used can be bound again immediately; an address left by a reload is free
  && (t.all fun e => match e with | .released _ free => free | .oldAddr _ free => free | _ => true)

/-- known finding C12-F1: a Stop()/cancel overlapping a Reload(): `shutdown`'s move to Stopping is
rejected while the state is Reloading, the reload then reports Running, `shutdown` closes the
server and only afterwards moves to Error — for a moment Running is reported for a closed server -/
def knownC12F1 (_i : Info) (t : List Ev) : Bool :=
  (List.range t.length).any fun k => match t[k]? with
    | some (.probe _ false _) => (t.take k).any fun e => e == .stopCall || e == .cancel
    | _ => false

/-! ## C13 -/
def specEquiv (a b : HCfg) : Bool :=
  a.cfg.addr == b.cfg.addr && a.cfg.drain == b.cfg.drain && a.cfg.read == b.cfg.read
  && a.cfg.routes.all (b.cfg.routes.contains ·) && b.cfg.routes.all (a.cfg.routes.contains ·)

def window (t : List Ev) (k : Nat) : Option (List Ev × List Ev × String) :=
  match t.findIdx? (· == .reloadCall k) with
  | none => none
  | some a =>
    let rest := t.drop (a + 1)
    match rest.findIdx? (fun e => match e with | .reloadRet k' _ => k' == k | _ => false) with
    | none => none
    | some b => match rest[b]? with
      | some (.reloadRet _ st) => some (t.take a, rest.take b, st)
      | _ => none

def stateBefore (pre : List Ev) : String :=
  pre.foldl (fun acc e => match e with | .reloadRet _ st => st | .ret _ st => st | .probe _ true _ => "Running" | _ => acc) "?"

/-- the configuration the runner holds after a prefix: the last one the callback delivered -/
def storedCfg (t : List Ev) : Option Nat :=
  t.foldl (fun acc e => match e with | .cb _ (some (some v)) => some v | _ => acc) none

def holdsC13 (i : Info) (t : List Ev) : Bool :=
  !i.hung &&
  -- every Reload() on a running server fetches the callback's configuration, also when it has to wait for another
  -- reload: in the part of a history before the first stop or cancellation, without requests, in which every reload returned with the state
  -- Running (or Reloading: another reload was under way when the state was read), there is one callback per Reload()
  -- call (plus the one of the boot)
  (let p := t.takeWhile fun e => match e with | .stopCall | .cancel | .ret _ _ => false | _ => true
   (p.any fun e => match e with | .req _ _ _ => true | _ => false)
    || !(p.all fun e => match e with | .reloadRet _ st => st == "Running" || st == "Reloading" | _ => true)
    || (p.filter fun e => match e with | .reloadCall _ => true | _ => false).length
         != (p.filter fun e => match e with | .reloadRet _ _ => true | _ => false).length
    || (p.filter fun e => match e with | .cb _ _ => true | _ => false).length
         == 1 + (p.filter fun e => match e with | .reloadCall _ => true | _ => false).length) &&
  (List.range (t.filter fun e => match e with | .reloadCall _ => true | _ => false).length).all fun k =>
    match window t k with
    | none => true
    | some (pre, w, st) =>
      let disturbed := ((pre ++ w).any fun e => match e with
        | .stopCall | .cancel | .ret _ _ => true
        | .req _ _ _ => true          -- a drain may turn the restart into an error: C14
        | _ => false)
        -- overlapping Reload() calls: the per-reload clauses describe one reload at a time
        || (w.any fun e => match e with | .reloadCall _ | .reloadRet _ _ => true | _ => false)
        || (pre.filter fun e => match e with | .reloadCall _ => true | _ => false).length
             != (pre.filter fun e => match e with | .reloadRet _ _ => true | _ => false).length
      if disturbed || stateBefore pre != "Running" then true else
      match w.findSome? (fun e => match e with | .cb _ r => some r | _ => none) with
      | none => false
      | some none | some (some none) =>
        st == "Error" && w.all fun e => match e with | .created _ _ _ => false | _ => true
      | some (some (some v)) =>
        match storedCfg pre, i.cfgs[v]? with
        | some a, some cv =>
          let ca := (i.cfgs[a]?).getD cv
          let creations := w.filter fun e => match e with | .created _ _ c => true | _ => false
          -- "when Reload() returns with the state Running the server is serving exactly the new configuration": the
          -- probe taken right after this reload (every configured route answers through its own handler) succeeds,
          -- unless a stop or cancel came first
          (st != "Running" || (List.range t.length).all fun j =>
            match t[j]? with
            | some (.probe tag false _) => tag != toString k || (t.take j).any fun e => e == .stopCall || e == .cancel
            | _ => true) &&
          if specEquiv ca cv then creations.isEmpty && st == "Running"            -- equivalent: instance untouched
          else
            -- not equivalent: Running only through a freshly created server of the new configuration;
            -- an unbindable address is visible as Error
            (st == "Error" || (st == "Running" && creations.length == 1 &&
                creations.all fun e => match e with | .created _ _ c => c == v | _ => false))
            && (cv.kind != "busy" || st == "Error")
        | _, _ => true

/-! ## C14 -/
def holdsC14 (i : Info) (t : List Ev) : Bool :=
  let reqs := t.filterMap fun e => match e with | .req d o ms => if o != "refused" then some (d, o, ms) else none | _ => none
  if reqs.isEmpty || i.hung then !i.hung else
  -- the drain timeout in force when the requests were started
  let firstReq := (t.findIdx? fun e => match e with | .req _ _ _ => true | _ => false).getD 0
  let drain := match storedCfg (t.take firstReq) with
    | some v => ((i.cfgs[v]?).map (·.drain)).getD 0
    | none => 0
  let short := reqs.all fun (d, _, _) => d * 10 ≤ drain * 6
  let long := reqs.any fun (d, _, _) => d * 10 ≥ drain * 15
  let viaReload := t.any fun e => match e with | .reloadCall _ => true | _ => false
  -- requests that finish within the drain timeout complete with their full response
  (reqs.all fun (d, o, _) => d * 10 > drain * 6 || o == "full")
  -- all short: no timeout error, and Stop() does not wait out the timeout
  && (!short || viaReload ||
      ((t.all fun e => match e with | .ret cls _ => cls != "drainTimeout" | _ => true)
       && (t.all fun e => match e with | .stopRet ms => ms * 10 ≤ drain * 6 + 1500 | _ => true)))
  -- some request outlasts the timeout: Stop() still returns in time and Run() reports the timeout
  && (!long || viaReload ||
      ((t.any fun e => match e with | .ret "drainTimeout" "Error" => true | _ => false)
       && (t.all fun e => match e with | .stopRet ms => ms ≤ drain + 400 | _ => true)))
  && (!long || !viaReload || (t.any fun e => match e with | .reloadRet _ "Error" => true | .ret "drainTimeout" _ => true | _ => false))
  -- Stop() returns once the in-flight requests have finished, also when a reload is what is draining the server: with
  -- requests that all finish within the drain timeout none is still in flight after Stop() has returned
  && (!short || (t.all fun e => match e with | .stillInFlight n => n == 0 | _ => true))

/-! ## C08 (httpserver): the observed state stream -/
def typicalEdges : List (String × String) :=
  [("New", "Booting"), ("Booting", "Running"), ("Running", "Reloading"), ("Running", "Stopping"),
   ("Reloading", "Running"), ("Stopping", "Stopped"), ("Stopped", "New"),
   ("Error", "Error"), ("Error", "Stopping"), ("Error", "Stopped")]

def isWalk : List String → Bool
  | a :: b :: t => (b == "Error" || typicalEdges.contains (a, b) || a == b) && isWalk (b :: t)
  | _ => true

def holdsC08 (i : Info) (t : List Ev) : Bool :=
  (t.all fun e => match e with
    | .stream ss => isWalk ss && ss.head? == some "New"      -- first the state current at subscription, then a walk
    | _ => true)
  -- Stopped iff Run returned nil, Error otherwise (single Run, no reload in flight when it returned)
  && (i.hung || (t.all fun e => match e with
    | .ret cls st => if cls == "nil" then st == "Stopped" else st == "Error"
    | _ => true))

end GoSup.Spec.Http
