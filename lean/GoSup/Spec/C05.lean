import GoSup.Model.SupReload
/-!
# C05 — executable statement on an observed reload trace
-/
namespace GoSup.Spec.C05
open GoSup.SupReload

def isReload : Ev → Bool | .reloadInvoke _ | .reloadReturn _ => true | _ => false

/-- one complete pass: `Reload` begins and returns on every Reloadable runnable, in registration order -/
def onePass (reloadable : List Bool) : List Ev :=
  ((List.range reloadable.length).filter fun i => reloadable.getD i false).flatMap
    fun i => [Ev.reloadInvoke i, Ev.reloadReturn i]

/-- `l` is some complete passes followed by a prefix of one -/
def passesThenPrefix (pass : List Ev) : Nat → List Ev → Bool
  | 0, l => l.isEmpty
  | fuel + 1, l =>
    if l.length ≤ pass.length then l == pass.take l.length
    else l.take pass.length == pass && passesThenPrefix pass fuel (l.drop pass.length)

def countP (t : List Ev) (p : Ev → Bool) : Nat := (t.filter p).length

/-- `quiet`: the trace was taken from a supervisor that is running (no shutdown began) after
everything had time to settle -/
def holds (reloadable : List Bool) (quiet : Bool) (t : List Ev) : Bool :=
  let pass := onePass reloadable
  let rl := t.filter isReload
  -- (a) passes: every Reloadable exactly once, registration order, non-reloadables left alone, no overlap
  passesThenPrefix pass (rl.length + 1) rl
  -- (b) no pass without a request; a returned ReloadAll() accounts for a pass of its own
  && (pass.isEmpty || (
      let started := (countP t fun e => e == pass.headD (.hup))
      let requests := countP t (fun e => e == .allCall || e == .hup || match e with | .trigDelivered _ => true | _ => false)
      started ≤ requests + countP t (fun e => match e with | .trigIntent _ => true | _ => false)
      && countP t (· == .allReturn) ≤ started
      -- (c) nothing is lost or duplicated while running: at rest, one completed pass per accepted request
      && (!quiet ||
          rl.length == pass.length * (countP t (· == .allReturn) + countP t (· == .hup)
                                      + countP t (fun e => match e with | .trigDelivered _ => true | _ => false)))
      -- (d) ... and no trigger of a ReloadSender is left untaken: at rest every send on a trigger channel has completed
      && (!quiet ||
          countP t (fun e => match e with | .trigIntent _ => true | _ => false)
            == countP t (fun e => match e with | .trigDelivered _ => true | _ => false))))

end GoSup.Spec.C05
