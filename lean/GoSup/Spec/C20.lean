import GoSup.Model.Port
/-!
# C20 — executable statement of the property

`holds s first second split2` is the property of `properties.jsonl` (C20) evaluated on one
input string `s` and on what an implementation returned for it: `first` = result of validating
`s`, `second` = result of validating the first result again, `split2` = `net.SplitHostPort` of
the first result.  It is written against an *independent reference parser* `refParse` of the
documented forms `port | :port | host:port | [host]:port`, not against `splitHostPort`.
The driver evaluates it on implementation outputs (failing-input oracle); `Props/C20.lean`
proves it of the model for every byte string.
-/
namespace GoSup.Spec.C20
open GoSup.Port

def noneOf (s : Bytes) (cs : List UInt8) : Bool := s.all fun c => !cs.contains c

/-- split at the last colon: `(before, after)` -/
def splitLast : Bytes → Option (Bytes × Bytes)
  | [] => none
  | c :: s =>
    match splitLast s with
    | some (a, b) => some (c :: a, b)
    | none => if c == cColon then some ([], s) else none

/-- the documented forms.  `some (host, port, bracketed)`; `none` = malformed host:port -/
def refParse (s : Bytes) : Option (Bytes × Bytes × Bool) :=
  match splitLast s with
  | none => if noneOf s [cLbr, cRbr] then some ([], s, false) else none
  | some (pre, port) =>
    if !noneOf port [cLbr, cRbr] then none
    else if noneOf pre [cColon, cLbr, cRbr] then some (pre, port, false)
    else match pre with
      | c :: rest =>
        if c == cLbr && rest.getLast? == some cRbr && noneOf rest.dropLast [cLbr, cRbr]
        then some (rest.dropLast, port, true) else none
      | [] => none

inductive PortClass where
  | valid          -- all digits, value in 1..65535          → must be accepted
  | outOfRange     -- all digits, value 0 or > 65535         → ErrPortOutOfRange
  | plusDigits     -- '+' followed by digits: the property neither requires nor forbids it
  | nonNumeric     -- anything else (empty, letters, '-' sign, spaces, …) → ErrInvalidFormat
  deriving DecidableEq, Repr

def classify (p : Bytes) : PortClass :=
  if !p.isEmpty && p.all isDigit then
    match digitsVal p with
    | some v => if 1 ≤ v && v ≤ 65535 then .valid else .outOfRange
    | none => .nonNumeric
  else match p with
    | c :: rest => if c == cPlus && !rest.isEmpty && rest.all isDigit then .plusDigits else .nonNumeric
    | [] => .nonNumeric

def isOkEq : Except VErr Bytes → Bytes → Bool
  | .ok r, x => r == x
  | .error _, _ => false

def isErr : Except VErr Bytes → VErr → Bool
  | .error e, x => e == x
  | .ok _, _ => false

def splitIs : Except SplitErr (Bytes × Bytes) → Bytes → Bytes → Bool
  | .ok (h, p), h', p' => h == h' && p == p'
  | .error _, _, _ => false

def holds (s : Bytes) (first second : Except VErr Bytes)
    (split2 : Except SplitErr (Bytes × Bytes)) : Bool :=
  if s.isEmpty then isErr first .emptyPort            -- empty input → ErrEmptyPort
  else match refParse s with
  | none => isErr first .invalidFormat                -- malformed host:port → ErrInvalidFormat
  | some (h, p, bracketed) =>
    -- for accepted input: same host and port, splits back, second validation returns it unchanged
    (match first with
      | .ok r => isOkEq second r && splitIs split2 h p
      | .error _ => true) &&
    -- a bracketed "host" containing ":-" is no IPv6 literal; the property is silent about it
    (if bracketed && containsSub h [cColon, cMinus] then true
     else match classify p with
      | .valid => (match first with | .ok _ => true | .error _ => false)
      | .outOfRange => isErr first .outOfRange
      | .plusDigits => true
      | .nonNumeric => isErr first .invalidFormat)

end GoSup.Spec.C20
