import GoSup.Model.Middleware
/-!
# C15 — executable statement of the property

`holds o` evaluates the property on one observed outcome `o` of serving a request through a
chain: the event trace (handler enter/leave, Abort calls, recovery, the moment the underlying
writer received its header), what the underlying writer was actually given, and what the
wrapper's `Status()/Size()/Written()` report at the end.
-/
namespace GoSup.Spec.C15
open GoSup.Middleware

structure Outcome where
  panicked : Bool          -- the panic escaped ServeHTTP (no recovery middleware caught it)
  trace    : List Ev
  sentCode : Option Nat    -- code the underlying writer received first (`none`: nothing written)
  sentBytes : Nat          -- sum of the n the underlying writer returned
  status   : Nat           -- Status()
  size     : Nat           -- Size()
  written  : Bool          -- Written()
  deriving Repr

def enters (t : List Ev) : List Nat := t.filterMap fun | .enter i => some i | _ => none

def strictlyIncreasing : List Nat → Bool
  | a :: b :: t => a < b && strictlyIncreasing (b :: t)
  | _ => true

/-- pop the stack down to and including `i` (handlers above `i` were unwound by a panic) -/
def popTo (i : Nat) : List Nat → Option (List Nat)
  | [] => none
  | j :: st => if i == j then some st else popTo i st

/-- enter/leave events obey a stack discipline: a handler leaves only after every handler
entered after it has left or was unwound (post-Next code runs in reverse order) -/
def wellNested : List Ev → List Nat → Bool
  | [], _ => true
  | .enter i :: t, st => wellNested t (i :: st)
  | .leave i :: t, st =>
    match popTo i st with
    | some st' => wellNested t st'
    | none => false
  | _ :: t, st => wellNested t st

/-- no handler is entered after an `Abort()` (by a handler, by recovery or by wildcard) -/
def noEnterAfterAbort : List Ev → Bool
  | [] => true
  | .aborted _ :: t => (enters t).isEmpty && noEnterAfterAbort t
  | .recovered :: t => (enters t).isEmpty && noEnterAfterAbort t
  | _ :: t => noEnterAfterAbort t

/-- a recovered panic yields a 500 unless a header had already gone out before the recovery -/
def recoveredGives500 : List Ev → Bool → Bool
  | [], _ => true
  | .sent _ :: t, _ => recoveredGives500 t true
  | .recovered :: t, sentBefore =>
    (sentBefore || (match t with | .sent c :: _ => c == 500 | _ => false)) && recoveredGives500 t true
  | _ :: t, b => recoveredGives500 t b

/-- every logger/metrics observation made *after the chain below it finished* is consistent:
checked at the end only (final clause below) -/
def validCodes (hs : List Handler) : Bool :=
  hs.all fun h => h.all fun | .writeHeader c => 100 ≤ c && c ≤ 999 | _ => true

/-- `hs` is the program that was served.  The writer clauses are claimed for programs whose
`WriteHeader` codes are valid (100–999); an invalid code is the handler's fault: `net/http`
panics on it and nothing is sent for that call. -/
def holds (hs : List Handler) (o : Outcome) : Bool :=
  strictlyIncreasing (enters o.trace)                       -- registration order, each at most once
  && wellNested o.trace []                                  -- post-Next code in reverse order
  && noEnterAfterAbort o.trace                              -- nothing after Abort() runs
  && (!validCodes hs || recoveredGives500 o.trace false)    -- recovered panic → 500
  && o.size == o.sentBytes                                  -- Size() = bytes actually sent
  && (!validCodes hs ||
      (o.written == o.sentCode.isSome                       -- Written() ⇔ something was written
       && o.status == o.sentCode.getD 0))                   -- Status() = first status actually sent

end GoSup.Spec.C15
