/-!
# C18 — the property as a statement about one observed history (oracle)

A history is summarised by the harness as: did the component terminate cleanly, the number of
library goroutines at quiescence after each round of operations (every round performs the same
operations and closes every subscription it opened), and the library goroutines still present
after termination and after every subscription context was cancelled.
-/
namespace GoSup.Spec.C18

structure Obs where
  clean   : Bool            -- Run returned nil
  hung    : Bool            -- Run did not return within the harness timeout (not a C18 matter)
  samples : List Nat        -- library goroutines at quiescence after round 1, 2, ...
  leaked  : List String     -- library goroutines left after termination (function@wait-reason)

/-- (1) after clean termination nothing is left; (2) repeating a round does not add goroutines:
no later sample exceeds the first one -/
def holds (o : Obs) : Bool :=
  ((o.clean && !o.hung) → o.leaked.isEmpty)
  && match o.samples with
     | [] => true
     | s0 :: rest => rest.all (· ≤ s0)

end GoSup.Spec.C18
