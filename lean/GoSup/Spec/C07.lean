/-!
# C07 — executable statement of the Stop() contract on an observed trace

Events are what a controller sees of one `lifecycle.StartStop`: Stop thread `i` finished its
first critical section (`enter`), passed `<-startedCh` (`pass`), read `doneCh` (`read`),
returned (`ret`); a `Run` cycle called `Started()` (`runStart`) or its `done()` (`runEnd`); and
at the end, after every thread was left to run freely until nothing moved any more, whether the
current stop channel is closed (`final`).
-/
namespace GoSup.Spec.C07

inductive Ev where
  | enter (i : Nat) | pass (i : Nat) | read (i : Nat) | ret (i : Nat)
  | runStart | runEnd
  | final (stopClosed : Bool)
  deriving DecidableEq, Repr

structure Th where
  target   : Nat
  returned : Bool := false
  enteredIdle : Bool := false   -- at `enter`, every invoked Run had finished and at least one was invoked
  startedAtEnter : Nat := 0
  deriving Repr

structure Acc where
  started  : Nat := 0
  finished : Nat := 0
  ths      : List (Nat × Th) := []
  ok       : Bool := true
  deriving Repr

def Acc.get (a : Acc) (i : Nat) : Option Th := (a.ths.find? (·.1 == i)).map (·.2)
def Acc.set (a : Acc) (i : Nat) (t : Th) : Acc := { a with ths := (i, t) :: a.ths.filter (·.1 != i) }

def stepEv (a : Acc) : Ev → Acc
  | .enter i =>
    -- the Run this Stop targets: the active one, else the last finished one, else the first
    let target := if a.started = 0 then 0 else a.started - 1
    a.set i { target := target, enteredIdle := decide (a.started = a.finished ∧ 0 < a.started), startedAtEnter := a.started }
  | .pass _ => a
  | .read _ => a
  | .ret i =>
    match a.get i with
    | some t =>
      -- (a) Stop() returns only after the Run it targets has returned
      let a := a.set i { t with returned := true }
      { a with ok := a.ok && decide (t.target < a.finished) }
    | none => { a with ok := false }
  | .runStart => { a with started := a.started + 1 }
  | .runEnd => { a with finished := a.finished + 1 }
  | .final stopClosed =>
    let runActive := decide (a.finished < a.started)
    { a with ok := a.ok && a.ths.all fun (_, t) =>
        t.returned ||
        -- (c) a Stop() still waiting at quiescence waits either for a Run that was never invoked,
        --     or for an active Run that it has signalled to stop
        (a.started == 0 || (runActive && stopClosed))
        -- (b) it returns immediately when the last Run has already finished
        && !(t.enteredIdle && a.started == t.startedAtEnter) }

def holds (t : List Ev) : Bool := (t.foldl stepEv {}).ok

end GoSup.Spec.C07

/-!
## C07 lifted to the bundled runnables: one observed history of Run / Stop calls
-/
namespace GoSup.Spec.C07

inductive LEv where
  | runInv (k : Nat) | runRet (k : Nat) | stopCall (k : Nat)
  | stopRet (k : Nat) (gap : Option Nat)   -- gap: ms between this return and the recording of Run()'s return
                                           -- (0: recorded before; none: Run() never returned)
  | other
  deriving DecidableEq, Repr

/-- scheduling slack between `done()` inside Run() and the recording of Run()'s return by its caller -/
def slackMs : Nat := 250

/-- (1) a Stop() returns only after the Run() has returned: by the time a Stop() returned the Run() had executed
its deferred `done()`, so its return is recorded at most a scheduling delay later — not hundreds of
milliseconds later, and not never; (2) once a Run() was invoked, Run() and every Stop() return -/
def liftHolds (hung : Bool) (t : List LEv) : Bool :=
  let ranAtAll := t.any fun e => match e with | .runInv _ => true | _ => false
  (!ranAtAll || !hung)
  && (!ranAtAll || t.all fun e =>
      match e with
      | .stopRet _ (some g) => g ≤ slackMs
      | .stopRet _ none => false
      | _ => true)

end GoSup.Spec.C07
