import GoSup.Model.Lifecycle
/-! Invariant of the lifecycle model and its preservation (helper lemmas for `Props/C07`). -/
namespace GoSup.Lifecycle
open GoSup.Core

def threadOk (s : St) : StopPc → Prop
  | .idle => True
  | .waitStarted g t =>
    g ≤ s.gen ∧ (t < s.started ∨ (s.started = 0 ∧ t = 0 ∧ g = s.gen)) ∧ (g < s.gen → t < s.finished)
      ∧ (g = s.gen → s.stopped = true)
  | .midway g t => g ≤ s.gen ∧ t < s.started ∧ (g < s.gen → t < s.finished) ∧ (g = s.gen → s.stopped = true)
  | .waitDone g r t =>
    g ≤ s.gen ∧ t ≤ r ∧ r < s.started ∧ (g < s.gen → r < s.finished) ∧ (g = s.gen → s.stopped = true)
  | .ret t => t < s.finished

structure Inv (s : St) : Prop where
  fin  : s.finished ≤ s.started ∧ s.started ≤ s.finished + 1
  cur  : s.cur = (if s.started = 0 then none else some (s.started - 1))
  stCl : s.startedCl = decide (0 < s.started)
  gen0 : s.started = 0 → s.gen = 0
  thr  : ∀ (i : Nat) (p : StopPc), s.stops[i]? = some p → threadOk s p

theorem inv_init (k : Nat) : Inv (init k) := by
  refine ⟨by simp [init], by simp [init], by simp [init], by simp [init], ?_⟩
  intro i p h
  simp [init, List.getElem?_replicate] at h
  obtain ⟨_, rfl⟩ := h
  trivial

/-- a thread's invariant survives any step that changes no shared field it depends on -/
theorem threadOk_same {s s' : St} {p : StopPc} (h : threadOk s p)
    (hg : s'.gen = s.gen) (hs : s'.started = s.started) (hf : s.finished ≤ s'.finished)
    (hst : s.stopped = true → s'.stopped = true) : threadOk s' p := by
  cases p <;> simp_all [threadOk] <;> omega

theorem inv_step {s s' : St} {a : Act} (hi : Inv s) (hs : step s a = some s') : Inv s' := by
  obtain ⟨hfin, hcur, hcl, hg0, hthr⟩ := hi
  cases a with
  | stopEnter i =>
    simp only [step] at hs
    split at hs <;> simp at hs
    subst hs
    refine ⟨hfin, hcur, hcl, hg0, ?_⟩
    intro j p hj
    simp only [List.getElem?_set] at hj
    split at hj
    · split at hj <;> simp at hj
      subst hj
      simp only [threadOk, hcur]
      split <;> simp <;> omega
    · exact threadOk_same (hthr j p hj) rfl rfl (Nat.le_refl _) (fun _ => rfl)
  | stopPass i =>
    simp only [step] at hs
    split at hs <;> simp at hs
    rename_i g t hst
    obtain ⟨hc, rfl⟩ := hs
    refine ⟨hfin, hcur, hcl, hg0, ?_⟩
    intro j p hj
    simp only [List.getElem?_set] at hj
    split at hj
    · split at hj <;> simp at hj
      subst hj
      have := hthr i _ hst
      simp only [threadOk] at this ⊢
      simp [St.startedClosed, hcl] at hc
      obtain ⟨h1, h2, h3, h4⟩ := this
      exact ⟨h1, by omega, h3, h4⟩
    · exact threadOk_same (hthr j p hj) rfl rfl (Nat.le_refl _) id
  | stopRead i =>
    simp only [step] at hs
    split at hs
    · rename_i g t hst
      have hmid := hthr i _ hst
      simp only [threadOk] at hmid
      split at hs
      · -- cycle reset: return
        rename_i hne
        simp at hs; subst hs
        refine ⟨hfin, hcur, hcl, hg0, ?_⟩
        intro j p hj
        simp only [List.getElem?_set] at hj
        split at hj
        · split at hj <;> simp at hj
          subst hj
          simp only [threadOk]
          simp at hne
          omega
        · exact threadOk_same (hthr j p hj) rfl rfl (Nat.le_refl _) id
      · rename_i heq
        simp at heq
        split at hs <;> simp at hs
        rename_i r hc
        subst hs
        refine ⟨hfin, hcur, hcl, hg0, ?_⟩
        intro j p hj
        simp only [List.getElem?_set] at hj
        split at hj
        · split at hj <;> simp at hj
          subst hj
          simp only [threadOk]
          rw [hcur] at hc
          split at hc <;> simp at hc
          obtain ⟨h1, h2, h3, h4⟩ := hmid
          exact ⟨h1, by omega, by omega, by omega, h4⟩
        · exact threadOk_same (hthr j p hj) rfl rfl (Nat.le_refl _) id
    · simp at hs
  | stopDone i =>
    simp only [step] at hs
    split at hs <;> simp at hs
    rename_i g r t hst
    obtain ⟨hc, rfl⟩ := hs
    refine ⟨hfin, hcur, hcl, hg0, ?_⟩
    intro j p hj
    simp only [List.getElem?_set] at hj
    split at hj
    · split at hj <;> simp at hj
      subst hj
      have := hthr i _ hst
      simp only [threadOk] at this ⊢
      simp [St.doneClosed] at hc
      omega
    · exact threadOk_same (hthr j p hj) rfl rfl (Nat.le_refl _) id
  | runStart =>
    simp only [step] at hs
    split at hs <;> simp at hs
    rename_i heq
    subst hs
    refine ⟨by simp; omega, by simp, by simp, by simp, ?_⟩
    intro j p hj
    have hp := hthr j p hj
    -- whether the cycle is reset is decided by `started`
    by_cases h0 : s.started = 0
    · have hcn : s.cur = none := by simp [hcur, h0]
      simp only [hcn]
      cases p <;> simp_all [threadOk] <;> omega
    · have hcs : s.cur = some (s.started - 1) := by simp [hcur, h0]
      have hdc : s.doneClosed (s.started - 1) = true := by simp [St.doneClosed]; omega
      simp only [hcs, hdc]
      cases p <;> simp_all [threadOk] <;> omega
  | runEnd =>
    simp only [step] at hs
    split at hs <;> simp at hs
    subst hs
    refine ⟨by simp; omega, hcur, hcl, hg0, ?_⟩
    intro j p hj
    exact threadOk_same (hthr j p hj) rfl rfl (by simp) id

theorem inv_reach {k : Nat} {s : St} (h : Reachable k s) : Inv s :=
  inv_of_reach (L := lts) Inv (inv_init k) (fun _ _ _ hi hs => inv_step hi hs) h

end GoSup.Lifecycle
