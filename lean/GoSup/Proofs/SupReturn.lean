import GoSup.Proofs.SupStops
/-! Second invariant: once `Run()` has returned, the `Shutdown` Once is done (and stays done). -/
namespace GoSup.Sup
open GoSup.Core GoSup.Spec.Sup

def isMainRet : Ev → Bool | .mainReturn _ => true | _ => false

def retLog (s : St) : List Ev := s.log.filter isMainRet

structure RetInv (s : St) : Prop where
  ret  : retLog s ≠ [] → s.once = .done
  pc   : ∀ r, s.main = .returned r → s.once = .done

theorem retInv_init (caps : List Caps) (u : Nat) : RetInv (initSt caps u) := by
  refine ⟨by simp [retLog, initSt], by simp [initSt]⟩

@[simp] theorem next_ne_returned (s : St) (i : Nat) (r : Res) : (s.next i = .returned r) = False := by
  simp only [St.next]; split <;> simp

theorem retInv_frame {s s' : St} (hi : RetInv s) (ho : s.once = .done → s'.once = .done)
    (hl : retLog s' = retLog s) (hm : ∀ r, s'.main = .returned r → s.main = .returned r) : RetInv s' := by
  obtain ⟨h1, h2⟩ := hi
  refine ⟨?_, ?_⟩
  · rw [hl]; intro h; exact ho (h1 h)
  · intro r h; exact ho (h2 r (hm r h))

macro "ret_case" hi:ident hs:ident : tactic =>
  `(tactic| (
    simp only [step] at $hs:ident
    repeat' split at $hs:ident
    all_goals first
      | (simp at $hs:ident; done)
      | (simp only [Option.some.injEq] at $hs:ident
         subst $hs:ident
         exact retInv_frame $hi (by first | exact id | (intro h; simp_all [St.emit]))
           (by first | rfl | (simp [retLog, St.emit, List.filter_append, isMainRet]))
           (by first | (intro r h; exact h) | (intro r h; simp_all [St.emit])))))

theorem retInv_step {s s' : St} {a : Act} (hi : RetInv s) (hs : step s a = some s') : RetInv s' := by
  cases a with
  | sendSig g => ret_case hi hs
  | sigDeliver k => ret_case hi hs
  | sigDrop k => ret_case hi hs
  | parentCancel => ret_case hi hs
  | userCall u => ret_case hi hs
  | trigger j => ret_case hi hs
  | runReturn i o => ret_case hi hs
  | stopReturn => ret_case hi hs
  | pollAns i b => ret_case hi hs
  | tickAns i b => ret_case hi hs
  | ctxSeen i => ret_case hi hs
  | shutdownTimeout => ret_case hi hs
  | startupTimeoutFire => ret_case hi hs
  | mainStart => ret_case hi hs
  | mainLaunch i => ret_case hi hs
  | gateWake i => ret_case hi hs
  | gateErr i => ret_case hi hs
  | gateTimeout i => ret_case hi hs
  | gateCtx i => ret_case hi hs
  | gateTickFire i => ret_case hi hs
  | reapErr => ret_case hi hs
  | reapCtx => ret_case hi hs
  | reapSig => ret_case hi hs
  | rgInvoke i => ret_case hi hs
  | rgFinish i => ret_case hi hs
  | rgSend i => ret_case hi hs
  | sdStopInvoke => ret_case hi hs
  | sdCancel => ret_case hi hs
  | sdWaitDone => ret_case hi hs
  | sdClose => ret_case hi hs
  | userReturn u => ret_case hi hs
  | mgrExit m => ret_case hi hs
  | listenerFire j => ret_case hi hs
  | listenerCtx j => ret_case hi hs
  | listenerDone j => ret_case hi hs
  | onceEnter o =>
    obtain ⟨h1, h2⟩ := hi
    simp only [step] at hs
    split at hs
    · rename_i hc
      simp only [Option.some.injEq] at hs; subst hs
      simp at hc
      refine ⟨?_, ?_⟩
      · intro h; have := h1 h; simp [hc.1] at this
      · intro r h; have := h2 r h; simp [hc.1] at this
    · simp at hs
  | mainReturn =>
    simp only [step] at hs
    split at hs
    · split at hs
      · rename_i r _ hd
        simp only [Option.some.injEq] at hs; subst hs
        simp at hd
        exact ⟨fun _ => by simpa [St.emit] using hd, fun _ _ => by simpa [St.emit] using hd⟩
      · simp at hs
    · simp at hs

theorem retInv_reach {caps : List Caps} {u : Nat} {s : St} (h : Reachable caps u s) : RetInv s :=
  inv_of_reach (L := lts) RetInv (retInv_init caps u) (fun _ _ _ hi hs => retInv_step hi hs) h

end GoSup.Sup
