import GoSup.Model.Port
/-! Helper lemmas about the byte-string functions of the ValidatePort model. -/
namespace GoSup.Port

theorem hasByte_iff (s : Bytes) (c : UInt8) : hasByte s c = true ↔ c ∈ s := by
  simp [hasByte]

theorem hasByte_false_iff (s : Bytes) (c : UInt8) : hasByte s c = false ↔ c ∉ s := by
  simp [hasByte]

theorem hasByte_append (a b : Bytes) (c : UInt8) : hasByte (a ++ b) c = (hasByte a c || hasByte b c) := by
  simp [hasByte]

/-- splitting at the last colon when the tail has none -/
theorem splitLast_append (a p : Bytes) (c : UInt8) (hp : c ∉ p) :
    splitLast (a ++ c :: p) c = some (a, p) := by
  have hp0 : splitLast p c = none := by
    induction p with
    | nil => rfl
    | cons x xs ih =>
      have hx : x ≠ c := fun h => hp (by simp [h])
      have hxs : c ∉ xs := fun h => hp (by simp [h])
      simp [splitLast, ih hxs, hx]
  induction a with
  | nil => simp [splitLast, hp0]
  | cons x xs ih => simp [splitLast, ih]

theorem splitLast_none (s : Bytes) (c : UInt8) (h : c ∉ s) : splitLast s c = none := by
  induction s with
  | nil => rfl
  | cons x xs ih =>
    have hx : x ≠ c := fun e => h (by simp [e])
    have hxs : c ∉ xs := fun e => h (by simp [e])
    simp [splitLast, ih hxs, hx]

/-- splitting at the first closing bracket when the head has none -/
theorem splitFirst_append (a r : Bytes) (c : UInt8) (ha : c ∉ a) :
    splitFirst (a ++ c :: r) c = some (a, r) := by
  induction a with
  | nil => simp [splitFirst]
  | cons x xs ih =>
    have hx : x ≠ c := fun e => ha (by simp [e])
    have hxs : c ∉ xs := fun e => ha (by simp [e])
    simp [splitFirst, hx, ih hxs]

/-! ### digits -/

def allDigits (s : Bytes) : Prop := ∀ x ∈ s, isDigit x = true

theorem digit_ne {x c : UInt8} (hx : isDigit x = true) (hc : isDigit c = false) : x ≠ c := by
  intro e; subst e; simp [hx] at hc

theorem allDigits_not_mem {s : Bytes} (h : allDigits s) {c : UInt8} (hc : isDigit c = false) : c ∉ s :=
  fun hm => by have := h c hm; simp [this] at hc

theorem digitsValAux_digits (s : Bytes) (acc : Nat) (h : allDigits s) : ∃ v, digitsValAux s acc = some v := by
  induction s generalizing acc with
  | nil => exact ⟨acc, rfl⟩
  | cons x xs ih =>
    have hx := h x (by simp)
    simp only [digitsValAux, hx, if_true]
    exact ih _ (fun y hy => h y (by simp [hy]))

/-- the value of a digit string (total version, for statements) -/
def valOf (s : Bytes) : Nat := s.foldl (fun acc c => acc * 10 + (c.toNat - 48)) 0

theorem digitsValAux_eq (s : Bytes) (acc : Nat) (h : allDigits s) :
    digitsValAux s acc = some (s.foldl (fun a c => a * 10 + (c.toNat - 48)) acc) := by
  induction s generalizing acc with
  | nil => rfl
  | cons x xs ih =>
    have hx := h x (by simp)
    simp only [digitsValAux, hx, if_true, List.foldl_cons]
    exact ih _ (fun y hy => h y (by simp [hy]))

theorem digitsVal_eq (s : Bytes) (hne : s ≠ []) (h : allDigits s) : digitsVal s = some (valOf s) := by
  simp only [digitsVal, valOf]
  cases s with
  | nil => exact absurd rfl hne
  | cons x xs => simp [digitsValAux_eq _ _ h]

theorem atoi_digits (s : Bytes) (hne : s ≠ []) (h : allDigits s) :
    atoi s = if valOf s < 2 ^ 63 then some (valOf s : Int) else none := by
  cases s with
  | nil => exact absurd rfl hne
  | cons x xs =>
    have hx := h x (by simp)
    have h1 : (x == cMinus) = false := by
      have : x ≠ cMinus := digit_ne hx (by decide)
      simpa using this
    have h2 : (x == cPlus) = false := by
      have : x ≠ cPlus := digit_ne hx (by decide)
      simpa using this
    simp only [atoi, h1, h2, Bool.or_self, Bool.false_eq_true, if_false]
    rw [digitsVal_eq _ (by simp) h]

end GoSup.Port

namespace GoSup.Port

/-- a two-byte pattern occurs in `s` -/
theorem hasPrefix_two (s : Bytes) (x y : UInt8) :
    hasPrefix s [x, y] = match s with | a :: b :: _ => a == x && b == y | _ => false := by
  cases s with
  | nil => rfl
  | cons a t => cases t with
    | nil => simp [hasPrefix]
    | cons b u => simp [hasPrefix]

theorem containsSub_two_nil (x y : UInt8) : containsSub [] [x, y] = false := rfl

theorem containsSub_two_cons (a : UInt8) (s : Bytes) (x y : UInt8) :
    containsSub (a :: s) [x, y] = ((a == x && s.head? == some y) || containsSub s [x, y]) := by
  simp only [containsSub, hasPrefix_two]
  cases s with
  | nil => simp
  | cons b u => simp

/-- without the first byte of the pattern there is no occurrence -/
theorem containsSub_two_false (s : Bytes) (x y : UInt8) (h : x ∉ s) : containsSub s [x, y] = false := by
  induction s with
  | nil => rfl
  | cons a t ih =>
    have ha : a ≠ x := fun e => h (by simp [e])
    have ht : x ∉ t := fun e => h (by simp [e])
    rw [containsSub_two_cons, ih ht]; simp [ha]

/-- occurrences of a two-byte pattern in `a ++ b` -/
theorem containsSub_two_append (a b : Bytes) (x y : UInt8) :
    containsSub (a ++ b) [x, y] =
      (containsSub a [x, y] || (a.getLast? == some x && b.head? == some y) || containsSub b [x, y]) := by
  induction a with
  | nil => simp [containsSub_two_nil]
  | cons c t ih =>
    rw [List.cons_append, containsSub_two_cons, containsSub_two_cons, ih]
    cases t with
    | nil => simp; cases h1 : (c == x) <;> cases h2 : (b.head? == some y) <;> simp
    | cons d u =>
      simp [List.getLast?_cons_cons]
      cases (c == x && d == y) <;> simp

end GoSup.Port

namespace GoSup.Port

theorem splitLast_some (s a b : Bytes) (c : UInt8) (h : splitLast s c = some (a, b)) :
    s = a ++ c :: b ∧ c ∉ b := by
  induction s generalizing a with
  | nil => simp [splitLast] at h
  | cons x xs ih =>
    simp only [splitLast] at h
    cases hr : splitLast xs c with
    | some r =>
      obtain ⟨a', b'⟩ := r
      simp [hr] at h
      obtain ⟨rfl, rfl⟩ := h
      obtain ⟨e, hn⟩ := ih a' hr
      exact ⟨by simp [e], hn⟩
    | none =>
      simp [hr] at h
      obtain ⟨hx, rfl, rfl⟩ := h
      refine ⟨by simp [hx], ?_⟩
      -- no later occurrence: otherwise splitLast xs would have found it
      intro hm
      have : splitLast xs c ≠ none := by
        clear ih hr
        induction xs with
        | nil => simp at hm
        | cons y ys ihy =>
          simp only [splitLast]
          cases hys : splitLast ys c with
          | some r => simp
          | none =>
            simp
            rcases List.mem_cons.mp hm with e | e
            · exact e.symm
            · exact absurd hys (ihy e)
      exact this hr

theorem splitFirst_some (s a b : Bytes) (c : UInt8) (h : splitFirst s c = some (a, b)) :
    s = a ++ c :: b ∧ c ∉ a := by
  induction s generalizing a with
  | nil => simp [splitFirst] at h
  | cons x xs ih =>
    simp only [splitFirst] at h
    split at h
    · rename_i hx
      simp at h; obtain ⟨rfl, rfl⟩ := h
      simp at hx; simp [hx]
    · rename_i hx
      cases hr : splitFirst xs c with
      | none => simp [hr] at h
      | some r =>
        obtain ⟨a', b'⟩ := r
        simp [hr] at h
        obtain ⟨rfl, rfl⟩ := h
        obtain ⟨e, hn⟩ := ih a' hr
        refine ⟨by simp [e], ?_⟩
        simp at hx
        simp [hn]; exact fun e' => hx e'.symm

/-- what a successful `net.SplitHostPort` says about its argument -/
theorem split_ok_inv (x h p : Bytes) (hs : splitHostPort x = .ok (h, p)) :
    (cColon ∉ p ∧ cLbr ∉ p ∧ cRbr ∉ p ∧ cLbr ∉ h ∧ cRbr ∉ h) ∧
    ((x = h ++ cColon :: p ∧ cColon ∉ h) ∨ x = cLbr :: (h ++ cRbr :: cColon :: p)) := by
  simp only [splitHostPort] at hs
  cases hsl : splitLast x cColon with
  | none => simp [hsl] at hs
  | some r =>
    obtain ⟨pre, port⟩ := r
    obtain ⟨ex, hport⟩ := splitLast_some _ _ _ _ hsl
    simp only [hsl] at hs
    cases x with
    | nil => simp at hs
    | cons c rest =>
      simp only at hs
      split at hs
      · -- bracketed
        rename_i hc
        have hc' : c = cLbr := by simpa using hc
        cases hsf : splitFirst rest cRbr with
        | none => simp [hsf] at hs
        | some r2 =>
          obtain ⟨inner, after⟩ := r2
          obtain ⟨er, hin⟩ := splitFirst_some _ _ _ _ hsf
          simp only [hsf] at hs
          cases after with
          | nil => simp at hs
          | cons d p2 =>
            simp only at hs
            split at hs
            · rename_i hd
              have hd' : d = cColon := by simpa using hd
              split at hs
              · simp at hs
              · rename_i h1
                split at hs
                · simp at hs
                · rename_i h2
                  split at hs
                  · simp at hs
                  · rename_i h3
                    simp at hs
                    obtain ⟨rfl, rfl⟩ := hs
                    have a1 : cColon ∉ p2 := by simpa [hasByte] using h1
                    simp only [Bool.or_eq_true, not_or, Bool.not_eq_true] at h2
                    have a2 : cLbr ∉ inner := (hasByte_false_iff _ _).mp h2.1
                    have a3 : cLbr ∉ d :: p2 := (hasByte_false_iff _ _).mp h2.2
                    have a4 : cRbr ∉ d :: p2 := (hasByte_false_iff _ _).mp (by simpa using h3)
                    refine ⟨⟨a1, fun e => a3 (by simp [e]), fun e => a4 (by simp [e]), a2, hin⟩, .inr ?_⟩
                    rw [hc', er, hd']
            · simp at hs
      · -- plain
        rename_i hc
        split at hs
        · simp at hs
        · rename_i h1
          split at hs
          · simp at hs
          · rename_i h2
            split at hs
            · simp at hs
            · rename_i h3
              simp at hs
              obtain ⟨rfl, rfl⟩ := hs
              have a1 : cColon ∉ pre := (hasByte_false_iff _ _).mp (by simpa using h1)
              have a2 : cLbr ∉ c :: rest := (hasByte_false_iff _ _).mp (by simpa using h2)
              have a3 : cRbr ∉ c :: rest := (hasByte_false_iff _ _).mp (by simpa using h3)
              rw [ex] at a2 a3
              simp only [List.mem_append, List.mem_cons, not_or] at a2 a3
              exact ⟨⟨hport, a2.2.2, a3.2.2, a2.1, a3.1⟩, .inl ⟨ex, a1⟩⟩

/-- a successful `Atoi` with a positive value does not start with a minus sign -/
theorem atoi_pos_head (p : Bytes) (n : Int) (h : atoi p = some n) (hn : 1 ≤ n) : (p.head? == some cMinus) = false := by
  cases p with
  | nil => rfl
  | cons c rest =>
    simp only [List.head?_cons]
    by_cases hc : c = cMinus
    · subst hc
      simp only [atoi] at h
      have e1 : (cMinus == cMinus) = true := by decide
      simp only [e1, Bool.true_or, if_true] at h
      cases hd : digitsVal rest with
      | none => simp [hd] at h
      | some m =>
        simp [hd] at h
        obtain ⟨_, rfl⟩ := h
        omega
    · simpa using hc

end GoSup.Port
