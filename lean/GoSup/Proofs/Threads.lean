import GoSup.Model.Threads
/-! # Invariant of the goroutine machine: every live goroutine is parked at a point of its site -/
namespace GoSup.Threads
variable {σ : Type} [DecidableEq σ]

def AtPoints (pts : σ → List (List (Cls σ))) (s : St σ) : Prop := ∀ t ∈ s.live, t.pt ∈ pts t.site

theorem atPoints_reach {pts : σ → List (List (Cls σ))} {s : St σ} (h : Reach pts s) : AtPoints pts s := by
  induction h with
  | init => intro t ht; simp at ht
  | step _ hs ih =>
    cases hs with
    | spawn site p _ hp =>
      intro t ht
      simp only [List.mem_cons] at ht
      rcases ht with rfl | ht
      · exact hp
      · exact ih t ht
    | move i h p _ hp =>
      intro t ht
      simp only at ht
      rcases List.mem_or_eq_of_mem_set ht with ht | rfl
      · exact ih t ht
      · exact hp
    | finish i h _ =>
      intro t ht
      exact ih t (List.mem_of_mem_eraseIdx ht)
    | terminate => exact ih
    | offer n => exact ih

/-- the core argument: in a terminated quiescent state a goroutine of rank `n` cannot be alive -/
theorem no_live_of_rank {pts : σ → List (List (Cls σ))} {rank : σ → Nat} (hsafe : SafeTable pts rank)
    {s : St σ} (hat : AtPoints pts s) (hterm : s.term = true) (hq : Quiescent s) :
    ∀ n, ∀ t ∈ s.live, rank t.site = n → False := by
  intro n
  induction n using Nat.strongRecOn with
  | _ n ih =>
    intro t ht hr
    have hp := hsafe t.site t.pt (hat t ht)
    have hdis := hq t ht
    simp only [safePoint, List.any_eq_true] at hp
    obtain ⟨a, ha, hsa⟩ := hp
    have hne : altEnabled s a = false := by
      simp only [enabled, List.any_eq_false] at hdis
      have := hdis a ha
      simpa using this
    cases a with
    | nb => simp [altEnabled] at hne
    | term => simp [altEnabled, hterm] at hne
    | peer => simp [safeAlt] at hsa
    | wait S =>
      simp only [altEnabled, List.all_eq_false] at hne
      obtain ⟨t', ht', hc⟩ := hne
      simp only [Bool.not_eq_true, Bool.not_eq_false', List.contains_eq_mem, decide_eq_true_eq] at hc
      simp only [safeAlt, List.all_eq_true, decide_eq_true_eq] at hsa
      have hlt := hsa t'.site hc
      exact ih (rank t'.site) (by omega) t' ht' rfl

end GoSup.Threads
