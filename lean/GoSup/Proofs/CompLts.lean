import GoSup.Model.CompLts
/-!
# Invariants of the concurrent composite model, for every interleaving
-/
namespace GoSup.CompLts
open GoSup.Core GoSup.CompSeq

theorem getElem?_modify' {α : Type} (l : List α) (i j : Nat) (f : α → α) :
    (l.modify i f)[j]? = if i = j then l[j]?.map f else l[j]? := by
  by_cases h : i = j
  · subst h; simp
  · simp [h]

/-- facts about the generations alone -/
structure GInv (gens : List Gen) (live : Option Nat) : Prop where
  fromRun : ∀ g ∈ gens, g.fromRun = true
  oneLive : ∀ i g, gens[i]? = some g → g.cancelled = false → live = some i
  liveLt  : ∀ i, live = some i → i < gens.length

theorem ginv_nil : GInv [] none := ⟨by simp, by simp, by simp⟩

theorem ginv_boot {gens : List Gen} (h : GInv gens none) (cfg : List (Nat × Nat)) :
    GInv (gens ++ [newGen true cfg]) (some gens.length) := by
  refine ⟨?_, ?_, ?_⟩
  · intro g hg
    rcases List.mem_append.mp hg with hg | hg
    · exact h.fromRun g hg
    · simp only [List.mem_singleton] at hg; subst hg; rfl
  · intro i g hi hc
    by_cases hlt : i < gens.length
    · rw [List.getElem?_append_left hlt] at hi
      have := h.oneLive i g hi hc
      cases this
    · have hge : gens.length ≤ i := Nat.le_of_not_lt hlt
      rw [List.getElem?_append_right hge] at hi
      have : i - gens.length = 0 := by
        cases hk : i - gens.length with
        | zero => rfl
        | succ k => rw [hk] at hi; simp at hi
      have : i = gens.length := by omega
      rw [this]
  · intro i hi
    cases hi
    simp

theorem ginv_cancel {gens : List Gen} {g0 : Nat} (h : GInv gens (some g0)) :
    GInv (gens.modify g0 fun x => { x with cancelled := true }) none := by
  refine ⟨?_, ?_, ?_⟩
  · intro g hg
    obtain ⟨i, hi⟩ := List.getElem?_of_mem hg
    rw [getElem?_modify'] at hi
    split at hi
    · cases hx : gens[i]? with
      | none => simp [hx] at hi
      | some x =>
        simp only [hx, Option.map_some, Option.some.injEq] at hi
        subst hi
        exact h.fromRun x (List.mem_of_getElem? hx)
    · exact h.fromRun g (List.mem_of_getElem? hi)
  · intro i g hi hc
    rw [getElem?_modify'] at hi
    split at hi
    · cases hx : gens[i]? with
      | none => simp [hx] at hi
      | some x =>
        simp only [hx, Option.map_some, Option.some.injEq] at hi
        subst hi
        simp at hc
    · rename_i hne
      have := h.oneLive i g hi hc
      cases this
      exact absurd rfl hne
  · intro i hi; cases hi

theorem ginv_setChildren {gens : List Gen} {live : Option Nat} (h : GInv gens live) (g0 : Nat)
    (f : List (Nat × ChildSt) → List (Nat × ChildSt)) :
    GInv (gens.modify g0 fun x => { x with children := f x.children }) live := by
  refine ⟨?_, ?_, ?_⟩
  · intro g hg
    obtain ⟨i, hi⟩ := List.getElem?_of_mem hg
    rw [getElem?_modify'] at hi
    split at hi
    · cases hx : gens[i]? with
      | none => simp [hx] at hi
      | some x =>
        simp only [hx, Option.map_some, Option.some.injEq] at hi
        subst hi
        exact h.fromRun x (List.mem_of_getElem? hx)
    · exact h.fromRun g (List.mem_of_getElem? hi)
  · intro i g hi hc
    rw [getElem?_modify'] at hi
    split at hi
    · cases hx : gens[i]? with
      | none => simp [hx] at hi
      | some x =>
        simp only [hx, Option.map_some, Option.some.injEq] at hi
        subst hi
        exact h.oneLive i x hx hc
    · exact h.oneLive i g hi hc
  · intro i hi
    rw [List.length_modify]
    exact h.liveLt i hi

/-- the invariant of the whole model -/
structure Inv (s : St) : Prop where
  g        : GInv s.gens s.live
  nilBoot  : s.nilBoot = false
  ctxSet   : s.run ≠ .idle → s.rctx = true
  early    : (s.run = .idle ∨ s.run = .entered) →
               s.rl = .idle ∧ s.gens = [] ∧ s.live = none ∧ (s.fsm = .new ∨ s.fsm = .booting ∨ s.fsm = .error)
  rlLive   : ((∃ cfg, s.rl = .stoppedOld cfg) ∨ s.rl = .configSet) → s.live = none
  returned : ∀ r, s.run = .returned r → s.runCancelled = true

theorem inv_init (b : List Nat) : Inv (init b) := by
  refine ⟨ginv_nil, rfl, ?_, ?_, ?_, ?_⟩ <;> simp [init]

/-! projections of the helpers -/
section proj
variable (s : St)

@[simp] theorem boot_run (f : Bool) (c : List (Nat × Nat)) : (boot s f c).run = s.run := by unfold boot; split <;> rfl
@[simp] theorem boot_rl (f : Bool) (c : List (Nat × Nat)) : (boot s f c).rl = s.rl := by unfold boot; split <;> rfl
@[simp] theorem boot_fsm (f : Bool) (c : List (Nat × Nat)) : (boot s f c).fsm = s.fsm := by unfold boot; split <;> rfl
@[simp] theorem boot_rctx (f : Bool) (c : List (Nat × Nat)) : (boot s f c).rctx = s.rctx := by unfold boot; split <;> rfl
@[simp] theorem boot_runCancelled (f : Bool) (c : List (Nat × Nat)) : (boot s f c).runCancelled = s.runCancelled := by
  unfold boot; split <;> rfl
@[simp] theorem cancelLive_run : (cancelLive s).run = s.run := by unfold cancelLive; split <;> rfl
@[simp] theorem cancelLive_rl : (cancelLive s).rl = s.rl := by unfold cancelLive; split <;> rfl
@[simp] theorem cancelLive_fsm : (cancelLive s).fsm = s.fsm := by unfold cancelLive; split <;> rfl
@[simp] theorem cancelLive_rctx : (cancelLive s).rctx = s.rctx := by unfold cancelLive; split <;> rfl
@[simp] theorem cancelLive_nilBoot : (cancelLive s).nilBoot = s.nilBoot := by unfold cancelLive; split <;> rfl
@[simp] theorem cancelLive_runCancelled : (cancelLive s).runCancelled = s.runCancelled := by unfold cancelLive; split <;> rfl
@[simp] theorem cancelLive_live : (cancelLive s).live = none := by
  unfold cancelLive; split
  · rename_i h; exact h
  · rfl

theorem ginv_cancelLive (h : GInv s.gens s.live) : GInv (cancelLive s).gens (cancelLive s).live := by
  unfold cancelLive
  split
  · exact h
  · rename_i g0 hl
    rw [hl] at h
    exact ginv_cancel h

theorem ginv_bootRun (h : GInv s.gens none) (hl : s.live = none) (c : List (Nat × Nat)) :
    GInv (boot s true c).gens (boot s true c).live := by
  unfold boot
  split
  · rw [hl]; exact h
  · exact ginv_boot h c

theorem boot_nilBoot (c : List (Nat × Nat)) (h : s.nilBoot = false) : (boot s true c).nilBoot = false := by
  unfold boot; split
  · exact h
  · simp [h]

theorem ginv_setChild (h : GInv s.gens s.live) (g c : Nat) (st : ChildSt) : GInv (setChild s g c st).gens (setChild s g c st).live :=
  ginv_setChildren h g _

end proj

end GoSup.CompLts

namespace GoSup.CompLts
open GoSup.Core GoSup.CompSeq

theorem tr_some {s : St} {to f : Fsm} (h : tr s to = some f) : f = to ∧ allowed s.fsm to = true := by
  unfold tr at h; split at h
  · rename_i ha; cases h; exact ⟨rfl, ha⟩
  · cases h

theorem tr_none {s : St} {to : Fsm} (h : tr s to = none) : allowed s.fsm to = false := by
  unfold tr at h; split at h
  · cases h
  · rename_i ha; simpa using ha

theorem setChild_fields (s : St) (g c : Nat) (st : ChildSt) :
    (setChild s g c st).run = s.run ∧ (setChild s g c st).rl = s.rl ∧ (setChild s g c st).fsm = s.fsm
    ∧ (setChild s g c st).rctx = s.rctx ∧ (setChild s g c st).nilBoot = s.nilBoot
    ∧ (setChild s g c st).runCancelled = s.runCancelled ∧ (setChild s g c st).live = s.live := ⟨rfl, rfl, rfl, rfl, rfl, rfl, rfl⟩

theorem setChild_gens_nil (s : St) (g c : Nat) (st : ChildSt) (h : s.gens = []) : (setChild s g c st).gens = [] := by
  simp [setChild, h]

/-- every action of every thread preserves the invariant -/
theorem inv_step {s s' : St} {a : Act} (h : Inv s) (hs : step s a = some s') : Inv s' := by
  cases a with
  | runEnter =>
    simp only [step] at hs
    split at hs
    · cases hs
    · rename_i hc
      simp only [Bool.or_eq_true, bne_iff_ne, ne_eq, not_or, Decidable.not_not] at hc
      obtain ⟨hrun, hmu⟩ := hc
      obtain ⟨e1, e2, e3, e4⟩ := h.early (Or.inl hrun)
      split at hs
      · rename_i f hf
        obtain ⟨rfl, _⟩ := tr_some hf
        cases hs
        exact ⟨by simpa [e2, e3] using ginv_nil, h.nilBoot, by simp, by simp [e1, e2, e3], by simp [e1], by simp⟩
      · cases hs
        exact ⟨by simpa [e2, e3] using ginv_nil, h.nilBoot, by simp, by simp, by simp [e1], by simp⟩
  | runBoot res =>
    simp only [step] at hs
    split at hs
    · cases hs
    · rename_i hc
      simp only [Bool.or_eq_true, bne_iff_ne, ne_eq, not_or, Decidable.not_not] at hc
      obtain ⟨hrun, hmu⟩ := hc
      obtain ⟨e1, e2, e3, e4⟩ := h.early (Or.inr hrun)
      have hctx : s.rctx = true := h.ctxSet (by rw [hrun]; simp)
      have hg0 : GInv s.gens none := by rw [← e3]; exact h.g
      split at hs
      · cases hs
        exact ⟨ginv_bootRun s hg0 e3 _, boot_nilBoot s _ h.nilBoot, by simp [hctx], by simp, by simp [e1], by simp⟩
      · cases hs
        refine ⟨?_, ?_, by simp [hctx], by simp, by simp [e1], by simp⟩
        · show GInv (boot _ true _).gens (boot _ true _).live
          apply ginv_bootRun
          · exact hg0
          · exact e3
        · show (boot _ true _).nilBoot = false
          apply boot_nilBoot
          exact h.nilBoot
      · cases hs
        exact ⟨h.g, h.nilBoot, by simp [hctx], by simp, by simp [e1], by simp⟩
  | runBootFail =>
    simp only [step] at hs
    split at hs
    · cases hs
    · rename_i hc
      simp only [bne_iff_ne, ne_eq, Decidable.not_not] at hc
      have hctx : s.rctx = true := h.ctxSet (by rw [hc]; simp)
      cases hs
      exact ⟨h.g, h.nilBoot, by simp [hctx], by simp, h.rlLive, by simp⟩
  | runToRunning =>
    simp only [step] at hs
    split at hs
    · cases hs
    · rename_i hc
      simp only [bne_iff_ne, ne_eq, Decidable.not_not] at hc
      have hctx : s.rctx = true := h.ctxSet (by rw [hc]; simp)
      split at hs
      · cases hs
        exact ⟨h.g, h.nilBoot, by simp [hctx], by simp, h.rlLive, by simp⟩
      · cases hs
        exact ⟨h.g, h.nilBoot, by simp [hctx], by simp, h.rlLive, by simp⟩
  | runSelCtx =>
    simp only [step] at hs
    split at hs
    · rename_i hc
      simp only [Bool.and_eq_true, beq_iff_eq] at hc
      have hctx : s.rctx = true := h.ctxSet (by rw [hc.1]; simp)
      cases hs
      exact ⟨h.g, h.nilBoot, by simp [hctx], by simp, h.rlLive, by simp⟩
    · cases hs
  | runSelStop =>
    simp only [step] at hs
    split at hs
    · rename_i hc
      simp only [Bool.and_eq_true, beq_iff_eq] at hc
      have hctx : s.rctx = true := h.ctxSet (by rw [hc.1]; simp)
      cases hs
      exact ⟨h.g, h.nilBoot, by simp [hctx], by simp, h.rlLive, by simp⟩
    · cases hs
  | runSelErr =>
    simp only [step] at hs
    split at hs
    · cases hs
    · rename_i hc
      simp only [bne_iff_ne, ne_eq, Decidable.not_not] at hc
      have hctx : s.rctx = true := h.ctxSet (by rw [hc]; simp)
      split at hs
      · cases hs
        exact ⟨h.g, h.nilBoot, by simp [hctx], by simp, h.rlLive, by simp⟩
      · cases hs
  | runToStopping =>
    simp only [step] at hs
    split at hs
    · cases hs
    · rename_i hc
      simp only [bne_iff_ne, ne_eq, Decidable.not_not] at hc
      have hctx : s.rctx = true := h.ctxSet (by rw [hc]; simp)
      cases hs
      exact ⟨h.g, h.nilBoot, by simp [hctx], by simp, h.rlLive, by simp⟩
  | runStopBegin =>
    simp only [step] at hs
    split at hs
    · cases hs
    · split at hs
      · rename_i hr _
        have hctx : s.rctx = true := h.ctxSet (by rw [hr]; simp)
        cases hs
        exact ⟨h.g, h.nilBoot, by simp [hctx], by simp, h.rlLive, by simp⟩
      · rename_i hr _
        have hctx : s.rctx = true := h.ctxSet (by rw [hr]; simp)
        cases hs
        exact ⟨h.g, h.nilBoot, by simp [hctx], by simp, h.rlLive, by simp⟩
      · cases hs
  | runStopEnd =>
    simp only [step] at hs
    split at hs
    · rename_i hr
      have hctx : s.rctx = true := h.ctxSet (by rw [hr]; simp)
      cases hs
      exact ⟨ginv_cancelLive s h.g, by simpa using h.nilBoot, by simp [hctx], by simp, by simp, by simp⟩
    · rename_i hr
      have hctx : s.rctx = true := h.ctxSet (by rw [hr]; simp)
      cases hs
      exact ⟨ginv_cancelLive s h.g, by simpa using h.nilBoot, by simp [hctx], by simp, by simp, by simp⟩
    · cases hs
  | runFinish =>
    simp only [step] at hs
    split at hs
    · cases hs
    · rename_i hc
      simp only [bne_iff_ne, ne_eq, Decidable.not_not] at hc
      have hctx : s.rctx = true := h.ctxSet (by rw [hc]; simp)
      split at hs
      · cases hs
        exact ⟨h.g, h.nilBoot, by simp [hctx], by simp, h.rlLive, by simp⟩
      · cases hs
        exact ⟨h.g, h.nilBoot, by simp [hctx], by simp, h.rlLive, by simp⟩
  | rlEnter =>
    simp only [step] at hs
    split at hs
    · cases hs
    · rename_i hc
      simp only [Bool.or_eq_true, bne_iff_ne, ne_eq, not_or, Decidable.not_not] at hc
      obtain ⟨hc, _⟩ := hc
      split at hs
      · rename_i f hf
        obtain ⟨rfl, hal⟩ := tr_some hf
        cases hs
        refine ⟨h.g, h.nilBoot, h.ctxSet, ?_, by simp, h.returned⟩
        intro he
        obtain ⟨_, _, _, e4⟩ := h.early he
        rcases e4 with e4 | e4 | e4 <;> rw [e4] at hal <;> simp [allowed] at hal
      · cases hs
        refine ⟨h.g, h.nilBoot, h.ctxSet, ?_, by simp [hc], h.returned⟩
        intro he
        obtain ⟨e1, e2, e3, _⟩ := h.early he
        exact ⟨e1, e2, e3, Or.inr (Or.inr rfl)⟩
  | rlCallback res =>
    simp only [step] at hs
    split at hs
    · cases hs
    · rename_i hc
      simp only [bne_iff_ne, ne_eq, Decidable.not_not] at hc
      have hne : ¬ (s.run = .idle ∨ s.run = .entered) := fun he => by
        have := (h.early he).1; rw [hc] at this; cases this
      cases hs
      exact ⟨h.g, h.nilBoot, h.ctxSet, fun he => absurd he hne, by simp, h.returned⟩
  | rlAfterCb =>
    simp only [step] at hs
    split at hs
    · rename_i cfg hc
      have hne : ¬ (s.run = .idle ∨ s.run = .entered) := fun he => by
        have := (h.early he).1; rw [hc] at this; cases this
      cases hs
      exact ⟨h.g, h.nilBoot, h.ctxSet, fun he => absurd he hne, by simp, h.returned⟩
    · rename_i r _ hc
      have hne : ¬ (s.run = .idle ∨ s.run = .entered) := fun he => by
        have := (h.early he).1; rw [hc] at this; cases this
      cases hs
      exact ⟨h.g, h.nilBoot, h.ctxSet, fun he => absurd he hne, by simp, h.returned⟩
    · cases hs
  | rlDecide =>
    simp only [step] at hs
    split at hs
    · rename_i cfg hc
      have hne : ¬ (s.run = .idle ∨ s.run = .entered) := fun he => by
        have := (h.early he).1; rw [hc] at this; cases this
      cases hs
      refine ⟨h.g, h.nilBoot, h.ctxSet, fun he => absurd he hne, ?_, h.returned⟩
      simp only
      split <;> simp
    · cases hs
  | rlStopBegin =>
    simp only [step] at hs
    split at hs
    · rename_i cfg cur hc _ _
      have hne : ¬ (s.run = .idle ∨ s.run = .entered) := fun he => by
        have := (h.early he).1; rw [hc] at this; cases this
      cases hs
      exact ⟨h.g, h.nilBoot, h.ctxSet, fun he => absurd he hne, by simp, h.returned⟩
    · cases hs
  | rlStopEnd =>
    simp only [step] at hs
    split at hs
    · rename_i cfg hc
      have hne : ¬ (s.run = .idle ∨ s.run = .entered) := fun he => by
        have := (h.early he).1; rw [hc] at this; cases this
      cases hs
      exact ⟨ginv_cancelLive s h.g, by simpa using h.nilBoot, by simpa using h.ctxSet, fun he => absurd (by simpa using he) hne,
        by simp, by simpa using h.returned⟩
    · cases hs
  | rlSetConfig =>
    simp only [step] at hs
    split at hs
    · rename_i cfg hc
      have hne : ¬ (s.run = .idle ∨ s.run = .entered) := fun he => by
        have := (h.early he).1; rw [hc] at this; cases this
      have hl := h.rlLive (Or.inl ⟨cfg, hc⟩)
      cases hs
      exact ⟨h.g, h.nilBoot, h.ctxSet, fun he => absurd he hne, fun _ => hl, h.returned⟩
    · rename_i cfg hc
      have hne : ¬ (s.run = .idle ∨ s.run = .entered) := fun he => by
        have := (h.early he).1; rw [hc] at this; cases this
      cases hs
      exact ⟨h.g, h.nilBoot, h.ctxSet, fun he => absurd he hne, by simp, h.returned⟩
    · cases hs
  | rlBoot =>
    simp only [step] at hs
    split at hs
    · cases hs
    · rename_i hc
      simp only [Bool.or_eq_true, bne_iff_ne, ne_eq, not_or, Decidable.not_not] at hc
      obtain ⟨hrl, hmu⟩ := hc
      have hne : ¬ (s.run = .idle ∨ s.run = .entered) := fun he => by
        have := (h.early he).1; rw [hrl] at this; cases this
      have hctx : s.rctx = true := h.ctxSet (fun hi => hne (Or.inl hi))
      have hl := h.rlLive (Or.inr hrl)
      have hg0 : GInv s.gens none := by rw [← hl]; exact h.g
      split at hs
      · cases hs
        rw [hctx]
        exact ⟨ginv_bootRun s hg0 hl _, boot_nilBoot s _ h.nilBoot, by simpa using h.ctxSet,
          fun he => absurd (by simpa using he) hne, by simp, by simpa using h.returned⟩
      · cases hs
  | rlChildReload =>
    simp only [step] at hs
    split at hs
    · rename_i hc
      simp only [beq_iff_eq] at hc
      have hne : ¬ (s.run = .idle ∨ s.run = .entered) := fun he => by
        have := (h.early he).1; rw [hc] at this; cases this
      cases hs
      exact ⟨h.g, h.nilBoot, h.ctxSet, fun he => absurd he hne, by simp, h.returned⟩
    · cases hs
  | rlFinish =>
    simp only [step] at hs
    split at hs
    · cases hs
    · rename_i hc
      simp only [bne_iff_ne, ne_eq, Decidable.not_not] at hc
      have hne : ¬ (s.run = .idle ∨ s.run = .entered) := fun he => by
        have := (h.early he).1; rw [hc] at this; cases this
      split at hs
      · cases hs
        exact ⟨h.g, h.nilBoot, h.ctxSet, fun he => absurd he hne, by simp, h.returned⟩
      · cases hs
        exact ⟨h.g, h.nilBoot, h.ctxSet, fun he => absurd he hne, by simp, h.returned⟩
  | stopCall =>
    simp only [step] at hs
    cases hs
    exact ⟨h.g, h.nilBoot, h.ctxSet, h.early, h.rlLive, h.returned⟩
  | cancelCtx =>
    simp only [step] at hs
    cases hs
    exact ⟨h.g, h.nilBoot, h.ctxSet, h.early, h.rlLive, fun r hr => by simp [h.returned r hr]⟩
  | childRun g c =>
    simp only [step] at hs
    split at hs
    · cases hs
      refine ⟨ginv_setChild s h.g g c _, h.nilBoot, h.ctxSet, ?_, h.rlLive, h.returned⟩
      intro he
      obtain ⟨e1, e2, e3, e4⟩ := h.early he
      exact ⟨e1, setChild_gens_nil s g c _ e2, e3, e4⟩
    · cases hs
  | childExit g c o =>
    simp only [step] at hs
    split at hs
    · cases hs
      split
      · refine ⟨ginv_setChild s h.g g c _, h.nilBoot, h.ctxSet, ?_, h.rlLive, h.returned⟩
        intro he
        obtain ⟨e1, e2, e3, e4⟩ := h.early he
        exact ⟨e1, setChild_gens_nil s g c _ e2, e3, e4⟩
      · refine ⟨ginv_setChild s h.g g c _, h.nilBoot, h.ctxSet, ?_, h.rlLive, h.returned⟩
        intro he
        obtain ⟨e1, e2, e3, e4⟩ := h.early he
        exact ⟨e1, setChild_gens_nil s g c _ e2, e3, e4⟩
    · cases hs
  | childExitDropped g c =>
    simp only [step] at hs
    split at hs
    · cases hs
      refine ⟨ginv_setChild s h.g g c _, h.nilBoot, h.ctxSet, ?_, h.rlLive, h.returned⟩
      intro he
      obtain ⟨e1, e2, e3, e4⟩ := h.early he
      exact ⟨e1, setChild_gens_nil s g c _ e2, e3, e4⟩
    · cases hs
  | childStopRet c =>
    simp only [step] at hs
    split at hs
    · rename_i p hr
      have hctx : s.rctx = true := h.ctxSet (by rw [hr]; simp)
      split at hs
      · cases hs
        exact ⟨h.g, h.nilBoot, by simp [hctx], by simp, h.rlLive, by simp⟩
      · cases hs
    · rename_i p e hr
      have hctx : s.rctx = true := h.ctxSet (by rw [hr]; simp)
      split at hs
      · cases hs
        exact ⟨h.g, h.nilBoot, by simp [hctx], by simp, h.rlLive, by simp⟩
      · cases hs
    · rename_i hr _ _
      have hne : ¬ (s.run = .idle ∨ s.run = .entered) := fun he => by
        have := (h.early he).1; rw [hr] at this; cases this
      split at hs
      · cases hs
        exact ⟨h.g, h.nilBoot, h.ctxSet, fun he => absurd he hne, by simp, h.returned⟩
      · cases hs
    · cases hs
  | stopDone =>
    simp only [step] at hs
    split at hs
    · cases hs; exact h
    · cases hs
  | reloadCall =>
    simp only [step] at hs
    cases hs
    exact ⟨h.g, h.nilBoot, h.ctxSet, h.early, h.rlLive, h.returned⟩
  | reloadAck st =>
    simp only [step] at hs
    split at hs
    · cases hs; exact ⟨h.g, h.nilBoot, h.ctxSet, h.early, h.rlLive, h.returned⟩
    · cases hs
  | retAck r st =>
    simp only [step] at hs
    split at hs
    · cases hs
    · split at hs
      · split at hs
        · cases hs; exact ⟨h.g, h.nilBoot, h.ctxSet, h.early, h.rlLive, h.returned⟩
        · cases hs
      · cases hs
  | observe st =>
    simp only [step] at hs
    split at hs
    · cases hs; exact h
    · cases hs
  | childStopInv c =>
    have key : Inv (if ranAndReturned s c = true then { s with okd := c :: s.okd } else s) := by
      split
      · exact ⟨h.g, h.nilBoot, h.ctxSet, h.early, h.rlLive, h.returned⟩
      · exact h
    simp only [step] at hs
    split at hs
    · split at hs
      · cases hs; exact key
      · cases hs
    · split at hs
      · cases hs; exact key
      · cases hs
    · split at hs
      · cases hs; exact key
      · cases hs
    · cases hs

end GoSup.CompLts
