import GoSup.Model.Locks
namespace GoSup.Locks

theorem inv_init (guard : Var → Lock) : Inv guard init :=
  ⟨fun _ _ h => by simp [init] at h, fun _ _ _ h => by simp [init] at h⟩

theorem inv_step {guard : Var → Lock} {s s' : St} {a : Act} (hi : Inv guard s) (hs : Step guard s a s') :
    Inv guard s' := by
  obtain ⟨h1, h2⟩ := hi
  have hok := hs.ok
  cases a with
  | acqW t l =>
    obtain ⟨hw, hr, rfl⟩ := hok
    refine ⟨?_, ?_⟩
    · intro l' t0 h t'
      simp only at h ⊢
      by_cases hl : l' = l
      · subst hl; exact hr t'
      · simp [hl] at h; exact h1 l' t0 h t'
    · intro t0 x w h
      have := h2 t0 x w h
      simp only
      by_cases hl : guard x = l
      · cases w <;> simp_all
      · cases w <;> simp_all
  | relW t l =>
    obtain ⟨hw, hng, rfl⟩ := hok
    refine ⟨?_, ?_⟩
    · intro l' t0 h t'
      simp only at h ⊢
      by_cases hl : l' = l
      · simp [hl] at h
      · simp [hl] at h; exact h1 l' t0 h t'
    · intro t0 x w h
      have hh := h2 t0 x w h
      simp only at h ⊢
      by_cases hl : guard x = l
      · -- the released lock guards x: then t0 ≠ t (t is not inside an access guarded by l)
        have ht : t0 ≠ t := by
          intro e; subst e; exact hng x w h hl
        cases w with
        | true => simp at hh; rw [hl, hw] at hh; simp at hh; exact absurd hh.symm ht
        | false =>
          simp at hh
          rcases hh with hh | hh
          · rw [hl, hw] at hh; simp at hh; exact absurd hh.symm ht
          · have := h1 l t hw t0; rw [hl] at hh; simp [this] at hh
      · cases w <;> simp_all
  | acqR t l =>
    obtain ⟨hw, rfl⟩ := hok
    refine ⟨?_, ?_⟩
    · intro l' t0 h t'
      simp only at h ⊢
      by_cases hl : l' = l
      · subst hl; simp [hw] at h
      · simp [hl]; exact h1 l' t0 h t'
    · intro t0 x w h
      have hh := h2 t0 x w h
      simp only at h ⊢
      cases w with
      | true => simpa using hh
      | false =>
        simp at hh ⊢
        rcases hh with hh | hh
        · exact .inl hh
        · exact .inr (by by_cases hc : guard x = l ∧ t0 = t <;> simp [hc, hh])
  | relR t l =>
    obtain ⟨hr, hng, rfl⟩ := hok
    refine ⟨?_, ?_⟩
    · intro l' t0 h t'
      simp only at h ⊢
      by_cases hc : l' = l ∧ t' = t
      · simp [hc]
      · simp [hc]; exact h1 l' t0 h t'
    · intro t0 x w h
      have hh := h2 t0 x w h
      simp only at h ⊢
      cases w with
      | true => simpa using hh
      | false =>
        simp at hh ⊢
        rcases hh with hh | hh
        · exact .inl hh
        · refine .inr ?_
          by_cases hc : guard x = l ∧ t0 = t
          · obtain ⟨hl, ht⟩ := hc; subst ht; exact absurd hl (hng x false h)
          · exact ⟨by
              by_cases h1' : guard x = l
              · exact .inr (fun h2' => hc ⟨h1', h2'⟩)
              · exact .inl h1', hh⟩
  | beginAcc t x w =>
    obtain ⟨hn, hd, rfl⟩ := hok
    refine ⟨h1, ?_⟩
    intro t0 x0 w0 h
    simp only at h
    by_cases ht : t0 = t
    · subst ht; simp at h; obtain ⟨rfl, rfl⟩ := h; exact hd
    · simp [ht] at h; exact h2 t0 x0 w0 h
  | endAcc t =>
    have : s' = { s with inAcc := fun t' => if t' = t then none else s.inAcc t' } := hok
    subst this
    refine ⟨h1, ?_⟩
    intro t0 x0 w0 h
    simp only at h
    by_cases ht : t0 = t
    · simp [ht] at h
    · simp [ht] at h; exact h2 t0 x0 w0 h

theorem inv_reach {guard : Var → Lock} {s : St} (h : Reach guard s) : Inv guard s := by
  induction h with
  | init => exact inv_init guard
  | step _ hs ih => exact inv_step ih hs

end GoSup.Locks
