import GoSup.Model.Planner
/-!
# The diff planner under the NoClash precondition: lemmas about association lists and `buildPending`
-/
namespace GoSup.Planner

theorem get_map_replace (m : Entries) (k k' : String) (e : Entry) :
    get (m.map fun p => if p.1 == k then (k, e) else p) k'
      = if k' = k then (if (get m k).isSome then some e else none) else get m k' := by
  induction m with
  | nil => by_cases h : k' = k <;> simp [get, h]
  | cons p t ih =>
    obtain ⟨pk, pe⟩ := p
    simp only [beq_iff_eq] at ih
    by_cases h1 : pk = k
    · subst h1
      by_cases h2 : k' = pk
      · subst h2; simp [get]
      · have h3 : ¬ pk = k' := fun h => h2 h.symm
        simp [get, h2, h3, ih]
    · by_cases h2 : k' = k
      · subst h2
        simp [get, h1, ih]
      · by_cases h3 : pk = k'
        · subst h3; simp [get, h1]
        · simp [get, h1, h2, h3, ih]

theorem get_append_single (m : Entries) (k k' : String) (e : Entry) :
    get (m ++ [(k, e)]) k' = match get m k' with
      | some x => some x
      | none => if k' = k then some e else none := by
  induction m with
  | nil =>
    by_cases h : k' = k
    · subst h; simp [get]
    · have : ¬ k = k' := fun h' => h h'.symm
      simp [get, h, this]
  | cons p t ih =>
    obtain ⟨pk, pe⟩ := p
    by_cases h3 : pk = k'
    · subst h3; simp [get]
    · simp [get, h3, ih]

theorem get_put (m : Entries) (k k' : String) (e : Entry) :
    get (put m k e) k' = if k' = k then some e else get m k' := by
  unfold put
  split
  · rename_i hsome
    rw [get_map_replace]; simp [hsome]
  · rename_i hnone
    have hnone' : get m k = none := by simpa using hnone
    rw [get_append_single]
    by_cases h : k' = k
    · subst h; simp [hnone']
    · simp only [h, if_false]
      cases get m k' <;> rfl

def keysOf (ps : List (String × Entry)) : List String := ps.map (·.1)

/-- puts at other keys do not change what is stored under `k` -/
theorem get_foldl_put_of_not_mem (ps : List (String × Entry)) (m : Entries) (k : String) (h : k ∉ keysOf ps) :
    get (ps.foldl (fun m q => put m q.1 q.2) m) k = get m k := by
  induction ps generalizing m with
  | nil => rfl
  | cons q t ih =>
    simp only [keysOf, List.map_cons, List.mem_cons, not_or] at h
    simp only [List.foldl_cons]
    rw [ih _ (by simpa [keysOf] using h.2), get_put]
    simp [h.1]

theorem mem_of_get {m : Entries} {k : String} {e : Entry} (h : get m k = some e) : (k, e) ∈ m := by
  induction m with
  | nil => simp [get] at h
  | cons p t ih =>
    obtain ⟨pk, pe⟩ := p
    simp only [get] at h
    by_cases hpk : pk = k
    · subst hpk; simp at h; subst h; simp
    · have : (pk == k) = false := by simpa using hpk
      simp only [this, if_false] at h
      exact List.mem_cons_of_mem _ (ih h)

theorem get_isSome_of_mem {m : Entries} {k : String} {e : Entry} (h : (k, e) ∈ m) : (get m k).isSome = true := by
  induction m with
  | nil => simp at h
  | cons p t ih =>
    obtain ⟨pk, pe⟩ := p
    simp only [get]
    by_cases hpk : pk = k
    · subst hpk; simp
    · have : (pk == k) = false := by simpa using hpk
      simp only [this, if_false]
      simp only [List.mem_cons, Prod.mk.injEq] at h
      rcases h with ⟨h1, _⟩ | h
      · exact absurd h1.symm hpk
      · exact ih h

theorem not_mem_keys_of_get_none {m : Entries} {k : String} (h : (get m k).isNone = true) : k ∉ keysOf m := by
  intro hk
  simp only [keysOf, List.mem_map] at hk
  obtain ⟨⟨k', e⟩, hm, rfl⟩ := hk
  have := get_isSome_of_mem hm
  simp_all

theorem lookupD_none_not_mem {des : List (String × Nat)} {k : String} (h : (lookupD des k).isNone = true) :
    k ∉ des.map (·.1) := by
  induction des with
  | nil => simp
  | cons d t ih =>
    obtain ⟨dk, dc⟩ := d
    simp only [lookupD] at h
    by_cases hdk : dk = k
    · subst hdk; simp at h
    · have : (dk == k) = false := by simpa using hdk
      simp only [this, if_false] at h
      simp only [List.map_cons, List.mem_cons, not_or]
      exact ⟨fun h' => hdk h'.symm, ih h⟩

theorem append_stop_cancel {a b : String} (h : a ++ ":stop" = b ++ ":stop") : a = b := by
  have := congrArg String.toList h
  simp only [String.toList_append] at this
  exact String.toList_inj.mp (List.append_cancel_right this)

theorem ne_append_stop (a : String) : a ≠ a ++ ":stop" := by
  intro h
  have := congrArg (fun s => s.toList.length) h
  simp [String.toList_append] at this

/-- the keys `processExistingServer` writes -/
theorem keys_processExisting {id : String} {old : Entry} {want : Option Nat} {q : String × Entry}
    (h : q ∈ processExisting id old want) : q.1 = id ∨ q.1 = id ++ ":stop" := by
  unfold processExisting at h
  split at h
  · split at h <;> simp at h; left; rw [h]
  · split at h
    · simp at h; left; rw [h]
    · split at h
      · simp at h; rcases h with h | h <;> rw [h] <;> simp
      · simp at h; left; rw [h]

end GoSup.Planner

namespace GoSup.Planner

abbrev putAll (m : Entries) (ps : List (String × Entry)) : Entries := ps.foldl (fun m q => put m q.1 q.2) m

def contrib (des : List (String × Nat)) (p : String × Entry) : List (String × Entry) :=
  processExisting p.1 p.2 (lookupD des p.1)

def newPut (cur : Entries) (d : String × Nat) : List (String × Entry) :=
  if (get cur d.1).isNone then [(d.1, { id := d.1, cfg := d.2, runner := none, action := .start })] else []

theorem foldl_flatMap_put (l : List α) (f : α → List (String × Entry)) (m : Entries) :
    l.foldl (fun m x => putAll m (f x)) m = putAll m (l.flatMap f) := by
  induction l generalizing m with
  | nil => rfl
  | cons x t ih => simp only [List.foldl_cons, List.flatMap_cons, putAll, List.foldl_append]; exact ih _

/-- `buildPendingEntries` as one sequence of map assignments -/
theorem buildPending_eq (cur : Entries) (des : List (String × Nat)) :
    buildPending cur des = putAll [] (cur.flatMap (contrib des) ++ des.flatMap (newPut cur)) := by
  unfold buildPending
  simp only [putAll, List.foldl_append]
  have h1 := foldl_flatMap_put cur (contrib des) []
  simp only [putAll, contrib] at h1
  rw [← h1]
  have h2 := foldl_flatMap_put des (newPut cur) (cur.foldl (fun m p => (processExisting p.1 p.2 (lookupD des p.1)).foldl (fun m q => put m q.1 q.2) m) [])
  simp only [putAll] at h2
  rw [← h2]
  congr 1
  funext m d
  simp only [newPut]
  split <;> simp

/-- well-formed input of the planner: the current entries come from a Go map (distinct keys) and
satisfy the NoClash precondition -/
structure Wf (cur : Entries) (des : List (String × Nat)) : Prop where
  nodup : (keysOf cur).Nodup
  noClash : noClash cur des = true

theorem noClash_cur {cur des} (h : Wf cur des) {k : String} (hk : k ∈ keysOf cur) :
    k ++ ":stop" ∉ keysOf cur ∧ k ++ ":stop" ∉ des.map (·.1) := by
  have := h.noClash
  simp only [noClash, List.all_eq_true, Bool.and_eq_true] at this
  simp only [keysOf, List.mem_map] at hk
  obtain ⟨p, hp, rfl⟩ := hk
  obtain ⟨h1, h2⟩ := this p hp
  exact ⟨not_mem_keys_of_get_none h1, lookupD_none_not_mem h2⟩

/-- what ends up under the keys an entry of `cur` owns is decided by that entry alone -/
theorem get_pending_owned {cur des} (h : Wf cur des) {l1 l2 : Entries} {k : String} {e : Entry}
    (hsplit : cur = l1 ++ (k, e) :: l2) (K : String) (hK : K = k ∨ K = k ++ ":stop") :
    get (buildPending cur des) K = get (putAll (putAll [] (l1.flatMap (contrib des))) (contrib des (k, e))) K := by
  have hkcur : k ∈ keysOf cur := by rw [hsplit]; simp [keysOf]
  obtain ⟨hs1, hs2⟩ := noClash_cur h hkcur
  rw [buildPending_eq, hsplit]
  simp only [List.flatMap_append, List.flatMap_cons, putAll, List.foldl_append, List.append_assoc]
  have hnd := h.nodup
  rw [hsplit] at hnd
  simp only [keysOf, List.map_append, List.map_cons] at hnd
  have hk_l2 : k ∉ l2.map (·.1) := by
    have := (List.nodup_append.mp hnd).2.1
    exact (List.nodup_cons.mp this).1
  -- the later assignments use other keys
  rw [get_foldl_put_of_not_mem, get_foldl_put_of_not_mem]
  · -- keys of the contributions of later entries
    intro hmem
    simp only [keysOf, List.mem_map, List.mem_flatMap] at hmem
    obtain ⟨q, ⟨p', hp', hq⟩, hqK⟩ := hmem
    have hk' : p'.1 ∈ keysOf cur := by rw [hsplit]; simp only [keysOf, List.map_append, List.map_cons, List.mem_append, List.mem_cons, List.mem_map]; right; right; exact ⟨p', hp', rfl⟩
    obtain ⟨hs1', _⟩ := noClash_cur h hk'
    have hne : p'.1 ≠ k := fun heq => hk_l2 (by rw [← heq]; exact List.mem_map_of_mem hp')
    rcases keys_processExisting hq with h1 | h1 <;> rcases hK with h2 | h2
    · exact hne (by rw [← h1, hqK, h2])
    · exact hs1 (by rw [← h2, ← hqK, h1]; exact hk')
    · exact hs1' (by rw [← h1, hqK, h2]; exact hkcur)
    · exact hne (append_stop_cancel (by rw [← h1, hqK, h2]))
  · -- keys of the new ids
    intro hmem
    simp only [keysOf, List.mem_map, List.mem_flatMap] at hmem
    obtain ⟨q, ⟨d, hd, hq⟩, hqK⟩ := hmem
    simp only [newPut] at hq
    split at hq
    · rename_i hnone
      simp only [List.mem_singleton] at hq
      subst hq
      simp only at hqK
      rcases hK with h2 | h2
      · exact not_mem_keys_of_get_none hnone (by rw [hqK, h2]; exact hsplit ▸ hkcur)
      · exact hs2 (by rw [← h2, ← hqK]; exact List.mem_map_of_mem hd)
    · simp at hq

end GoSup.Planner
