import GoSup.Model.Sup
import GoSup.Spec.Sup
/-!
Gating invariant of the supervisor model: whenever the start-up loop stands at runnable `i`, and
whenever a runnable `j` has been launched, every Stateable runnable registered before it has passed
its gate — a readiness poll answered `true` is in the log — or the supervisor's context is cancelled.
For every number of runnables, every capability mix, every schedule.
-/
namespace GoSup.Sup
open GoSup.Core GoSup.Spec.Sup

def passed (s : St) (i : Nat) : Prop := Ev.poll i true ∈ s.log ∨ s.ctx = true

/-- the runnable the start-up loop is working on -/
def loopIdx : MainPc → Option Nat
  | .launch i | .gateSleep i | .gatePoll i | .gateSelect i | .gateTick i => some i
  | _ => none

structure GateInv (s : St) : Prop where
  loop : ∀ i, loopIdx s.main = some i → ∀ i' < i, (capAt s i').stateable = true → passed s i'
  launched : ∀ (j : Nat), (∃ r, s.rg[j]? = some r ∧ r ≠ Rg.none) →
      ∀ i' < j, (capAt s i').stateable = true → passed s i'
  invoked : ∀ (j : Nat), Ev.runInvoke j ∈ s.log → ∃ r, s.rg[j]? = some r ∧ r ≠ Rg.none

theorem gateInv_init (caps : List Caps) (u : Nat) : GateInv (initSt caps u) := by
  refine ⟨?_, ?_, ?_⟩
  · intro i h; simp [initSt, loopIdx] at h
  · intro j ⟨r, hr, hne⟩
    simp only [initSt, List.getElem?_replicate] at hr
    split at hr <;> simp at hr
    exact absurd hr.symm hne
  · intro j h; simp [initSt] at h

theorem passed_mono {s s' : St} (hlog : ∀ e, e ∈ s.log → e ∈ s'.log) (hctx : s.ctx = true → s'.ctx = true)
    (i : Nat) (h : passed s i) : passed s' i := by
  rcases h with h | h
  · exact .inl (hlog _ h)
  · exact .inr (hctx h)

/-- general preservation lemma: nothing is launched; the obligation for the new position of the main
goroutine is supplied by the caller -/
theorem gateInv_of {s s' : St} (hi : GateInv s) (hc : s'.caps = s.caps)
    (hloop : ∀ i, loopIdx s'.main = some i → ∀ i' < i, (capAt s i').stateable = true → passed s' i')
    (hrg : ∀ (j : Nat) (r : Rg), s'.rg[j]? = some r → r ≠ Rg.none → ∃ r0, s.rg[j]? = some r0 ∧ r0 ≠ Rg.none)
    (hlog : ∀ e, e ∈ s.log → e ∈ s'.log) (hctx : s.ctx = true → s'.ctx = true)
    (hinv : ∀ (j : Nat), Ev.runInvoke j ∈ s'.log → Ev.runInvoke j ∈ s.log ∨ ∃ r, s'.rg[j]? = some r ∧ r ≠ Rg.none)
    (hkeep : ∀ (j : Nat) (r0 : Rg), s.rg[j]? = some r0 → r0 ≠ Rg.none → ∃ r, s'.rg[j]? = some r ∧ r ≠ Rg.none) : GateInv s' := by
  have hcap : ∀ i, capAt s' i = capAt s i := by intro i; simp [capAt, hc]
  refine ⟨?_, ?_, ?_⟩
  · intro i h i' hlt hst
    rw [hcap] at hst
    exact hloop i h i' hlt hst
  · intro j ⟨r, hr, hne⟩ i' hlt hst
    rw [hcap] at hst
    exact passed_mono hlog hctx _ (hi.launched j (hrg j r hr hne) i' hlt hst)
  · intro j h
    rcases hinv j h with h | h
    · obtain ⟨r0, h1, h2⟩ := hi.invoked j h
      exact hkeep j r0 h1 h2
    · exact h

/-- frame lemma: the main goroutine does not move either -/
theorem gateInv_frame {s s' : St} (hi : GateInv s) (hm : s'.main = s.main) (hc : s'.caps = s.caps)
    (hrg : ∀ (j : Nat) (r : Rg), s'.rg[j]? = some r → r ≠ Rg.none → ∃ r0, s.rg[j]? = some r0 ∧ r0 ≠ Rg.none)
    (hlog : ∀ e, e ∈ s.log → e ∈ s'.log) (hctx : s.ctx = true → s'.ctx = true)
    (hinv : ∀ (j : Nat), Ev.runInvoke j ∈ s'.log → Ev.runInvoke j ∈ s.log ∨ ∃ r, s'.rg[j]? = some r ∧ r ≠ Rg.none)
    (hkeep : ∀ (j : Nat) (r0 : Rg), s.rg[j]? = some r0 → r0 ≠ Rg.none → ∃ r, s'.rg[j]? = some r ∧ r ≠ Rg.none) : GateInv s' :=
  gateInv_of hi hc (fun i h i' hlt hst => passed_mono hlog hctx _ (hi.loop i (hm ▸ h) i' hlt hst)) hrg hlog hctx hinv hkeep

/-- an action that only moves one launched runnable goroutine between non-`none` states -/
theorem rg_set_keep {rg : List Rg} {i : Nat} {x : Rg} (hx : x ≠ Rg.none) (hold : ∃ r0, rg[i]? = some r0 ∧ r0 ≠ Rg.none) :
    (∀ (j : Nat) (r : Rg), (rg.set i x)[j]? = some r → r ≠ Rg.none → ∃ r0, rg[j]? = some r0 ∧ r0 ≠ Rg.none)
    ∧ (∀ (j : Nat) (r0 : Rg), rg[j]? = some r0 → r0 ≠ Rg.none → ∃ r, (rg.set i x)[j]? = some r ∧ r ≠ Rg.none) := by
  constructor
  · intro j r h hne
    rw [List.getElem?_set] at h
    split at h
    · rename_i hij; subst hij; exact hold
    · exact ⟨r, h, hne⟩
  · intro j r0 h hne
    rw [List.getElem?_set]
    split
    · rename_i hij; subst hij
      obtain ⟨r1, h1, _⟩ := hold
      have hlt : i < rg.length := by
        rcases Nat.lt_or_ge i rg.length with h2 | h2
        · exact h2
        · simp [List.getElem?_eq_none h2] at h1
      simp [hlt, hx]
    · exact ⟨r0, h, hne⟩

end GoSup.Sup

namespace GoSup.Sup
open GoSup.Core GoSup.Spec.Sup

/-- discharge a case in which neither the main goroutine nor any runnable goroutine moves -/
macro "gate_frame" hi:ident hs:ident : tactic =>
  `(tactic| (
    simp only [step] at $hs:ident
    repeat' split at $hs:ident
    all_goals first
      | (simp at $hs:ident; done)
      | (simp only [Option.some.injEq] at $hs:ident
         subst $hs:ident
         exact gateInv_frame $hi rfl rfl (fun j r h hne => ⟨r, h, hne⟩)
           (by intro e he; first | exact he | exact List.mem_append_left _ he)
           (by intro h; first | exact h | rfl)
           (by intro j h; left
               first
                 | exact h
                 | (simp only [St.emit, List.mem_append, List.mem_singleton] at h
                    rcases h with h | h
                    · exact h
                    · cases h))
           (fun j r h hne => ⟨r, h, hne⟩))))

/-- discharge a case in which only the main goroutine moves, to a position without an obligation
(`sdCall`, `reap`, `returned`) or to another point of the same gate -/
macro "gate_main" hi:ident hs:ident : tactic =>
  `(tactic| (
    simp only [step] at $hs:ident
    repeat' split at $hs:ident
    all_goals first
      | (simp at $hs:ident; done)
      | (simp only [Option.some.injEq] at $hs:ident
         subst $hs:ident
         refine gateInv_of $hi rfl ?_ (fun j r h hne => ⟨r, h, hne⟩)
           (by intro e he; first | exact he | exact List.mem_append_left _ he)
           (by intro h; first | exact h | rfl)
           (by intro j h; left
               first
                 | exact h
                 | (simp only [St.emit, List.mem_append, List.mem_singleton] at h
                    rcases h with h | h
                    · exact h
                    · cases h))
           (fun j r h hne => ⟨r, h, hne⟩)
         intro i hidx i' hlt hst
         first
           | (simp [loopIdx, St.emit] at hidx; done)
           | (simp only [loopIdx, St.emit, Option.some.injEq] at hidx
              subst hidx
              exact ($hi).loop _ (by simp_all [loopIdx]) i' hlt hst)
           | (exfalso; simp_all [loopIdx]; done)
           | (exact ($hi).loop _ hidx i' hlt hst))))

theorem next_idx (s : St) (i k : Nat) (h : loopIdx (s.next i) = some k) : k = i + 1 := by
  simp only [St.next] at h
  split at h <;> simp [loopIdx] at h
  exact h.symm

theorem gateInv_step {s s' : St} {a : Act} (hi : GateInv s) (hs : step s a = some s') : GateInv s' := by
  cases a with
  | sendSig g => gate_frame hi hs
  | sigDeliver k => gate_frame hi hs
  | sigDrop k => gate_frame hi hs
  | parentCancel => gate_frame hi hs
  | userCall u => gate_frame hi hs
  | trigger j => gate_frame hi hs
  | stopReturn => gate_frame hi hs
  | ctxSeen i => gate_frame hi hs
  | shutdownTimeout => gate_frame hi hs
  | startupTimeoutFire => gate_frame hi hs
  | onceEnter o => gate_frame hi hs
  | sdStopInvoke => gate_frame hi hs
  | sdCancel => gate_frame hi hs
  | sdWaitDone => gate_frame hi hs
  | sdClose => gate_frame hi hs
  | userReturn u => gate_frame hi hs
  | mgrExit m => gate_frame hi hs
  | listenerFire j => gate_frame hi hs
  | listenerCtx j => gate_frame hi hs
  | listenerDone j => gate_frame hi hs
  | mainStart => gate_main hi hs
  | gateWake i => gate_main hi hs
  | gateErr i => gate_main hi hs
  | gateTickFire i => gate_main hi hs
  | reapErr => gate_main hi hs
  | reapCtx => gate_main hi hs
  | reapSig => gate_main hi hs
  | mainReturn => gate_main hi hs
  | gateTimeout i =>
    simp only [step] at hs
    split at hs
    · split at hs
      · -- the context is cancelled: every gate counts as passed
        rename_i hctx
        simp only [Option.some.injEq] at hs; subst hs
        exact gateInv_of hi rfl (fun _ _ _ _ _ => .inr hctx) (fun j r h hne => ⟨r, h, hne⟩) (fun _ he => he) (fun h => h)
          (fun _ h => .inl h) (fun j r h hne => ⟨r, h, hne⟩)
      · simp only [Option.some.injEq] at hs; subst hs
        exact gateInv_of hi rfl (by intro i h; simp [loopIdx] at h) (fun j r h hne => ⟨r, h, hne⟩) (fun _ he => he) (fun h => h)
          (fun _ h => .inl h) (fun j r h hne => ⟨r, h, hne⟩)
    · simp at hs
  | gateCtx i =>
    simp only [step] at hs
    split at hs
    · rename_i hg
      simp only [Bool.and_eq_true] at hg
      simp only [Option.some.injEq] at hs; subst hs
      exact gateInv_of hi rfl (fun _ _ _ _ _ => .inr hg.2) (fun j r h hne => ⟨r, h, hne⟩) (fun _ he => he) (fun h => h)
        (fun _ h => .inl h) (fun j r h hne => ⟨r, h, hne⟩)
    · simp at hs
  | pollAns i b =>
    simp only [step] at hs
    split at hs
    · rename_i hg
      have hmain : s.main = .gatePoll i := by simpa using hg
      simp only [Option.some.injEq] at hs; subst hs
      refine gateInv_of hi rfl ?_ (fun j r h hne => ⟨r, h, hne⟩) (fun _ he => List.mem_append_left _ he) (fun h => h)
        (by intro j h; left
            simp only [St.emit, List.mem_append, List.mem_singleton] at h
            rcases h with h | h
            · exact h
            · cases h) (fun j r h hne => ⟨r, h, hne⟩)
      intro k hidx i' hlt hst
      cases b with
      | false =>
        simp only [St.emit, loopIdx, Bool.false_eq_true, if_false, Option.some.injEq] at hidx
        subst hidx
        refine passed_mono (s := s) ?_ ?_ _ (hi.loop i (by simp [hmain, loopIdx]) i' hlt hst)
        · intro e he; exact List.mem_append_left _ he
        · intro h; exact h
      | true =>
        simp only [St.emit, if_true] at hidx
        have hk := next_idx s i k hidx
        subst hk
        rcases Nat.lt_succ_iff_lt_or_eq.mp hlt with h1 | h1
        · refine passed_mono (s := s) ?_ ?_ _ (hi.loop i (by simp [hmain, loopIdx]) i' h1 hst)
          · intro e he; exact List.mem_append_left _ he
          · intro h; exact h
        · subst h1; left; simp [St.emit]
    · simp at hs
  | tickAns i b =>
    simp only [step] at hs
    split at hs
    · rename_i hg
      have hmain : s.main = .gateTick i := by simpa using hg
      simp only [Option.some.injEq] at hs; subst hs
      refine gateInv_of hi rfl ?_ (fun j r h hne => ⟨r, h, hne⟩) (fun _ he => List.mem_append_left _ he) (fun h => h)
        (by intro j h; left
            simp only [St.emit, List.mem_append, List.mem_singleton] at h
            rcases h with h | h
            · exact h
            · cases h) (fun j r h hne => ⟨r, h, hne⟩)
      intro k hidx i' hlt hst
      cases b with
      | false =>
        simp only [St.emit, loopIdx, Bool.false_eq_true, if_false, Option.some.injEq] at hidx
        subst hidx
        refine passed_mono (s := s) ?_ ?_ _ (hi.loop i (by simp [hmain, loopIdx]) i' hlt hst)
        · intro e he; exact List.mem_append_left _ he
        · intro h; exact h
      | true =>
        simp only [St.emit, if_true] at hidx
        have hk := next_idx s i k hidx
        subst hk
        rcases Nat.lt_succ_iff_lt_or_eq.mp hlt with h1 | h1
        · refine passed_mono (s := s) ?_ ?_ _ (hi.loop i (by simp [hmain, loopIdx]) i' h1 hst)
          · intro e he; exact List.mem_append_left _ he
          · intro h; exact h
        · subst h1; left; simp [St.emit]
    · simp at hs
  | mainLaunch i =>
    simp only [step] at hs
    split at hs
    · rename_i hg
      simp only [Bool.and_eq_true, beq_iff_eq, decide_eq_true_eq] at hg
      obtain ⟨hmain, hlt⟩ := hg
      have hloopi := hi.loop i (by simp [hmain, loopIdx])
      split at hs
      · -- the runnable is launched
        simp only [Option.some.injEq] at hs; subst hs
        refine ⟨?_, ?_, ?_⟩
        · intro k hidx i' hlt' hst
          have hst' : (capAt s i').stateable = true := by simpa [capAt] using hst
          dsimp only at hidx
          split at hidx
          · simp only [loopIdx, Option.some.injEq] at hidx; subst hidx
            exact hloopi i' hlt' hst'
          · rename_i hns
            have hk := next_idx s i k hidx
            subst hk
            rcases Nat.lt_succ_iff_lt_or_eq.mp hlt' with h1 | h1
            · exact hloopi i' h1 hst'
            · subst h1; exact absurd hst' hns
        · intro j ⟨r, hr, hne⟩ i' hlt' hst
          have hst' : (capAt s i').stateable = true := by simpa [capAt] using hst
          dsimp only at hr
          rw [List.getElem?_set] at hr
          split at hr
          · rename_i hij; subst hij; exact hloopi i' hlt' hst'
          · exact hi.launched j ⟨r, hr, hne⟩ i' hlt' hst'
        · intro j h
          obtain ⟨r0, h1, h2⟩ := hi.invoked j h
          dsimp only
          by_cases hij : i = j
          · subst hij
            have : i < s.rg.length := by
              rcases Nat.lt_or_ge i s.rg.length with h3 | h3
              · exact h3
              · simp [List.getElem?_eq_none h3] at h1
            exact ⟨.spawned, List.getElem?_set_self this, by simp⟩
          · rw [List.getElem?_set_ne hij]
            exact ⟨r0, h1, h2⟩
      · -- Shutdown has begun: the loop is left
        simp only [Option.some.injEq] at hs; subst hs
        exact gateInv_of hi rfl (by intro k h; simp [loopIdx] at h) (fun j r h hne => ⟨r, h, hne⟩) (fun _ he => he) (fun h => h)
          (fun _ h => .inl h) (fun j r h hne => ⟨r, h, hne⟩)
    · simp at hs
  | runReturn i o =>
    simp only [step] at hs
    split at hs
    · rename_i hg
      have hold : ∃ r0, s.rg[i]? = some r0 ∧ r0 ≠ Rg.none := ⟨.inRun, by simpa using hg, by simp⟩
      simp only [Option.some.injEq] at hs; subst hs
      obtain ⟨k1, k2⟩ := rg_set_keep (rg := s.rg) (i := i) (x := .returned o) (by simp) hold
      exact gateInv_frame hi rfl rfl k1 (fun _ he => List.mem_append_left _ he) (fun h => h)
        (by intro j h; left
            simp only [St.emit, List.mem_append, List.mem_singleton] at h
            rcases h with h | h
            · exact h
            · cases h) k2
    · simp at hs
  | rgInvoke i =>
    simp only [step] at hs
    split at hs
    · rename_i hg
      have hsp : s.rg[i]? = some .spawned := by simpa using hg
      have hold : ∃ r0, s.rg[i]? = some r0 ∧ r0 ≠ Rg.none := ⟨.spawned, hsp, by simp⟩
      have hlt : i < s.rg.length := by
        rcases Nat.lt_or_ge i s.rg.length with h3 | h3
        · exact h3
        · simp [List.getElem?_eq_none h3] at hsp
      simp only [Option.some.injEq] at hs; subst hs
      obtain ⟨k1, k2⟩ := rg_set_keep (rg := s.rg) (i := i) (x := .inRun) (by simp) hold
      exact gateInv_frame hi rfl rfl k1 (fun _ he => List.mem_append_left _ he) (fun h => h)
        (by intro j h
            simp only [St.emit, List.mem_append, List.mem_singleton] at h
            rcases h with h | h
            · exact .inl h
            · right
              simp only [Ev.runInvoke.injEq] at h
              subst h
              exact ⟨.inRun, by simp [St.emit, hlt], by simp⟩) k2
    · simp at hs
  | rgFinish i =>
    simp only [step] at hs
    split at hs
    · rename_i e hg
      have hold : ∃ r0, s.rg[i]? = some r0 ∧ r0 ≠ Rg.none := ⟨_, hg, by simp⟩
      simp only [Option.some.injEq] at hs; subst hs
      obtain ⟨k1, k2⟩ := rg_set_keep (rg := s.rg) (i := i) (x := .sending e) (by simp) hold
      exact gateInv_frame hi rfl rfl k1 (fun _ he => he) (fun h => h) (fun _ h => .inl h) k2
    · rename_i o hg
      have hold : ∃ r0, s.rg[i]? = some r0 ∧ r0 ≠ Rg.none := ⟨_, hg, by simp⟩
      simp only [Option.some.injEq] at hs; subst hs
      obtain ⟨k1, k2⟩ := rg_set_keep (rg := s.rg) (i := i) (x := .done) (by simp) hold
      exact gateInv_frame hi rfl rfl k1 (fun _ he => he) (fun h => h) (fun _ h => .inl h) k2
    · simp at hs
  | rgSend i =>
    simp only [step] at hs
    split at hs
    · rename_i e hg
      have hold : ∃ r0, s.rg[i]? = some r0 ∧ r0 ≠ Rg.none := ⟨_, hg, by simp⟩
      obtain ⟨k1, k2⟩ := rg_set_keep (rg := s.rg) (i := i) (x := .done) (by simp) hold
      split at hs
      · simp only [Option.some.injEq] at hs; subst hs
        exact gateInv_frame hi rfl rfl k1 (fun _ he => he) (fun h => h) (fun _ h => .inl h) k2
      · split at hs
        · simp only [Option.some.injEq] at hs; subst hs
          exact gateInv_frame hi rfl rfl k1 (fun _ he => he) (fun h => h) (fun _ h => .inl h) k2
        · simp at hs
    · simp at hs

theorem gateInv_reach {caps : List Caps} {u : Nat} {s : St} (h : Reachable caps u s) : GateInv s :=
  inv_of_reach (L := lts) GateInv (gateInv_init caps u) (fun _ _ _ hi hs => gateInv_step hi hs) h

end GoSup.Sup
