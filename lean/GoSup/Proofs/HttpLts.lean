import GoSup.Model.HttpLts
import GoSup.Proofs.CompLts
/-!
# Invariants of the concurrent HTTP server model, for every interleaving
-/
namespace GoSup.HttpLts
open GoSup.Core GoSup.CompSeq
open GoSup.CompLts (getElem?_modify')

/-- `Run` has not got as far as its `select` -/
def early (s : St) : Bool := match s.run with | .idle | .entered | .bootFailed | .probing | .booted => true | _ => false

/-- `Run` is past its own `stopServer`, or has returned otherwise than through the server-error arm -/
def post (s : St) : Bool :=
  match s.run with
  | .stopped _ => true
  | .returned r => r != .serverErr
  | _ => false

/-- `Run` has left its `select` through the context or the stop arm (or has returned) -/
def afterSel (s : St) : Bool :=
  match s.run with
  | .afterSelect | .toStop | .stopped _ | .returned _ => true
  | _ => false

structure Inv (s : St) : Prop where
  one     : ∀ i, isOpenAt s i = true → s.srv = some i ∧ s.onceUsed = false
  srvLt   : ∀ i, s.srv = some i → i < s.insts.length
  cancel  : afterSel s = true → s.runCancelled = true
  muRl    : s.rl ≠ .idle → s.mu = some .reload
  muRun   : s.run = .probing → s.mu = some .run
  muFree  : s.mu = some .run → s.run = .probing
  muFree' : s.mu = some .reload → s.rl ≠ .idle
  early   : early s = true → s.rl = .idle ∧ (s.run = .idle → s.fsm = .new) ∧ (s.run ≠ .idle → s.fsm = .booting)
  fresh   : (s.run = .idle ∨ s.run = .entered ∨ s.run = .bootFailed) → s.insts = []
  released : post s = true → s.rl ≠ .probing → ∀ i, isOpenAt s i = false
  serving : (s.run = .booted ∨ s.run = .select) → (s.rl = .idle ∨ s.rl = .entered ∨ ∃ r b, s.rl = .cbReturned r b) → s.fsm ≠ .error → listening s = true
  closedAtBoot : s.rl = .toBoot → ∀ i, isOpenAt s i = false

theorem inv_init : Inv init := by
  refine ⟨?_, ?_, ?_, ?_, ?_, ?_, ?_, ?_, ?_, ?_, ?_, ?_⟩ <;> simp [init, isOpenAt, afterSel, early, post]

/-! ## the helpers -/

theorem isOpenAt_create (s : St) (i : Nat) :
    isOpenAt (create s) i = (isOpenAt s i || i == s.insts.length) := by
  simp only [isOpenAt, create]
  by_cases h : i < s.insts.length
  · rw [List.getElem?_append_left h]
    have : (i == s.insts.length) = false := by simpa using Nat.ne_of_lt h
    simp [this]
  · have hge : s.insts.length ≤ i := Nat.le_of_not_lt h
    rw [List.getElem?_append_right hge]
    have hnone : s.insts[i]? = none := List.getElem?_eq_none hge
    by_cases he : i = s.insts.length
    · subst he; simp [ISt.isOpen]
    · have : i - s.insts.length ≠ 0 := by omega
      cases hk : i - s.insts.length with
      | zero => exact absurd hk this
      | succ k => simp [hnone, he]

theorem isOpenAt_modify_closed (s : St) (j i : Nat) (st : ISt) (hst : st.isOpen = false) :
    ((s.insts.modify j fun _ => st)[i]?.map ISt.isOpen).getD false = (isOpenAt s i && !(i == j)) := by
  rw [getElem?_modify']
  simp only [isOpenAt]
  by_cases h : j = i
  · subst h
    cases s.insts[j]? <;> simp [hst]
  · have : (i == j) = false := by simpa using fun h' => h h'.symm
    simp [h, this]

/-- after `stopServer` nothing is open, provided everything that was open was the current, unguarded instance -/
theorem stopServer_none_open {s : St} (h : ∀ i, isOpenAt s i = true → s.srv = some i ∧ s.onceUsed = false) (i : Nat) :
    isOpenAt (stopServer s) i = false := by
  unfold stopServer
  cases ho : isOpenAt s i with
  | false =>
    split
    · simpa [isOpenAt] using ho
    · split
      · rename_i j hj
        show ((s.insts.modify j fun _ => ISt.closed)[i]?.map ISt.isOpen).getD false = false
        rw [isOpenAt_modify_closed s j i .closed rfl, ho]; rfl
      · simpa [isOpenAt] using ho
  | true =>
    obtain ⟨h1, h2⟩ := h i ho
    simp only [h2, Bool.false_eq_true, if_false, h1]
    show ((s.insts.modify i fun _ => ISt.closed)[i]?.map ISt.isOpen).getD false = false
    rw [isOpenAt_modify_closed s i i .closed rfl]; simp

theorem stopServer_srv (s : St) : (stopServer s).srv = none := by
  unfold stopServer; split
  · rfl
  · split <;> rfl

theorem stopServer_insts_length (s : St) : (stopServer s).insts.length = s.insts.length := by
  unfold stopServer; split
  · rfl
  · split
    · simp
    · rfl

@[simp] theorem stopServer_run (s : St) : (stopServer s).run = s.run := by
  unfold stopServer; split
  · rfl
  · split <;> rfl
@[simp] theorem stopServer_rl (s : St) : (stopServer s).rl = s.rl := by
  unfold stopServer; split
  · rfl
  · split <;> rfl
@[simp] theorem stopServer_mu (s : St) : (stopServer s).mu = s.mu := by
  unfold stopServer; split
  · rfl
  · split <;> rfl
@[simp] theorem stopServer_fsm (s : St) : (stopServer s).fsm = s.fsm := by
  unfold stopServer; split
  · rfl
  · split <;> rfl
@[simp] theorem stopServer_runCancelled (s : St) : (stopServer s).runCancelled = s.runCancelled := by
  unfold stopServer; split
  · rfl
  · split <;> rfl

theorem stopServer_open_sub (s : St) (i : Nat) (h : isOpenAt (stopServer s) i = true) : isOpenAt s i = true := by
  unfold stopServer at h
  split at h
  · simpa [isOpenAt] using h
  · split at h
    · rename_i j hj
      have : ((s.insts.modify j fun _ => ISt.closed)[i]?.map ISt.isOpen).getD false = true := h
      rw [isOpenAt_modify_closed s j i .closed rfl] at this
      simp only [Bool.and_eq_true] at this
      exact this.1
    · simpa [isOpenAt] using h

end GoSup.HttpLts

namespace GoSup.HttpLts
open GoSup.Core GoSup.CompSeq
open GoSup.CompLts (getElem?_modify')

theorem tr_some {s : St} {to f : Fsm} (h : tr s to = some f) : f = to ∧ allowed s.fsm to = true := by
  unfold tr at h; split at h
  · rename_i ha; cases h; exact ⟨rfl, ha⟩
  · cases h

theorem listening_create (s : St) : listening (create s) = false := by
  simp [listening, create]

theorem listening_congr {s s' : St} (h1 : s'.srv = s.srv) (h2 : s'.insts = s.insts) : listening s' = listening s := by
  simp [listening, h1, h2]

theorem isOpenAt_congr {s s' : St} (h : s'.insts = s.insts) (i : Nat) : isOpenAt s' i = isOpenAt s i := by
  simp [isOpenAt, h]

/-- binding (or failing to bind) instance `j`: what is open afterwards was open before -/
theorem isOpenAt_modify_sub (s : St) (j i : Nat) (st : ISt) (hj : s.insts[j]? = some .created)
    (h : ((s.insts.modify j fun _ => st)[i]?.map ISt.isOpen).getD false = true) : isOpenAt s i = true := by
  rw [getElem?_modify'] at h
  simp only [isOpenAt]
  by_cases hji : j = i
  · subst hji; simp [hj, ISt.isOpen]
  · simpa [hji] using h

theorem listening_bind (s : St) (j : Nat) (hj : s.insts[j]? = some .created) (h : listening s = true) :
    listening { s with insts := s.insts.modify j fun _ => ISt.listening } = true := by
  unfold listening at h ⊢
  cases hs : s.srv with
  | none => simp [hs] at h
  | some i =>
    simp only [hs] at h ⊢
    rw [getElem?_modify']
    split
    · rename_i hji; subst hji; simp [hj]
    · exact h

theorem listening_bindFail (s : St) (j : Nat) (hj : s.insts[j]? = some .created) (h : listening s = true) :
    listening { s with insts := s.insts.modify j (fun _ => ISt.failed), errs := s.errs ++ [j] } = true := by
  unfold listening at h ⊢
  cases hs : s.srv with
  | none => simp [hs] at h
  | some i =>
    simp only [hs] at h ⊢
    rw [getElem?_modify']
    split
    · rename_i hji; subst hji; simp [hj] at h
    · exact h

end GoSup.HttpLts

namespace GoSup.HttpLts
open GoSup.Core GoSup.CompSeq
open GoSup.CompLts (getElem?_modify')

theorem inv_step_run {s s' : St} {a : Act} (h : Inv s) (hs : step s a = some s')
    (ha : match a with
      | .runEnter | .runBootBegin _ _ | .runBootFail | .runProbeOk | .runProbeFail _ | .runToRunning | .runSelCtx | .runSelStop | .runSelErr
      | .runToStopping | .runStopServer _ | .runFinish => True
      | _ => False) : Inv s' := by
  cases a <;> simp only at ha
  case runEnter =>
    simp only [step] at hs
    split at hs
    · cases hs
    · rename_i hc
      simp only [Bool.or_eq_true, bne_iff_ne, ne_eq, not_or, Decidable.not_not] at hc
      obtain ⟨hrun, hmu⟩ := hc
      obtain ⟨e1, e2, _⟩ := h.early (by simp [early, hrun])
      have hfresh := h.fresh (Or.inl hrun)
      have hmu' : s.mu = none := by cases hm : s.mu <;> simp_all
      split at hs
      · rename_i f hf
        obtain ⟨rfl, _⟩ := tr_some hf
        cases hs
        refine ⟨h.one, h.srvLt, by simp [afterSel], by simp [e1], by simp, by simp [hmu'], by simp [hmu', e1], by simp [early, e1], by simp [hfresh],
          by simp [post], by simp, by simp [e1]⟩
      · cases hs
        refine ⟨h.one, h.srvLt, by simp [afterSel], by simp [e1], by simp, by simp [hmu'], by simp [hmu', e1], by simp [early], by simp,
          ?_, by simp, by simp [e1]⟩
        intro _ _ i
        simp [isOpenAt, hfresh]
  case runBootBegin res ok =>
    simp only [step] at hs
    split at hs
    · cases hs
    · rename_i hc
      simp only [Bool.or_eq_true, bne_iff_ne, ne_eq, not_or, Decidable.not_not] at hc
      obtain ⟨hrun, hmu⟩ := hc
      obtain ⟨e1, _, e3⟩ := h.early (by simp [early, hrun])
      have hfsm : s.fsm = .booting := e3 (by rw [hrun]; simp)
      have hfresh := h.fresh (Or.inr (Or.inl hrun))
      have hmu' : s.mu = none := by cases hm : s.mu <;> simp_all
      have hnone : ∀ (t : St), t.insts = [] → ∀ i, isOpenAt t i = false := fun t ht i => by simp [isOpenAt, ht]
      have good : ∀ (c' : Option Nat),
          Inv { create { s with cfg := c' } with mu := some Owner.run, run := RunPc.probing } := by
        intro c'
        refine ⟨?_, ?_, by simp [afterSel], by simp [create, e1], by simp, by simp, by simp, by simp [early, create, e1, hfsm], by simp,
          by simp [post], by simp, by simp [create, e1]⟩
        · intro i hi
          have hi' : isOpenAt (create { s with cfg := c' }) i = true := hi
          rw [isOpenAt_create, hnone _ (by simpa using hfresh) i] at hi'
          simp only [Bool.false_or, beq_iff_eq] at hi'
          subst hi'
          exact ⟨rfl, rfl⟩
        · intro i hi
          simp only [create, Option.some.injEq] at hi
          subst hi
          simp [create]
      have bad : ∀ (c' : Option Nat), Inv { s with cfg := c', run := RunPc.bootFailed } := by
        intro c'
        refine ⟨?_, h.srvLt, by simp [afterSel], by simp [e1], by simp, by simp [hmu'], by simp [hmu'], by simp [early, e1, hfsm],
          by simp [hfresh], ?_, by simp, by simp [e1]⟩
        · intro i hi
          have hi' : isOpenAt s i = true := hi
          rw [hnone s hfresh i] at hi'; cases hi'
        · intro _ _ i; exact hnone s hfresh i
      repeat' (split at hs)
      all_goals first
        | (cases hs; exact good _)
        | (cases hs; exact bad _)
  case runBootFail =>
    simp only [step] at hs
    split at hs
    · cases hs
    · rename_i hrun
      simp only [bne_iff_ne, ne_eq, Decidable.not_not] at hrun
      obtain ⟨e1, _, _⟩ := h.early (by simp [early, hrun])
      have hfresh := h.fresh (Or.inr (Or.inr hrun))
      have hmu' : s.mu = none := by
        cases hm : s.mu with
        | none => rfl
        | some o =>
          cases o with
          | run => have := h.muFree hm; rw [hrun] at this; cases this
          | reload => exact absurd e1 (h.muFree' hm)
      have hnone : ∀ i, isOpenAt s i = false := fun i => by simp [isOpenAt, hfresh]
      cases hs
      refine ⟨?_, h.srvLt, by simp [afterSel], by simp [e1], by simp, by simp [hmu'], by simp [hmu'], by simp [early], by simp,
        ?_, by simp, by simp [e1]⟩
      · intro i hi
        have hi' : isOpenAt s i = true := hi
        rw [hnone i] at hi'; cases hi'
      · intro _ _ i; exact hnone i
  case runProbeOk =>
    simp only [step] at hs
    split at hs
    · rename_i hc
      simp only [Bool.and_eq_true, beq_iff_eq, Bool.not_eq_true'] at hc
      obtain ⟨⟨hrun, hl⟩, hcan⟩ := hc
      obtain ⟨e1, _, e3⟩ := h.early (by simp [early, hrun])
      have hfsm : s.fsm = .booting := e3 (by rw [hrun]; simp)
      cases hs
      refine ⟨h.one, h.srvLt, by simp [afterSel], by simp [e1], by simp, by simp, by simp, by simp [early, e1, hfsm], by simp,
        by simp [post], ?_, by simp [e1]⟩
      intro _ _ _
      exact hl
    · cases hs
  case runProbeFail consume =>
    simp only [step] at hs
    split at hs
    · cases hs
    · rename_i hc
      simp only [bne_iff_ne, ne_eq, Decidable.not_not] at hc
      obtain ⟨e1, _, _⟩ := h.early (by simp [early, hc])
      have hno := stopServer_none_open (s := { s with errs := if consume = true then List.drop 1 s.errs else s.errs }) h.one
      cases hs
      refine ⟨?_, ?_, by simp [afterSel], by simp [e1], by simp, by simp, by simp, by simp [early], by simp,
        ?_, by simp, by simp [e1]⟩
      · intro i hi
        have hi' : isOpenAt (stopServer { s with errs := if consume = true then List.drop 1 s.errs else s.errs }) i = true := hi
        rw [hno i] at hi'; cases hi'
      · intro i hi
        have hi' : (stopServer { s with errs := if consume = true then List.drop 1 s.errs else s.errs }).srv = some i := hi
        rw [stopServer_srv] at hi'; cases hi'
      · intro _ _ i; exact hno i
  case runToRunning =>
    simp only [step] at hs
    split at hs
    · cases hs
    · rename_i hc
      simp only [bne_iff_ne, ne_eq, Decidable.not_not] at hc
      obtain ⟨e1, _, e3⟩ := h.early (by simp [early, hc])
      have hfsm : s.fsm = .booting := e3 (by rw [hc]; simp)
      have hl := h.serving (Or.inl hc) (Or.inl e1) (by rw [hfsm]; simp)
      split at hs
      · rename_i f hf
        obtain ⟨rfl, _⟩ := tr_some hf
        cases hs
        refine ⟨h.one, h.srvLt, by simp [afterSel], h.muRl, by simp, by intro hm; have := h.muFree hm; simp [hc] at this,
          h.muFree', by simp [early], by simp, by simp [post], fun _ _ _ => hl, h.closedAtBoot⟩
      · rename_i hf
        simp [tr, hfsm, allowed] at hf
  case runSelCtx =>
    simp only [step] at hs
    split at hs
    · rename_i hc
      simp only [Bool.and_eq_true, beq_iff_eq] at hc
      cases hs
      refine ⟨h.one, h.srvLt, fun _ => hc.2, h.muRl, by simp, by intro hm; have := h.muFree hm; simp [hc.1] at this,
        h.muFree', by simp [early], by simp, by simp [post], by simp, h.closedAtBoot⟩
    · cases hs
  case runSelStop =>
    simp only [step] at hs
    split at hs
    · rename_i hc
      simp only [Bool.and_eq_true, beq_iff_eq] at hc
      cases hs
      refine ⟨h.one, h.srvLt, by simp, h.muRl, by simp, by intro hm; have := h.muFree hm; simp [hc.1] at this,
        h.muFree', by simp [early], by simp, by simp [post], by simp, h.closedAtBoot⟩
    · cases hs
  case runSelErr =>
    simp only [step] at hs
    split at hs
    · cases hs
    · rename_i hc
      simp only [bne_iff_ne, ne_eq, Decidable.not_not] at hc
      split at hs
      · cases hs
        refine ⟨h.one, h.srvLt, by simp, h.muRl, by simp, by intro hm; have := h.muFree hm; simp [hc] at this,
          h.muFree', by simp [early], by simp, by simp [post], by simp, h.closedAtBoot⟩
      · cases hs
  case runToStopping =>
    simp only [step] at hs
    split at hs
    · cases hs
    · rename_i hc
      simp only [bne_iff_ne, ne_eq, Decidable.not_not] at hc
      have hcan := h.cancel (by simp [afterSel, hc])
      cases hs
      refine ⟨h.one, h.srvLt, fun _ => hcan, h.muRl, by simp, by intro hm; have := h.muFree hm; simp [hc] at this,
        h.muFree', by simp [early], by simp, by simp [post], by simp, h.closedAtBoot⟩
  case runStopServer inTime =>
    simp only [step] at hs
    split at hs
    · cases hs
    · rename_i hc
      simp only [Bool.or_eq_true, bne_iff_ne, ne_eq, not_or, Decidable.not_not] at hc
      obtain ⟨hrun, hmu⟩ := hc
      have hmu' : s.mu = none := by cases hm : s.mu <;> simp_all
      have hrl : s.rl = .idle := by
        apply Classical.byContradiction
        intro hne
        have := h.muRl hne
        rw [hmu'] at this; cases this
      have hcan := h.cancel (by simp [afterSel, hrun])
      have hno := stopServer_none_open h.one
      cases hs
      refine ⟨?_, ?_, fun _ => by simpa using hcan, by simp [hrl], by simp, by simp [hmu'], by simp [hmu'], by simp [early], by simp,
        ?_, by simp, by simp [hrl]⟩
      · intro i hi
        have hi' : isOpenAt (stopServer s) i = true := hi
        rw [hno i] at hi'; cases hi'
      · intro i hi
        have hi' : (stopServer s).srv = some i := hi
        rw [stopServer_srv] at hi'; cases hi'
      · intro _ _ i; exact hno i
  case runFinish =>
    simp only [step] at hs
    split at hs
    · rename_i hr
      have hrel := h.released (by simp [post, hr])
      cases hs
      refine ⟨h.one, h.srvLt, by simp, h.muRl, by simp, by intro hm; have := h.muFree hm; simp [hr] at this,
        h.muFree', by simp [early], by simp, fun _ => hrel, by simp, h.closedAtBoot⟩
    · rename_i hr
      have hrel := h.released (by simp [post, hr])
      split at hs
      · cases hs
        refine ⟨h.one, h.srvLt, by simp, h.muRl, by simp, by intro hm; have := h.muFree hm; simp [hr] at this,
          h.muFree', by simp [early], by simp, fun _ => hrel, by simp, h.closedAtBoot⟩
      · cases hs
        refine ⟨h.one, h.srvLt, by simp, h.muRl, by simp, by intro hm; have := h.muFree hm; simp [hr] at this,
          h.muFree', by simp [early], by simp, fun _ => hrel, by simp, h.closedAtBoot⟩
    · cases hs

end GoSup.HttpLts

namespace GoSup.HttpLts
open GoSup.Core GoSup.CompSeq
open GoSup.CompLts (getElem?_modify')

theorem not_early_of_rl {s : St} (h : Inv s) (hrl : s.rl ≠ .idle) : early s = false := by
  cases he : early s with
  | false => rfl
  | true => exact absurd (h.early he).1 hrl

theorem not_probing_of_mu {s : St} (h : Inv s) (hm : s.mu ≠ some .run) : s.run ≠ .probing :=
  fun hr => hm (h.muRun hr)

theorem post_afterSel {s : St} (h : post s = true) : afterSel s = true := by
  unfold post at h; unfold afterSel
  split at h <;> simp_all

theorem inv_step_rl {s s' : St} {a : Act} (h : Inv s) (hs : step s a = some s')
    (ha : match a with
      | .rlEnter | .rlConfig _ _ | .rlAfterCb | .rlStopOld _ | .rlBootBegin _ | .rlProbeOk | .rlProbeFail _ => True
      | _ => False) : Inv s' := by
  cases a <;> simp only at ha
  case rlEnter =>
    simp only [step] at hs
    split at hs
    · cases hs
    · rename_i hc
      simp only [Bool.or_eq_true, bne_iff_ne, ne_eq, beq_iff_eq, not_or, Decidable.not_not] at hc
      obtain ⟨⟨hrl, _⟩, hmu⟩ := hc
      have hmu' : s.mu = none := by cases hm : s.mu <;> simp_all
      have hnp : s.run ≠ .probing := not_probing_of_mu h (by rw [hmu']; simp)
      split at hs
      · rename_i f hf
        obtain ⟨rfl, hal⟩ := tr_some hf
        have hfsm : s.fsm = .running := by
          cases hx : s.fsm <;> rw [hx] at hal <;> simp [allowed] at hal
        have hne : early s = false := by
          cases he : early s with
          | false => rfl
          | true =>
            obtain ⟨_, e2, e3⟩ := h.early he
            by_cases hi : s.run = .idle
            · rw [e2 hi] at hfsm; cases hfsm
            · rw [e3 hi] at hfsm; cases hfsm
        cases hs
        refine ⟨h.one, h.srvLt, h.cancel, by simp, by intro hr; exact absurd hr hnp, by simp, by simp,
          ?_, h.fresh, ?_, ?_, by simp⟩
        · intro he
          have : early s = true := he
          rw [hne] at this; cases this
        · intro hp _
          exact h.released hp (by rw [hrl]; simp)
        · intro hr _ _
          exact h.serving hr (Or.inl hrl) (by rw [hfsm]; simp)
      · cases hs
        exact ⟨h.one, h.srvLt, h.cancel, h.muRl, h.muRun, h.muFree, h.muFree', h.early, h.fresh, h.released, h.serving, h.closedAtBoot⟩
  case rlConfig res same =>
    simp only [step] at hs
    split at hs
    · cases hs
    · rename_i hc
      simp only [bne_iff_ne, ne_eq, Decidable.not_not] at hc
      have hmu := h.muRl (by rw [hc]; simp)
      have hnp : s.run ≠ .probing := not_probing_of_mu h (by rw [hmu]; simp)
      have hne := not_early_of_rl h (by rw [hc]; simp)
      cases hs
      refine ⟨h.one, h.srvLt, h.cancel, by simp [hmu], by intro hr; exact absurd hr hnp, h.muFree, by simp, ?_, h.fresh, ?_, ?_,
        by simp⟩
      · intro he
        have : early s = true := he
        rw [hne] at this; cases this
      · intro hp _
        exact h.released hp (by rw [hc]; simp)
      · intro hr _ hfe
        exact h.serving hr (Or.inr (Or.inl hc)) hfe
  case rlAfterCb =>
    simp only [step] at hs
    have key : ∀ r b, s.rl = .cbReturned r b →
        (∀ (f : Fsm), (f ≠ .error → s.fsm ≠ .error) →
          Inv { s with fsm := f, rl := RlPc.idle, mu := none, reloads := s.reloads + 1 }) ∧
        (∀ c, Inv { s with cfg := some c, rl := RlPc.stopOld }) := by
      intro r b hc
      have hmu := h.muRl (by rw [hc]; simp)
      have hnp : s.run ≠ .probing := not_probing_of_mu h (by rw [hmu]; simp)
      have hne := not_early_of_rl h (by rw [hc]; simp)
      constructor
      · intro f hf
        refine ⟨h.one, h.srvLt, h.cancel, by simp, by intro hr; exact absurd hr hnp, by simp, by simp, ?_, h.fresh, ?_, ?_, by simp⟩
        · intro he
          have : early s = true := he
          rw [hne] at this; cases this
        · intro hp _
          exact h.released hp (by rw [hc]; simp)
        · intro hr _ hfe
          exact h.serving hr (Or.inr (Or.inr ⟨r, b, hc⟩)) (hf hfe)
      · intro c
        refine ⟨h.one, h.srvLt, h.cancel, by simp [hmu], by intro hr; exact absurd hr hnp, h.muFree, by simp, ?_, h.fresh, ?_, by simp,
          by simp⟩
        · intro he
          have : early s = true := he
          rw [hne] at this; cases this
        · intro hp _
          exact h.released hp (by rw [hc]; simp)
    split at hs
    · rename_i c same hc
      obtain ⟨toIdle, toStop⟩ := key _ _ hc
      split at hs
      · cases hs
        apply toIdle
        intro hfe hse
        simp [tr, hse, allowed] at hfe
      · cases hs
        exact toStop c
    · rename_i r b _ hc
      obtain ⟨toIdle, _⟩ := key _ _ hc
      cases hs
      exact toIdle _ (fun hfe => absurd rfl hfe)
    · cases hs
  case rlStopOld inTime =>
    simp only [step] at hs
    split at hs
    · cases hs
    · rename_i hc
      simp only [bne_iff_ne, ne_eq, Decidable.not_not] at hc
      have hmu := h.muRl (by rw [hc]; simp)
      have hnp : s.run ≠ .probing := not_probing_of_mu h (by rw [hmu]; simp)
      have hne := not_early_of_rl h (by rw [hc]; simp)
      have hno := stopServer_none_open h.one
      have hfresh : (s.run = .idle ∨ s.run = .entered ∨ s.run = .bootFailed) → False := by
        intro hr
        have : early s = true := by rcases hr with hr | hr | hr <;> simp [early, hr]
        rw [hne] at this; cases this
      split at hs
      · cases hs
        refine ⟨?_, ?_, by simpa [afterSel] using h.cancel, by simp, by simpa using hnp, by simp, by simp, ?_, ?_, ?_, by simp, by simp⟩
        · intro i hi
          have hi' : isOpenAt (stopServer s) i = true := hi
          rw [hno i] at hi'; cases hi'
        · intro i hi
          have hi' : (stopServer s).srv = some i := hi
          rw [stopServer_srv] at hi'; cases hi'
        · intro he
          have : early s = true := by simpa [early] using he
          rw [hne] at this; cases this
        · intro hr; exact absurd (by simpa using hr) hfresh
        · intro _ _ i; exact hno i
      · cases hs
        refine ⟨?_, ?_, by simpa [afterSel] using h.cancel, by simp [hmu], (fun hr => absurd (by simpa using hr) hnp), by simp [hmu], by simp, ?_, ?_, ?_, by simp, ?_⟩
        · intro i hi
          have hi' : isOpenAt (stopServer s) i = true := hi
          rw [hno i] at hi'; cases hi'
        · intro i hi
          have hi' : (stopServer s).srv = some i := hi
          rw [stopServer_srv] at hi'; cases hi'
        · intro he
          have : early s = true := by simpa [early] using he
          rw [hne] at this; cases this
        · intro hr; exact absurd (by simpa using hr) hfresh
        · intro _ _ i; exact hno i
        · intro _ i; exact hno i
  case rlBootBegin ok =>
    simp only [step] at hs
    split at hs
    · cases hs
    · rename_i hc
      simp only [bne_iff_ne, ne_eq, Decidable.not_not] at hc
      have hmu := h.muRl (by rw [hc]; simp)
      have hnp : s.run ≠ .probing := not_probing_of_mu h (by rw [hmu]; simp)
      have hne := not_early_of_rl h (by rw [hc]; simp)
      have hclosed := h.closedAtBoot hc
      have hfresh : (s.run = .idle ∨ s.run = .entered ∨ s.run = .bootFailed) → False := by
        intro hr
        have : early s = true := by rcases hr with hr | hr | hr <;> simp [early, hr]
        rw [hne] at this; cases this
      split at hs
      · cases hs
        refine ⟨?_, ?_, by simpa [afterSel, create] using h.cancel, by simp [create, hmu], (fun hr => absurd (by simpa [create] using hr) hnp),
          by simp [create, hmu], by simp, ?_, ?_, by simp, by simp, by simp⟩
        · intro i hi
          have hi' : isOpenAt (create s) i = true := hi
          rw [isOpenAt_create, hclosed i] at hi'
          simp only [Bool.false_or, beq_iff_eq] at hi'
          subst hi'
          exact ⟨rfl, rfl⟩
        · intro i hi
          simp only [create, Option.some.injEq] at hi
          subst hi
          simp [create]
        · intro he
          have : early s = true := by simpa [early, create] using he
          rw [hne] at this; cases this
        · intro hr; exact absurd (by simpa [create] using hr) hfresh
      · cases hs
        refine ⟨h.one, h.srvLt, h.cancel, by simp, by intro hr; exact absurd hr hnp, by simp, by simp, ?_, h.fresh, ?_, by simp, by simp⟩
        · intro he
          have : early s = true := he
          rw [hne] at this; cases this
        · intro _ _ i; exact hclosed i
  case rlProbeOk =>
    simp only [step] at hs
    split at hs
    · rename_i hc
      simp only [Bool.and_eq_true, beq_iff_eq, Bool.not_eq_true'] at hc
      obtain ⟨⟨hrl, hl⟩, hcan⟩ := hc
      have hmu := h.muRl (by rw [hrl]; simp)
      have hnp : s.run ≠ .probing := not_probing_of_mu h (by rw [hmu]; simp)
      have hne := not_early_of_rl h (by rw [hrl]; simp)
      cases hs
      refine ⟨h.one, h.srvLt, h.cancel, by simp, by intro hr; exact absurd hr hnp, by simp, by simp, ?_, h.fresh, ?_, ?_, by simp⟩
      · intro he
        have : early s = true := he
        rw [hne] at this; cases this
      · intro hp _
        have : post s = true := hp
        have := h.cancel (post_afterSel this)
        rw [hcan] at this; cases this
      · intro _ _ _
        exact hl
    · cases hs
  case rlProbeFail consume =>
    simp only [step] at hs
    split at hs
    · cases hs
    · rename_i hc
      simp only [bne_iff_ne, ne_eq, Decidable.not_not] at hc
      have hmu := h.muRl (by rw [hc]; simp)
      have hnp : s.run ≠ .probing := not_probing_of_mu h (by rw [hmu]; simp)
      have hne := not_early_of_rl h (by rw [hc]; simp)
      have hno := stopServer_none_open (s := { s with errs := if consume = true then List.drop 1 s.errs else s.errs }) h.one
      have hfresh : (s.run = .idle ∨ s.run = .entered ∨ s.run = .bootFailed) → False := by
        intro hr
        have : early s = true := by rcases hr with hr | hr | hr <;> simp [early, hr]
        rw [hne] at this; cases this
      cases hs
      refine ⟨?_, ?_, by simpa [afterSel] using h.cancel, by simp, by simpa using hnp, by simp, by simp, ?_, ?_, ?_, by simp, by simp⟩
      · intro i hi
        have hi' : isOpenAt (stopServer { s with errs := if consume = true then List.drop 1 s.errs else s.errs }) i = true := hi
        rw [hno i] at hi'; cases hi'
      · intro i hi
        have hi' : (stopServer { s with errs := if consume = true then List.drop 1 s.errs else s.errs }).srv = some i := hi
        rw [stopServer_srv] at hi'; cases hi'
      · intro he
        have : early s = true := by simpa [early] using he
        rw [hne] at this; cases this
      · intro hr; exact absurd (by simpa using hr) hfresh
      · intro _ _ i; exact hno i

end GoSup.HttpLts

namespace GoSup.HttpLts
open GoSup.Core GoSup.CompSeq
open GoSup.CompLts (getElem?_modify')

theorem inv_bind {s : St} (h : Inv s) (j : Nat) (st : ISt) (errs' : List Nat) (hj : s.insts[j]? = some .created)
    (hl : listening s = true → listening { s with insts := s.insts.modify j (fun _ => st), errs := errs' } = true) :
    Inv { s with insts := s.insts.modify j (fun _ => st), errs := errs' } := by
  have hsub : ∀ i, isOpenAt { s with insts := s.insts.modify j (fun _ => st), errs := errs' } i = true → isOpenAt s i = true :=
    fun i hi => isOpenAt_modify_sub s j i st hj hi
  have hnone : ∀ i, isOpenAt s i = false → isOpenAt { s with insts := s.insts.modify j (fun _ => st), errs := errs' } i = false := by
    intro i hi
    cases hx : isOpenAt { s with insts := s.insts.modify j (fun _ => st), errs := errs' } i with
    | false => rfl
    | true => rw [hsub i hx] at hi; cases hi
  refine ⟨fun i hi => h.one i (hsub i hi), ?_, h.cancel, h.muRl, h.muRun, h.muFree, h.muFree', h.early, ?_, ?_, ?_, ?_⟩
  · intro i hi
    simp only [List.length_modify]
    exact h.srvLt i hi
  · intro hr
    have := h.fresh hr
    simp [this]
  · intro hp hr i
    exact hnone i (h.released hp hr i)
  · intro hr hrl hf
    exact hl (h.serving hr hrl hf)
  · intro hr i
    exact hnone i (h.closedAtBoot hr i)

/-- every action of every thread preserves the invariant -/
theorem inv_step {s s' : St} {a : Act} (h : Inv s) (hs : step s a = some s') : Inv s' := by
  cases a
  case instBind i =>
    simp only [step] at hs
    split at hs
    · rename_i hc
      simp only [beq_iff_eq] at hc
      cases hs
      have := inv_bind h i .listening s.errs hc (fun hl => listening_bind s i hc hl)
      exact this
    · cases hs
  case instBindFail i =>
    simp only [step] at hs
    split at hs
    · rename_i hc
      simp only [beq_iff_eq] at hc
      cases hs
      exact inv_bind h i .failed (s.errs ++ [i]) hc (fun hl => listening_bindFail s i hc hl)
    · cases hs
  case stopCall =>
    simp only [step] at hs; cases hs
    exact ⟨h.one, h.srvLt, h.cancel, h.muRl, h.muRun, h.muFree, h.muFree', h.early, h.fresh, h.released, h.serving, h.closedAtBoot⟩
  case cancelCtx =>
    simp only [step] at hs; cases hs
    exact ⟨h.one, h.srvLt, fun ha => by simp [h.cancel ha], h.muRl, h.muRun, h.muFree, h.muFree', h.early, h.fresh, h.released,
      h.serving, h.closedAtBoot⟩
  case stopDone =>
    simp only [step] at hs
    split at hs
    · cases hs; exact h
    · cases hs
  case reloadCall =>
    simp only [step] at hs; cases hs
    exact ⟨h.one, h.srvLt, h.cancel, h.muRl, h.muRun, h.muFree, h.muFree', h.early, h.fresh, h.released, h.serving, h.closedAtBoot⟩
  case reloadAck st =>
    simp only [step] at hs
    split at hs
    · cases hs
      exact ⟨h.one, h.srvLt, h.cancel, h.muRl, h.muRun, h.muFree, h.muFree', h.early, h.fresh, h.released, h.serving, h.closedAtBoot⟩
    · cases hs
  case retAck r st =>
    simp only [step] at hs
    split at hs
    · cases hs
    · split at hs
      · split at hs
        · cases hs
          exact ⟨h.one, h.srvLt, h.cancel, h.muRl, h.muRun, h.muFree, h.muFree', h.early, h.fresh, h.released, h.serving, h.closedAtBoot⟩
        · cases hs
      · cases hs
  case observe st =>
    simp only [step] at hs
    split at hs
    · cases hs; exact h
    · cases hs
  case observeInst i =>
    simp only [step] at hs
    split at hs
    · cases hs; exact h
    · cases hs
  case rlEnter => exact inv_step_rl h hs trivial
  case rlConfig => exact inv_step_rl h hs trivial
  case rlAfterCb => exact inv_step_rl h hs trivial
  case rlStopOld => exact inv_step_rl h hs trivial
  case rlBootBegin => exact inv_step_rl h hs trivial
  case rlProbeOk => exact inv_step_rl h hs trivial
  case rlProbeFail => exact inv_step_rl h hs trivial
  all_goals exact inv_step_run h hs trivial

theorem inv_reach {s : St} (h : Reach lts init s) : Inv s :=
  inv_of_reach Inv inv_init (fun _ _ _ hi hs => inv_step hi hs) h

end GoSup.HttpLts
