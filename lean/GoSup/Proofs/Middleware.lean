import GoSup.Model.Middleware
/-!
Refinement of the index-based implementation model of the middleware chain to the reference
interpreter (helper lemmas for `Props/C15`).
-/
namespace GoSup.Middleware

/-- actions that touch the chain -/
def isChain : Act → Bool
  | .next | .abort | .tryNext | .wild _ => true
  | _ => false

theorem specActs_nil (i : Nat) (rest : List Handler) (s : St) : specActs i [] rest s = .ok (s, false) := by
  rw [specActs]

theorem specActs_next (i : Nat) (as : List Act) (rest : List Handler) (s : St) :
    specActs i (.next :: as) rest s =
      match specRun (i + 1) rest s with
      | .ok s' => consumed (specActs i as [] s')
      | .panic s' => .panic (s', true)
      | .fuel => .fuel := by
  rw [specActs]; rfl

theorem specActs_abort (i : Nat) (as : List Act) (rest : List Handler) (s : St) :
    specActs i (.abort :: as) rest s = consumed (specActs i as [] (s.emit (.aborted i))) := by
  rw [specActs]

theorem specActs_tryNext (i : Nat) (as : List Act) (rest : List Handler) (s : St) :
    specActs i (.tryNext :: as) rest s =
      match specRun (i + 1) rest s with
      | .ok s' => consumed (specActs i as [] s')
      | .panic s' => consumed (specActs i as [] (recoverEffect s'))
      | .fuel => .fuel := by
  rw [specActs]; rfl

theorem specActs_wild (i : Nat) (p : String) (as : List Act) (rest : List Handler) (s : St) :
    specActs i (.wild p :: as) rest s =
      if s.path.startsWith p then
        match specRun (i + 1) rest { s with path := (s.path.drop p.length).toString } with
        | .ok s' => consumed (specActs i as [] s')
        | .panic s' => .panic (s', true)
        | .fuel => .fuel
      else
        let (s', pn) := notFoundEffect s
        if pn then .panic (s', false) else .ok (s', true) := by
  rw [specActs]; rfl

theorem specActs_simple (i : Nat) (a : Act) (as : List Act) (rest : List Handler) (s : St) (h : isChain a = false) :
    specActs i (a :: as) rest s =
      (if (simpleAct a s).2 then .panic ((simpleAct a s).1, false) else specActs i as rest (simpleAct a s).1) := by
  cases a <;> simp [isChain] at h <;> rw [specActs] <;> simp

theorem specRun_nil (i : Nat) (s : St) : specRun i [] s = .ok s := by rw [specRun]

theorem specRun_cons (i : Nat) (h : Handler) (t : List Handler) (s : St) :
    specRun i (h :: t) s =
      match specActs i h t (s.emit (.enter i)) with
      | .ok (s', true) => .ok (s'.emit (.leave i))
      | .ok (s', false) => specRun (i + 1) t (s'.emit (.leave i))
      | .panic (s', _) => .panic s'
      | .fuel => .fuel := by
  rw [specRun]; rfl

theorem implActs_simple (f : Nat) (hs : List Handler) (i : Nat) (a : Act) (as : List Act) (m : Impl)
    (h : isChain a = false) :
    implActs (f + 1) hs i (a :: as) m =
      (if (simpleAct a m.s).2 then .panic { m with s := (simpleAct a m.s).1 }
       else implActs f hs i as { m with s := (simpleAct a m.s).1 }) := by
  cases a <;> simp [isChain] at h <;> simp [implActs]

/-- the reference interpreter never runs out of fuel (it has none) -/
theorem spec_no_fuel : ∀ (n : Nat),
    (∀ i acts rest s, acts.length + (rest.map List.length).sum + rest.length ≤ n → specActs i acts rest s ≠ .fuel) ∧
    (∀ i rest s, (rest.map List.length).sum + rest.length ≤ n → specRun i rest s ≠ .fuel) := by
  intro n
  induction n using Nat.strongRecOn with
  | _ n ih =>
    have hrun : ∀ i rest s, (rest.map List.length).sum + rest.length ≤ n → specRun i rest s ≠ .fuel := by
      intro i rest
      induction rest generalizing i with
      | nil => intro s _; rw [specRun_nil]; simp
      | cons h t iht =>
        intro s hn
        rw [specRun_cons]
        simp at hn
        have hA : specActs i h t (s.emit (.enter i)) ≠ .fuel := by
          rcases Nat.lt_or_ge (h.length + (t.map List.length).sum + t.length) n with hlt | hge
          · exact (ih _ hlt).1 i h t _ (Nat.le_refl _)
          · omega
        cases hr : specActs i h t (s.emit (.enter i)) with
        | fuel => exact absurd hr hA
        | panic x => obtain ⟨a, b⟩ := x; simp
        | ok x =>
          obtain ⟨a, b⟩ := x
          cases b with
          | true => simp
          | false => simp; exact iht (i + 1) _ (by omega)
    refine ⟨?_, hrun⟩
    intro i acts
    induction acts with
    | nil => intro rest s _; rw [specActs_nil]; simp
    | cons a as iha =>
      intro rest s hn
      simp at hn
      have hcons : ∀ x, consumed x = .fuel → x = .fuel := by
        intro x; cases x <;> simp [consumed]
      have hrest0 : ∀ s', specActs i as [] s' ≠ .fuel := fun s' => iha [] s' (by simp; omega)
      have hr : ∀ i' s', specRun i' rest s' ≠ .fuel := fun i' s' => hrun i' rest s' (by omega)
      by_cases hch : isChain a = false
      · rw [specActs_simple _ _ _ _ _ hch]
        split
        · simp
        · exact iha rest _ (by omega)
      · cases a <;> simp [isChain] at hch
        · rw [specActs_next]
          cases h1 : specRun (i + 1) rest s with
          | fuel => exact absurd h1 (hr _ _)
          | panic x => simp
          | ok x => simp; exact fun h => hrest0 _ (hcons _ h)
        · rw [specActs_abort]; exact fun h => hrest0 _ (hcons _ h)
        · rw [specActs_tryNext]
          cases h1 : specRun (i + 1) rest s with
          | fuel => exact absurd h1 (hr _ _)
          | panic x => simp; exact fun h => hrest0 _ (hcons _ h)
          | ok x => simp; exact fun h => hrest0 _ (hcons _ h)
        · rw [specActs_wild]
          split
          · cases h1 : specRun (i + 1) rest _ with
            | fuel => exact absurd h1 (hr _ _)
            | panic x => simp
            | ok x => simp; exact fun h => hrest0 _ (hcons _ h)
          · simp only; split <;> simp

end GoSup.Middleware

namespace GoSup.Middleware

/-- the handlers not yet started, as seen from handler `i`: everything after it while the chain
is intact (`pos = i + 1`), nothing once `Next` ran or `Abort` was called (`pos > len`) -/
def restOf (hs : List Handler) (i pos : Nat) : List Handler := if pos = i + 1 then hs.drop (i + 1) else []

def runRel (hs : List Handler) : Out Impl → Out St → Prop
  | .ok m', .ok s' => m'.s = s' ∧ hs.length + 1 ≤ m'.pos
  | .panic m', .panic s' => m'.s = s'
  | _, _ => False

def actsRel (hs : List Handler) (i : Nat) (m : Impl) : Out Impl → Out (St × Bool) → Prop
  | .ok m', .ok (s', c) =>
    m'.s = s' ∧ (m.pos = i + 1 → (c = false → m'.pos = i + 1) ∧ (c = true → hs.length + 1 ≤ m'.pos))
      ∧ (hs.length + 1 ≤ m.pos → hs.length + 1 ≤ m'.pos)
  | .panic m', .panic (s', _) => m'.s = s'
  | _, _ => False

structure Refines (hs : List Handler) (f : Nat) : Prop where
  next : ∀ m, implNext f hs m ≠ .fuel → runRel hs (implNext f hs m) (specRun m.pos (hs.drop m.pos) m.s)
  loop : ∀ m, 1 ≤ m.pos → implLoop f hs m ≠ .fuel →
    runRel hs (implLoop f hs m) (specRun (m.pos - 1) (hs.drop (m.pos - 1)) m.s)
  acts : ∀ i acts m, i < hs.length → (m.pos = i + 1 ∨ hs.length + 1 ≤ m.pos) → implActs f hs i acts m ≠ .fuel →
    actsRel hs i m (implActs f hs i acts m) (specActs i acts (restOf hs i m.pos) m.s)

theorem restOf_consumed (hs : List Handler) (i pos : Nat) (hi : i < hs.length) (h : hs.length + 1 ≤ pos) :
    restOf hs i pos = [] := by
  simp only [restOf]; split
  · omega
  · rfl

/-- `specRun` started from handler `i`'s view of the rest equals `specRun` from the position -/
theorem specRun_rest (hs : List Handler) (i pos : Nat) (hi : i < hs.length)
    (he : pos = i + 1 ∨ hs.length + 1 ≤ pos) (s : St) :
    specRun (i + 1) (restOf hs i pos) s = specRun pos (hs.drop pos) s := by
  rcases he with h | h
  · subst h; simp [restOf]
  · rw [restOf_consumed hs i pos hi h, List.drop_eq_nil_of_le (by omega), specRun_nil, specRun_nil]

/-- continuing handler `i` after the chain has been consumed -/
theorem acts_after_consumed {hs : List Handler} {f : Nat} (ih : Refines hs f) (i : Nat) (as : List Act)
    (m m' : Impl) (hi : i < hs.length) (hc : hs.length + 1 ≤ m'.pos) (hne : implActs f hs i as m' ≠ .fuel) :
    actsRel hs i m (implActs f hs i as m') (consumed (specActs i as [] m'.s)) := by
  have h := ih.acts i as m' hi (.inr hc) hne
  rw [restOf_consumed hs i m'.pos hi hc] at h
  cases hr : implActs f hs i as m' with
  | fuel => exact absurd hr hne
  | ok m'' =>
    cases hq : specActs i as [] m'.s with
    | fuel => simp [hr, hq, actsRel] at h
    | panic x => simp [hr, hq, actsRel] at h
    | ok x =>
      obtain ⟨s'', c⟩ := x
      simp only [hr, hq, actsRel] at h
      simp only [consumed, actsRel]
      exact ⟨h.1, fun _ => ⟨fun hf => by simp at hf, fun _ => h.2.2 hc⟩, fun _ => h.2.2 hc⟩
  | panic m'' =>
    cases hq : specActs i as [] m'.s with
    | fuel => simp [hr, hq, actsRel] at h
    | ok x => obtain ⟨a, b⟩ := x; simp [hr, hq, actsRel] at h
    | panic x =>
      obtain ⟨s'', c⟩ := x
      simp only [hr, hq, actsRel] at h
      simpa [consumed, actsRel] using h

/-- sequencing on implementation results -/
def bindOk (r : Out Impl) (k : Impl → Out Impl) : Out Impl :=
  match r with
  | .ok m => k m
  | .panic m => .panic m
  | .fuel => .fuel

theorem bindOk_ne_fuel {r : Out Impl} {k : Impl → Out Impl} (h : bindOk r k ≠ .fuel) :
    r ≠ .fuel ∧ ∀ m, r = .ok m → k m ≠ .fuel := by
  cases r with
  | fuel => simp [bindOk] at h
  | panic m => exact ⟨by simp, fun m' e => by simp at e⟩
  | ok m => exact ⟨by simp, fun m' e => by simp at e; subst e; simpa [bindOk] using h⟩

theorem implNext_succ (f : Nat) (hs : List Handler) (m : Impl) :
    implNext (f + 1) hs m = implLoop f hs { m with pos := m.pos + 1 } := by simp [implNext]

theorem implLoop_in (f : Nat) (hs : List Handler) (m : Impl) (h1 : 1 ≤ m.pos) (h2 : m.pos ≤ hs.length) :
    implLoop (f + 1) hs m =
      bindOk (implActs f hs (m.pos - 1) (hs.getD (m.pos - 1) []) { m with s := m.s.emit (.enter (m.pos - 1)) })
        (fun m' => implLoop f hs { m' with s := m'.s.emit (.leave (m.pos - 1)), pos := m'.pos + 1 }) := by
  simp only [implLoop, h1, h2, and_self, if_true, bindOk]
  generalize implActs f hs (m.pos - 1) (hs.getD (m.pos - 1) []) { m with s := m.s.emit (.enter (m.pos - 1)) } = r
  cases r <;> rfl

theorem implLoop_out (f : Nat) (hs : List Handler) (m : Impl) (h : ¬ (1 ≤ m.pos ∧ m.pos ≤ hs.length)) :
    implLoop (f + 1) hs m = .ok m := by simp [implLoop, h]

theorem implActs_nil (f : Nat) (hs : List Handler) (i : Nat) (m : Impl) : implActs (f + 1) hs i [] m = .ok m := by
  simp [implActs]

theorem implActs_next (f : Nat) (hs : List Handler) (i : Nat) (as : List Act) (m : Impl) :
    implActs (f + 1) hs i (.next :: as) m = bindOk (implNext f hs m) (fun m' => implActs f hs i as m') := by
  simp only [implActs, bindOk]
  generalize implNext f hs m = r
  cases r <;> rfl

theorem implActs_abort (f : Nat) (hs : List Handler) (i : Nat) (as : List Act) (m : Impl) :
    implActs (f + 1) hs i (.abort :: as) m =
      implActs f hs i as { m with s := m.s.emit (.aborted i), pos := hs.length + 1 } := by
  simp [implActs]

theorem implActs_tryNext (f : Nat) (hs : List Handler) (i : Nat) (as : List Act) (m : Impl) :
    implActs (f + 1) hs i (.tryNext :: as) m =
      match implNext f hs m with
      | .ok m' => implActs f hs i as m'
      | .panic m' => implActs f hs i as { m' with s := recoverEffect m'.s, pos := hs.length + 1 }
      | .fuel => .fuel := by
  simp only [implActs]
  generalize implNext f hs m = r
  cases r <;> rfl

theorem implActs_wild (f : Nat) (hs : List Handler) (i : Nat) (p : String) (as : List Act) (m : Impl) :
    implActs (f + 1) hs i (.wild p :: as) m =
      if m.s.path.startsWith p then
        bindOk (implNext f hs { m with s := { m.s with path := (m.s.path.drop p.length).toString } })
          (fun m' => implActs f hs i as m')
      else
        if (notFoundEffect m.s).2 then .panic { m with s := (notFoundEffect m.s).1 }
        else .ok { m with s := (notFoundEffect m.s).1, pos := hs.length + 1 } := by
  simp only [implActs, bindOk]
  split
  · generalize implNext f hs { m with s := { m.s with path := (m.s.path.drop p.length).toString } } = r
    cases r <;> rfl
  · rfl

/-- a chain step (`Next` from handler `i`) followed by the rest of the handler body -/
theorem next_then_acts {hs : List Handler} {f : Nat} (ih : Refines hs f) (i : Nat) (as : List Act) (m m0 : Impl)
    (hi : i < hs.length) (hpos : m0.pos = m.pos) (he : m.pos = i + 1 ∨ hs.length + 1 ≤ m.pos)
    (hne : bindOk (implNext f hs m0) (fun m' => implActs f hs i as m') ≠ .fuel) :
    actsRel hs i m (bindOk (implNext f hs m0) (fun m' => implActs f hs i as m'))
      (match specRun (i + 1) (restOf hs i m.pos) m0.s with
       | .ok s' => consumed (specActs i as [] s')
       | .panic s' => .panic (s', true)
       | .fuel => .fuel) := by
  obtain ⟨hn, hk⟩ := bindOk_ne_fuel hne
  have := ih.next m0 hn
  rw [specRun_rest hs i m.pos hi he, ← hpos]
  cases hr : implNext f hs m0 with
  | fuel => exact absurd hr hn
  | panic m' =>
    cases hq : specRun m0.pos (hs.drop m0.pos) m0.s with
    | fuel => simp [hr, hq, runRel] at this
    | ok x => simp [hr, hq, runRel] at this
    | panic s' => simpa [hr, hq, runRel, actsRel, bindOk] using this
  | ok m' =>
    cases hq : specRun m0.pos (hs.drop m0.pos) m0.s with
    | fuel => simp [hr, hq, runRel] at this
    | panic x => simp [hr, hq, runRel] at this
    | ok s' =>
      simp only [hr, hq, runRel] at this
      simp only [bindOk]
      rw [← this.1]
      exact acts_after_consumed ih i as m m' hi this.2 (hk m' hr)

theorem refines_zero (hs : List Handler) : Refines hs 0 :=
  ⟨fun m h => absurd rfl h, fun m _ h => absurd rfl h, fun i a m _ _ h => absurd rfl h⟩

theorem refines_succ (hs : List Handler) (f : Nat) (ih : Refines hs f) : Refines hs (f + 1) := by
  refine ⟨?_, ?_, ?_⟩
  · -- Next: index++, then the loop
    intro m hne
    rw [implNext_succ] at hne ⊢
    have := ih.loop { m with pos := m.pos + 1 } (by simp) hne
    simpa using this
  · -- the loop
    intro m hpos hne
    by_cases hin : m.pos ≤ hs.length
    · rw [implLoop_in f hs m hpos hin] at hne ⊢
      obtain ⟨hn, hk⟩ := bindOk_ne_fuel hne
      have hi : m.pos - 1 < hs.length := by omega
      have hdrop : hs.drop (m.pos - 1) = hs[m.pos - 1] :: hs.drop (m.pos - 1 + 1) := List.drop_eq_getElem_cons hi
      have hget : hs.getD (m.pos - 1) [] = hs[m.pos - 1] := by simp [List.getD, hi]
      rw [hget] at hn hk ⊢
      rw [hdrop, specRun_cons]
      have hA := ih.acts (m.pos - 1) hs[m.pos - 1] { m with s := m.s.emit (.enter (m.pos - 1)) } hi
        (.inl (by simp; omega)) hn
      have hro : restOf hs (m.pos - 1) m.pos = hs.drop (m.pos - 1 + 1) := by simp [restOf]; omega
      simp only [hro] at hA
      cases hr : implActs f hs (m.pos - 1) hs[m.pos - 1] { m with s := m.s.emit (.enter (m.pos - 1)) } with
      | fuel => exact absurd hr hn
      | panic m' =>
        cases hq : specActs (m.pos - 1) hs[m.pos - 1] (hs.drop (m.pos - 1 + 1)) (m.s.emit (.enter (m.pos - 1))) with
        | fuel => simp [hr, hq, actsRel] at hA
        | ok x => obtain ⟨a, b⟩ := x; simp [hr, hq, actsRel] at hA
        | panic x =>
          obtain ⟨s', c⟩ := x
          simp only [hr, hq, actsRel] at hA
          simpa [runRel, bindOk] using hA
      | ok m' =>
        have hk' := hk m' hr
        cases hq : specActs (m.pos - 1) hs[m.pos - 1] (hs.drop (m.pos - 1 + 1)) (m.s.emit (.enter (m.pos - 1))) with
        | fuel => simp [hr, hq, actsRel] at hA
        | panic x => obtain ⟨a, b⟩ := x; simp [hr, hq, actsRel] at hA
        | ok x =>
          obtain ⟨s', c⟩ := x
          simp only [hr, hq, actsRel] at hA
          obtain ⟨hs', hfresh, _⟩ := hA
          have hfresh := hfresh (by show m.pos = m.pos - 1 + 1; omega)
          have hL := ih.loop { m' with s := m'.s.emit (.leave (m.pos - 1)), pos := m'.pos + 1 } (by simp) hk'
          simp only [bindOk]
          cases c with
          | true =>
            -- the chain was consumed inside the handler: the loop ends
            have hc := hfresh.2 rfl
            simp only at hL
            rw [List.drop_eq_nil_of_le (by simp; omega), specRun_nil] at hL
            simp only
            cases hl : implLoop f hs { m' with s := m'.s.emit (.leave (m.pos - 1)), pos := m'.pos + 1 } with
            | fuel => exact absurd hl hk'
            | panic x => simp [hl, runRel] at hL
            | ok m'' =>
              simp only [hl, runRel] at hL ⊢
              rw [← hs']; exact hL
          | false =>
            have hp := hfresh.1 rfl
            simp only at hL
            have e1 : m'.pos + 1 - 1 = m.pos - 1 + 1 := by omega
            rw [e1] at hL
            simp only
            rw [← hs']; exact hL
    · rw [implLoop_out f hs m (by omega)]
      rw [List.drop_eq_nil_of_le (by omega), specRun_nil]
      simp [runRel]; omega
  · -- the body of handler i
    intro i acts m hi he hne
    cases acts with
    | nil => simp [implActs_nil, specActs_nil, actsRel]
    | cons a as =>
      by_cases hch : isChain a = false
      · -- an action that does not touch the chain
        rw [implActs_simple _ _ _ _ _ _ hch] at hne ⊢
        rw [specActs_simple _ _ _ _ _ hch]
        split
        · simp [actsRel]
        · rename_i hp
          simp only [hp, Bool.false_eq_true, if_false] at hne
          have := ih.acts i as { m with s := (simpleAct a m.s).1 } hi he hne
          cases hr : implActs f hs i as { m with s := (simpleAct a m.s).1 } with
          | fuel => exact absurd hr hne
          | ok m' =>
            cases hq : specActs i as (restOf hs i m.pos) (simpleAct a m.s).1 with
            | fuel => simp [hr, hq, actsRel] at this
            | panic x => obtain ⟨a', b'⟩ := x; simp [hr, hq, actsRel] at this
            | ok x => obtain ⟨s', c⟩ := x; simpa [hr, hq, actsRel] using this
          | panic m' =>
            cases hq : specActs i as (restOf hs i m.pos) (simpleAct a m.s).1 with
            | fuel => simp [hr, hq, actsRel] at this
            | ok x => obtain ⟨a', b'⟩ := x; simp [hr, hq, actsRel] at this
            | panic x => obtain ⟨s', c⟩ := x; simpa [hr, hq, actsRel] using this
      · cases a <;> simp [isChain] at hch
        · -- Next
          rw [implActs_next] at hne ⊢
          rw [specActs_next]
          exact next_then_acts ih i as m m hi rfl he hne
        · -- Abort
          rw [implActs_abort] at hne ⊢
          rw [specActs_abort]
          exact acts_after_consumed ih i as m { m with s := m.s.emit (.aborted i), pos := hs.length + 1 } hi
            (by simp) hne
        · -- recovery: Next under recover()
          rw [implActs_tryNext] at hne ⊢
          rw [specActs_tryNext, specRun_rest hs i m.pos hi he]
          cases hn : implNext f hs m with
          | fuel => simp [hn] at hne
          | panic m' =>
            have := ih.next m (by simp [hn])
            simp only [hn] at hne
            cases hq : specRun m.pos (hs.drop m.pos) m.s with
            | fuel => simp [hn, hq, runRel] at this
            | ok x => simp [hn, hq, runRel] at this
            | panic s' =>
              simp only [hn, hq, runRel] at this
              simp only
              rw [← this]
              exact acts_after_consumed ih i as m { m' with s := recoverEffect m'.s, pos := hs.length + 1 } hi
                (by simp) hne
          | ok m' =>
            have := ih.next m (by simp [hn])
            simp only [hn] at hne
            cases hq : specRun m.pos (hs.drop m.pos) m.s with
            | fuel => simp [hn, hq, runRel] at this
            | panic x => simp [hn, hq, runRel] at this
            | ok s' =>
              simp only [hn, hq, runRel] at this
              simp only
              rw [← this.1]
              exact acts_after_consumed ih i as m m' hi this.2 hne
        · -- wildcard
          rename_i p
          rw [implActs_wild] at hne ⊢
          rw [specActs_wild]
          split
          · rename_i hpfx
            simp only [hpfx, if_true] at hne
            exact next_then_acts ih i as m { m with s := { m.s with path := (m.s.path.drop p.length).toString } }
              hi rfl he hne
          · simp only
            split <;> simp [actsRel]

theorem refines_all (hs : List Handler) : ∀ f, Refines hs f
  | 0 => refines_zero hs
  | f + 1 => refines_succ hs f (refines_all hs f)

end GoSup.Middleware
