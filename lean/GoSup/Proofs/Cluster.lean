import GoSup.Model.Cluster
import GoSup.Proofs.Planner
/-!
# The cluster update executor: association-list lemmas, the three phases as functions of `get`
-/
namespace GoSup.Planner

/-! ## association lists -/

theorem get_mapVal (m : Entries) (g : String → Entry → Entry) (k : String) :
    get (m.map fun p => (p.1, g p.1 p.2)) k = (get m k).map (g k) := by
  induction m with
  | nil => rfl
  | cons p t ih =>
    obtain ⟨pk, pe⟩ := p
    by_cases h : pk = k
    · subst h; simp [get]
    · have : (pk == k) = false := by simpa using h
      simp only [List.map_cons, get, this, if_false, Bool.false_eq_true]
      exact ih

theorem keysOf_mapVal (m : Entries) (g : String → Entry → Entry) :
    keysOf (m.map fun p => (p.1, g p.1 p.2)) = keysOf m := by
  simp [keysOf, List.map_map, Function.comp_def]

theorem get_eq_none_of_not_mem {m : Entries} {k : String} (h : k ∉ keysOf m) : get m k = none := by
  induction m with
  | nil => rfl
  | cons p t ih =>
    obtain ⟨pk, pe⟩ := p
    simp only [keysOf, List.map_cons, List.mem_cons, not_or] at h
    have : (pk == k) = false := by simpa using fun h' => h.1 h'.symm
    simp only [get, this, if_false, Bool.false_eq_true]
    exact ih (by simpa [keysOf] using h.2)

theorem get_of_mem_nodup {m : Entries} (hnd : (keysOf m).Nodup) {k : String} {e : Entry} (h : (k, e) ∈ m) :
    get m k = some e := by
  induction m with
  | nil => simp at h
  | cons p t ih =>
    obtain ⟨pk, pe⟩ := p
    simp only [keysOf, List.map_cons, List.nodup_cons] at hnd
    simp only [List.mem_cons, Prod.mk.injEq] at h
    rcases h with ⟨h1, h2⟩ | h
    · subst h1; subst h2; simp [get]
    · have hne : pk ≠ k := fun heq => hnd.1 (by rw [heq]; exact List.mem_map_of_mem (f := (·.1)) h)
      have : (pk == k) = false := by simpa using hne
      simp only [get, this, if_false, Bool.false_eq_true]
      exact ih hnd.2 h

theorem mem_keysOf_of_get {m : Entries} {k : String} {e : Entry} (h : get m k = some e) : k ∈ keysOf m :=
  List.mem_map_of_mem (f := (·.1)) (mem_of_get h)

/-- filtering on the entry alone (Go: `delete` of marked entries), distinct keys -/
theorem get_filterVal {m : Entries} (hnd : (keysOf m).Nodup) (f : Entry → Bool) (k : String) :
    get (m.filter fun p => f p.2) k = (get m k).filter f := by
  induction m with
  | nil => rfl
  | cons p t ih =>
    obtain ⟨pk, pe⟩ := p
    simp only [keysOf, List.map_cons, List.nodup_cons] at hnd
    by_cases h : pk = k
    · subst h
      by_cases hf : f pe = true
      · simp [List.filter, hf, get, Option.filter]
      · have hf' : f pe = false := by simpa using hf
        simp only [List.filter, hf', get, beq_self_eq_true, if_true, Option.filter]
        simp only [Bool.false_eq_true, if_false]
        apply get_eq_none_of_not_mem
        intro hk
        simp only [keysOf, List.mem_map, List.mem_filter] at hk
        obtain ⟨q, ⟨hq, _⟩, rfl⟩ := hk
        exact hnd.1 (List.mem_map_of_mem (f := (·.1)) hq)
    · have hb : (pk == k) = false := by simpa using h
      by_cases hf : f pe = true
      · simp only [List.filter, hf, get, hb, if_false, Bool.false_eq_true]
        exact ih hnd.2
      · have hf' : f pe = false := by simpa using hf
        simp only [List.filter, hf', get, hb, if_false, Bool.false_eq_true]
        exact ih hnd.2

theorem keysOf_filter_sublist (m : Entries) (f : String × Entry → Bool) : (keysOf (m.filter f)).Sublist (keysOf m) :=
  List.Sublist.map _ List.filter_sublist

theorem get_del (m : Entries) (k k' : String) : get (del m k) k' = if k' = k then none else get m k' := by
  induction m with
  | nil => simp [del, get]
  | cons p t ih =>
    obtain ⟨pk, pe⟩ := p
    unfold del at ih ⊢
    by_cases h : pk = k
    · subst h
      simp only [List.filter, bne_self_eq_false]
      rw [ih]
      by_cases h2 : k' = pk
      · simp [h2]
      · have : (pk == k') = false := by simpa using fun h' => h2 h'.symm
        simp [h2, get, this]
    · have hb : (pk != k) = true := by simpa using h
      simp only [List.filter, hb]
      by_cases h3 : pk = k'
      · subst h3; simp [get, h]
      · have : (pk == k') = false := by simpa using h3
        simp only [get, this, if_false, Bool.false_eq_true]
        exact ih

theorem keysOf_put (m : Entries) (k : String) (e : Entry) :
    keysOf (put m k e) = if (get m k).isSome then keysOf m else keysOf m ++ [k] := by
  unfold put
  split
  · simp only [keysOf, List.map_map]
    apply List.map_congr_left
    intro p _
    simp only [Function.comp]
    split <;> simp_all
  · simp [keysOf]

theorem nodup_put {m : Entries} (h : (keysOf m).Nodup) (k : String) (e : Entry) : (keysOf (put m k e)).Nodup := by
  rw [keysOf_put]
  split
  · exact h
  · rename_i hn
    have hn' : get m k = none := by simpa using hn
    rw [List.nodup_append]
    refine ⟨h, by simp, ?_⟩
    intro a ha b hb
    simp only [List.mem_singleton] at hb
    subst hb
    intro heq; subst heq
    simp only [keysOf, List.mem_map] at ha
    obtain ⟨⟨k', e'⟩, hm, rfl⟩ := ha
    have := get_isSome_of_mem hm
    simp [hn'] at this

theorem nodup_putAll {m : Entries} (h : (keysOf m).Nodup) (ps : List (String × Entry)) : (keysOf (putAll m ps)).Nodup := by
  induction ps generalizing m with
  | nil => exact h
  | cons q t ih => exact ih (nodup_put h _ _)

theorem nodup_buildPending (cur : Entries) (des : List (String × Nat)) : (keysOf (buildPending cur des)).Nodup := by
  rw [buildPending_eq]; exact nodup_putAll (by simp [keysOf]) _

/-- whatever is in a map built by assignments was assigned (or was there before) -/
theorem mem_put {m : Entries} {k : String} {e : Entry} {q : String × Entry} (h : q ∈ put m k e) : q ∈ m ∨ q = (k, e) := by
  unfold put at h
  split at h
  · simp only [List.mem_map] at h
    obtain ⟨p, hp, rfl⟩ := h
    split
    · right; rfl
    · left; exact hp
  · simp only [List.mem_append, List.mem_singleton] at h
    exact h

theorem mem_putAll {m : Entries} {ps : List (String × Entry)} {q : String × Entry} (h : q ∈ putAll m ps) : q ∈ m ∨ q ∈ ps := by
  induction ps generalizing m with
  | nil => left; exact h
  | cons a t ih =>
    rcases ih (m := put m a.1 a.2) h with h1 | h1
    · rcases mem_put h1 with h2 | h2
      · left; exact h2
      · right; rw [h2]; exact List.mem_cons_self
    · right; exact List.mem_cons_of_mem _ h1

end GoSup.Planner

namespace GoSup.Cluster
open GoSup.Planner

/-! ## runtime updates as functions of `get` -/

def clr (e : Entry) : Entry := { e with runner := none }
def setR (i : Nat) (e : Entry) : Entry := { e with runner := some i }

theorem clearRuntime_eq (m : Entries) (k : String) :
    clearRuntime m k = m.map fun p => (p.1, (fun k' e => if k' == k then clr e else e) p.1 p.2) := by
  unfold clearRuntime
  apply List.map_congr_left
  intro p _
  split <;> simp_all [clr]

theorem setRuntime_eq (m : Entries) (k : String) (i : Nat) :
    setRuntime m k i = m.map fun p => (p.1, (fun k' e => if k' == k then setR i e else e) p.1 p.2) := by
  unfold setRuntime
  apply List.map_congr_left
  intro p _
  split <;> simp_all [setR]

theorem get_clearRuntime (m : Entries) (k K : String) :
    get (clearRuntime m k) K = if K = k then (get m K).map clr else get m K := by
  rw [clearRuntime_eq]
  refine (get_mapVal m (fun k' e => if k' == k then clr e else e) K).trans ?_
  by_cases h : K = k
  · simp [h]
  · simp [h]

theorem get_setRuntime (m : Entries) (k K : String) (i : Nat) :
    get (setRuntime m k i) K = if K = k then (get m K).map (setR i) else get m K := by
  rw [setRuntime_eq]
  refine (get_mapVal m (fun k' e => if k' == k then setR i e else e) K).trans ?_
  by_cases h : K = k
  · simp [h]
  · simp [h]

theorem keysOf_clearRuntime (m : Entries) (k : String) : keysOf (clearRuntime m k) = keysOf m := by
  rw [clearRuntime_eq]; exact keysOf_mapVal m (fun k' e => if k' == k then clr e else e)

theorem keysOf_setRuntime (m : Entries) (k : String) (i : Nat) : keysOf (setRuntime m k i) = keysOf m := by
  rw [setRuntime_eq]; exact keysOf_mapVal m (fun k' e => if k' == k then setR i e else e)

theorem get_removeEntry (m : Entries) (k K : String) : get (removeEntry m k) K = if K = k then none else get m K :=
  get_del m k K

theorem nodup_removeEntry {m : Entries} (h : (keysOf m).Nodup) (k : String) : (keysOf (removeEntry m k)).Nodup :=
  List.Nodup.sublist (keysOf_filter_sublist m _) h

theorem get_commit {m : Entries} (hnd : (keysOf m).Nodup) (K : String) :
    get (commit m) K = ((get m K).filter fun e => e.action != .stop).map fun e => { e with action := .none } := by
  unfold commit
  have := get_mapVal (m.filter fun p => p.2.action != .stop) (fun _ e => { e with action := .none }) K
  rw [this]
  exact congrArg _ (get_filterVal hnd (fun e => e.action != .stop) K)

theorem nodup_commit {m : Entries} (hnd : (keysOf m).Nodup) : (keysOf (commit m)).Nodup := by
  unfold commit
  have := keysOf_mapVal (m.filter fun p => p.2.action != .stop) (fun _ e => { e with action := .none })
  rw [this]
  exact List.Nodup.sublist (keysOf_filter_sublist m _) hnd

theorem mem_toStop {m : Entries} (hnd : (keysOf m).Nodup) (K : String) :
    K ∈ toStop m ↔ ∃ e, get m K = some e ∧ e.action = .stop := by
  simp only [toStop, List.mem_map, List.mem_filter]
  constructor
  · rintro ⟨⟨k, e⟩, ⟨hm, ha⟩, rfl⟩
    exact ⟨e, get_of_mem_nodup hnd hm, by simpa using ha⟩
  · rintro ⟨e, hg, ha⟩
    exact ⟨(K, e), ⟨mem_of_get hg, by simpa using ha⟩, rfl⟩

theorem mem_toStart {m : Entries} (hnd : (keysOf m).Nodup) (K : String) :
    K ∈ toStart m ↔ ∃ e, get m K = some e ∧ e.action = .start := by
  simp only [toStart, List.mem_map, List.mem_filter]
  constructor
  · rintro ⟨⟨k, e⟩, ⟨hm, ha⟩, rfl⟩
    exact ⟨e, get_of_mem_nodup hnd hm, by simpa using ha⟩
  · rintro ⟨e, hg, ha⟩
    exact ⟨(K, e), ⟨mem_of_get hg, by simpa using ha⟩, rfl⟩

theorem nodup_toStart {m : Entries} (hnd : (keysOf m).Nodup) : (toStart m).Nodup := by
  unfold toStart
  exact List.Nodup.sublist (List.Sublist.map _ List.filter_sublist) hnd

theorem nodup_toStop {m : Entries} (hnd : (keysOf m).Nodup) : (toStop m).Nodup := by
  unfold toStop
  exact List.Nodup.sublist (List.Sublist.map _ List.filter_sublist) hnd

end GoSup.Cluster

namespace GoSup.Cluster
open GoSup.Planner

/-! ## the accounting invariant: live instances = runners present in the entries -/

def RunnerAt (m : Entries) (i : Nat) : Prop := ∃ K e, get m K = some e ∧ e.runner = some i

def Mentioned (effs : List Eff) (i : Nat) : Prop := (∃ id c, Eff.start id c i ∈ effs) ∨ Eff.stop i ∈ effs

structure Acc (m : Entries) (effs : List Eff) (next : Nat) : Prop where
  live  : ∀ i, Live effs i ↔ RunnerAt m i
  bound : ∀ i, Mentioned effs i → i < next
  inj   : ∀ K1 K2 e1 e2 i, get m K1 = some e1 → get m K2 = some e2 → e1.runner = some i → e2.runner = some i → K1 = K2

theorem Acc.runner_lt {m effs next} (h : Acc m effs next) {i : Nat} (hr : RunnerAt m i) : i < next :=
  h.bound i (Or.inl ((h.live i).mpr hr).1)

theorem acc_init : Acc [] [] 1 := by
  refine ⟨?_, ?_, ?_⟩
  · intro i; simp [Live, RunnerAt, Planner.get]
  · intro i h; simp [Mentioned] at h
  · intro K1 K2 e1 e2 i h; simp [Planner.get] at h

theorem stopStep_none {acc : Entries × List Eff} {k : String} (h : Planner.get acc.1 k = none) : stopStep acc k = acc := by
  simp [stopStep, h]

theorem stopStep_idle {acc : Entries × List Eff} {k : String} {e : Entry} (h : Planner.get acc.1 k = some e)
    (hr : e.runner = none) : stopStep acc k = acc := by
  simp [stopStep, h, hr]

theorem stopStep_run {acc : Entries × List Eff} {k : String} {e : Entry} {i : Nat} (h : Planner.get acc.1 k = some e)
    (hr : e.runner = some i) : stopStep acc k = (clearRuntime acc.1 k, acc.2 ++ [.stop i]) := by
  simp [stopStep, h, hr]

/-- one `Stop()` in `stopServers` -/
theorem acc_stopStep {m effs next} (h : Acc m effs next) (k : String) :
    Acc (stopStep (m, effs) k).1 (stopStep (m, effs) k).2 next := by
  cases hg : Planner.get m k with
  | none => rw [stopStep_none (by exact hg)]; exact h
  | some e =>
    cases hr : e.runner with
    | none => rw [stopStep_idle (by exact hg) hr]; exact h
    | some i =>
      rw [stopStep_run (by exact hg) hr]
      simp only
      have hat : RunnerAt m i := ⟨k, e, hg, hr⟩
      refine ⟨?_, ?_, ?_⟩
      · intro j
        have hl : Live (effs ++ [Eff.stop i]) j ↔ Live effs j ∧ j ≠ i := by
          simp only [Live, List.mem_append, List.mem_singleton, reduceCtorEq, or_false, Eff.stop.injEq, not_or]
          constructor
          · rintro ⟨h1, h2, h3⟩; exact ⟨⟨h1, h2⟩, h3⟩
          · rintro ⟨⟨h1, h2⟩, h3⟩; exact ⟨h1, h2, h3⟩
        rw [hl, h.live j]
        constructor
        · rintro ⟨⟨K, e', hK, hr'⟩, hne⟩
          have hKk : K ≠ k := by
            intro heq; subst heq
            rw [hg] at hK; cases hK
            rw [hr] at hr'; cases hr'; exact hne rfl
          exact ⟨K, e', by rw [get_clearRuntime]; simp [hKk, hK], hr'⟩
        · rintro ⟨K, e', hK, hr'⟩
          rw [get_clearRuntime] at hK
          by_cases hKk : K = k
          · subst hKk
            simp only [if_true, hg, Option.map_some, Option.some.injEq] at hK
            subst hK; simp [clr] at hr'
          · simp only [hKk, if_false] at hK
            refine ⟨⟨K, e', hK, hr'⟩, ?_⟩
            intro heq; subst heq
            exact hKk (h.inj K k e' e j hK hg hr' hr)
      · intro j hj
        rcases hj with ⟨id, c, hj⟩ | hj
        · simp only [List.mem_append, List.mem_singleton, reduceCtorEq, or_false] at hj
          exact h.bound j (Or.inl ⟨id, c, hj⟩)
        · simp only [List.mem_append, List.mem_singleton, Eff.stop.injEq] at hj
          rcases hj with hj | hj
          · exact h.bound j (Or.inr hj)
          · subst hj; exact h.runner_lt hat
      · intro K1 K2 e1 e2 j h1 h2 r1 r2
        rw [get_clearRuntime] at h1 h2
        by_cases hk1 : K1 = k
        · subst hk1
          simp only [if_true, hg, Option.map_some, Option.some.injEq] at h1
          subst h1; simp [clr] at r1
        · by_cases hk2 : K2 = k
          · subst hk2
            simp only [if_true, hg, Option.map_some, Option.some.injEq] at h2
            subst h2; simp [clr] at r2
          · simp only [hk1, hk2, if_false] at h1 h2
            exact h.inj K1 K2 e1 e2 j h1 h2 r1 r2

theorem acc_stopFold {m effs next} (h : Acc m effs next) (ks : List String) :
    Acc (ks.foldl stopStep (m, effs)).1 (ks.foldl stopStep (m, effs)).2 next := by
  induction ks generalizing m effs with
  | nil => exact h
  | cons k t ih => exact ih (acc_stopStep h k)

end GoSup.Cluster

namespace GoSup.Cluster
open GoSup.Planner

theorem startStep_none {fate} {acc : Res} {k : String} (h : Planner.get acc.entries k = none) : startStep fate acc k = acc := by
  simp [startStep, h]

theorem startStep_ok {fate} {acc : Res} {k : String} {e : Entry} (h : Planner.get acc.entries k = some e) (hf : fate e.id = .ok) :
    startStep fate acc k = { entries := setRuntime acc.entries k acc.next,
                             effects := acc.effects ++ [.start e.id e.cfg acc.next], next := acc.next + 1 } := by
  simp [startStep, h, hf]

theorem startStep_factoryErr {fate} {acc : Res} {k : String} {e : Entry} (h : Planner.get acc.entries k = some e)
    (hf : fate e.id = .factoryErr) :
    startStep fate acc k = { acc with entries := removeEntry acc.entries k, effects := acc.effects ++ [.dropped e.id] } := by
  simp [startStep, h, hf]

theorem startStep_notReady {fate} {acc : Res} {k : String} {e : Entry} (h : Planner.get acc.entries k = some e)
    (hf : fate e.id = .notReady) :
    startStep fate acc k = { entries := removeEntry acc.entries k,
                             effects := acc.effects ++ [.start e.id e.cfg acc.next, .stop acc.next, .dropped e.id],
                             next := acc.next + 1 } := by
  simp [startStep, h, hf]

theorem runnerAt_removeEntry {m : Entries} {k : String} (hk : ∀ e, Planner.get m k = some e → e.runner = none) (i : Nat) :
    RunnerAt (removeEntry m k) i ↔ RunnerAt m i := by
  constructor
  · rintro ⟨K, e, hK, hr⟩
    rw [get_removeEntry] at hK
    by_cases h : K = k
    · simp [h] at hK
    · simp only [h, if_false] at hK; exact ⟨K, e, hK, hr⟩
  · rintro ⟨K, e, hK, hr⟩
    have h : K ≠ k := by
      intro heq; subst heq
      rw [hk e hK] at hr; cases hr
    exact ⟨K, e, by rw [get_removeEntry]; simp [h, hK], hr⟩

/-- one iteration of `startServers` -/
theorem acc_startStep {fate} {a : Res} (h : Acc a.entries a.effects a.next) (k : String)
    (hk : ∀ e, Planner.get a.entries k = some e → e.runner = none) :
    Acc (startStep fate a k).entries (startStep fate a k).effects (startStep fate a k).next := by
  cases hg : Planner.get a.entries k with
  | none => rw [startStep_none hg]; exact h
  | some e =>
    have hnostop : Eff.stop a.next ∉ a.effects := fun hm => Nat.lt_irrefl _ (h.bound _ (Or.inr hm))
    have hnostart : ¬ ∃ id c, Eff.start id c a.next ∈ a.effects := fun hm => Nat.lt_irrefl _ (h.bound _ (Or.inl hm))
    cases hf : fate e.id with
    | ok =>
      rw [startStep_ok hg hf]
      simp only
      refine ⟨?_, ?_, ?_⟩
      · intro j
        have hl : Live (a.effects ++ [Eff.start e.id e.cfg a.next]) j ↔ Live a.effects j ∨ j = a.next := by
          simp only [Live, List.mem_append, List.mem_singleton, Eff.start.injEq, reduceCtorEq, or_false]
          constructor
          · rintro ⟨⟨id, c, h1 | ⟨_, _, h1⟩⟩, h2⟩
            · exact Or.inl ⟨⟨id, c, h1⟩, h2⟩
            · exact Or.inr h1
          · rintro (⟨⟨id, c, h1⟩, h2⟩ | h1)
            · exact ⟨⟨id, c, Or.inl h1⟩, h2⟩
            · subst h1; exact ⟨⟨e.id, e.cfg, Or.inr ⟨rfl, rfl, rfl⟩⟩, hnostop⟩
        rw [hl, h.live j]
        constructor
        · rintro (⟨K, e', hK, hr'⟩ | hj)
          · have hKk : K ≠ k := by
              intro heq; subst heq
              rw [hk e' hK] at hr'; cases hr'
            exact ⟨K, e', by rw [get_setRuntime]; simp [hKk, hK], hr'⟩
          · subst hj
            exact ⟨k, setR a.next e, by rw [get_setRuntime]; simp [hg], rfl⟩
        · rintro ⟨K, e', hK, hr'⟩
          rw [get_setRuntime] at hK
          by_cases hKk : K = k
          · subst hKk
            simp only [if_true, hg, Option.map_some, Option.some.injEq] at hK
            subst hK
            simp only [setR, Option.some.injEq] at hr'
            exact Or.inr hr'.symm
          · simp only [hKk, if_false] at hK
            exact Or.inl ⟨K, e', hK, hr'⟩
      · intro j hj
        rcases hj with ⟨id, c, hj⟩ | hj
        · simp only [List.mem_append, List.mem_singleton, Eff.start.injEq] at hj
          rcases hj with hj | ⟨_, _, hj⟩
          · exact Nat.lt_succ_of_lt (h.bound j (Or.inl ⟨id, c, hj⟩))
          · subst hj; exact Nat.lt_succ_self _
        · simp only [List.mem_append, List.mem_singleton, reduceCtorEq, or_false] at hj
          exact Nat.lt_succ_of_lt (h.bound j (Or.inr hj))
      · intro K1 K2 e1 e2 j h1 h2 r1 r2
        rw [get_setRuntime] at h1 h2
        by_cases hk1 : K1 = k <;> by_cases hk2 : K2 = k
        · rw [hk1, hk2]
        · subst hk1
          simp only [if_true, hg, Option.map_some, Option.some.injEq] at h1
          simp only [hk2, if_false] at h2
          subst h1
          simp only [setR, Option.some.injEq] at r1
          subst r1
          exact absurd (h.runner_lt ⟨K2, e2, h2, r2⟩) (Nat.lt_irrefl _)
        · subst hk2
          simp only [if_true, hg, Option.map_some, Option.some.injEq] at h2
          simp only [hk1, if_false] at h1
          subst h2
          simp only [setR, Option.some.injEq] at r2
          subst r2
          exact absurd (h.runner_lt ⟨K1, e1, h1, r1⟩) (Nat.lt_irrefl _)
        · simp only [hk1, hk2, if_false] at h1 h2
          exact h.inj K1 K2 e1 e2 j h1 h2 r1 r2
    | factoryErr =>
      rw [startStep_factoryErr hg hf]
      simp only
      refine ⟨?_, ?_, ?_⟩
      · intro j
        rw [runnerAt_removeEntry hk, ← h.live j]
        simp [Live]
      · intro j hj
        apply h.bound j
        simpa [Mentioned] using hj
      · intro K1 K2 e1 e2 j h1 h2 r1 r2
        rw [get_removeEntry] at h1 h2
        by_cases hk1 : K1 = k
        · simp [hk1] at h1
        · by_cases hk2 : K2 = k
          · simp [hk2] at h2
          · simp only [hk1, hk2, if_false] at h1 h2
            exact h.inj K1 K2 e1 e2 j h1 h2 r1 r2
    | notReady =>
      rw [startStep_notReady hg hf]
      simp only
      refine ⟨?_, ?_, ?_⟩
      · intro j
        rw [runnerAt_removeEntry hk, ← h.live j]
        simp only [Live, List.mem_append, List.mem_cons, Eff.start.injEq, reduceCtorEq, false_or, or_false,
          List.not_mem_nil, Eff.stop.injEq, not_or]
        constructor
        · rintro ⟨⟨id, c, h1 | ⟨_, _, h1⟩⟩, h2, h3⟩
          · exact ⟨⟨id, c, h1⟩, h2⟩
          · exact absurd h1 h3
        · rintro ⟨⟨id, c, h1⟩, h2⟩
          refine ⟨⟨id, c, Or.inl h1⟩, h2, ?_⟩
          intro heq; subst heq
          exact hnostart ⟨id, c, h1⟩
      · intro j hj
        rcases hj with ⟨id, c, hj⟩ | hj
        · simp only [List.mem_append, List.mem_cons, Eff.start.injEq, reduceCtorEq, false_or, or_false, List.not_mem_nil] at hj
          rcases hj with hj | ⟨_, _, hj⟩
          · exact Nat.lt_succ_of_lt (h.bound j (Or.inl ⟨id, c, hj⟩))
          · subst hj; exact Nat.lt_succ_self _
        · simp only [List.mem_append, List.mem_cons, reduceCtorEq, false_or, or_false, List.not_mem_nil, Eff.stop.injEq] at hj
          rcases hj with hj | hj
          · exact Nat.lt_succ_of_lt (h.bound j (Or.inr hj))
          · subst hj; exact Nat.lt_succ_self _
      · intro K1 K2 e1 e2 j h1 h2 r1 r2
        rw [get_removeEntry] at h1 h2
        by_cases hk1 : K1 = k
        · simp [hk1] at h1
        · by_cases hk2 : K2 = k
          · simp [hk2] at h2
          · simp only [hk1, hk2, if_false] at h1 h2
            exact h.inj K1 K2 e1 e2 j h1 h2 r1 r2

end GoSup.Cluster

namespace GoSup.Cluster
open GoSup.Planner

theorem startStep_get_other {fate} (a : Res) {k K : String} (h : K ≠ k) :
    Planner.get (startStep fate a k).entries K = Planner.get a.entries K := by
  cases hg : Planner.get a.entries k with
  | none => rw [startStep_none hg]
  | some e =>
    cases hf : fate e.id with
    | ok => rw [startStep_ok hg hf]; simp [get_setRuntime, h]
    | factoryErr => rw [startStep_factoryErr hg hf]; simp [get_removeEntry, h]
    | notReady => rw [startStep_notReady hg hf]; simp [get_removeEntry, h]

theorem startStep_next_le {fate} (a : Res) (k : String) : a.next ≤ (startStep fate a k).next := by
  cases hg : Planner.get a.entries k with
  | none => rw [startStep_none hg]; exact Nat.le_refl _
  | some e =>
    cases hf : fate e.id with
    | ok => rw [startStep_ok hg hf]; exact Nat.le_succ _
    | factoryErr => rw [startStep_factoryErr hg hf]; exact Nat.le_refl _
    | notReady => rw [startStep_notReady hg hf]; exact Nat.le_succ _

theorem startFold_get_other {fate} (ks : List String) (a : Res) {K : String} (h : K ∉ ks) :
    Planner.get (ks.foldl (startStep fate) a).entries K = Planner.get a.entries K := by
  induction ks generalizing a with
  | nil => rfl
  | cons k t ih =>
    simp only [List.mem_cons, not_or] at h
    simp only [List.foldl_cons]
    rw [ih _ h.2, startStep_get_other a h.1]

theorem startFold_next_le {fate} (ks : List String) (a : Res) : a.next ≤ (ks.foldl (startStep fate) a).next := by
  induction ks generalizing a with
  | nil => exact Nat.le_refl _
  | cons k t ih => exact Nat.le_trans (startStep_next_le a k) (ih _)

/-- `startServers` keeps the accounting invariant -/
theorem acc_startFold {fate} (ks : List String) (hnd : ks.Nodup) {a : Res} (h : Acc a.entries a.effects a.next)
    (hk : ∀ k ∈ ks, ∀ e, Planner.get a.entries k = some e → e.runner = none) :
    Acc (ks.foldl (startStep fate) a).entries (ks.foldl (startStep fate) a).effects (ks.foldl (startStep fate) a).next := by
  induction ks generalizing a with
  | nil => exact h
  | cons k t ih =>
    simp only [List.nodup_cons] at hnd
    simp only [List.foldl_cons]
    apply ih hnd.2 (acc_startStep h k (hk k List.mem_cons_self))
    intro k' hk' e he
    have hne : k' ≠ k := fun heq => hnd.1 (heq ▸ hk')
    rw [startStep_get_other a hne] at he
    exact hk k' (List.mem_cons_of_mem _ hk') e he

/-- what `startServers` leaves under a key it was asked to start -/
theorem startFold_get_mem {fate} (ks : List String) (hnd : ks.Nodup) (a : Res) {K : String} (hK : K ∈ ks) {e : Entry}
    (he : Planner.get a.entries K = some e) :
    (fate e.id = .ok → ∃ i, a.next ≤ i ∧ i < (ks.foldl (startStep fate) a).next
        ∧ Planner.get (ks.foldl (startStep fate) a).entries K = some (setR i e))
    ∧ (fate e.id ≠ .ok → Planner.get (ks.foldl (startStep fate) a).entries K = none) := by
  induction ks generalizing a with
  | nil => simp at hK
  | cons k t ih =>
    simp only [List.nodup_cons] at hnd
    simp only [List.foldl_cons]
    by_cases hk : K = k
    · subst hk
      have hnot : K ∉ t := hnd.1
      rw [startFold_get_other t _ hnot]
      constructor
      · intro hf
        refine ⟨a.next, Nat.le_refl _, ?_, ?_⟩
        · apply Nat.lt_of_lt_of_le _ (startFold_next_le t _)
          rw [startStep_ok he hf]; exact Nat.lt_succ_self _
        · rw [startStep_ok he hf]; simp [get_setRuntime, he]
      · intro hf
        cases hf' : fate e.id with
        | ok => exact absurd hf' hf
        | factoryErr => rw [startStep_factoryErr he hf']; simp [get_removeEntry]
        | notReady => rw [startStep_notReady he hf']; simp [get_removeEntry]
    · have hK' : K ∈ t := by
        simp only [List.mem_cons] at hK
        exact hK.resolve_left hk
      have he' : Planner.get (startStep fate a k).entries K = some e := by rw [startStep_get_other a hk]; exact he
      obtain ⟨h1, h2⟩ := ih hnd.2 (startStep fate a k) hK' he'
      refine ⟨?_, h2⟩
      intro hf
      obtain ⟨i, hi1, hi2, hi3⟩ := h1 hf
      exact ⟨i, Nat.le_trans (startStep_next_le a k) hi1, hi2, hi3⟩

/-! ## the stop phase as a function of `get` -/

theorem stopStep_get (acc : Entries × List Eff) (k K : String) :
    Planner.get (stopStep acc k).1 K = if K = k then (Planner.get acc.1 K).map clr else Planner.get acc.1 K := by
  cases hg : Planner.get acc.1 k with
  | none =>
    rw [stopStep_none hg]
    by_cases h : K = k
    · subst h; simp [hg]
    · simp [h]
  | some e =>
    cases hr : e.runner with
    | none =>
      rw [stopStep_idle hg hr]
      by_cases h : K = k
      · subst h
        simp only [if_true, hg, Option.map_some, Option.some.injEq]
        cases e; simp_all [clr]
      · simp [h]
    | some i =>
      rw [stopStep_run hg hr]
      exact get_clearRuntime acc.1 k K

theorem clr_clr (e : Entry) : clr (clr e) = clr e := rfl

theorem stopFold_get (ks : List String) (acc : Entries × List Eff) (K : String) :
    Planner.get (ks.foldl stopStep acc).1 K = if K ∈ ks then (Planner.get acc.1 K).map clr else Planner.get acc.1 K := by
  induction ks generalizing acc with
  | nil => simp
  | cons k t ih =>
    simp only [List.foldl_cons]
    rw [ih, stopStep_get]
    by_cases hk : K = k
    · subst hk
      by_cases ht : K ∈ t
      · simp only [ht, if_true, List.mem_cons, true_or]
        cases Planner.get acc.1 K <;> simp [clr_clr]
      · simp [ht]
    · by_cases ht : K ∈ t
      · simp [ht, hk]
      · simp [ht, hk]

theorem stopStep_keys (acc : Entries × List Eff) (k : String) : keysOf (stopStep acc k).1 = keysOf acc.1 := by
  cases hg : Planner.get acc.1 k with
  | none => rw [stopStep_none hg]
  | some e =>
    cases hr : e.runner with
    | none => rw [stopStep_idle hg hr]
    | some i => rw [stopStep_run hg hr]; exact keysOf_clearRuntime _ _

theorem stopFold_keys (ks : List String) (acc : Entries × List Eff) : keysOf (ks.foldl stopStep acc).1 = keysOf acc.1 := by
  induction ks generalizing acc with
  | nil => rfl
  | cons k t ih => simp only [List.foldl_cons]; rw [ih, stopStep_keys]

theorem startStep_nodup {fate} {a : Res} (h : (keysOf a.entries).Nodup) (k : String) :
    (keysOf (startStep fate a k).entries).Nodup := by
  cases hg : Planner.get a.entries k with
  | none => rw [startStep_none hg]; exact h
  | some e =>
    cases hf : fate e.id with
    | ok => rw [startStep_ok hg hf]; simp only; rw [keysOf_setRuntime]; exact h
    | factoryErr => rw [startStep_factoryErr hg hf]; exact nodup_removeEntry h k
    | notReady => rw [startStep_notReady hg hf]; exact nodup_removeEntry h k

theorem startFold_nodup {fate} (ks : List String) {a : Res} (h : (keysOf a.entries).Nodup) :
    (keysOf (ks.foldl (startStep fate) a).entries).Nodup := by
  induction ks generalizing a with
  | nil => exact h
  | cons k t ih => exact ih (startStep_nodup h k)

end GoSup.Cluster

namespace GoSup.Cluster
open GoSup.Planner

/-! ## where the entries of a plan come from -/

def startEntry (k : String) (c : Nat) : Entry := { id := k, cfg := c, runner := none, action := .start }

theorem mem_processExisting {id : String} {old : Entry} {want : Option Nat} {q : String × Entry}
    (h : q ∈ processExisting id old want) :
    (q.2 = { old with action := .stop } ∧ old.runner.isSome = true ∧ want ≠ some old.cfg
        ∧ ((q.1 = id ∧ want = none) ∨ (q.1 = id ++ ":stop" ∧ want.isSome = true)))
    ∨ (q = (id, { old with action := .none }) ∧ want = some old.cfg)
    ∨ (∃ c, q = (id, startEntry id c) ∧ want = some c ∧ old.cfg ≠ c) := by
  unfold processExisting at h
  cases want with
  | none =>
    simp only at h
    split at h
    · rename_i hr
      simp only [List.mem_singleton] at h
      subst h
      exact Or.inl ⟨rfl, hr, by simp, Or.inl ⟨rfl, rfl⟩⟩
    · simp at h
  | some c =>
    simp only at h
    split at h
    · rename_i hc
      simp only [List.mem_singleton] at h
      right; left
      exact ⟨h, by simp at hc; rw [hc]⟩
    · rename_i hc
      have hc' : old.cfg ≠ c := by simpa using hc
      split at h
      · rename_i hr
        simp only [List.mem_cons, List.not_mem_nil, or_false] at h
        rcases h with h | h
        · subst h
          exact Or.inl ⟨rfl, hr, by simpa using fun h' => hc' h'.symm, Or.inr ⟨rfl, rfl⟩⟩
        · exact Or.inr (Or.inr ⟨c, h, rfl, hc'⟩)
      · simp only [List.mem_singleton] at h
        exact Or.inr (Or.inr ⟨c, h, rfl, hc'⟩)

theorem mem_buildPending {cur : Entries} {des : List (String × Nat)} {q : String × Entry} (h : q ∈ buildPending cur des) :
    (∃ p ∈ cur, q ∈ contrib des p) ∨ (∃ d ∈ des, q = (d.1, startEntry d.1 d.2)) := by
  rw [buildPending_eq] at h
  rcases mem_putAll h with h | h
  · simp at h
  · simp only [List.mem_append, List.mem_flatMap] at h
    rcases h with ⟨p, hp, hq⟩ | ⟨d, hd, hq⟩
    · exact Or.inl ⟨p, hp, hq⟩
    · right
      refine ⟨d, hd, ?_⟩
      simp only [newPut] at hq
      split at hq
      · simpa [startEntry] using hq
      · simp at hq

/-- an entry of the plan that carries a runner instance is the (re-labelled) entry of `cur` that owns the instance -/
theorem pending_runner_origin {cur : Entries} {des : List (String × Nat)} {K : String} {e : Entry} {i : Nat}
    (h : (K, e) ∈ buildPending cur des) (hr : e.runner = some i) :
    ∃ k e0, (k, e0) ∈ cur ∧ e0.runner = some i ∧ (K, e) ∈ processExisting k e0 (lookupD des k) := by
  rcases mem_buildPending h with ⟨⟨k, e0⟩, hp, hq⟩ | ⟨d, _, hq⟩
  · refine ⟨k, e0, hp, ?_, hq⟩
    rcases mem_processExisting hq with ⟨h1, _⟩ | ⟨h1, _⟩ | ⟨c, h1, _⟩
    · simp only at h1; rw [h1] at hr; exact hr
    · simp only [Prod.mk.injEq] at h1; rw [h1.2] at hr; exact hr
    · simp only [Prod.mk.injEq] at h1; rw [h1.2] at hr; simp [startEntry] at hr
  · simp only [Prod.mk.injEq] at hq; rw [hq.2] at hr; simp [startEntry] at hr

/-- among the entries one `processExistingServer` call yields at most one carries the runner -/
theorem processExisting_runner_unique {k : String} {e0 : Entry} {want : Option Nat} {q1 q2 : String × Entry} {i : Nat}
    (h1 : q1 ∈ processExisting k e0 want) (h2 : q2 ∈ processExisting k e0 want)
    (r1 : q1.2.runner = some i) (r2 : q2.2.runner = some i) : q1.1 = q2.1 := by
  rcases mem_processExisting h1 with ⟨_, _, w1, k1⟩ | ⟨q1e, w1⟩ | ⟨c, q1e, _⟩
  · rcases mem_processExisting h2 with ⟨_, _, w2, k2⟩ | ⟨q2e, w2⟩ | ⟨c, q2e, _⟩
    · rcases k1 with ⟨k1, v1⟩ | ⟨k1, v1⟩ <;> rcases k2 with ⟨k2, v2⟩ | ⟨k2, v2⟩
      · rw [k1, k2]
      · rw [v1] at v2; simp at v2
      · rw [v2] at v1; simp at v1
      · rw [k1, k2]
    · exact absurd w2 w1
    · rw [q2e] at r2; simp [startEntry] at r2
  · rcases mem_processExisting h2 with ⟨_, _, w2, _⟩ | ⟨q2e, w2⟩ | ⟨c, q2e, _⟩
    · exact absurd w1 w2
    · rw [q1e, q2e]
    · rw [q2e] at r2; simp [startEntry] at r2
  · rw [q1e] at r1; simp [startEntry] at r1

theorem runnerAt_pending {cur : Entries} {des : List (String × Nat)} (hw : Wf cur des) (i : Nat) :
    RunnerAt (buildPending cur des) i ↔ RunnerAt cur i := by
  constructor
  · rintro ⟨K, e, hK, hr⟩
    obtain ⟨k, e0, hp, hr0, _⟩ := pending_runner_origin (mem_of_get hK) hr
    exact ⟨k, e0, get_of_mem_nodup hw.nodup hp, hr0⟩
  · rintro ⟨k, e0, hk, hr⟩
    have hmem := mem_of_get hk
    by_cases hsame : lookupD des k = some e0.cfg
    · obtain ⟨l1, l2, hsplit⟩ := List.append_of_mem hmem
      have : Planner.get (buildPending cur des) k = some { e0 with action := .none } := by
        rw [get_pending_owned hw hsplit k (Or.inl rfl)]
        simp only [contrib, processExisting, hsame, beq_self_eq_true, if_true, putAll, List.foldl_cons, List.foldl_nil]
        rw [get_put]; simp
      exact ⟨k, _, this, hr⟩
    · -- not kept: the plan hands the instance to a stop entry
      obtain ⟨l1, l2, hsplit⟩ := List.append_of_mem hmem
      cases hwant : lookupD des k with
      | none =>
        have : Planner.get (buildPending cur des) k = some { e0 with action := .stop } := by
          rw [get_pending_owned hw hsplit _ (Or.inl rfl)]
          simp only [contrib, processExisting, hwant, hr, Option.isSome_some, if_true, putAll, List.foldl_cons, List.foldl_nil]
          rw [get_put]; simp
        exact ⟨k, _, this, hr⟩
      | some c =>
        have hne : (e0.cfg == c) = false := by
          have : e0.cfg ≠ c := fun heq => hsame (by rw [hwant, heq])
          simpa using this
        have : Planner.get (buildPending cur des) (k ++ ":stop") = some { e0 with action := .stop } := by
          rw [get_pending_owned hw hsplit _ (Or.inr rfl)]
          simp only [contrib, processExisting, hwant, hne, hr, Option.isSome_some, if_true, putAll, List.foldl_cons,
            List.foldl_nil, Bool.false_eq_true, if_false]
          rw [get_put, get_put]
          simp [(ne_append_stop k).symm]
        exact ⟨k ++ ":stop", _, this, hr⟩

/-- planning keeps the accounting invariant (it moves runner instances between keys, it loses none) -/
theorem acc_pending {cur : Entries} {effs : List Eff} {next : Nat} {des : List (String × Nat)}
    (h : Acc cur effs next) (hw : Wf cur des) : Acc (buildPending cur des) effs next := by
  refine ⟨fun i => by rw [runnerAt_pending hw, h.live i], h.bound, ?_⟩
  intro K1 K2 e1 e2 i h1 h2 r1 r2
  obtain ⟨k1, e01, hp1, hr1, hq1⟩ := pending_runner_origin (mem_of_get h1) r1
  obtain ⟨k2, e02, hp2, hr2, hq2⟩ := pending_runner_origin (mem_of_get h2) r2
  have g1 := get_of_mem_nodup hw.nodup hp1
  have g2 := get_of_mem_nodup hw.nodup hp2
  have hk : k1 = k2 := h.inj k1 k2 e01 e02 i g1 g2 hr1 hr2
  subst hk
  rw [g1] at g2; cases g2
  exact processExisting_runner_unique hq1 hq2 r1 r2

theorem runnerAt_commit {m : Entries} (hnd : (keysOf m).Nodup)
    (hstop : ∀ K e, Planner.get m K = some e → e.action = .stop → e.runner = none) (i : Nat) :
    RunnerAt (commit m) i ↔ RunnerAt m i := by
  constructor
  · rintro ⟨K, e, hK, hr⟩
    rw [get_commit hnd] at hK
    cases hg : Planner.get m K with
    | none => simp [hg] at hK
    | some e0 =>
      simp only [hg, Option.filter] at hK
      split at hK
      · simp only [Option.map_some, Option.some.injEq] at hK
        subst hK
        exact ⟨K, e0, hg, hr⟩
      · simp at hK
  · rintro ⟨K, e, hK, hr⟩
    have hns : e.action ≠ .stop := by
      intro ha; rw [hstop K e hK ha] at hr; cases hr
    refine ⟨K, { e with action := .none }, ?_, hr⟩
    rw [get_commit hnd, hK]
    simp [Option.filter, hns]

theorem acc_commit {m : Entries} {effs : List Eff} {next : Nat} (h : Acc m effs next) (hnd : (keysOf m).Nodup)
    (hstop : ∀ K e, Planner.get m K = some e → e.action = .stop → e.runner = none) : Acc (commit m) effs next := by
  refine ⟨fun i => by rw [runnerAt_commit hnd hstop, h.live i], h.bound, ?_⟩
  intro K1 K2 e1 e2 i h1 h2 r1 r2
  rw [get_commit hnd] at h1 h2
  cases hg1 : Planner.get m K1 with
  | none => simp [hg1] at h1
  | some a1 =>
    cases hg2 : Planner.get m K2 with
    | none => simp [hg2] at h2
    | some a2 =>
      simp only [hg1, hg2, Option.filter] at h1 h2
      split at h1
      · split at h2
        · simp only [Option.map_some, Option.some.injEq] at h1 h2
          subst h1; subst h2
          exact h.inj K1 K2 a1 a2 i hg1 hg2 r1 r2
        · simp at h2
      · simp at h1

end GoSup.Cluster

namespace GoSup.Cluster
open GoSup.Planner

/-! ## the effect log of a phase does not depend on what was logged before -/

theorem stopStep_shift (m : Entries) (pre x : List Eff) (k : String) :
    stopStep (m, pre ++ x) k = ((stopStep (m, x) k).1, pre ++ (stopStep (m, x) k).2) := by
  cases hg : Planner.get m k with
  | none => rw [stopStep_none (by exact hg), stopStep_none (by exact hg)]
  | some e =>
    cases hr : e.runner with
    | none => rw [stopStep_idle (by exact hg) hr, stopStep_idle (by exact hg) hr]
    | some i => rw [stopStep_run (by exact hg) hr, stopStep_run (by exact hg) hr]; simp [List.append_assoc]

theorem stopFold_shift (ks : List String) (m : Entries) (pre x : List Eff) :
    ks.foldl stopStep (m, pre ++ x) = ((ks.foldl stopStep (m, x)).1, pre ++ (ks.foldl stopStep (m, x)).2) := by
  induction ks generalizing m x with
  | nil => rfl
  | cons k t ih =>
    simp only [List.foldl_cons]
    rw [stopStep_shift, ih]

theorem startStep_shift (fate : String → Fate) (a : Res) (pre : List Eff) (k : String) :
    startStep fate { a with effects := pre ++ a.effects } k
      = { startStep fate a k with effects := pre ++ (startStep fate a k).effects } := by
  cases hg : Planner.get a.entries k with
  | none => rw [startStep_none (by exact hg), startStep_none (by exact hg)]
  | some e =>
    cases hf : fate e.id with
    | ok => rw [startStep_ok (by exact hg) hf, startStep_ok (by exact hg) hf]; simp [List.append_assoc]
    | factoryErr => rw [startStep_factoryErr (by exact hg) hf, startStep_factoryErr (by exact hg) hf]; simp [List.append_assoc]
    | notReady => rw [startStep_notReady (by exact hg) hf, startStep_notReady (by exact hg) hf]; simp [List.append_assoc]

theorem startFold_shift (fate : String → Fate) (ks : List String) (a : Res) (pre : List Eff) :
    ks.foldl (startStep fate) { a with effects := pre ++ a.effects }
      = { ks.foldl (startStep fate) a with effects := pre ++ (ks.foldl (startStep fate) a).effects } := by
  induction ks generalizing a with
  | nil => rfl
  | cons k t ih =>
    simp only [List.foldl_cons]
    rw [startStep_shift, ih]

/-! ## the phases of one update, put together -/

/-- the entries after the stop phase: stop entries have lost their runtime, everything else is as planned -/
theorem get_stopPhase (p : Entries) (K : String) :
    Planner.get (stopPhase p).1 K = if K ∈ toStop p then (Planner.get p K).map clr else Planner.get p K :=
  stopFold_get (toStop p) (p, []) K

theorem keysOf_stopPhase (p : Entries) : keysOf (stopPhase p).1 = keysOf p := stopFold_keys (toStop p) (p, [])

theorem clr_action (e : Entry) : (clr e).action = e.action := rfl
theorem setR_action (i : Nat) (e : Entry) : (setR i e).action = e.action := rfl

/-- an entry the start phase is asked to start carries no runner (it is a fresh start entry) -/
theorem toStart_no_runner {cur : Entries} {des : List (String × Nat)} {k : String} {e : Entry}
    (hk : k ∈ toStart (stopPhase (buildPending cur des)).1)
    (he : Planner.get (stopPhase (buildPending cur des)).1 k = some e) : e.runner = none := by
  have hndp := nodup_buildPending cur des
  have hnds : (keysOf (stopPhase (buildPending cur des)).1).Nodup := by rw [keysOf_stopPhase]; exact hndp
  obtain ⟨e', he', ha⟩ := (mem_toStart hnds k).mp hk
  rw [he] at he'; cases he'
  rw [get_stopPhase] at he
  split at he
  · cases hg : Planner.get (buildPending cur des) k with
    | none => simp [hg] at he
    | some e0 => simp only [hg, Option.map_some, Option.some.injEq] at he; rw [← he]; rfl
  · have hm := mem_of_get he
    rcases mem_buildPending hm with ⟨⟨k0, e0⟩, _, hq⟩ | ⟨d, _, hq⟩
    · rcases mem_processExisting hq with ⟨h1, _⟩ | ⟨h1, _⟩ | ⟨c, h1, _⟩
      · simp only at h1; rw [h1] at ha; cases ha
      · simp only [Prod.mk.injEq] at h1; rw [h1.2] at ha; cases ha
      · simp only [Prod.mk.injEq] at h1; rw [h1.2]; rfl
    · simp only [Prod.mk.injEq] at hq; rw [hq.2]; rfl

/-- after both phases no entry marked `stop` carries a runner -/
theorem stop_entries_cleared {fate} {cur : Entries} {des : List (String × Nat)} {next : Nat} {K : String} {e : Entry}
    (he : Planner.get (startPhase fate (stopPhase (buildPending cur des)).1 next).entries K = some e)
    (ha : e.action = .stop) : e.runner = none := by
  have hndp := nodup_buildPending cur des
  have hnds : (keysOf (stopPhase (buildPending cur des)).1).Nodup := by rw [keysOf_stopPhase]; exact hndp
  unfold startPhase at he
  by_cases hK : K ∈ toStart (stopPhase (buildPending cur des)).1
  · obtain ⟨e0, he0, ha0⟩ := (mem_toStart hnds K).mp hK
    obtain ⟨h1, h2⟩ := startFold_get_mem (fate := fate) _ (nodup_toStart hnds)
      { entries := (stopPhase (buildPending cur des)).1, effects := [], next := next } hK he0
    by_cases hf : fate e0.id = .ok
    · obtain ⟨i, _, _, hi⟩ := h1 hf
      rw [hi] at he; cases he
      rw [setR_action, ha0] at ha; cases ha
    · rw [h2 hf] at he; cases he
  · rw [startFold_get_other _ _ hK] at he
    simp only at he
    rw [get_stopPhase] at he
    split at he
    · cases hg : Planner.get (buildPending cur des) K with
      | none => simp [hg] at he
      | some e0 => simp only [hg, Option.map_some, Option.some.injEq] at he; rw [← he]; rfl
    · rename_i hns
      exact absurd ((mem_toStop hndp K).mpr ⟨e, he, ha⟩) hns

/-- **one update keeps the accounting invariant**: over the whole effect log, the instances started and
not yet stopped are exactly the runners held in the committed entries, each under one key -/
theorem acc_applyUpdate {fate} {cur : Entries} {effs : List Eff} {next : Nat} {des : List (String × Nat)}
    (h : Acc cur effs next) (hw : Wf cur des) :
    Acc (applyUpdate fate cur des next).entries (effs ++ (applyUpdate fate cur des next).effects)
      (applyUpdate fate cur des next).next := by
  have hndp := nodup_buildPending cur des
  have hnds : (keysOf (stopPhase (buildPending cur des)).1).Nodup := by rw [keysOf_stopPhase]; exact hndp
  have h1 := acc_pending h hw
  have h2 := acc_stopFold h1 (toStop (buildPending cur des))
  have hs := stopFold_shift (toStop (buildPending cur des)) (buildPending cur des) effs []
  rw [List.append_nil] at hs
  rw [hs] at h2
  simp only at h2
  change Acc (stopPhase (buildPending cur des)).1 (effs ++ (stopPhase (buildPending cur des)).2) next at h2
  have h3 := acc_startFold (fate := fate) (toStart (stopPhase (buildPending cur des)).1) (nodup_toStart hnds)
    (a := { entries := (stopPhase (buildPending cur des)).1, effects := effs ++ (stopPhase (buildPending cur des)).2, next := next })
    h2 (fun k hk e he => toStart_no_runner hk he)
  have hsh := startFold_shift fate (toStart (stopPhase (buildPending cur des)).1)
    { entries := (stopPhase (buildPending cur des)).1, effects := [], next := next } (effs ++ (stopPhase (buildPending cur des)).2)
  simp only [List.append_nil] at hsh
  rw [hsh] at h3
  simp only at h3
  change Acc (startPhase fate (stopPhase (buildPending cur des)).1 next).entries
    (effs ++ (stopPhase (buildPending cur des)).2 ++ (startPhase fate (stopPhase (buildPending cur des)).1 next).effects)
    (startPhase fate (stopPhase (buildPending cur des)).1 next).next at h3
  have h4 := acc_commit h3 (startFold_nodup _ hnds) (fun K e he ha => stop_entries_cleared he ha)
  simp only [applyUpdate]
  rw [← List.append_assoc]
  exact h4

end GoSup.Cluster

namespace GoSup.Cluster
open GoSup.Planner

/-! ## the committed result of one update, key by key, as a function of the plan -/

theorem get_update (fate : String → Fate) (cur : Entries) (des : List (String × Nat)) (next : Nat) (K : String) :
    match Planner.get (buildPending cur des) K with
    | none => Planner.get (applyUpdate fate cur des next).entries K = none
    | some e =>
      match e.action with
      | .none => Planner.get (applyUpdate fate cur des next).entries K = some e
      | .stop => Planner.get (applyUpdate fate cur des next).entries K = none
      | .start =>
        (fate e.id = .ok → ∃ i, next ≤ i ∧ i < (applyUpdate fate cur des next).next
            ∧ Planner.get (applyUpdate fate cur des next).entries K = some { e with runner := some i, action := .none })
        ∧ (fate e.id ≠ .ok → Planner.get (applyUpdate fate cur des next).entries K = none) := by
  have hndp := nodup_buildPending cur des
  have hnds : (keysOf (stopPhase (buildPending cur des)).1).Nodup := by rw [keysOf_stopPhase]; exact hndp
  have hndr : (keysOf (startPhase fate (stopPhase (buildPending cur des)).1 next).entries).Nodup := startFold_nodup _ hnds
  have hres : ∀ K, Planner.get (applyUpdate fate cur des next).entries K
      = ((Planner.get (startPhase fate (stopPhase (buildPending cur des)).1 next).entries K).filter fun e => e.action != .stop).map
          fun e => { e with action := .none } := fun K => get_commit hndr K
  cases hg : Planner.get (buildPending cur des) K with
  | none =>
    simp only
    have hs : Planner.get (stopPhase (buildPending cur des)).1 K = none := by rw [get_stopPhase, hg]; simp
    have hnot : K ∉ toStart (stopPhase (buildPending cur des)).1 := by
      intro hm; obtain ⟨e, he, _⟩ := (mem_toStart hnds K).mp hm; rw [hs] at he; cases he
    rw [hres]
    unfold startPhase
    rw [startFold_get_other _ _ hnot]
    simp [hs]
  | some e =>
    simp only
    cases ha : e.action with
    | none =>
      simp only
      have hns : K ∉ toStop (buildPending cur des) := by
        intro hm; obtain ⟨e', he', ha'⟩ := (mem_toStop hndp K).mp hm; rw [hg] at he'; cases he'; rw [ha] at ha'; cases ha'
      have hs : Planner.get (stopPhase (buildPending cur des)).1 K = some e := by rw [get_stopPhase]; simp [hns, hg]
      have hnot : K ∉ toStart (stopPhase (buildPending cur des)).1 := by
        intro hm; obtain ⟨e', he', ha'⟩ := (mem_toStart hnds K).mp hm; rw [hs] at he'; cases he'; rw [ha] at ha'; cases ha'
      rw [hres]
      unfold startPhase
      rw [startFold_get_other _ _ hnot]
      simp only [hs, Option.filter, ha]
      cases e; simp_all
    | stop =>
      simp only
      have hst : K ∈ toStop (buildPending cur des) := (mem_toStop hndp K).mpr ⟨e, hg, ha⟩
      have hs : Planner.get (stopPhase (buildPending cur des)).1 K = some (clr e) := by rw [get_stopPhase]; simp [hst, hg]
      have hnot : K ∉ toStart (stopPhase (buildPending cur des)).1 := by
        intro hm; obtain ⟨e', he', ha'⟩ := (mem_toStart hnds K).mp hm
        rw [hs] at he'; cases he'; rw [clr_action, ha] at ha'; cases ha'
      rw [hres]
      unfold startPhase
      rw [startFold_get_other _ _ hnot]
      simp [hs, Option.filter, clr_action, ha]
    | start =>
      simp only
      have hns : K ∉ toStop (buildPending cur des) := by
        intro hm; obtain ⟨e', he', ha'⟩ := (mem_toStop hndp K).mp hm; rw [hg] at he'; cases he'; rw [ha] at ha'; cases ha'
      have hs : Planner.get (stopPhase (buildPending cur des)).1 K = some e := by rw [get_stopPhase]; simp [hns, hg]
      have hin : K ∈ toStart (stopPhase (buildPending cur des)).1 := (mem_toStart hnds K).mpr ⟨e, hs, ha⟩
      obtain ⟨h1, h2⟩ := startFold_get_mem (fate := fate) _ (nodup_toStart hnds)
        { entries := (stopPhase (buildPending cur des)).1, effects := [], next := next } hin hs
      constructor
      · intro hf
        obtain ⟨i, hi1, hi2, hi3⟩ := h1 hf
        refine ⟨i, hi1, hi2, ?_⟩
        rw [hres]
        unfold startPhase
        rw [hi3]
        simp [Option.filter, setR, ha]
      · intro hf
        rw [hres]
        unfold startPhase
        rw [h2 hf]
        simp

/-! ## the plan at keys the current entries do not own -/

theorem lookupD_split {des : List (String × Nat)} {K : String} {c : Nat} (h : lookupD des K = some c) :
    ∃ d1 d2, des = d1 ++ (K, c) :: d2 ∧ K ∉ d1.map (·.1) := by
  induction des with
  | nil => simp [lookupD] at h
  | cons d t ih =>
    obtain ⟨dk, dc⟩ := d
    simp only [lookupD] at h
    by_cases hdk : dk = K
    · subst hdk
      simp only [beq_self_eq_true, if_true, Option.some.injEq] at h
      subst h
      exact ⟨[], t, rfl, by simp⟩
    · have : (dk == K) = false := by simpa using hdk
      simp only [this, if_false, Bool.false_eq_true] at h
      obtain ⟨d1, d2, hsplit, hnot⟩ := ih h
      refine ⟨(dk, dc) :: d1, d2, by rw [hsplit]; rfl, ?_⟩
      simp only [List.map_cons, List.mem_cons, not_or]
      exact ⟨fun h' => hdk h'.symm, hnot⟩

theorem lookupD_eq_none_of_not_mem {des : List (String × Nat)} {K : String} (h : K ∉ des.map (·.1)) : lookupD des K = none := by
  induction des with
  | nil => rfl
  | cons d t ih =>
    obtain ⟨dk, dc⟩ := d
    simp only [List.map_cons, List.mem_cons, not_or] at h
    have : (dk == K) = false := by simpa using fun h' => h.1 h'.symm
    simp only [lookupD, this, if_false, Bool.false_eq_true]
    exact ih h.2

theorem lookupD_mem {des : List (String × Nat)} {K : String} {c : Nat} (h : lookupD des K = some c) : (K, c) ∈ des := by
  obtain ⟨d1, d2, hs, _⟩ := lookupD_split h
  rw [hs]; simp

theorem keys_newPut_flatMap {cur : Entries} {ds : List (String × Nat)} {K : String} (h : K ∉ ds.map (·.1)) :
    K ∉ keysOf (ds.flatMap (newPut cur)) := by
  intro hm
  simp only [keysOf, List.mem_map, List.mem_flatMap] at hm
  obtain ⟨q, ⟨d, hd, hq⟩, rfl⟩ := hm
  simp only [newPut] at hq
  split at hq
  · simp only [List.mem_singleton] at hq
    subst hq
    exact h (List.mem_map_of_mem (f := (·.1)) hd)
  · simp at hq

/-- the keys the contributions of the current entries can write -/
theorem keys_contrib_flatMap {cur : Entries} {des : List (String × Nat)} {K : String}
    (h : K ∈ keysOf (cur.flatMap (contrib des))) : ∃ k ∈ keysOf cur, K = k ∨ K = k ++ ":stop" := by
  simp only [keysOf, List.mem_map, List.mem_flatMap] at h
  obtain ⟨q, ⟨p, hp, hq⟩, rfl⟩ := h
  exact ⟨p.1, List.mem_map_of_mem (f := (·.1)) hp, keys_processExisting hq⟩

/-- **A new id**: an id the cluster does not have gets a fresh start entry with the desired configuration. -/
theorem plan_new {cur : Entries} {des : List (String × Nat)} (hw : Wf cur des) (hnd : (des.map (·.1)).Nodup)
    {K : String} {c : Nat} (hK : K ∉ keysOf cur) (hc : lookupD des K = some c) :
    Planner.get (buildPending cur des) K = some (startEntry K c) := by
  obtain ⟨d1, d2, hsplit, hn1⟩ := lookupD_split hc
  have hn2 : K ∉ d2.map (·.1) := by
    rw [hsplit] at hnd
    simp only [List.map_append, List.map_cons] at hnd
    exact (List.nodup_cons.mp (List.nodup_append.mp hnd).2.1).1
  have hnone : Planner.get cur K = none := get_eq_none_of_not_mem hK
  rw [buildPending_eq, hsplit]
  simp only [List.flatMap_append, List.flatMap_cons, putAll, List.foldl_append]
  rw [get_foldl_put_of_not_mem _ _ _ (keys_newPut_flatMap hn2)]
  simp only [newPut, hnone, Option.isNone_none, if_true, List.foldl_cons, List.foldl_nil]
  rw [get_put]; simp [startEntry]

/-- **Nothing else is planned**: under a key that is neither a current nor a desired id the plan holds at most a stop entry. -/
theorem plan_other {cur : Entries} {des : List (String × Nat)} {K : String} {e : Entry}
    (hK : K ∉ keysOf cur) (hd : K ∉ des.map (·.1)) (he : Planner.get (buildPending cur des) K = some e) : e.action = .stop := by
  rcases mem_buildPending (mem_of_get he) with ⟨⟨k0, e0⟩, hp, hq⟩ | ⟨d, hdm, hq⟩
  · rcases mem_processExisting hq with ⟨h1, _⟩ | ⟨h1, _⟩ | ⟨c, h1, _⟩
    · simp only at h1; rw [h1]
    · simp only [Prod.mk.injEq] at h1
      exact absurd (h1.1 ▸ List.mem_map_of_mem (f := (·.1)) hp : K ∈ keysOf cur) hK
    · simp only [Prod.mk.injEq] at h1
      exact absurd (h1.1 ▸ List.mem_map_of_mem (f := (·.1)) hp : K ∈ keysOf cur) hK
  · simp only [Prod.mk.injEq] at hq
    exact absurd (hq.1 ▸ List.mem_map_of_mem (f := (·.1)) hdm : K ∈ des.map (·.1)) hd

end GoSup.Cluster

namespace GoSup.Cluster
open GoSup.Planner

/-! ## the state between two updates -/

/-- the entries the cluster holds between two updates (`r.currentEntries` after `commit()`): distinct ids,
no pending action, every entry has its running server -/
structure Committed (cur : Entries) : Prop where
  nodup : (keysOf cur).Nodup
  shape : ∀ k e, Planner.get cur k = some e → e.id = k ∧ e.action = .none ∧ e.runner.isSome = true

theorem committed_nil : Committed [] := ⟨by simp [keysOf], by intro k e h; simp [Planner.get] at h⟩

/-- the accounting invariant after the stop phase alone -/
theorem acc_after_stop {cur : Entries} {effs : List Eff} {next : Nat} {des : List (String × Nat)}
    (h : Acc cur effs next) (hw : Wf cur des) :
    Acc (stopPhase (buildPending cur des)).1 (effs ++ (stopPhase (buildPending cur des)).2) next := by
  have h2 := acc_stopFold (acc_pending h hw) (toStop (buildPending cur des))
  have hs := stopFold_shift (toStop (buildPending cur des)) (buildPending cur des) effs []
  rw [List.append_nil] at hs
  rw [hs] at h2
  exact h2

theorem stopStep_effs {acc : Entries × List Eff} {k : String} {ε : Eff} (h : ε ∈ (stopStep acc k).2) :
    ε ∈ acc.2 ∨ ∃ i, ε = Eff.stop i := by
  cases hg : Planner.get acc.1 k with
  | none => rw [stopStep_none hg] at h; exact Or.inl h
  | some e =>
    cases hr : e.runner with
    | none => rw [stopStep_idle hg hr] at h; exact Or.inl h
    | some i =>
      rw [stopStep_run hg hr] at h
      simp only [List.mem_append, List.mem_singleton] at h
      rcases h with h | h
      · exact Or.inl h
      · exact Or.inr ⟨i, h⟩

theorem stopFold_effs (ks : List String) {acc : Entries × List Eff} {ε : Eff} (h : ε ∈ (ks.foldl stopStep acc).2) :
    ε ∈ acc.2 ∨ ∃ i, ε = Eff.stop i := by
  induction ks generalizing acc with
  | nil => exact Or.inl h
  | cons k t ih =>
    rcases ih h with h1 | h1
    · exact stopStep_effs h1
    · exact Or.inr h1

theorem nil_of_get_none {m : Entries} (h : ∀ K, Planner.get m K = none) : m = [] := by
  cases m with
  | nil => rfl
  | cons p t =>
    have := h p.1
    simp [Planner.get] at this

theorem runners_nodup {m : Entries} (hnd : (keysOf m).Nodup)
    (hinj : ∀ K1 K2 e1 e2 i, Planner.get m K1 = some e1 → Planner.get m K2 = some e2 → e1.runner = some i → e2.runner = some i → K1 = K2) :
    (m.filterMap fun p => p.2.runner).Nodup := by
  induction m with
  | nil => simp
  | cons p t ih =>
    obtain ⟨k, e⟩ := p
    have hnd' := hnd
    simp only [keysOf, List.map_cons, List.nodup_cons] at hnd
    have hget : ∀ K e', (K, e') ∈ t → Planner.get ((k, e) :: t) K = some e' := fun K e' hm =>
      get_of_mem_nodup hnd' (List.mem_cons_of_mem _ hm)
    have iht : (t.filterMap fun p => p.2.runner).Nodup := by
      apply ih hnd.2
      intro K1 K2 e1 e2 i h1 h2 r1 r2
      exact hinj K1 K2 e1 e2 i (hget K1 e1 (mem_of_get h1)) (hget K2 e2 (mem_of_get h2)) r1 r2
    cases hr : e.runner with
    | none => simp only [List.filterMap_cons, hr]; exact iht
    | some i =>
      simp only [List.filterMap_cons, hr, List.nodup_cons]
      refine ⟨?_, iht⟩
      intro hm
      simp only [List.mem_filterMap] at hm
      obtain ⟨⟨k', e'⟩, hm', hr'⟩ := hm
      have : k = k' := hinj k k' e e' i (by simp [Planner.get]) (hget k' e' hm') hr hr'
      subst this
      exact hnd.1 (List.mem_map_of_mem (f := (·.1)) hm')

theorem filterMap_length_of_all_some {m : Entries} (h : ∀ p ∈ m, p.2.runner.isSome = true) :
    (m.filterMap fun p => p.2.runner).length = m.length := by
  induction m with
  | nil => rfl
  | cons p t ih =>
    have hp := h p List.mem_cons_self
    cases hr : p.2.runner with
    | none => rw [hr] at hp; cases hp
    | some i =>
      simp only [List.filterMap_cons, hr, List.length_cons]
      rw [ih (fun q hq => h q (List.mem_cons_of_mem _ hq))]

end GoSup.Cluster

namespace GoSup.Cluster
open GoSup.Planner

/-! ## an update cut short by the end of the context, and the shutdown that follows -/

theorem stopPhase_stop_cleared (p : Entries) (hnd : (keysOf p).Nodup) {K : String} {e : Entry}
    (he : Planner.get (stopPhase p).1 K = some e) (ha : e.action = .stop) : e.runner = none := by
  rw [get_stopPhase] at he
  split at he
  · cases hg : Planner.get p K with
    | none => simp [hg] at he
    | some e0 => simp only [hg, Option.map_some, Option.some.injEq] at he; rw [← he]; rfl
  · rename_i hns
    exact absurd ((mem_toStop hnd K).mpr ⟨e, he, ha⟩) hns

/-- the cut update keeps the accounting invariant: it stops, it starts nothing -/
theorem acc_applyUpdateCut {cur : Entries} {effs : List Eff} {next : Nat} {des : List (String × Nat)}
    (h : Acc cur effs next) (hw : Wf cur des) :
    Acc (applyUpdateCut cur des next).entries (effs ++ (applyUpdateCut cur des next).effects) (applyUpdateCut cur des next).next := by
  have hndp := nodup_buildPending cur des
  have hnds : (keysOf (stopPhase (buildPending cur des)).1).Nodup := by rw [keysOf_stopPhase]; exact hndp
  have h2 := acc_after_stop h hw
  exact acc_commit h2 hnds (fun K e he ha => stopPhase_stop_cleared _ hndp he ha)

/-- with the empty desired map every entry of the plan is a stop entry -/
theorem plan_empty_all_stop {cur : Entries} {K : String} {e : Entry} (he : Planner.get (buildPending cur []) K = some e) :
    e.action = .stop := by
  rcases mem_buildPending (mem_of_get he) with ⟨⟨k0, e0⟩, _, hq⟩ | ⟨d, hd, _⟩
  · simp only [contrib, lookupD] at hq
    rcases mem_processExisting hq with ⟨h1, _⟩ | ⟨_, h1⟩ | ⟨c, _, h1, _⟩
    · simp only at h1; rw [h1]
    · cases h1
    · cases h1
  · simp at hd

/-- the shutdown empties the entries, whatever they were (entries without a runner included) -/
theorem shutdown_entries_nil (cur : Entries) (next : Nat) : (shutdown cur next).entries = [] := by
  apply nil_of_get_none
  intro K
  have hu := get_update (fun _ => Fate.ok) cur [] next K
  unfold shutdown
  cases hg : Planner.get (buildPending cur []) K with
  | none => rw [hg] at hu; exact hu
  | some e =>
    rw [hg] at hu
    simp only [plan_empty_all_stop hg] at hu
    exact hu

theorem keys_commit_sub {m : Entries} {k : String} (hk : k ∈ keysOf (commit m)) : k ∈ keysOf m := by
  unfold commit at hk
  have := keysOf_mapVal (m.filter fun p => p.2.action != .stop) (fun _ e => { e with action := .none })
  rw [this] at hk
  exact (keysOf_filter_sublist m _).subset hk

end GoSup.Cluster

namespace GoSup.Cluster
open GoSup.Planner

/-- the ids a cut update leaves behind are ids the cluster had or was asked for (never a `":stop"` key) -/
theorem keys_cut_sub {cur : Entries} {des : List (String × Nat)} {next : Nat} {k : String}
    (hk : k ∈ keysOf (applyUpdateCut cur des next).entries) : k ∈ keysOf cur ∨ k ∈ des.map (·.1) := by
  have hndp := nodup_buildPending cur des
  have hnds : (keysOf (stopPhase (buildPending cur des)).1).Nodup := by rw [keysOf_stopPhase]; exact hndp
  simp only [keysOf, List.mem_map] at hk
  obtain ⟨⟨k', e⟩, hm, rfl⟩ := hk
  have hsome := get_isSome_of_mem hm
  simp only [applyUpdateCut] at hsome
  rw [get_commit hnds] at hsome
  cases hg : Planner.get (stopPhase (buildPending cur des)).1 k' with
  | none => simp [hg] at hsome
  | some e0 =>
    have hns : e0.action ≠ .stop := by
      intro ha
      simp [hg, Option.filter, ha] at hsome
    rw [get_stopPhase] at hg
    have hp : ∃ e1, Planner.get (buildPending cur des) k' = some e1 ∧ e1.action ≠ .stop := by
      split at hg
      · cases hx : Planner.get (buildPending cur des) k' with
        | none => simp [hx] at hg
        | some e1 =>
          simp only [hx, Option.map_some, Option.some.injEq] at hg
          exact ⟨e1, rfl, by rw [← hg] at hns; exact hns⟩
      · exact ⟨e0, hg, hns⟩
    obtain ⟨e1, he1, hns1⟩ := hp
    rcases mem_buildPending (mem_of_get he1) with ⟨⟨k0, c0⟩, hp0, hq⟩ | ⟨d, hd, hq⟩
    · rcases mem_processExisting hq with ⟨h1, _⟩ | ⟨h1, _⟩ | ⟨c, h1, _⟩
      · simp only at h1; rw [h1] at hns1; exact absurd rfl hns1
      · simp only [Prod.mk.injEq] at h1
        left; rw [h1.1]; exact List.mem_map_of_mem (f := (·.1)) hp0
      · simp only [Prod.mk.injEq] at h1
        left; rw [h1.1]; exact List.mem_map_of_mem (f := (·.1)) hp0
    · simp only [Prod.mk.injEq] at hq
      right; rw [hq.1]; exact List.mem_map_of_mem (f := (·.1)) hd

end GoSup.Cluster
