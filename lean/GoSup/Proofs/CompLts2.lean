import GoSup.Proofs.CompLts
/-!
# Second invariant of the concurrent composite model: running children = configured children; failures are real
-/
namespace GoSup.CompLts
open GoSup.Core GoSup.CompSeq

theorem changed_false_iff (a b : List Nat) : changed a b = false ↔ a.length = b.length ∧ ∀ x ∈ b, x ∈ a := by
  simp [changed]

theorem changed_refl (l : List Nat) : changed l l = false := (changed_false_iff l l).mpr ⟨rfl, fun _ h => h⟩

theorem changed_trans {a b c : List Nat} (h1 : changed a b = false) (h2 : changed b c = false) : changed a c = false := by
  rw [changed_false_iff] at *
  exact ⟨h1.1.trans h2.1, fun x hx => h1.2 x (h2.2 x hx)⟩

/-- the identities of the children of the generation `r.childCancel` belongs to -/
def liveNames (s : St) : List Nat :=
  match s.live with
  | some g => ((s.gens[g]?).map fun x => x.children.map (·.1)).getD []
  | none => []

/-- `Run` has booted and has not begun its own `stopAllRunnables` -/
def runEarly (s : St) : Bool :=
  match s.run with
  | .booted | .select | .afterSelect | .toStop | .failToStop _ => true
  | _ => false

/-- no restart is between its `stopAllRunnables` and the end of its `boot` -/
def rlCalm (s : St) : Bool :=
  match s.rl with
  | .idle | .entered | .cbReturned _ | .gotConfig _ | .restart _ | .skip _ | .children | .finishing => true
  | _ => false

/-- child `c` of some generation has returned a real error from its `Run` -/
def ExitedErr (s : St) (c : Nat) : Prop := ∃ g, childSt s g c = some (.exited .realErr)

/-! ## the helpers and child states -/

theorem names_newGen (f : Bool) (cfg : List (Nat × Nat)) : (newGen f cfg).children.map (·.1) = names cfg := by
  simp [newGen, List.map_map, Function.comp_def]

theorem liveNames_boot (s : St) (f : Bool) (cfg : List (Nat × Nat)) (hl : s.live = none) :
    liveNames (boot s f cfg) = names cfg := by
  unfold boot
  split
  · rename_i he
    have : cfg = [] := by simpa using he
    simp [liveNames, hl, this, names]
  · simp [liveNames, names_newGen]

theorem map_fst_setChildren (l : List (Nat × ChildSt)) (c : Nat) (st : ChildSt) :
    (l.map fun p => if p.1 == c then (c, st) else p).map (·.1) = l.map (·.1) := by
  rw [List.map_map]
  apply List.map_congr_left
  intro p _
  simp only [Function.comp]
  split
  · rename_i h; simp only [beq_iff_eq] at h; exact h.symm
  · rfl

theorem liveNames_setChild (s : St) (g c : Nat) (st : ChildSt) : liveNames (setChild s g c st) = liveNames s := by
  unfold liveNames setChild
  cases hl : s.live with
  | none => rfl
  | some g0 =>
    simp only [hl]
    rw [getElem?_modify']
    split
    · cases s.gens[g0]? with
      | none => rfl
      | some x =>
        simp only [Option.map_some, Option.getD_some]
        exact map_fst_setChildren x.children c st
    · rfl

theorem find_setChildren (l : List (Nat × ChildSt)) (c c' : Nat) (st : ChildSt) :
    ((l.map fun p => if p.1 == c then (c, st) else p).find? (·.1 == c')).map (·.2)
      = if c' = c then (l.find? (·.1 == c')).map (fun _ => st) else (l.find? (·.1 == c')).map (·.2) := by
  induction l with
  | nil => simp
  | cons p t ih =>
    obtain ⟨pc, ps⟩ := p
    simp only [List.map_cons]
    by_cases h1 : pc = c
    · subst h1
      by_cases h2 : c' = pc
      · subst h2; simp
      · have : (pc == c') = false := by simpa using fun h => h2 h.symm
        simp only [beq_self_eq_true, if_true, List.find?_cons, this, h2, if_false] at ih ⊢
        simpa [h2] using ih
    · have hb : (pc == c) = false := by simpa using h1
      simp only [hb, Bool.false_eq_true, if_false, List.find?_cons]
      by_cases h3 : pc = c'
      · subst h3
        have : ¬ pc = c := h1
        simp [this]
      · have : (pc == c') = false := by simpa using h3
        simp only [this]
        exact ih

theorem childSt_setChild (s : St) (g c g' c' : Nat) (st : ChildSt) :
    childSt (setChild s g c st) g' c'
      = if g' = g ∧ c' = c then (childSt s g' c').map (fun _ => st) else childSt s g' c' := by
  unfold childSt setChild
  simp only
  rw [getElem?_modify']
  by_cases hg : g = g'
  · subst hg
    simp only [if_true, true_and]
    cases hx : s.gens[g]? with
    | none => simp
    | some x =>
      simp only [Option.map_some, Option.bind_some]
      rw [find_setChildren]
      split
      · cases List.find? (fun x => x.fst == c') x.children <;> rfl
      · rfl
  · have : ¬ (g' = g ∧ c' = c) := fun h => hg h.1.symm
    simp [hg, this]

theorem childSt_cancelLive (s : St) (g c : Nat) : childSt (cancelLive s) g c = childSt s g c := by
  unfold cancelLive
  split
  · rfl
  · unfold childSt
    simp only
    rw [getElem?_modify']
    split
    · cases s.gens[g]? <;> rfl
    · rfl

theorem childSt_boot_of_some (s : St) (f : Bool) (cfg : List (Nat × Nat)) (g c : Nat) {st : ChildSt}
    (h : childSt s g c = some st) : childSt (boot s f cfg) g c = some st := by
  unfold boot
  split
  · exact h
  · unfold childSt at h ⊢
    simp only
    have hlt : g < s.gens.length := by
      cases hx : s.gens[g]? with
      | none => simp [hx] at h
      | some x => exact (List.getElem?_eq_some_iff.mp hx).1
    rw [List.getElem?_append_left hlt]
    exact h

end GoSup.CompLts

namespace GoSup.CompLts
open GoSup.Core GoSup.CompSeq

theorem exitedErr_setChild {s : St} {g c' c : Nat} {st : ChildSt} (hnot : ∀ o, childSt s g c' ≠ some (.exited o))
    (h : ExitedErr s c) : ExitedErr (setChild s g c' st) c := by
  obtain ⟨g0, hg0⟩ := h
  refine ⟨g0, ?_⟩
  rw [childSt_setChild]
  split
  · rename_i hh
    obtain ⟨rfl, rfl⟩ := hh
    exact absurd hg0 (hnot _)
  · exact hg0

/-- a child that has returned a real error stays that way: generations are only added, exited children never change -/
theorem exitedErr_mono {s s' : St} {a : Act} {c : Nat} (hs : step s a = some s') (h : ExitedErr s c) : ExitedErr s' c := by
  have h0 := h
  obtain ⟨g0, hg0⟩ := h
  cases a
  case childRun g c' =>
    simp only [step] at hs
    split at hs
    · rename_i hst; cases hs
      exact exitedErr_setChild (fun o => by rw [hst]; simp) h0
    · cases hs
  case childExit g c' o =>
    simp only [step] at hs
    split at hs
    · rename_i hst; cases hs
      have := exitedErr_setChild (st := .exited o) (fun o' => by rw [hst]; simp) h0
      split
      · obtain ⟨g1, hg1⟩ := this; exact ⟨g1, hg1⟩
      · exact this
    · cases hs
  case childExitDropped g c' =>
    simp only [step] at hs
    split at hs
    · rename_i hst; cases hs
      exact exitedErr_setChild (fun o => by rw [hst]; simp) h0
    · cases hs
  all_goals
    simp only [step] at hs
    repeat' (split at hs)
    all_goals first
      | (cases hs; done)
      | (cases hs; exact ⟨g0, hg0⟩)
      | (cases hs; exact ⟨g0, childSt_boot_of_some _ _ _ _ _ hg0⟩)
      | (cases hs; exact ⟨g0, (childSt_cancelLive _ _ _).trans hg0⟩)

end GoSup.CompLts

namespace GoSup.CompLts
open GoSup.Core GoSup.CompSeq

@[simp] theorem boot_errs (s : St) (f : Bool) (c : List (Nat × Nat)) : (boot s f c).errs = s.errs := by unfold boot; split <;> rfl
@[simp] theorem boot_cfg (s : St) (f : Bool) (c : List (Nat × Nat)) : (boot s f c).cfg = s.cfg := by unfold boot; split <;> rfl
@[simp] theorem cancelLive_errs (s : St) : (cancelLive s).errs = s.errs := by unfold cancelLive; split <;> rfl
@[simp] theorem setChild_errs (s : St) (g c : Nat) (st : ChildSt) : (setChild s g c st).errs = s.errs := rfl
@[simp] theorem setChild_cfg (s : St) (g c : Nat) (st : ChildSt) : (setChild s g c st).cfg = s.cfg := rfl
@[simp] theorem setChild_run (s : St) (g c : Nat) (st : ChildSt) : (setChild s g c st).run = s.run := rfl
@[simp] theorem setChild_rl (s : St) (g c : Nat) (st : ChildSt) : (setChild s g c st).rl = s.rl := rfl
@[simp] theorem cancelLive_cfg (s : St) : (cancelLive s).cfg = s.cfg := by unfold cancelLive; split <;> rfl

structure Inv2 (s : St) : Prop where
  conf : runEarly s = true → rlCalm s = true → ∃ c, s.cfg = some c ∧ changed (liveNames s) (names c) = false
  skip : ∀ c', s.rl = .skip c' → changed (names (s.cfg.getD [])) (names c') = false
  errs : ∀ c ∈ s.errs, ExitedErr s c
  failing : ∀ c, (s.run = .failToStop c ∨ (∃ p, s.run = .failStopping p c) ∨ s.run = .returned (.failed c)) → ExitedErr s c

theorem inv2_init (b : List Nat) : Inv2 (init b) := by
  refine ⟨?_, ?_, ?_, ?_⟩ <;> simp [init, runEarly]

/-- `serverErrors` only ever holds children whose `Run` returned a real error -/
theorem inv2_errs {s s' : St} {a : Act} (h : Inv2 s) (hs : step s a = some s') : ∀ c ∈ s'.errs, ExitedErr s' c := by
  have hs0 := hs
  cases a
  case childExit g c' o =>
    simp only [step] at hs
    split at hs
    · rename_i hst
      cases hs
      split
      · rename_i ho
        simp only [beq_iff_eq] at ho
        subst ho
        intro c hc
        simp only [List.mem_append, List.mem_singleton] at hc
        rcases hc with hc | hc
        · obtain ⟨g1, hg1⟩ := exitedErr_setChild (st := .exited .realErr) (fun o' => by rw [hst]; simp) (h.errs c hc)
          exact ⟨g1, hg1⟩
        · subst hc
          refine ⟨g, ?_⟩
          show childSt (setChild s g c (.exited .realErr)) g c = _
          rw [childSt_setChild]; simp [hst]
      · intro c hc
        exact exitedErr_setChild (fun o' => by rw [hst]; simp) (h.errs c hc)
    · cases hs
  case runSelErr =>
    simp only [step] at hs
    split at hs
    · cases hs
    · split at hs
      · rename_i c0 rest herr
        cases hs
        intro c hc
        exact exitedErr_mono hs0 (h.errs c (by rw [herr]; exact List.mem_cons_of_mem _ hc))
      · cases hs
  all_goals
    simp only [step] at hs
    repeat' (split at hs)
    all_goals first
      | (cases hs; done)
      | (cases hs; intro c hc; exact exitedErr_mono hs0 (h.errs c (by simpa using hc)))

end GoSup.CompLts

namespace GoSup.CompLts
open GoSup.Core GoSup.CompSeq

/-- the failure path of `Run` is only ever taken for a child that really returned an error -/
theorem inv2_failing {s s' : St} {a : Act} (h : Inv2 s) (hs : step s a = some s') :
    ∀ c, (s'.run = .failToStop c ∨ (∃ p, s'.run = .failStopping p c) ∨ s'.run = .returned (.failed c)) → ExitedErr s' c := by
  have hs0 := hs
  cases a
  case runSelErr =>
    simp only [step] at hs
    split at hs
    · cases hs
    · split at hs
      · rename_i c0 rest herr
        cases hs
        intro c hc
        simp only [RunPc.failToStop.injEq, reduceCtorEq, exists_false, or_false] at hc
        subst hc
        exact exitedErr_mono hs0 (h.errs c0 (by rw [herr]; exact List.mem_cons_self))
      · cases hs
  case runStopBegin =>
    simp only [step] at hs
    split at hs
    · cases hs
    · split at hs
      · cases hs; intro c hc; simp at hc
      · rename_i c0 cfg hr _
        cases hs
        intro c hc
        simp only [reduceCtorEq, RunPc.failStopping.injEq, exists_eq_left', false_or, or_false] at hc
        exact exitedErr_mono hs0 (h.failing c (Or.inl (by rw [hr, hc])))
      · cases hs
  case runStopEnd =>
    simp only [step] at hs
    split at hs
    · cases hs; intro c hc; simp at hc
    · rename_i c0 hr
      cases hs
      intro c hc
      simp only [cancelLive_run] at hc
      simp only [reduceCtorEq, exists_false, RunPc.returned.injEq, RRet.failed.injEq, false_or] at hc
      exact exitedErr_mono hs0 (h.failing c (Or.inr (Or.inl ⟨[], by rw [hr, hc]⟩)))
    · cases hs
  case childStopRet c' =>
    simp only [step] at hs
    split at hs
    · split at hs
      · cases hs; intro c hc; simp at hc
      · cases hs
    · rename_i p e hr
      split at hs
      · cases hs
        intro c hc
        simp only [reduceCtorEq, RunPc.failStopping.injEq, exists_and_right, exists_eq', true_and, false_or, or_false] at hc
        exact exitedErr_mono hs0 (h.failing c (Or.inr (Or.inl ⟨p, by rw [hr, hc]⟩)))
      · cases hs
    · split at hs
      · cases hs
        intro c hc
        exact exitedErr_mono hs0 (h.failing c hc)
      · cases hs
    · cases hs
  all_goals
    simp only [step] at hs
    repeat' (split at hs)
    all_goals first
      | (cases hs; done)
      | (cases hs; intro c hc; exact exitedErr_mono hs0 (h.failing c (by simpa using hc)))

end GoSup.CompLts

namespace GoSup.CompLts
open GoSup.Core GoSup.CompSeq

theorem inv2_skip {s s' : St} {a : Act} (hi : Inv s) (h : Inv2 s) (hs : step s a = some s') :
    ∀ c', s'.rl = .skip c' → changed (names (s'.cfg.getD [])) (names c') = false := by
  cases a
  case rlDecide =>
    simp only [step] at hs
    split at hs
    · rename_i cfg hrl
      cases hs
      intro c' hc
      simp only at hc
      split at hc
      · cases hc
      · rename_i hch
        simp only [RlPc.skip.injEq] at hc
        subst hc
        simpa using hch
    · cases hs
  case runBoot res =>
    simp only [step] at hs
    split at hs
    · cases hs
    · rename_i hc
      simp only [Bool.or_eq_true, bne_iff_ne, ne_eq, not_or, Decidable.not_not] at hc
      have e1 := (hi.early (Or.inr hc.1)).1
      repeat' (split at hs)
      all_goals (cases hs; intro c' hc'; simp [e1] at hc')
  all_goals
    simp only [step] at hs
    repeat' (split at hs)
    all_goals first
      | (cases hs; done)
      | (cases hs; intro c' hc; exact (by simpa using h.skip c' (by simpa using hc)))
      | (cases hs; intro c' hc; simp at hc; done)

end GoSup.CompLts

namespace GoSup.CompLts
open GoSup.Core GoSup.CompSeq

theorem liveNames_congr {s s' : St} (h1 : s'.gens = s.gens) (h2 : s'.live = s.live) : liveNames s' = liveNames s := by
  simp [liveNames, h1, h2]

theorem inv2_conf {s s' : St} {a : Act} (hi : Inv s) (h : Inv2 s) (hs : step s a = some s') :
    runEarly s' = true → rlCalm s' = true → ∃ c, s'.cfg = some c ∧ changed (liveNames s') (names c) = false := by
  cases a
  case runBoot res =>
    simp only [step] at hs
    split at hs
    · cases hs
    · rename_i hc
      simp only [Bool.or_eq_true, bne_iff_ne, ne_eq, not_or, Decidable.not_not] at hc
      obtain ⟨_, _, e3, _⟩ := hi.early (Or.inr hc.1)
      split at hs
      · rename_i cfg hcfg
        cases hs
        intro _ _
        refine ⟨cfg, by simpa using hcfg, ?_⟩
        have : liveNames { boot s true cfg with run := RunPc.booted } = liveNames (boot s true cfg) := liveNames_congr rfl rfl
        rw [this, liveNames_boot s true cfg e3]
        exact changed_refl _
      · rename_i cfg hcfg
        cases hs
        intro _ _
        refine ⟨cfg, by simp, ?_⟩
        have : liveNames { boot { s with cfg := some cfg } true cfg with run := RunPc.booted }
            = liveNames (boot { s with cfg := some cfg } true cfg) := liveNames_congr rfl rfl
        rw [this, liveNames_boot _ true cfg (by exact e3)]
        exact changed_refl _
      · cases hs
        intro he; simp [runEarly] at he
  case rlSetConfig =>
    simp only [step] at hs
    split at hs
    · cases hs; intro _ hc; simp [rlCalm] at hc
    · rename_i cfg' hrl
      cases hs
      intro he _
      have hcalm : rlCalm s = true := by simp [rlCalm, hrl]
      obtain ⟨c, h1, h2⟩ := h.conf (by simpa [runEarly] using he) hcalm
      have h3 := h.skip cfg' hrl
      rw [h1] at h3
      refine ⟨cfg', rfl, ?_⟩
      have : liveNames { s with cfg := some cfg', rl := RlPc.children } = liveNames s := liveNames_congr rfl rfl
      rw [this]
      exact changed_trans h2 (by simpa using h3)
    · cases hs
  case rlBoot =>
    simp only [step] at hs
    split at hs
    · cases hs
    · rename_i hc
      simp only [Bool.or_eq_true, bne_iff_ne, ne_eq, not_or, Decidable.not_not] at hc
      have hl := hi.rlLive (Or.inr hc.1)
      split at hs
      · rename_i cfg hcfg
        cases hs
        intro _ _
        refine ⟨cfg, by simpa using hcfg, ?_⟩
        have : liveNames { boot s s.rctx cfg with rl := RlPc.finishing } = liveNames (boot s s.rctx cfg) := liveNames_congr rfl rfl
        rw [this, liveNames_boot s s.rctx cfg hl]
        exact changed_refl _
      · cases hs
  case childRun g c' =>
    simp only [step] at hs
    split at hs
    · cases hs
      intro he hc
      obtain ⟨c, h1, h2⟩ := h.conf he hc
      exact ⟨c, h1, by rw [liveNames_setChild]; exact h2⟩
    · cases hs
  case childExit g c' o =>
    simp only [step] at hs
    split at hs
    · cases hs
      split
      · intro he hc
        obtain ⟨c, h1, h2⟩ := h.conf he hc
        refine ⟨c, h1, ?_⟩
        have : liveNames { setChild s g c' (ChildSt.exited o) with errs := (setChild s g c' (ChildSt.exited o)).errs ++ [c'] }
            = liveNames (setChild s g c' (ChildSt.exited o)) := liveNames_congr rfl rfl
        rw [this, liveNames_setChild]; exact h2
      · intro he hc
        obtain ⟨c, h1, h2⟩ := h.conf he hc
        exact ⟨c, h1, by rw [liveNames_setChild]; exact h2⟩
    · cases hs
  case childExitDropped g c' =>
    simp only [step] at hs
    split at hs
    · cases hs
      intro he hc
      obtain ⟨c, h1, h2⟩ := h.conf he hc
      exact ⟨c, h1, by rw [liveNames_setChild]; exact h2⟩
    · cases hs
  all_goals
    simp only [step] at hs
    repeat' (split at hs)
    all_goals first
      | (cases hs; done)
      | (cases hs; intro he hc; simp [runEarly] at he; done)
      | (cases hs; intro he hc; simp [rlCalm] at hc; done)
      | (cases hs; intro he hc
         obtain ⟨c, h1, h2⟩ := h.conf (by simp_all [runEarly]) (by simp_all [rlCalm])
         exact ⟨c, h1, h2⟩)

end GoSup.CompLts

namespace GoSup.CompLts
open GoSup.Core GoSup.CompSeq

theorem inv2_step {s s' : St} {a : Act} (hi : Inv s) (h : Inv2 s) (hs : step s a = some s') : Inv2 s' :=
  ⟨inv2_conf hi h hs, inv2_skip hi h hs, inv2_errs h hs, inv2_failing h hs⟩

theorem inv12_reach {b : List Nat} {s : St} (h : Reach lts (init b) s) : Inv s ∧ Inv2 s := by
  induction h with
  | init => exact ⟨inv_init b, inv2_init b⟩
  | step _ hs ih => exact ⟨inv_step ih.1 hs, inv2_step ih.1 ih.2 hs⟩

end GoSup.CompLts
