import GoSup.Proofs.SupReturn
/-! Third invariant: every error value travelling through the supervisor (in a runnable
goroutine, in `errorChan`, as the pending or final result of `Run()`) was returned by some
runnable's `Run`, and the spurious "timeout … context canceled" result is never produced. -/
namespace GoSup.Sup
open GoSup.Core GoSup.Spec.Sup

/-- some runnable's Run returned the real error `e` -/
def realRet (l : List Ev) (e : Nat) : Bool :=
  l.any fun ev => match ev with | .runReturn _ (.realErr e') => e' == e | _ => false

theorem realRet_append (l m : List Ev) (e : Nat) (h : realRet l e = true) : realRet (l ++ m) e = true := by
  simp [realRet, List.any_append] at *; exact .inl h

def errCarrier (r : Rg) (e : Nat) : Prop := r = .returned (.realErr e) ∨ r = .sending e
def mainCarries (m : MainPc) (e : Nat) : Prop := m = .sdCall (.err e) ∨ m = .returned (.err e)
def mainSpurious (m : MainPc) : Prop := m = .sdCall .spuriousTimeout ∨ m = .returned .spuriousTimeout

structure ErrInv (s : St) : Prop where
  q    : ∀ e ∈ s.errQ, realRet s.log e = true
  rg   : ∀ (i : Nat) (r : Rg) (e : Nat), s.rg[i]? = some r → errCarrier r e → realRet s.log e = true
  main : ∀ e, mainCarries s.main e → realRet s.log e = true
  log  : ∀ e, .mainReturn (.err e) ∈ s.log → realRet s.log e = true
  nosp : ¬ mainSpurious s.main ∧ .mainReturn .spuriousTimeout ∉ s.log

theorem errInv_init (caps : List Caps) (u : Nat) : ErrInv (initSt caps u) := by
  refine ⟨by simp [initSt], ?_, by simp [initSt, mainCarries], by simp [initSt], by simp [initSt, mainSpurious]⟩
  intro i r e h hc
  simp [initSt, List.getElem?_replicate] at h
  obtain ⟨_, rfl⟩ := h
  simp [errCarrier] at hc

/-- frame lemma: the step adds `ext` to the log (no `mainReturn`), and every error carrier of the
new state was one of the old state -/
theorem errInv_frame {s s' : St} (hi : ErrInv s)
    (hlog : ∃ ext, s'.log = s.log ++ ext ∧ ∀ r, Ev.mainReturn r ∉ ext)
    (hq : ∀ e ∈ s'.errQ, e ∈ s.errQ)
    (hrg : ∀ (i : Nat) (r : Rg) (e : Nat), s'.rg[i]? = some r → errCarrier r e → ∃ r0, s.rg[i]? = some r0 ∧ errCarrier r0 e)
    (hm : ∀ e, mainCarries s'.main e → mainCarries s.main e)
    (hsp : mainSpurious s'.main → mainSpurious s.main) : ErrInv s' := by
  obtain ⟨h1, h2, h3, h4, h5⟩ := hi
  obtain ⟨ext, hl, hext⟩ := hlog
  refine ⟨?_, ?_, ?_, ?_, ?_⟩
  · intro e he; rw [hl]; exact realRet_append _ _ _ (h1 e (hq e he))
  · intro i r e hr hc
    obtain ⟨r0, hr0, hc0⟩ := hrg i r e hr hc
    rw [hl]; exact realRet_append _ _ _ (h2 i r0 e hr0 hc0)
  · intro e he; rw [hl]; exact realRet_append _ _ _ (h3 e (hm e he))
  · intro e he; rw [hl] at he ⊢
    rcases List.mem_append.mp he with h | h
    · exact realRet_append _ _ _ (h4 e h)
    · exact absurd h (hext _)
  · refine ⟨fun h => h5.1 (hsp h), ?_⟩
    rw [hl]; intro h
    rcases List.mem_append.mp h with h | h
    · exact h5.2 h
    · exact absurd h (hext _)


@[simp] theorem next_ne_sdCall (s : St) (i : Nat) (r : Res) : (s.next i = .sdCall r) = False := by
  simp only [St.next]; split <;> simp

@[simp] theorem next_not_carries (s : St) (i e : Nat) : mainCarries (s.next i) e = False := by
  simp only [St.next, mainCarries]; split <;> simp

@[simp] theorem next_not_spurious (s : St) (i : Nat) : mainSpurious (s.next i) = False := by
  simp only [St.next, mainSpurious]; split <;> simp

macro "err_case" hi:ident hs:ident : tactic =>
  `(tactic| (
    simp only [step] at $hs:ident
    repeat' split at $hs:ident
    all_goals first
      | (simp at $hs:ident; done)
      | (simp only [Option.some.injEq] at $hs:ident
         subst $hs:ident
         refine errInv_frame $hi ?_ ?_ ?_ ?_ ?_
         · first
             | (refine ⟨[], ?_, ?_⟩ <;> simp [St.emit]; done)
             | (refine ⟨[_], rfl, ?_⟩; simp; done)
         · intro e he; first | exact he | (simp_all [St.emit]; done)
         · intro i r e hr hc
           first
             | exact ⟨r, hr, hc⟩
             | (simp only [St.emit, List.getElem?_set] at hr
                split at hr
                · split at hr <;> simp at hr
                  subst hr; simp [errCarrier] at hc
                · exact ⟨r, hr, hc⟩)
         · intro e he; first | exact he | (simp_all [St.emit, mainCarries]; done)
         · intro h; first | exact h | (simp_all [St.emit, mainSpurious]; done))))

theorem errInv_step {s s' : St} {a : Act} (hi : ErrInv s) (hs : step s a = some s') : ErrInv s' := by
  cases a with
  | sendSig g => err_case hi hs
  | sigDeliver k => err_case hi hs
  | sigDrop k => err_case hi hs
  | parentCancel => err_case hi hs
  | userCall u => err_case hi hs
  | trigger j => err_case hi hs
  | stopReturn => err_case hi hs
  | pollAns i b => err_case hi hs
  | tickAns i b => err_case hi hs
  | ctxSeen i => err_case hi hs
  | shutdownTimeout => err_case hi hs
  | startupTimeoutFire => err_case hi hs
  | mainStart => err_case hi hs
  | mainLaunch i => err_case hi hs
  | gateWake i => err_case hi hs
  | gateTimeout i => err_case hi hs
  | gateCtx i => err_case hi hs
  | gateTickFire i => err_case hi hs
  | reapCtx => err_case hi hs
  | reapSig => err_case hi hs
  | rgInvoke i => err_case hi hs
  | onceEnter o => err_case hi hs
  | sdStopInvoke => err_case hi hs
  | sdCancel => err_case hi hs
  | sdWaitDone => err_case hi hs
  | sdClose => err_case hi hs
  | userReturn u => err_case hi hs
  | mgrExit m => err_case hi hs
  | listenerFire j => err_case hi hs
  | listenerCtx j => err_case hi hs
  | listenerDone j => err_case hi hs
  | runReturn i o =>
    obtain ⟨h1, h2, h3, h4, h5⟩ := hi
    simp only [step] at hs
    split at hs
    · simp only [Option.some.injEq] at hs; subst hs
      have hext : ∀ e, realRet s.log e = true → realRet (s.log ++ [Ev.runReturn i o]) e = true :=
        fun e h => realRet_append _ _ _ h
      refine ⟨?_, ?_, ?_, ?_, ?_⟩
      · intro e he; exact hext e (h1 e he)
      · intro j r e hr hc
        simp only [St.emit, List.getElem?_set] at hr
        split at hr
        · split at hr <;> simp at hr
          subst hr
          rcases hc with hc | hc
          · simp at hc; subst hc
            simp [St.emit, realRet, List.any_append]
          · simp at hc
        · exact hext e (h2 j r e hr hc)
      · intro e he; exact hext e (h3 e he)
      · intro e he
        simp only [St.emit] at he
        rcases List.mem_append.mp he with h | h
        · exact hext e (h4 e h)
        · simp at h
      · refine ⟨h5.1, ?_⟩
        simp only [St.emit]; intro h
        rcases List.mem_append.mp h with h | h
        · exact h5.2 h
        · simp at h
    · simp at hs
  | gateErr i =>
    obtain ⟨h1, h2, h3, h4, h5⟩ := hi
    simp only [step] at hs
    split at hs
    · split at hs
      · rename_i e rest hq
        simp only [Option.some.injEq] at hs; subst hs
        refine ⟨?_, h2, ?_, h4, ?_⟩
        · intro e' he'; exact h1 e' (by rw [hq]; exact List.mem_cons_of_mem _ he')
        · intro e' he'
          simp [mainCarries] at he'; subst he'
          exact h1 e (by rw [hq]; exact List.mem_cons_self)
        · exact ⟨by simp [mainSpurious], h5.2⟩
      · simp at hs
    · simp at hs
  | reapErr =>
    obtain ⟨h1, h2, h3, h4, h5⟩ := hi
    simp only [step] at hs
    split at hs
    · split at hs
      · rename_i e rest hq
        simp only [Option.some.injEq] at hs; subst hs
        refine ⟨?_, h2, ?_, h4, ?_⟩
        · intro e' he'; exact h1 e' (by rw [hq]; exact List.mem_cons_of_mem _ he')
        · intro e' he'
          simp [mainCarries] at he'; subst he'
          exact h1 e (by rw [hq]; exact List.mem_cons_self)
        · exact ⟨by simp [mainSpurious], h5.2⟩
      · simp at hs
    · simp at hs
  | mainReturn =>
    obtain ⟨h1, h2, h3, h4, h5⟩ := hi
    simp only [step] at hs
    split at hs
    · split at hs
      · rename_i r hm hd
        simp only [Option.some.injEq] at hs; subst hs
        have hext : ∀ e, realRet s.log e = true → realRet (s.log ++ [Ev.mainReturn r]) e = true :=
          fun e h => realRet_append _ _ _ h
        refine ⟨?_, ?_, ?_, ?_, ?_⟩
        · intro e he; exact hext e (h1 e he)
        · intro j r' e hr hc; exact hext e (h2 j r' e hr hc)
        · intro e he
          simp [St.emit, mainCarries] at he; subst he
          exact hext e (h3 e (.inl hm))
        · intro e he
          simp only [St.emit] at he
          rcases List.mem_append.mp he with h | h
          · exact hext e (h4 e h)
          · simp at h; subst h
            exact hext e (h3 e (.inl hm))
        · refine ⟨?_, ?_⟩
          · intro h
            simp [St.emit, mainSpurious] at h; subst h
            exact h5.1 (.inl hm)
          · simp only [St.emit]; intro h
            rcases List.mem_append.mp h with h | h
            · exact h5.2 h
            · simp at h; subst h
              exact h5.1 (.inl hm)
      · simp at hs
    · simp at hs
  | rgFinish i =>
    obtain ⟨h1, h2, h3, h4, h5⟩ := hi
    simp only [step] at hs
    split at hs
    · rename_i e hr0
      simp only [Option.some.injEq] at hs; subst hs
      refine ⟨h1, ?_, h3, h4, h5⟩
      intro j r e' hr hc
      simp only [List.getElem?_set] at hr
      split at hr
      · split at hr <;> simp at hr
        subst hr
        rcases hc with hc | hc
        · simp at hc
        · simp at hc; subst hc
          rename_i hij _; subst hij
          exact h2 _ _ e hr0 (.inl rfl)
      · exact h2 j r e' hr hc
    · rename_i o hr0
      simp only [Option.some.injEq] at hs; subst hs
      refine ⟨h1, ?_, h3, h4, h5⟩
      intro j r e' hr hc
      simp only [List.getElem?_set] at hr
      split at hr
      · split at hr <;> simp at hr
        subst hr; simp [errCarrier] at hc
      · exact h2 j r e' hr hc
    · simp at hs
  | rgSend i =>
    obtain ⟨h1, h2, h3, h4, h5⟩ := hi
    simp only [step] at hs
    split at hs
    · rename_i e hr0
      have hre := h2 i _ e hr0 (.inr rfl)
      split at hs
      · simp only [Option.some.injEq] at hs; subst hs
        refine ⟨h1, ?_, h3, h4, h5⟩
        intro j r e' hr hc
        simp only [List.getElem?_set] at hr
        split at hr
        · split at hr <;> simp at hr
          subst hr; simp [errCarrier] at hc
        · exact h2 j r e' hr hc
      · split at hs
        · simp only [Option.some.injEq] at hs; subst hs
          refine ⟨?_, ?_, h3, h4, h5⟩
          · intro e' he'
            rcases List.mem_append.mp he' with h | h
            · exact h1 e' h
            · simp at h; subst h; exact hre
          · intro j r e' hr hc
            simp only [List.getElem?_set] at hr
            split at hr
            · split at hr <;> simp at hr
              subst hr; simp [errCarrier] at hc
            · exact h2 j r e' hr hc
        · simp at hs
    · simp at hs

theorem errInv_reach {caps : List Caps} {u : Nat} {s : St} (h : Reachable caps u s) : ErrInv s :=
  inv_of_reach (L := lts) ErrInv (errInv_init caps u) (fun _ _ _ hi hs => errInv_step hi hs) h

end GoSup.Sup
