import GoSup.Proofs.CompLts2
/-!
# Third invariant of the concurrent composite model: what the state machine shows at the program points of `Run`
-/
namespace GoSup.CompLts
open GoSup.Core GoSup.CompSeq

structure Inv3 (s : St) : Prop where
  booting : s.fsm = .booting → (s.run = .entered ∨ s.run = .booted)
  failing : ((∃ c, s.run = .failToStop c) ∨ (∃ p c, s.run = .failStopping p c)) → s.fsm = .error

@[simp] theorem setChild_fsm (s : St) (g c : Nat) (st : ChildSt) : (setChild s g c st).fsm = s.fsm := rfl

theorem tr_eq_some (s : St) (to f : Fsm) : tr s to = some f ↔ (allowed s.fsm to = true ∧ f = to) := by
  unfold tr; split
  · rename_i h; simp [h]; exact eq_comm
  · rename_i h; simp [h]

theorem tr_eq_none (s : St) (to : Fsm) : tr s to = none ↔ allowed s.fsm to = false := by
  unfold tr; split
  · rename_i h; simp [h]
  · rename_i h; simp [h]

theorem inv3_init (b : List Nat) : Inv3 (init b) := by
  refine ⟨?_, ?_⟩ <;> simp [init]

theorem inv3_step {s s' : St} {a : Act} (h : Inv3 s) (hs : step s a = some s') : Inv3 s' := by
  obtain ⟨h1, h2⟩ := h
  cases a <;> simp only [step] at hs
  all_goals
    repeat' (split at hs)
    all_goals first
      | (cases hs; done)
      | (cases hs; refine ⟨?_, ?_⟩ <;> simp_all [tr_eq_some, tr_eq_none] <;> (try (cases hx : s.fsm <;> simp_all [allowed])))

theorem inv3_reach {b : List Nat} {s : St} (h : Reach lts (init b) s) : Inv3 s := by
  induction h with
  | init => exact inv3_init b
  | step _ hs ih => exact inv3_step ih hs

end GoSup.CompLts
