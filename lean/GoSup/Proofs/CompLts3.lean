import GoSup.Proofs.CompLts2
/-!
# Third invariant of the concurrent composite model: what the state machine shows at the program points of `Run`
-/
namespace GoSup.CompLts
open GoSup.Core GoSup.CompSeq

structure Inv3 (s : St) : Prop where
  booting : s.fsm = .booting → (s.run = .entered ∨ s.run = .bootFailed ∨ s.run = .booted)
  failing : ((∃ c, s.run = .failToStop c) ∨ (∃ p c, s.run = .failStopping p c)) → s.fsm = .error

@[simp] theorem setChild_fsm (s : St) (g c : Nat) (st : ChildSt) : (setChild s g c st).fsm = s.fsm := rfl

theorem tr_eq_some (s : St) (to f : Fsm) : tr s to = some f ↔ (allowed s.fsm to = true ∧ f = to) := by
  unfold tr; split
  · rename_i h; simp [h]; exact eq_comm
  · rename_i h; simp [h]

theorem tr_eq_none (s : St) (to : Fsm) : tr s to = none ↔ allowed s.fsm to = false := by
  unfold tr; split
  · rename_i h; simp [h]
  · rename_i h; simp [h]

theorem inv3_init (b : List Nat) : Inv3 (init b) := by
  refine ⟨?_, ?_⟩ <;> simp [init]

theorem inv3_step {s s' : St} {a : Act} (h : Inv3 s) (hs : step s a = some s') : Inv3 s' := by
  obtain ⟨h1, h2⟩ := h
  cases a <;> simp only [step] at hs
  all_goals
    repeat' (split at hs)
    all_goals first
      | (cases hs; done)
      | (cases hs; refine ⟨?_, ?_⟩ <;> simp_all [tr_eq_some, tr_eq_none] <;> (try (cases hx : s.fsm <;> simp_all [allowed])))

theorem inv3_reach {b : List Nat} {s : St} (h : Reach lts (init b) s) : Inv3 s := by
  induction h with
  | init => exact inv3_init b
  | step _ hs ih => exact inv3_step ih hs

end GoSup.CompLts

namespace GoSup.CompLts
open GoSup.Core GoSup.CompSeq

/-- who holds `runnablesMu`, and when the configuration is there -/
structure Inv4 (s : St) : Prop where
  muRun : s.mu = some .run ↔ ((∃ p, s.run = .stopping p) ∨ (∃ p c, s.run = .failStopping p c))
  muRl  : s.mu = some .reload ↔ (∃ cfg p, s.rl = .stopping cfg p)
  cfg   : s.cfg = none → (s.run = .idle ∨ s.run = .entered ∨ s.run = .bootFailed ∨ ∃ r, s.run = .returned r)

theorem inv4_init (b : List Nat) : Inv4 (init b) := by
  refine ⟨?_, ?_, ?_⟩ <;> simp [init]

@[simp] theorem boot_mu (s : St) (f : Bool) (c : List (Nat × Nat)) : (boot s f c).mu = s.mu := by unfold boot; split <;> rfl
@[simp] theorem setChild_mu (s : St) (g c : Nat) (st : ChildSt) : (setChild s g c st).mu = s.mu := rfl
@[simp] theorem cancelLive_mu (s : St) : (cancelLive s).mu = s.mu := by unfold cancelLive; split <;> rfl

theorem inv4_step {s s' : St} {a : Act} (h : Inv4 s) (hs : step s a = some s') : Inv4 s' := by
  obtain ⟨h1, h2, h3⟩ := h
  cases a <;> simp only [step] at hs
  all_goals
    repeat' (split at hs)
    all_goals first
      | (cases hs; done)
      | (cases hs; refine ⟨?_, ?_, ?_⟩ <;> simp_all)

theorem inv4_reach {b : List Nat} {s : St} (h : Reach lts (init b) s) : Inv4 s := by
  induction h with
  | init => exact inv4_init b
  | step _ hs ih => exact inv4_step ih hs

end GoSup.CompLts
