import GoSup.Model.SupState
/-!
# Invariant of the state-cache model on runs without interference (`dirty = false`)
-/
namespace GoSup.SupState

structure Inv (s : St) : Prop where
  pendTru : ∀ v ∈ s.pend, v = s.tru
  await   : s.mon = .awaitFirst → s.chan ≠ [] ∧ s.chan.getLast? = some s.tru
  loopEnd : ∀ l, s.mon = .loop l → endVal l s.chan = some s.tru ∨ (l = none ∧ s.chan = [])
  loopConst : ∀ l, s.mon = .loop l → ∀ c, s.cache = some c → (∀ x ∈ s.chan, some x = l) → c = s.tru
  bc0     : (s.mon = .notSub ∨ s.mon = .awaitFirst) → s.bcasts = 0
  bcPos   : 0 < s.bcasts → s.cache.isSome = true
  snapOk  : ∀ l, s.mon = .loop l → (∀ x ∈ s.chan, some x = l) → 0 < s.bcasts → s.snap = s.cache

theorem dirty_mono {s s' : St} {a : Act} (h : step s a = some s') (hd : s'.dirty = false) : s.dirty = false := by
  cases a <;> simp only [step] at h
  case change v =>
    split at h
    · simp at h
    · split at h
      · simp only [Option.some.injEq] at h; subst h; simp at hd; exact hd.1
      · simp only [Option.some.injEq] at h; subst h; simp at hd; exact hd.1
  case emitDup => split at h <;> simp at h; subst h; exact hd
  case subscribe => split at h <;> simp at h; subst h; exact hd
  case monFirst =>
    split at h
    · split at h
      · split at h <;> (simp only [Option.some.injEq] at h; subst h; exact hd)
      · simp only [Option.some.injEq] at h; subst h; exact hd
    · simp at h
  case monRecv =>
    split at h
    · split at h <;> (simp only [Option.some.injEq] at h; subst h; exact hd)
    · simp at h
  case monExit => split at h <;> simp at h; subst h; exact hd
  case wRead => simp at h; subst h; exact hd
  case wStore k => split at h <;> simp at h; subst h; exact hd
  case wStoreB k => split at h <;> simp at h; subst h; exact hd
  case otherBcast => simp at h; subst h; exact hd
  case cancel => simp at h; subst h; exact hd

theorem endVal_append (l : Option State) (c : List State) (v : State) : endVal l (c ++ [v]) = some v := by
  simp [endVal]

theorem inv_init (t0 : State) : Inv { tru := t0 } := by
  refine ⟨by simp, by simp, by simp, by simp, by simp, by simp, by simp⟩

theorem getLast?_cons_of_ne {x : State} {rest : List State} (h : rest ≠ []) :
    (x :: rest).getLast? = rest.getLast? := by
  cases rest with
  | nil => exact absurd rfl h
  | cons y ys => simp [List.getLast?_cons_cons]

theorem mem_of_getLast? {l : List State} {x : State} (h : l.getLast? = some x) : x ∈ l :=
  List.mem_of_getLast? h

theorem endVal_cons_of_ne (l : Option State) {x : State} {rest : List State} (h : rest ≠ []) :
    endVal l (x :: rest) = endVal l' rest := by
  have hne : rest.getLast? ≠ none := by simpa using h
  simp only [endVal, getLast?_cons_of_ne h]
  cases hr : rest.getLast? with
  | none => exact absurd hr hne
  | some y => rfl

/-- the monitor enters its loop with `lastState = some c`, `c` the head of the channel that was just
consumed and (now) the cache value -/
theorem enter_loop {x tru : State} {rest : List State} (hlast : (x :: rest).getLast? = some tru) :
    (endVal (some x) rest = some tru) ∧ ((∀ y ∈ rest, some y = some x) → x = tru) := by
  by_cases hr : rest = []
  · subst hr
    simp at hlast
    exact ⟨by simp [endVal, hlast], fun _ => hlast⟩
  · rw [getLast?_cons_of_ne hr] at hlast
    refine ⟨by simp [endVal, hlast], fun hconst => ?_⟩
    have := hconst tru (mem_of_getLast? hlast)
    simpa using this.symm

theorem inv_step {s s' : St} {a : Act} (hi : Inv s) (h : step s a = some s') (hd : s'.dirty = false) : Inv s' := by
  cases a <;> simp only [step] at h
  case change v =>
    split at h
    · simp at h
    · rename_i hv
      split at h
      · -- the monitor is subscribed: the change is queued
        rename_i hsub
        simp only [Option.some.injEq] at h
        subst h
        simp only [Bool.or_eq_false_iff, Bool.not_eq_false', List.isEmpty_iff] at hd
        obtain ⟨_, hpend⟩ := hd
        refine ⟨?_, ?_, ?_, ?_, hi.bc0, hi.bcPos, ?_⟩
        · intro w hw; dsimp only at hw; simp [hpend] at hw
        · intro hm
          dsimp only at hm ⊢
          exact ⟨by simp, by simp⟩
        · intro l hm; left; exact endVal_append _ _ _
        · intro l hm c hc hconst
          dsimp only at hm hc hconst ⊢
          exfalso
          have hvl : some v = l := hconst v (by simp)
          have hcl : ∀ x ∈ s.chan, some x = l := fun x hx => hconst x (List.mem_append_left _ hx)
          rcases hi.loopEnd l hm with he | ⟨hl, _⟩
          · have : endVal l s.chan = l := by
              simp only [endVal]
              cases hg : s.chan.getLast? with
              | none => rfl
              | some y => simp [hcl y (mem_of_getLast? hg)]
            rw [this, ← hvl] at he
            exact hv (by simpa using he)
          · rw [hl] at hvl; simp at hvl
        · intro l hm hconst hb
          dsimp only at hm hconst hb ⊢
          exact hi.snapOk l hm (fun x hx => hconst x (List.mem_append_left _ hx)) hb
      · -- not subscribed (yet, or no longer)
        rename_i hsub
        simp only [Option.some.injEq] at h
        subst h
        simp only [Bool.or_eq_false_iff, Bool.not_eq_false', List.isEmpty_iff] at hd
        obtain ⟨_, hpend⟩ := hd
        refine ⟨?_, ?_, ?_, ?_, hi.bc0, hi.bcPos, ?_⟩
        · intro w hw; dsimp only at hw; simp [hpend] at hw
        · intro hm; dsimp only at hm; simp [subscribed, hm] at hsub
        · intro l hm; dsimp only at hm; simp [subscribed, hm] at hsub
        · intro l hm; dsimp only at hm; simp [subscribed, hm] at hsub
        · intro l hm; dsimp only at hm; simp [subscribed, hm] at hsub
  case emitDup =>
    split at h
    · simp only [Option.some.injEq] at h
      subst h
      refine ⟨hi.pendTru, ?_, ?_, ?_, hi.bc0, hi.bcPos, ?_⟩
      · intro _; exact ⟨by simp, by simp⟩
      · intro l hm; left; exact endVal_append _ _ _
      · intro l hm c hc hconst
        exact hi.loopConst l hm c hc (fun x hx => hconst x (List.mem_append_left _ hx))
      · intro l hm hconst hb
        exact hi.snapOk l hm (fun x hx => hconst x (List.mem_append_left _ hx)) hb
    · simp at h
  case subscribe =>
    split at h
    · rename_i hg
      simp only [Bool.and_eq_true, beq_iff_eq, Bool.not_eq_true'] at hg
      simp only [Option.some.injEq] at h
      subst h
      refine ⟨hi.pendTru, ?_, by simp, by simp, ?_, hi.bcPos, by simp⟩
      · intro _; exact ⟨by simp, by simp⟩
      · intro _; exact hi.bc0 (Or.inl hg.1)
    · simp at h
  case monFirst =>
    split at h
    · rename_i x rest hm hc
      obtain ⟨_, hlast⟩ := hi.await hm
      rw [hc] at hlast
      have hb0 := hi.bc0 (Or.inr hm)
      obtain ⟨hE, hC⟩ := enter_loop hlast
      split at h
      · rename_i c hcache
        split at h
        · -- the first value equals the recorded state: discarded
          rename_i hcx
          simp only [Option.some.injEq] at h
          subst h
          subst hcx
          refine ⟨hi.pendTru, by simp, ?_, ?_, by simp, ?_, ?_⟩
          · intro l hl; simp only [Mon.loop.injEq] at hl; subst hl; left; exact hE
          · intro l hl c' hc' hconst
            simp only [Mon.loop.injEq] at hl; subst hl
            dsimp only at hc'
            rw [hcache] at hc'; simp only [Option.some.injEq] at hc'; subst hc'
            exact hC hconst
          · intro hpos; dsimp only at hpos; omega
          · intro l _ _ hpos; dsimp only at hpos; omega
        · -- late subscription: the first value is newer than the recorded state and is applied
          simp only [Option.some.injEq] at h
          subst h
          refine ⟨hi.pendTru, by simp, ?_, ?_, by simp, by simp, ?_⟩
          · intro l hl; simp only [Mon.loop.injEq] at hl; subst hl; left; exact hE
          · intro l hl c' hc' hconst
            simp only [Mon.loop.injEq] at hl; subst hl
            simp only [Option.some.injEq] at hc'; subst hc'
            exact hC hconst
          · intro l _ _ _; rfl
      · -- nothing recorded yet (the monitor subscribed before the launch store)
        rename_i hcache
        simp only [Option.some.injEq] at h
        subst h
        refine ⟨hi.pendTru, by simp, ?_, ?_, by simp, ?_, ?_⟩
        · intro l hl
          simp only [Mon.loop.injEq] at hl; subst hl
          by_cases hr : rest = []
          · right; exact ⟨rfl, hr⟩
          · left
            rw [getLast?_cons_of_ne hr] at hlast
            simp [endVal, hlast]
        · intro l hl c' hc' _
          dsimp only at hc'; rw [hcache] at hc'; cases hc'
        · intro hpos; dsimp only at hpos; omega
        · intro l _ _ hpos; dsimp only at hpos; omega
    · simp at h
  case monRecv =>
    split at h
    · rename_i last x rest hm hc
      split at h
      · -- duplicate of lastState: skipped
        rename_i hxl
        simp only [Option.some.injEq] at h
        subst h
        refine ⟨hi.pendTru, ?_, ?_, ?_, hi.bc0, hi.bcPos, ?_⟩
        · intro hm'; rw [hm] at hm'; cases hm'
        · intro l hl
          rw [hm] at hl; simp only [Mon.loop.injEq] at hl; subst hl
          rcases hi.loopEnd last hm with he | ⟨_, he⟩
          · left
            rw [hc] at he
            by_cases hr : rest = []
            · subst hr; simp [endVal] at he ⊢; rw [← hxl, he]
            · rw [endVal_cons_of_ne (l' := last) last hr] at he; exact he
          · rw [hc] at he; cases he
        · intro l hl c hcache hconst
          rw [hm] at hl; simp only [Mon.loop.injEq] at hl; subst hl
          refine hi.loopConst last hm c hcache ?_
          rw [hc]; intro y hy
          simp only [List.mem_cons] at hy
          rcases hy with rfl | hy
          · exact hxl
          · exact hconst y hy
        · intro l hl hconst hb
          rw [hm] at hl; simp only [Mon.loop.injEq] at hl; subst hl
          refine hi.snapOk last hm ?_ hb
          rw [hc]; intro y hy
          simp only [List.mem_cons] at hy
          rcases hy with rfl | hy
          · exact hxl
          · exact hconst y hy
      · -- a new state: Swap + broadcast
        simp only [Option.some.injEq] at h
        subst h
        have hlast : (x :: rest).getLast? = some s.tru := by
          rcases hi.loopEnd last hm with he | ⟨_, he⟩
          · rw [hc] at he
            simp only [endVal] at he
            cases hg : (x :: rest).getLast? with
            | none => simp at hg
            | some y => rw [hg] at he; exact he
          · rw [hc] at he; cases he
        obtain ⟨hE, hC⟩ := enter_loop hlast
        refine ⟨hi.pendTru, by simp, ?_, ?_, by simp, by simp, ?_⟩
        · intro l hl; simp only [Mon.loop.injEq] at hl; subst hl; left; exact hE
        · intro l hl c hcache hconst
          simp only [Mon.loop.injEq] at hl; subst hl
          simp only [Option.some.injEq] at hcache; subst hcache
          exact hC hconst
        · intro l _ _ _; rfl
    · simp at h
  case monExit =>
    split at h
    · simp only [Option.some.injEq] at h
      subst h
      refine ⟨hi.pendTru, by simp, by simp, by simp, by simp, hi.bcPos, by simp⟩
    · simp at h
  case wRead =>
    simp only [Option.some.injEq] at h
    subst h
    refine ⟨?_, hi.await, hi.loopEnd, hi.loopConst, hi.bc0, hi.bcPos, hi.snapOk⟩
    intro v hv
    simp only [List.mem_append, List.mem_singleton] at hv
    rcases hv with hv | hv
    · exact hi.pendTru v hv
    · exact hv
  case wStore k =>
    split at h
    · rename_i v hk
      simp only [Option.some.injEq] at h
      subst h
      have hv : v = s.tru := hi.pendTru v (List.mem_of_getElem? hk)
      subst hv
      refine ⟨?_, hi.await, hi.loopEnd, ?_, hi.bc0, by simp, ?_⟩
      · intro w hw; exact hi.pendTru w (List.mem_of_mem_eraseIdx hw)
      · intro l _ c hc _; simpa using hc.symm
      · intro l hm hconst hb
        have hs := hi.snapOk l hm hconst hb
        have hsome := hi.bcPos hb
        cases hcache : s.cache with
        | none => simp [hcache] at hsome
        | some c =>
          have := hi.loopConst l hm c hcache hconst
          simp [hs, hcache, this]
    · simp at h
  case wStoreB k =>
    split at h
    · rename_i v hk
      simp only [Option.some.injEq] at h
      subst h
      have hv : v = s.tru := hi.pendTru v (List.mem_of_getElem? hk)
      subst hv
      refine ⟨?_, hi.await, hi.loopEnd, ?_, hi.bc0, by simp, ?_⟩
      · intro w hw; exact hi.pendTru w (List.mem_of_mem_eraseIdx hw)
      · intro l _ c hc _; simpa using hc.symm
      · intro l hm hconst hb
        dsimp only
        by_cases hsame : s.cache = some s.tru
        · simp only [hsame, if_true]
          rw [hi.snapOk l hm hconst hb, hsame]
        · simp [hsame]
    · simp at h
  case otherBcast =>
    simp only [Option.some.injEq] at h
    subst h
    exact ⟨hi.pendTru, hi.await, hi.loopEnd, hi.loopConst, hi.bc0, hi.bcPos, fun _ _ _ _ => rfl⟩
  case cancel =>
    simp only [Option.some.injEq] at h
    subst h
    exact ⟨hi.pendTru, hi.await, hi.loopEnd, hi.loopConst, hi.bc0, hi.bcPos, hi.snapOk⟩

theorem snap_step {s s' : St} {a : Act} (hs : step s a = some s') (hsil : s'.silent = false) :
    s.silent = false ∧ (s.snap = s.cache → s'.snap = s'.cache) := by
  cases a <;> simp only [step] at hs
  case change v =>
    split at hs
    · simp at hs
    · split at hs <;> (simp only [Option.some.injEq] at hs; subst hs; exact ⟨hsil, fun h => h⟩)
  case emitDup => split at hs <;> simp at hs; subst hs; exact ⟨hsil, fun h => h⟩
  case subscribe => split at hs <;> simp at hs; subst hs; exact ⟨hsil, fun h => h⟩
  case monFirst =>
    split at hs
    · split at hs
      · split at hs
        · simp only [Option.some.injEq] at hs; subst hs; exact ⟨hsil, fun h => h⟩
        · simp only [Option.some.injEq] at hs; subst hs; exact ⟨hsil, fun _ => rfl⟩
      · simp only [Option.some.injEq] at hs; subst hs; exact ⟨hsil, fun h => h⟩
    · simp at hs
  case monRecv =>
    split at hs
    · split at hs
      · simp only [Option.some.injEq] at hs; subst hs; exact ⟨hsil, fun h => h⟩
      · simp only [Option.some.injEq] at hs; subst hs; exact ⟨hsil, fun _ => rfl⟩
    · simp at hs
  case monExit => split at hs <;> simp at hs; subst hs; exact ⟨hsil, fun h => h⟩
  case wRead => simp at hs; subst hs; exact ⟨hsil, fun h => h⟩
  case wStore k => split at hs <;> simp at hs; subst hs; simp at hsil
  case wStoreB k =>
    split at hs
    · rename_i v _
      simp only [Option.some.injEq] at hs; subst hs
      refine ⟨hsil, fun h => ?_⟩
      dsimp only
      by_cases hc : s.cache = some v
      · simp only [hc, if_true]; rw [h, hc]
      · simp [hc]
    · simp at hs
  case otherBcast => simp at hs; subst hs; exact ⟨hsil, fun _ => rfl⟩
  case cancel => simp at hs; subst hs; exact ⟨hsil, fun h => h⟩

/-- while no silent store has happened, the entry in the latest snapshot IS the cache entry: every change of the
cache is made together with a broadcast -/
theorem snap_eq_cache {t0 : State} {s : St} (h : Reach t0 s) : s.silent = false → s.snap = s.cache := by
  induction h with
  | init => intro _; rfl
  | step _ hs ih =>
    intro hsil
    obtain ⟨h1, h2⟩ := snap_step hs hsil
    exact h2 (ih h1)

theorem inv_reach {t0 : State} {s : St} (h : Reach t0 s) : s.dirty = false → Inv s := by
  induction h with
  | init => intro _; exact inv_init t0
  | step _ hs ih => intro hd; exact inv_step (ih (dirty_mono hs hd)) hs hd

end GoSup.SupState
