import GoSup.Model.Sup
import GoSup.Spec.Sup
/-!
Invariant of the supervisor model relating the body of `Shutdown` (`sd`, `once`) to the Stop
events emitted so far.  Holds for every number of runnables, every capability mix, every number
of concurrent `Shutdown()` callers and every schedule.
-/
namespace GoSup.Sup
open GoSup.Core GoSup.Spec.Sup

/-- the first `j` Stop calls in reverse registration order, each returned before the next -/
def full (n : Nat) : Nat → List Ev
  | 0 => []
  | j + 1 => full n j ++ [.stopInvoke (n - 1 - j), .stopReturn (n - 1 - j)]

def stopLog (s : St) : List Ev := s.log.filter isStop

/-- what the Stop events must be, given where the Shutdown body is -/
def expectedStops (n : Nat) : Sd → List Ev
  | .idle => []
  | .stopping k inStop => full n (n - k) ++ (if inStop then [.stopInvoke (k - 1)] else [])
  | _ => full n n

structure StopInv (s : St) : Prop where
  shape : stopLog s = expectedStops s.n s.sd
  kle   : ∀ k b, s.sd = .stopping k b → k ≤ s.n ∧ (b = true → 0 < k)
  fresh : s.once = .fresh ↔ s.sd = .idle
  done  : s.once = .done ↔ s.sd = .finished
  noErrClose : s.errClosed = false ∧ s.panicked = false

theorem stopLog_emit_other (s : St) (e : Ev) (h : isStop e = false) : stopLog (s.emit e) = stopLog s := by
  simp [stopLog, St.emit, List.filter_append, h]

theorem stopLog_emit_stop (s : St) (e : Ev) (h : isStop e = true) : stopLog (s.emit e) = stopLog s ++ [e] := by
  simp [stopLog, St.emit, List.filter_append, h]

theorem full_succ' (n k : Nat) (h : 0 < k) (hk : k ≤ n) :
    full n (n - (k - 1)) = full n (n - k) ++ [.stopInvoke (k - 1), .stopReturn (k - 1)] := by
  have : n - (k - 1) = (n - k) + 1 := by omega
  rw [this, full]
  have : n - 1 - (n - k) = k - 1 := by omega
  rw [this]

theorem stopInv_init (caps : List Caps) (u : Nat) : StopInv (initSt caps u) := by
  refine ⟨by simp [stopLog, initSt, expectedStops], ?_, by simp [initSt], by simp [initSt], by simp [initSt]⟩
  intro k b h; simp [initSt] at h

/-- frame lemma: a step that leaves `sd`, `once`, `caps`, `errClosed`, `panicked` alone and emits
no Stop event preserves the invariant -/
theorem stopInv_frame {s s' : St} (hi : StopInv s) (hsd : s'.sd = s.sd) (ho : s'.once = s.once)
    (hc : s'.caps = s.caps) (hl : stopLog s' = stopLog s) (he : s'.errClosed = s.errClosed)
    (hp : s'.panicked = s.panicked) : StopInv s' := by
  obtain ⟨h1, h2, h3, h4, h5⟩ := hi
  refine ⟨?_, ?_, ?_, ?_, ?_⟩
  · rw [hl, hsd, h1]; simp [St.n, hc]
  · intro k b h; rw [hsd] at h; have := h2 k b h; simpa [St.n, hc] using this
  · rw [ho, hsd]; exact h3
  · rw [ho, hsd]; exact h4
  · rw [he, hp]; exact h5

end GoSup.Sup

namespace GoSup.Sup
open GoSup.Core GoSup.Spec.Sup

/-- discharge a frame case: unfold the step, split every `if`/`match`, and apply the frame lemma -/
macro "frame_case" hi:ident hs:ident : tactic =>
  `(tactic| (
    simp only [step] at $hs:ident
    repeat' split at $hs:ident
    all_goals first
      | (simp at $hs:ident; done)
      | (simp only [Option.some.injEq] at $hs:ident
         subst $hs:ident
         exact stopInv_frame $hi rfl rfl rfl
           (by first | rfl | (simp [stopLog, St.emit, List.filter_append, isStop])) rfl rfl)))

theorem stopInv_step {s s' : St} {a : Act} (hi : StopInv s) (hs : step s a = some s') : StopInv s' := by
  cases a with
  | sendSig g => frame_case hi hs
  | sigDeliver k => frame_case hi hs
  | sigDrop k => frame_case hi hs
  | parentCancel => frame_case hi hs
  | userCall u => frame_case hi hs
  | trigger j => frame_case hi hs
  | runReturn i o => frame_case hi hs
  | pollAns i b => frame_case hi hs
  | tickAns i b => frame_case hi hs
  | ctxSeen i => frame_case hi hs
  | startupTimeoutFire => frame_case hi hs
  | mainStart => frame_case hi hs
  | mainLaunch i =>
    -- the guard `once = fresh` gives `sd = idle`, so the WaitGroup-misuse flag stays false
    simp only [step] at hs
    split at hs
    · split at hs
      · rename_i hfresh
        simp only [Option.some.injEq] at hs
        subst hs
        have hidle := hi.fresh.mp (by simpa using hfresh)
        refine stopInv_frame hi rfl rfl rfl rfl rfl ?_
        simp [hidle]
      · simp only [Option.some.injEq] at hs
        subst hs
        exact stopInv_frame hi rfl rfl rfl rfl rfl rfl
    · simp at hs
  | gateWake i => frame_case hi hs
  | gateErr i => frame_case hi hs
  | gateTimeout i => frame_case hi hs
  | gateCtx i => frame_case hi hs
  | gateTickFire i => frame_case hi hs
  | reapErr => frame_case hi hs
  | reapCtx => frame_case hi hs
  | reapSig => frame_case hi hs
  | mainReturn => frame_case hi hs
  | rgInvoke i => frame_case hi hs
  | rgFinish i => frame_case hi hs
  | userReturn u => frame_case hi hs
  | mgrExit m => frame_case hi hs
  | listenerFire j => frame_case hi hs
  | listenerCtx j => frame_case hi hs
  | listenerDone j => frame_case hi hs
  | rgSend i =>
    obtain ⟨h1, h2, h3, h4, h5⟩ := hi
    simp only [step] at hs
    split at hs
    · split at hs
      · rename_i hc; simp [h5.1] at hc
      · split at hs
        · simp only [Option.some.injEq] at hs; subst hs
          exact stopInv_frame ⟨h1, h2, h3, h4, h5⟩ rfl rfl rfl rfl rfl rfl
        · simp at hs
    · simp at hs
  | stopReturn =>
    obtain ⟨h1, h2, h3, h4, h5⟩ := hi
    simp only [step] at hs
    split at hs
    · rename_i k hsd
      simp only [Option.some.injEq] at hs; subst hs
      obtain ⟨hk, hpos⟩ := h2 k true hsd
      have hpos := hpos rfl
      refine ⟨?_, ?_, ?_, ?_, h5⟩
      · rw [stopLog_emit_stop _ _ (by simp [isStop])]
        show stopLog s ++ _ = _
        rw [h1, hsd]
        have hfs := full_succ' s.caps.length k hpos hk
        simp only [expectedStops, St.emit, St.n, if_true] at *
        rw [hfs]; simp
      · intro k' b h; simp [St.emit] at h; obtain ⟨rfl, rfl⟩ := h
        simp [St.emit, St.n] at *; omega
      · simp [St.emit]; rw [h3, hsd]; simp
      · simp [St.emit]; rw [h4, hsd]; simp
    · simp at hs
  | shutdownTimeout =>
    obtain ⟨h1, h2, h3, h4, h5⟩ := hi
    simp only [step] at hs
    split at hs
    · rename_i hsd
      simp only [Option.some.injEq] at hs; subst hs
      simp at hsd
      refine ⟨?_, ?_, ?_, ?_, h5⟩
      · show stopLog s = _; rw [h1, hsd]; simp [expectedStops, St.n]
      · intro k b h; simp at h
      · simp; rw [h3, hsd]; simp
      · simp; rw [h4, hsd]; simp
    · simp at hs
  | onceEnter o =>
    obtain ⟨h1, h2, h3, h4, h5⟩ := hi
    simp only [step] at hs
    split at hs
    · rename_i hc
      simp only [Option.some.injEq] at hs; subst hs
      simp at hc
      have hidle := h3.mp hc.1
      refine ⟨?_, ?_, ?_, ?_, h5⟩
      · show stopLog s = _; rw [h1, hidle]; simp [expectedStops, St.n, full]
      · intro k b h; simp at h; obtain ⟨rfl, rfl⟩ := h; simp [St.n]
      · simp
      · simp
    · simp at hs
  | sdStopInvoke =>
    obtain ⟨h1, h2, h3, h4, h5⟩ := hi
    simp only [step] at hs
    split at hs
    · rename_i k hsd
      split at hs
      · rename_i hpos
        simp only [Option.some.injEq] at hs; subst hs
        obtain ⟨hk, _⟩ := h2 k false hsd
        refine ⟨?_, ?_, ?_, ?_, h5⟩
        · rw [stopLog_emit_stop _ _ (by simp [isStop])]
          show stopLog s ++ _ = _
          rw [h1, hsd]; simp [expectedStops, St.emit, St.n]
        · intro k' b h; simp [St.emit] at h; obtain ⟨rfl, rfl⟩ := h
          simp [St.emit, St.n] at *; omega
        · simp [St.emit]; rw [h3, hsd]; simp
        · simp [St.emit]; rw [h4, hsd]; simp
      · simp at hs
    · simp at hs
  | sdCancel =>
    obtain ⟨h1, h2, h3, h4, h5⟩ := hi
    simp only [step] at hs
    split at hs
    · rename_i hsd
      simp only [Option.some.injEq] at hs; subst hs
      simp at hsd
      refine ⟨?_, ?_, ?_, ?_, h5⟩
      · show stopLog s = _; rw [h1, hsd]; simp [expectedStops, St.n]
      · intro k b h; simp at h
      · simp; rw [h3, hsd]; simp
      · simp; rw [h4, hsd]; simp
    · simp at hs
  | sdWaitDone =>
    obtain ⟨h1, h2, h3, h4, h5⟩ := hi
    simp only [step] at hs
    split at hs
    · rename_i hsd
      simp only [Option.some.injEq] at hs; subst hs
      simp at hsd
      refine ⟨?_, ?_, ?_, ?_, h5⟩
      · show stopLog s = _; rw [h1, hsd.1]; simp [expectedStops, St.n]
      · intro k b h; simp at h
      · simp; rw [h3, hsd.1]; simp
      · simp; rw [h4, hsd.1]; simp
    · simp at hs
  | sdClose =>
    obtain ⟨h1, h2, h3, h4, h5⟩ := hi
    simp only [step] at hs
    split at hs
    · rename_i b hsd
      simp only [Option.some.injEq] at hs; subst hs
      refine ⟨?_, ?_, ?_, ?_, h5⟩
      · show stopLog s = _; rw [h1, hsd]; simp [expectedStops, St.n]
      · intro k b h; simp at h
      · simp
      · simp
    · simp at hs

theorem stopInv_reach {caps : List Caps} {u : Nat} {s : St} (h : Reachable caps u s) : StopInv s :=
  inv_of_reach (L := lts) StopInv (stopInv_init caps u) (fun _ _ _ hi hs => stopInv_step hi hs) h

end GoSup.Sup
