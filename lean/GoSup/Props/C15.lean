import GoSup.Proofs.Middleware
import GoSup.Spec.C15
/-!
# C15 — property theorems (middleware chain)
For every chain of handler programs of every length over the whole action alphabet, including
the built-in middlewares (which are handler programs over the same alphabet), every request
path and every connection capacity.
-/
namespace GoSup.Props.C15
open GoSup.Middleware

def toSt : Out Impl → Out St
  | .ok m => .ok m.s
  | .panic m => .panic m.s
  | .fuel => .fuel

/-- **Refinement.** Whenever the index-based implementation model (`RequestProcessor.Next/Abort`
literally: `index++`, the `for` loop, `index = len`) terminates within its fuel, its result — the
complete event trace (handler enter/leave, marks, Abort calls, recovery, observations), the
response and the writer's bookkeeping — equals the reference interpreter's, which has no index
and recurses over the list of handlers not yet started. -/
theorem c15_refines (hs : List Handler) (s : St) (fuel : Nat) (h : execImpl fuel hs s ≠ .fuel) :
    execImpl fuel hs s = execSpec hs s := by
  have hne : implNext fuel hs { s := s, pos := 0 } ≠ .fuel := by
    intro e; simp [execImpl, e] at h
  have := (refines_all hs fuel).next { s := s, pos := 0 } hne
  simp only [List.drop_zero] at this
  simp only [execImpl, execSpec]
  cases hr : implNext fuel hs { s := s, pos := 0 } with
  | fuel => exact absurd hr hne
  | ok m =>
    cases hq : specRun 0 hs s with
    | ok s' => simp only [hr, hq, runRel] at this; simp [this.1]
    | panic s' => simp [hr, hq, runRel] at this
    | fuel => simp [hr, hq, runRel] at this
  | panic m =>
    cases hq : specRun 0 hs s with
    | ok s' => simp [hr, hq, runRel] at this
    | panic s' => simp only [hr, hq, runRel] at this; simp [this]
    | fuel => simp [hr, hq, runRel] at this

/-- the reference interpreter is total: it always produces a response or a panic -/
theorem c15_spec_total (hs : List Handler) (s : St) : execSpec hs s ≠ .fuel :=
  (spec_no_fuel _).2 0 hs s (Nat.le_refl _)

/-- after `Next` returned, the chain is exhausted: a second `Next` in the same handler, or any
`Next` after `Abort`, starts nothing (reference interpreter, decision logic stated outright) -/
theorem c15_nothing_after_consumed (i : Nat) (as : List Act) (s : St) :
    specActs i (.next :: as) [] s = consumed (specActs i as [] s)
    ∧ specActs i (.abort :: .next :: as) [] s = consumed (consumed (specActs i as [] (s.emit (.aborted i)))) := by
  refine ⟨?_, ?_⟩
  · rw [specActs_next, specRun_nil]
  · rw [specActs_abort, specActs_next, specRun_nil]

/-- non-vacuity: three handlers; the second calls Next twice, the third aborts -/
example : execImpl 100 [[.mark 1, .next, .mark 2], [.next, .next], [.abort, .next]] {} =
    execSpec [[.mark 1, .next, .mark 2], [.next, .next], [.abort, .next]] {} ∧
    execImpl 100 [[.mark 1, .next, .mark 2], [.next, .next], [.abort, .next]] {} ≠ .fuel := by
  constructor
  · exact c15_refines _ _ _ (by decide)
  · decide

end GoSup.Props.C15
