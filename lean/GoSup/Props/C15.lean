import GoSup.Model.Middleware
import GoSup.Spec.C15
/-! # C15 — property theorems (middleware chain, ResponseWriter) -/
namespace GoSup.Props.C15
open GoSup.Middleware

end GoSup.Props.C15
