import GoSup.Proofs.SupReturn
/-!
# C01 — property theorems (supervisor Stop discipline)

For every set of runnables (any `n`, any capability mix), every number of concurrent
`Shutdown()` callers, every trigger mix and every schedule (`Reachable` is inductive; nothing is
bounded), with *no assumption* on how the runnables behave.
-/
namespace GoSup.Props.C01
open GoSup.Sup GoSup.Core GoSup.Spec.Sup

theorem fullStops_split (n j : Nat) (h : j ≤ n) : fullStops n = full n j ++ fullStops (n - j) := by
  induction j with
  | zero => simp [full]
  | succ j ih =>
    have hj : j ≤ n := by omega
    rw [ih hj, full]
    have : n - j = (n - (j + 1)) + 1 := by omega
    rw [this, fullStops]
    have h2 : n - 1 - j = n - (j + 1) := by omega
    simp [h2]

theorem isPrefix_append [BEq α] [LawfulBEq α] (a b : List α) : isPrefix a (a ++ b) = true := by
  induction a with
  | nil => simp [isPrefix]
  | cons x xs ih => simp [isPrefix, ih]

theorem isPrefix_append_one [BEq α] [LawfulBEq α] (a b : List α) (x : α) :
    isPrefix (a ++ [x]) (a ++ x :: b) = true := by
  induction a with
  | nil => simp [isPrefix]
  | cons y ys ih => simp [isPrefix, ih]

/-- **(a)+(b) Order, exclusivity, at-most-once.** In every reachable state the Stop events seen
so far are a prefix of `Stop(n-1) begins, Stop(n-1) returns, …, Stop(0) begins, Stop(0) returns`:
strictly reverse registration order, each call returned before the next begins, none twice. -/
theorem c01_order {caps : List Caps} {u : Nat} {s : St} (h : Reachable caps u s) :
    isPrefix (stopLog s) (fullStops s.n) = true := by
  have hi := stopInv_reach h
  rw [hi.shape]
  cases hsd : s.sd with
  | idle => simp [expectedStops, isPrefix]
  | stopping k b =>
    obtain ⟨hk, hb⟩ := hi.kle k b hsd
    simp only [expectedStops]
    rw [fullStops_split s.n (s.n - k) (by omega)]
    cases b with
    | false => simpa using isPrefix_append _ _
    | true =>
      have hpos := hb rfl
      have : s.n - (s.n - k) = (k - 1) + 1 := by omega
      rw [this, fullStops]
      simpa using isPrefix_append_one _ _ _
  | waiting => simp only [expectedStops]; rw [fullStops_split s.n s.n (Nat.le_refl _)]; simpa using isPrefix_append _ _
  | afterWait b => simp only [expectedStops]; rw [fullStops_split s.n s.n (Nat.le_refl _)]; simpa using isPrefix_append _ _
  | finished => simp only [expectedStops]; rw [fullStops_split s.n s.n (Nat.le_refl _)]; simpa using isPrefix_append _ _

/-- **(e) Completeness at return.** Once `Run()` has returned, the Stop events are *exactly* the
full reverse sequence: every registered runnable — in particular every one whose Run was
invoked — has been stopped exactly once, and its Stop has returned. -/
theorem c01_all_stopped_when_run_returns {caps : List Caps} {u : Nat} {s : St} (h : Reachable caps u s)
    (r : Res) (hret : .mainReturn r ∈ s.log) : stopLog s = fullStops s.n := by
  have hi := stopInv_reach h
  have hr := retInv_reach h
  have hne : retLog s ≠ [] := by
    intro he
    have : Ev.mainReturn r ∈ retLog s := by simp [retLog, isMainRet, hret]
    simp [he] at this
  have hfin := hi.done.mp (hr.ret hne)
  rw [hi.shape, hfin]
  simp only [expectedStops]
  rw [fullStops_split s.n s.n (Nat.le_refl _)]; simp [fullStops]

/-- the same for every direct `Shutdown()` caller that has returned -/
theorem c01_cancel_only_after_all_stops {caps : List Caps} {u : Nat} {s : St} (h : Reachable caps u s)
    (hd : s.once = .done) : stopLog s = fullStops s.n := by
  have hi := stopInv_reach h
  rw [hi.shape, hi.done.mp hd]
  simp only [expectedStops]
  rw [fullStops_split s.n s.n (Nat.le_refl _)]; simp [fullStops]

/-- non-vacuity: a concrete run with two runnables in which a SIGTERM leads to the full sequence -/
example : ∃ s, run lts (initSt [{}, {}] 0)
    [.mainStart, .mainLaunch 0, .mainLaunch 1, .rgInvoke 0, .rgInvoke 1, .sendSig .term, .sigDeliver 0, .reapSig,
     .onceEnter .main, .sdStopInvoke, .stopReturn, .sdStopInvoke, .stopReturn, .sdCancel,
     .runReturn 0 .nil, .runReturn 1 .cancelErr, .rgFinish 0, .rgFinish 1, .sdWaitDone, .sdClose, .mainReturn] = some s
    ∧ stopLog s = [.stopInvoke 1, .stopReturn 1, .stopInvoke 0, .stopReturn 0] ∧ .mainReturn .nil ∈ s.log := by
  decide

end GoSup.Props.C01
