import GoSup.Proofs.Lifecycle
/-!
# C07 — property theorems (lifecycle.StartStop)

All theorems quantify over the number `k` of concurrent `Stop()` callers, over every
interleaving of their critical sections with `Run` cycles, and over any number of consecutive
cycles (`Reachable k s` is an inductive set; nothing is bounded).
-/
namespace GoSup.Props.C07
open GoSup.Lifecycle GoSup.Core

/-- **Safety.** A `Stop()` that has returned targeted a `Run` that has returned.  (`t` is the run
active when `Stop` executed its first critical section, else the last finished one, else the
first run.) -/
theorem c07_safety {k : Nat} {s : St} (h : Reachable k s) (i t : Nat)
    (hr : s.stops[i]? = some (.ret t)) : s.doneClosed t = true := by
  have := (inv_reach h).thr i _ hr
  simpa [threadOk, St.doneClosed] using this

/-- **Signalled.** A `Stop()` that is blocked on the `doneCh` of a run that has not returned has
closed the stop channel that run selects on (`stopped` of the current generation), and that run
is the active one.  With "a Run that sees its stop channel closed returns" this is "Stop never
blocks forever once Run has been invoked". -/
theorem c07_signalled {k : Nat} {s : St} (h : Reachable k s) (i g r t : Nat)
    (hw : s.stops[i]? = some (.waitDone g r t)) (hopen : s.doneClosed r = false) :
    s.stopped = true ∧ g = s.gen ∧ s.cur = some r := by
  have hi := inv_reach h
  have := hi.thr i _ hw
  simp only [threadOk] at this
  simp [St.doneClosed] at hopen
  obtain ⟨h1, h2, h3, h4, h5⟩ := this
  have hg : g = s.gen := by
    rcases Nat.lt_or_ge g s.gen with hlt | hge
    · have := h4 hlt; omega
    · omega
  refine ⟨h5 hg, hg, ?_⟩
  have hfin := hi.fin
  rw [hi.cur]
  have : s.started ≠ 0 := by omega
  simp [this]; omega

/-- **Not blocked on `startedCh` once a Run was invoked.** A `Stop()` waiting for `Started()`
can pass as soon as any `Run` has called it. -/
theorem c07_started_passable {k : Nat} {s : St} (h : Reachable k s) (i g t : Nat)
    (hw : s.stops[i]? = some (.waitStarted g t)) (hrun : 0 < s.started) :
    (step s (.stopPass i)).isSome = true := by
  have hi := inv_reach h
  have := hi.thr i _ hw
  simp only [threadOk] at this
  simp only [step, hw, St.startedClosed, hi.stCl]
  have : (decide (g < s.gen) || (g == s.gen && decide (0 < s.started))) = true := by
    simp; omega
  simp [this]

/-- `s` after Stop thread `i` moved to `pc` (the stop flag is set by its first step) -/
def withPc (s : St) (i : Nat) (pc : StopPc) : St := { s with stopped := true, stops := s.stops.set i pc }

/-- **Immediate return.** When every invoked `Run` has finished (and at least one was invoked),
a fresh `Stop()` runs to completion by its own four steps, whatever else is going on. -/
theorem c07_immediate {k : Nat} {s : St} (h : Reachable k s) (i : Nat)
    (hidle : s.stops[i]? = some .idle) (hfin : s.started = s.finished) (hpos : 0 < s.started) :
    (run lts s [.stopEnter i, .stopPass i, .stopRead i, .stopDone i]).bind (fun s' => s'.stops[i]?)
      = some (.ret (s.started - 1)) := by
  have hi := inv_reach h
  have hlt : i < s.stops.length := by
    rcases Nat.lt_or_ge i s.stops.length with h1 | h1
    · exact h1
    · simp [List.getElem?_eq_none h1] at hidle
  have hcur : s.cur = some (s.started - 1) := by
    rw [hi.cur]; simp; omega
  have hd : s.started - 1 < s.finished := by omega
  have h1 : step s (.stopEnter i) = some (withPc s i (.waitStarted s.gen (s.started - 1))) := by
    simp [step, hidle, hcur, withPc]
  have h2 : step (withPc s i (.waitStarted s.gen (s.started - 1))) (.stopPass i)
      = some (withPc s i (.midway s.gen (s.started - 1))) := by
    simp [step, withPc, List.getElem?_set, hlt, St.startedClosed, hi.stCl, hpos]
  have h3 : step (withPc s i (.midway s.gen (s.started - 1))) (.stopRead i)
      = some (withPc s i (.waitDone s.gen (s.started - 1) (s.started - 1))) := by
    simp [step, withPc, List.getElem?_set, hlt, hcur]
  have h4 : step (withPc s i (.waitDone s.gen (s.started - 1) (s.started - 1))) (.stopDone i)
      = some (withPc s i (.ret (s.started - 1))) := by
    simp [step, withPc, List.getElem?_set, hlt, St.doneClosed, hd]
  simp [run, lts, h1, h2, h3, h4]
  simp [withPc, List.getElem?_set, hlt]

/-- the hypotheses of the theorems above are satisfiable: a concrete reachable state in which a
Stop is blocked on an active, signalled run -/
example : ∃ s, run lts (init 2) [.runStart, .stopEnter 0, .stopPass 0, .stopRead 0, .stopEnter 1] = some s
    ∧ s.stops[0]? = some (.waitDone 0 0 0) ∧ s.doneClosed 0 = false ∧ s.stopped = true := by
  decide

/-- the schedule on which the originally pinned code blocked on a Run it had not signalled
(finding C07-F1, repaired): the repaired code returns at the second critical section -/
example : ∃ s, run lts (init 1) [.runStart, .stopEnter 0, .stopPass 0, .runEnd, .runStart, .stopRead 0] = some s
    ∧ s.stops[0]? = some (.ret 0) := by
  decide

end GoSup.Props.C07
