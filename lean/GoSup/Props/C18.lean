import GoSup.Proofs.Threads
/-!
# C18 — property theorems (no goroutine outlives clean termination)
-/
namespace GoSup.Props.C18
open GoSup.Threads

variable {σ : Type} [DecidableEq σ]

/-- **No goroutine stays parked.** If every blocking point of every site has a safe alternative,
then in every reachable state in which the termination conditions hold and no goroutine can take a
step, no goroutine is alive — for any number of sites, goroutines, spawns and any schedule. -/
theorem c18_no_leak (pts : σ → List (List (Cls σ))) (rank : σ → Nat) (hsafe : SafeTable pts rank)
    (s : St σ) (h : Reach pts s) (hterm : s.term = true) (hq : Quiescent s) : s.live = [] := by
  cases hl : s.live with
  | nil => rfl
  | cons t ts =>
    exfalso
    exact no_live_of_rank hsafe (atPoints_reach h) hterm hq (rank t.site) t (by simp [hl]) rfl

/-- **The condition is necessary.** A point whose alternatives all need a partner yields a reachable
terminated quiescent state with a live goroutine (the leak the oracle sees). -/
theorem c18_unsafe_point_leaks (pts : σ → List (List (Cls σ))) (site : σ) (p : List (Cls σ)) (hp : p ∈ pts site)
    (hpeer : ∀ a ∈ p, a = Cls.peer) :
    ∃ s, Reach pts s ∧ s.term = true ∧ Quiescent s ∧ s.live ≠ [] := by
  refine ⟨{ term := true, live := [⟨site, p⟩], offers := 0 }, ?_, rfl, ?_, by simp⟩
  · have h1 : Reach pts { term := false, live := [⟨site, p⟩], offers := 0 } :=
      .step .init (Step.spawn (s := { term := false, live := [], offers := 0 }) site p rfl hp)
    exact .step h1 (Step.terminate (s := { term := false, live := [⟨site, p⟩], offers := 0 }))
  · intro t ht
    simp only [List.mem_singleton] at ht
    subst ht
    simp only [enabled, List.any_eq_false]
    intro a ha
    rw [hpeer a ha]
    simp [altEnabled]

/-! ## instantiation on the regenerated goroutine table -/

abbrev Row := String × String × List (List String)
abbrev ClsRow := String × String × String × List String × String

def key (r : Row) : String := r.1 ++ "|" ++ r.2.1

def clsOf (tbl : List ClsRow) (site alt : String) : Cls String :=
  match tbl.find? (fun c => (c.1 == site || c.1 == "*") && c.2.1 == alt) with
  | some c =>
    if c.2.2.1 == "nb" then .nb else if c.2.2.1 == "term" then .term
    else if c.2.2.1 == "wait" then .wait c.2.2.2.1 else .peer
  | none => .peer

def convert (tbl : List ClsRow) (r : Row) : List (List (Cls String)) :=
  r.2.2.map fun p => p.map (clsOf tbl (key r))

def toModel (tbl : List ClsRow) (rows : List Row) (site : String) : List (List (Cls String)) :=
  (rows.filter fun r => key r == site).flatMap (convert tbl)

def rankOf (order : List String) (site : String) : Nat := order.idxOf site

def tableSafe (tbl : List ClsRow) (order : List String) (rows : List Row) : Bool :=
  rows.all fun r => (convert tbl r).all (safePoint (rankOf order) (key r))

/-- the boolean check on the string table implies the model's `SafeTable` -/
theorem tableSafe_sound (tbl : List ClsRow) (order : List String) (rows : List Row)
    (h : tableSafe tbl order rows = true) : SafeTable (toModel tbl rows) (rankOf order) := by
  intro site p hp
  simp only [toModel, List.mem_flatMap, List.mem_filter] at hp
  obtain ⟨r, ⟨hr, hk⟩, hpr⟩ := hp
  simp only [tableSafe, List.all_eq_true] at h
  have := h r hr p hpr
  have hk' : key r = site := by simpa using hk
  rw [hk'] at this
  exact this

/-- the two together: a goroutine table that passes the check cannot leak at clean termination -/
theorem c18_table_no_leak (tbl : List ClsRow) (order : List String) (rows : List Row)
    (h : tableSafe tbl order rows = true) (s : St String) (hr : Reach (toModel tbl rows) s)
    (hterm : s.term = true) (hq : Quiescent s) : s.live = [] :=
  c18_no_leak _ _ (tableSafe_sound tbl order rows h) s hr hterm hq

/-- premises are satisfiable: a two-site table (a listener with a ctx alternative and a manager that
waits for it) passes, and the unrepaired `ReloadAll` row does not -/
example : tableSafe [("*", "<-ctx", "term", [], ""), ("*", "wg.Wait", "wait", ["f|l"], "")] ["f|l", "f|m"]
    [("f", "l", [["<-ctx", "<-trigger"]]), ("f", "m", [["<-ctx"], ["wg.Wait"]])] = true := by decide +kernel
example : tableSafe [("*", "<-p.ctx.Done()", "term", [], "")] []
    [("supervisor.PIDZero.reap", "go p.ReloadAll", [["p.reloadListener<-"]])] = false := by decide +kernel

end GoSup.Props.C18
