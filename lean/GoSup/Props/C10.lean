import GoSup.Model.CompSeq
import GoSup.Model.ErrClass
/-!
# C10 — property theorems (a child's failure propagates; cancellation-classified exits do not)
-/
namespace GoSup.Props.C10
open GoSup.CompSeq GoSup.ErrClass

/-- **Propagation, operation level.** Whatever happened before (any history, any reloads, any
membership growth), when a running child returns a real error while `Run` has not returned, the
composite's `Run` returns that failure, the state is `Error` and no child is left running. -/
theorem c10_failure_propagates (s : St) (c : Nat) (hr : s.ret = .none) (hc : c ∈ s.running) :
    (step s (.childExit c .realErr)).ret = .failed c ∧ (step s (.childExit c .realErr)).fsm = .error
      ∧ (step s (.childExit c .realErr)).running = [] := by
  simp [step, hr, hc]

/-- **Nil and cancellation exits never fail the composite.** -/
theorem c10_benign_exit (s : St) (c : Nat) (o : Out) (ho : o = .nil ∨ o = .cancelErr) :
    (step s (.childExit c o)).ret = s.ret ∧ (step s (.childExit c o)).fsm = s.fsm := by
  rcases ho with rfl | rfl <;> simp only [step] <;> split <;> simp

/-- the classification behind `realErr`: wrapping and joining, to any depth -/
theorem isCancel_wrap (e : Err) : isCancel (.wrap e) = isCancel e := rfl
theorem isCancel_join (a b : Err) : isCancel (.join a b) = (isCancel a || isCancel b) := by
  simp only [isCancel, is]
  cases is a .canceled <;> cases is b .canceled <;> cases is a .deadline <;> cases is b .deadline <;> rfl
theorem isCancel_leaf (n : Nat) : isCancel (.leaf n) = false := rfl
theorem isCancel_sentinels : isCancel .canceled = true ∧ isCancel .deadline = true := ⟨rfl, rfl⟩

end GoSup.Props.C10
