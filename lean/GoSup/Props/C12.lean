import GoSup.Model.HttpSeq
/-!
# C12 — property theorems (HTTP server: Running ⇒ own instance listening on the active address;
returned ⇒ nothing left listening), operation-level model, every history of run / reload / stop
with any callback results, address changes, unbindable addresses and drain timeouts.
-/
namespace GoSup.Props.C12
open GoSup.HttpSeq

structure Inv (s : St) : Prop where
  running  : s.fsm = .running → s.ret = .none ∧ s.listening.isSome ∧ s.active.isSome ∧ s.active = s.stored
  returned : s.ret ≠ .none → s.listening = none ∧ s.fsm ≠ .running
  fresh    : s.fsm = .new → s.ret = .none ∧ s.listening = none

theorem inv_step (s : St) (o : Op) (hi : Inv s) : Inv (step s o) := by
  obtain ⟨h1, h2, h3⟩ := hi
  cases o with
  | run v addr b =>
    simp only [step]; split
    · exact ⟨h1, h2, h3⟩
    · rename_i hn; simp at hn
      obtain ⟨hr, hl⟩ := h3 hn
      split
      · exact ⟨fun _ => ⟨hr, by simp, by simp, rfl⟩, fun h => absurd hr h, fun h => by simp at h⟩
      · exact ⟨fun h => by simp at h, fun _ => ⟨hl, by simp⟩, fun h => by simp at h⟩
  | reload r =>
    simp only [step]; split
    · exact ⟨h1, h2, h3⟩
    · rename_i hc; simp at hc
      obtain ⟨hr, hf⟩ := hc
      obtain ⟨_, hl, ha, hs⟩ := h1 hf
      cases r with
      | err => exact ⟨fun h => by simp at h, fun h => absurd hr h, fun h => by simp at h⟩
      | nil => exact ⟨fun h => by simp at h, fun h => absurd hr h, fun h => by simp at h⟩
      | ok v addr eq b =>
        simp only
        split
        · exact ⟨h1, h2, h3⟩
        · split
          · exact ⟨fun _ => ⟨hr, by simp, by simp, rfl⟩, fun h => absurd hr h, fun h => by simp [hf] at h⟩
          · exact ⟨fun h => by simp at h, fun h => absurd hr h, fun h => by simp at h⟩
  | stop d =>
    simp only [step]; split
    · exact ⟨h1, h2, h3⟩
    · split
      · exact ⟨fun h => by simp at h, fun _ => ⟨rfl, by simp⟩, fun h => by simp at h⟩
      · exact ⟨fun h => by simp at h, fun _ => ⟨rfl, by simp⟩, fun h => by simp at h⟩

theorem inv_run (ops : List Op) : Inv (run {} ops) := by
  have key : ∀ (ops : List Op) (s : St), Inv s → Inv (run s ops) := by
    intro ops; induction ops with
    | nil => intro s h; exact h
    | cons o os ih => intro s h; simp only [run, List.foldl_cons]; exact ih _ (inv_step s o h)
  exact key ops {} ⟨fun h => by simp at h, fun h => by simp at h, fun _ => ⟨rfl, rfl⟩⟩

/-- **Running means listening.** After any history, `Running` implies that `Run` has not returned,
that the runner's own live instance is bound, and that it serves the configuration it holds. -/
theorem c12_running (ops : List Op) (h : (run {} ops).fsm = .running) :
    (run {} ops).ret = .none ∧ (run {} ops).listening.isSome ∧ (run {} ops).active = (run {} ops).stored :=
  let i := (inv_run ops).running h; ⟨i.1, i.2.1, i.2.2.2⟩

/-- **Returned means released.** After any history (address changes, failed reloads, drain
timeouts), once `Run` has returned no instance of the runner is bound to any address. -/
theorem c12_released (ops : List Op) (h : (run {} ops).ret ≠ .none) : (run {} ops).listening = none :=
  ((inv_run ops).returned h).1

example : (run {} [.run 0 0 true, .reload (.ok 1 1 false true), .reload (.ok 2 2 false false), .stop false]).ret = .nil := by
  decide

end GoSup.Props.C12
