import GoSup.Proofs.SupState
/-!
# C06 — property theorems (state cache convergence, subscribers)
-/
namespace GoSup.Props.C06
open GoSup.SupState

/-- **(a), partial.** On every run in which no state change falls between a writer's read of
`GetState()` and its store (launch, post-reload and post-Stop stores), the cache entry equals the
runnable's true state whenever the system is at rest — for any state history with duplicates and
bursts, however late the monitor subscribes, any number of writers, any schedule.  The excluded
window is the stale store (witness `c06_stale_store` below; the post-Stop instance is repaired, the
post-reload instance is a microsecond window that no run of the harness has hit). -/
theorem c06_converges_partial (t0 : State) (s : St) (h : Reach t0 s) (hd : s.dirty = false)
    (hq : Quiescent s) (hc : s.cache.isSome = true) : s.cache = some s.tru := by
  have hi := inv_reach h hd
  obtain ⟨⟨l, hm⟩, hch, _⟩ := hq
  cases hcache : s.cache with
  | none => simp [hcache] at hc
  | some c =>
    have := hi.loopConst l hm c hcache (by simp [hch])
    rw [this]

/-- **(c), partial.** Under the same hypothesis, once this runnable's monitor has broadcast at all,
the entry in the most recent snapshot equals the cache (hence the true state) at rest: a subscriber
that keeps up has received it. -/
theorem c06_snapshot_partial (t0 : State) (s : St) (h : Reach t0 s) (hd : s.dirty = false)
    (hq : Quiescent s) (hb : 0 < s.bcasts) : s.snap = some s.tru := by
  have hi := inv_reach h hd
  obtain ⟨⟨l, hm⟩, hch, hp⟩ := hq
  have hs := hi.snapOk l hm (by simp [hch]) hb
  have hc := hi.bcPos hb
  rw [hs]
  exact c06_converges_partial t0 s h hd ⟨⟨l, hm⟩, hch, hp⟩ hc

/-- **(c).** While the supervisor runs (no silent store: only Shutdown's post-Stop stores are silent) the entry
carried by the most recent snapshot is the cache entry, at every moment — every change of the cache is made together
with a broadcast (repaired code: findings C06-F3, C06-F4).  With (a): at rest the last snapshot carries the runnable's
true state, whether or not this runnable's monitor ever broadcast. -/
theorem c06_snapshot (t0 : State) (s : St) (h : Reach t0 s) (hs : s.silent = false) : s.snap = s.cache :=
  snap_eq_cache h hs

theorem c06_snapshot_at_rest (t0 : State) (s : St) (h : Reach t0 s) (hs : s.silent = false) (hd : s.dirty = false)
    (hq : Quiescent s) (hc : s.cache.isSome = true) : s.snap = some s.tru := by
  rw [c06_snapshot t0 s h hs]; exact c06_converges_partial t0 s h hd hq hc

/-- **(d).** A received state equal to the previous one causes no store and no snapshot; a different
one causes exactly one. -/
theorem c06_dedup (s s' : St) (last : Option State) (x : State) (rest : List State)
    (hm : s.mon = .loop last) (hc : s.chan = x :: rest) (h : step s .monRecv = some s') :
    (some x = last → s'.bcasts = s.bcasts ∧ s'.cache = s.cache ∧ s'.snap = s.snap)
    ∧ (some x ≠ last → s'.bcasts = s.bcasts + 1 ∧ s'.cache = some x ∧ s'.snap = some x) := by
  simp only [step, hm, hc] at h
  constructor
  · intro hx; simp [hx] at h; subst h; simp
  · intro hx; simp [hx] at h; subst h; simp

/-- **Finding C06-F1 (late subscription), pinned code.** launch store `0`, the runnable moves to `1`,
only then does the monitor subscribe; the pinned code discards the current value `1` and keeps
`lastState = 0`: at rest the cache says `0` while the runnable is in `1`, for ever. -/
theorem c06_f1_pinned_late_subscription :
    ∃ s, runPinned { tru := 0 } [.wRead, .wStoreB 0, .change 1, .subscribe, .monFirst] = some s
      ∧ Quiescent s ∧ s.cache = some 0 ∧ s.tru = 1 ∧ s.dirty = false :=
  ⟨_, rfl, ⟨⟨_, rfl⟩, rfl, rfl⟩, rfl, rfl, rfl⟩

/-- the same history on the repaired code ends with the cache equal to the true state -/
example : ∃ s, run { tru := 0 } [.wRead, .wStoreB 0, .change 1, .subscribe, .monFirst] = some s
    ∧ Quiescent s ∧ s.cache = some 1 ∧ s.tru = 1 ∧ s.bcasts = 1 :=
  ⟨_, rfl, ⟨⟨_, rfl⟩, rfl, rfl⟩, rfl, rfl, rfl⟩

/-- **The hypothesis is needed (stale store).** a writer reads `0`, the runnable moves to `1` and the
monitor records it, then the writer stores its `0`. -/
theorem c06_stale_store :
    ∃ s, Reach 0 s ∧ Quiescent s ∧ s.cache = some 0 ∧ s.tru = 1 := by
  refine ⟨_, reach_of_run (.init)
    (as := [.wRead, .wStoreB 0, .subscribe, .monFirst, .wRead, .change 1, .monRecv, .wStoreB 0]) rfl, ?_, rfl, rfl⟩
  exact ⟨⟨_, rfl⟩, rfl, rfl⟩

/-- the hypotheses of the partial theorems are satisfiable by a non-trivial run: launch store,
subscription, two changes with a duplicate emission, a post-reload store, all processed -/
example : ∃ s, Reach 0 s ∧ s.dirty = false ∧ Quiescent s ∧ s.cache = some 2 ∧ s.bcasts = 2 := by
  refine ⟨_, reach_of_run (.init)
    (as := [.subscribe, .wRead, .wStoreB 0, .monFirst, .change 1, .emitDup, .change 2, .monRecv, .monRecv, .monRecv,
            .wRead, .wStoreB 0]) rfl, rfl, ⟨⟨_, rfl⟩, rfl, rfl⟩, rfl, rfl⟩

/-- **(b).** Once the monitor has exited (the supervisor's context is cancelled), only a writer's store
changes the cache entry — and the last writer is `Shutdown`, which re-stores the state it read
after the runnable's `Stop()` returned (repaired code, finding C06-F2). -/
theorem c06_after_exit (s s' : St) (a : Act) (hm : s.mon = .exited) (h : step s a = some s')
    (ha : ∀ k, a ≠ .wStore k ∧ a ≠ .wStoreB k) : s'.cache = s.cache ∧ s'.mon = .exited := by
  cases a <;> simp only [step, hm, subscribed] at h
  case change v =>
    split at h
    · simp at h
    · simp at h; subst h; exact ⟨rfl, rfl⟩
  case emitDup => simp at h
  case subscribe => simp at h
  case monFirst => simp at h
  case monRecv => simp at h
  case monExit => simp at h
  case wRead => simp at h; subst h; exact ⟨rfl, rfl⟩
  case wStore k => exact absurd rfl (ha k).1
  case wStoreB k => exact absurd rfl (ha k).2
  case otherBcast => simp at h; subst h; exact ⟨rfl, rfl⟩
  case cancel => simp at h; subst h; exact ⟨rfl, rfl⟩

theorem c06_store_is_last_word (s s' : St) (k : Nat) (v : State) (hk : s.pend[k]? = some v)
    (h : step s (.wStore k) = some s') : s'.cache = some v := by
  simp [step, hk] at h; subst h; rfl

/-- **(c), the post-reload store** (repaired code, finding C06-F3): when the reload manager's store changes the
entry, the snapshot it broadcasts carries the new value — the entry never changes silently under a subscriber. -/
theorem c06_reload_store_broadcasts (s s' : St) (k : Nat) (v : State) (hk : s.pend[k]? = some v)
    (h : step s (.wStoreB k) = some s') : s'.cache = some v ∧ (s.cache ≠ some v → s'.snap = some v) := by
  simp [step, hk] at h; subst h
  exact ⟨rfl, fun hne => by simp [hne]⟩

/-! ## (e) subscription channels -/
open GoSup.SubProto in
structure SubInv (s : GoSup.SubProto.St) : Prop where
  noPanic   : s.panicked = false
  closedSub : s.closed = true → s.subscribed = false
  lateSub   : (s.closer = .deleted ∨ s.closer = .unlocked ∨ s.closer = .done) → s.subscribed = false
  closes    : s.closes = if s.closed then 1 else 0
  closedPc  : s.closed = true ↔ s.closer = .done
  ctx       : s.closer ≠ .waitCtx → s.ctxDone = true

open GoSup.SubProto in
theorem subInv_step {s s' : GoSup.SubProto.St} {a : GoSup.SubProto.Act} (hi : SubInv s)
    (h : GoSup.SubProto.step s a = some s') : SubInv s' := by
  obtain ⟨h1, h2, h3, h4, h5, h6⟩ := hi
  cases a <;> simp only [GoSup.SubProto.step] at h
  case bLock i => split at h <;> simp at h; subst h; exact ⟨h1, h2, h3, h4, h5, h6⟩
  case bSend i =>
    split at h
    · split at h
      · rename_i hsub
        split at h
        · rename_i hcl; have := h2 hcl; simp [hsub] at this
        · simp only [Option.some.injEq] at h; subst h; exact ⟨h1, h2, h3, h4, h5, h6⟩
      · simp only [Option.some.injEq] at h; subst h; exact ⟨h1, h2, h3, h4, h5, h6⟩
    · simp at h
  case bUnlock i => split at h <;> simp at h; subst h; exact ⟨h1, h2, h3, h4, h5, h6⟩
  case ctxCancel => simp at h; subst h; exact ⟨h1, h2, h3, h4, h5, fun _ => rfl⟩
  case cLock =>
    split at h
    · rename_i hg
      simp only [Bool.and_eq_true, decide_eq_true_eq] at hg
      simp only [Option.some.injEq] at h; subst h
      refine ⟨h1, h2, ?_, h4, ?_, fun _ => hg.1.2⟩
      · intro hc; simp at hc
      · simp only; rw [h5]; simp [hg.1.1]
    · simp at h
  case cDelete =>
    split at h
    · rename_i hg
      simp only [Option.some.injEq] at h; subst h
      refine ⟨h1, fun _ => rfl, fun _ => rfl, h4, ?_, fun _ => h6 (by simp [hg])⟩
      simp only; rw [h5]; simp [hg]
    · simp at h
  case cUnlock =>
    split at h
    · rename_i hg
      simp only [Option.some.injEq] at h; subst h
      refine ⟨h1, h2, fun _ => h3 (Or.inl hg), h4, ?_, fun _ => h6 (by simp [hg])⟩
      simp only; rw [h5]; simp [hg]
    · simp at h
  case cClose =>
    split at h
    · rename_i hg
      split at h
      · rename_i hcl; rw [h5] at hcl; simp [hg] at hcl
      · rename_i hcl
        simp only [Option.some.injEq] at h; subst h
        refine ⟨h1, fun _ => h3 (Or.inr (Or.inl hg)), fun _ => h3 (Or.inr (Or.inl hg)), ?_, by simp, fun _ => h6 (by simp [hg])⟩
        simp only [if_true]
        rw [h4]; simp [hcl]
    · simp at h

/-- **(e).** For any number of broadcasting monitors and any schedule: no send on a closed channel and
no double close (`panicked` unreachable), the channel is closed at most once, and only after its
context has ended and it has been removed from the subscriber set. -/
theorem c06_close_once (s : GoSup.SubProto.St) (h : GoSup.SubProto.Reach s) :
    s.panicked = false ∧ s.closes ≤ 1 ∧ (s.closed = true → s.ctxDone = true ∧ s.subscribed = false) := by
  have hi : SubInv s := by
    induction h with
    | init => exact ⟨rfl, by simp, by simp, by simp, by simp, by simp⟩
    | step _ hs ih => exact subInv_step ih hs
  refine ⟨hi.noPanic, ?_, ?_⟩
  · rw [hi.closes]; split <;> omega
  · intro hc
    exact ⟨hi.ctx (by rw [hi.closedPc.mp hc]; simp), hi.closedSub hc⟩

end GoSup.Props.C06
