import GoSup.Proofs.HttpLts
/-!
# C12 / C13 — the HTTP server runner under every interleaving of `Run`, `Reload()`, `Stop()`, cancellation and server events

The theorems quantify over every reachable state of the concurrent model `HttpLts` (any number of reloads and server
instances, any schedule).  Model assumptions: the readiness probe succeeds only while the runner's context is live and
the instance it waits for is listening; an instance fails only when it binds.
-/
namespace GoSup.Props.C12L
open GoSup.Core GoSup.HttpLts
open GoSup.CompSeq (Fsm)

/-- **At most one server instance holds (or is about to hold) the listen address, and it can still be shut down**:
an open instance is always the runner's current one, with the shutdown guard not yet used — so `stopServer` really
closes it.  (What the seeded changes around `serverCloseOnce` break.) -/
theorem c12_one_open_instance {s : St} (h : Reach lts init s) {i j : Nat} (hi : isOpenAt s i = true) (hj : isOpenAt s j = true) :
    i = j ∧ s.srv = some i ∧ s.onceUsed = false := by
  have hinv := inv_reach h
  obtain ⟨h1, h2⟩ := hinv.one i hi
  obtain ⟨h3, _⟩ := hinv.one j hj
  rw [h1] at h3
  exact ⟨Option.some.inj h3, h1, h2⟩

/-- **Once `Run()` has returned the listen address is released** (C12) — in every interleaving: if `Run()` returned
through its shutdown path, a failed boot or a refused transition, then no server instance is open, unless a `Reload()`
that was overtaken is at this moment inside its readiness probe (its instance is shut down as soon as the probe sees the
ended context).  The server-error arm returns without a shutdown: the instance that reported the error is not serving. -/
theorem c12_released {s : St} (h : Reach lts init s) {r : RRet} (hr : s.run = .returned r) (hne : r ≠ .serverErr)
    (hrl : s.rl ≠ .probing) : ∀ i, isOpenAt s i = false :=
  (inv_reach h).released (by simp [post, hr, hne]) hrl

/-- **Running means serving** (C12) — in every interleaving: while `Run` waits in its `select`, no reload is past its
decision to restart, and the state is not Error, the current instance is listening. -/
theorem c12_running_serving {s : St} (h : Reach lts init s) (hrun : s.run = .select)
    (hrl : s.rl = .idle ∨ s.rl = .entered ∨ ∃ r b, s.rl = .cbReturned r b) (hf : s.fsm ≠ .error) : listening s = true :=
  (inv_reach h).serving (Or.inr hrun) hrl hf

/-- **An equivalent configuration leaves the live server untouched** (C13): the reload ends without touching the
instance, the guard or the instance table. -/
theorem c13_same_untouched (s : St) (c c0 : Nat) (hrl : s.rl = .entered) (hcfg : s.cfg = some c0) :
    ∃ s1 s', step s (.rlConfig (.ok c) true) = some s1 ∧ s1 = { s with rl := .cbReturned (.ok c) true }
      ∧ step s1 .rlAfterCb = some s' ∧ s'.srv = s.srv ∧ s'.insts = s.insts ∧ s'.onceUsed = s.onceUsed
      ∧ s'.cfg = s.cfg ∧ s'.rl = .idle := by
  refine ⟨_, { s with fsm := (tr { s with rl := .cbReturned (.ok c) true } .running).getD .error, rl := .idle, mu := none,
                      reloads := s.reloads + 1 }, ?_, rfl, ?_, rfl, rfl, rfl, rfl, rfl⟩
  · simp [step, hrl]
  · simp [step, hcfg]

/-- the same at whatever moment `reloadConfig` gets to act on the callback's answer (`Run` may have moved meanwhile) -/
theorem c13_same_untouched_later (s : St) (c c0 : Nat) (hrl : s.rl = .cbReturned (.ok c) true) (hcfg : s.cfg = some c0) :
    ∃ s', step s .rlAfterCb = some s' ∧ s'.srv = s.srv ∧ s'.insts = s.insts ∧ s'.onceUsed = s.onceUsed
      ∧ s'.cfg = s.cfg ∧ s'.rl = .idle := by
  refine ⟨{ s with fsm := (tr s .running).getD .error, rl := .idle, mu := none, reloads := s.reloads + 1 }, ?_, rfl, rfl, rfl, rfl, rfl⟩
  simp [step, hrl, hcfg]

/-- **A changed configuration is served by a freshly created instance** (C13): the restart path shuts the current
instance down first and boots an instance that did not exist before. -/
theorem c13_changed_fresh (s : St) (inTime : Bool) (hrl : s.rl = .stopOld) (hok : stopErr s inTime = false) :
    ∃ s1 s2, step s (.rlStopOld inTime) = some s1 ∧ s1.srv = none ∧ step s1 (.rlBootBegin true) = some s2
      ∧ s2.srv = some s.insts.length ∧ s2.onceUsed = false := by
  refine ⟨{ stopServer s with rl := .toBoot }, { create { stopServer s with rl := .toBoot } with rl := .probing }, ?_, ?_, ?_, ?_, ?_⟩
  · simp [step, hrl, hok]
  · exact stopServer_srv s
  · simp [step]
  · simp [create, stopServer_insts_length]
  · simp [create]

/-- finding C12-F1 inside the model: a `Stop()` that overtakes a reload leaves the state Running although the server
has been shut down (the reload put the state back to Running after `Run` had failed to move it to Stopping) -/
def f1Schedule : List Act :=
  [.runEnter, .runBootBegin (.ok 0) true, .instBind 0, .runProbeOk, .runToRunning,
   .reloadCall, .rlEnter, .stopCall, .runSelStop, .runToStopping, .rlConfig (.ok 0) true, .rlAfterCb, .runStopServer true]

theorem c12_f1_reachable : ∃ s, Reach lts init s ∧ s.fsm = .running ∧ s.rl = .idle ∧ s.run = .stopped false
    ∧ s.insts = [.closed] := by
  have : ∃ s, run lts init f1Schedule = some s ∧ s.fsm = .running ∧ s.rl = .idle ∧ s.run = .stopped false ∧ s.insts = [.closed] := by
    refine ⟨_, rfl, ?_⟩
    decide
  obtain ⟨s, hs, h1⟩ := this
  exact ⟨s, reach_of_run hs, h1⟩

/-- the hypotheses of the theorems above are met by non-trivial states: a reload that moves to a fresh instance, then a
stop with the drain in time: `Run()` returns nil, nothing is open, two instances existed -/
example : ∃ s, run lts init
      [.runEnter, .runBootBegin (.ok 0) true, .instBind 0, .runProbeOk, .runToRunning,
       .reloadCall, .rlEnter, .rlConfig (.ok 1) false, .rlAfterCb, .rlStopOld true, .rlBootBegin true, .instBind 1, .rlProbeOk,
       .stopCall, .runSelStop, .runToStopping, .runStopServer true, .runFinish] = some s
    ∧ s.run = .returned .nil ∧ s.fsm = .stopped ∧ s.insts = [.closed, .closed] ∧ s.reloads = 1 := by
  refine ⟨_, rfl, ?_⟩
  decide

end GoSup.Props.C12L

namespace GoSup.Props.C12L
open GoSup.Core GoSup.HttpLts
open GoSup.CompSeq (Fsm)

/-- the steps the library itself can take (with some answer of the environment where one is needed: a callback that
returns, a drain that ends, a probe that gives up) -/
def progressActs : List Act :=
  [.runEnter, .runBootBegin (.ok 0) true, .runBootFail, .runProbeFail false, .runToRunning, .runSelStop, .runToStopping,
   .runStopServer true, .runFinish, .rlConfig (.ok 0) true, .rlAfterCb, .rlStopOld true, .rlBootBegin true, .rlProbeFail false]

/-- **`Stop()` is never stuck** (C13, C14: "Run()/Stop() still terminate") — in every interleaving: in every reachable
state in which a `Stop()` caller is waiting and `Run()` has not returned, the library can take a step: `Run` can move on,
or, if it waits for `r.mutex`, the reload that holds it can (each of its steps is enabled, and a reload has at most five).
There is no reachable deadlock. -/
theorem c13_stop_never_stuck {s : St} (h : Reach lts init s) (hstop : s.stopReq = true) (hnot : ∀ r, s.run ≠ .returned r) :
    ∃ a ∈ progressActs, (step s a).isSome = true := by
  have hi := inv_reach h
  cases hr : s.run with
  | idle =>
    have hm : s.mu = none := by
      cases hm : s.mu with
      | none => rfl
      | some o =>
        cases o with
        | run => have := hi.muFree hm; rw [hr] at this; cases this
        | reload => exact absurd (hi.early (by simp [early, hr])).1 (hi.muFree' hm)
    refine ⟨.runEnter, by simp [progressActs], ?_⟩
    simp only [step, hr, hm]
    cases tr s .booting <;> simp
  | entered =>
    have hm : s.mu = none := by
      cases hm : s.mu with
      | none => rfl
      | some o =>
        cases o with
        | run => have := hi.muFree hm; rw [hr] at this; cases this
        | reload => exact absurd (hi.early (by simp [early, hr])).1 (hi.muFree' hm)
    refine ⟨.runBootBegin (.ok 0) true, by simp [progressActs], ?_⟩
    simp only [step, hr, hm]
    cases s.cfg <;> simp
  | bootFailed => exact ⟨.runBootFail, by simp [progressActs], by simp [step, hr]⟩
  | probing => exact ⟨.runProbeFail false, by simp [progressActs], by simp [step, hr]⟩
  | booted =>
    refine ⟨.runToRunning, by simp [progressActs], ?_⟩
    simp only [step, hr]
    cases tr s .running <;> simp
  | select => exact ⟨.runSelStop, by simp [progressActs], by simp [step, hr, hstop]⟩
  | afterSelect => exact ⟨.runToStopping, by simp [progressActs], by simp [step, hr]⟩
  | toStop =>
    cases hm : s.mu with
    | none => exact ⟨.runStopServer true, by simp [progressActs], by simp [step, hr, hm]⟩
    | some o =>
      cases o with
      | run => have := hi.muFree hm; rw [hr] at this; cases this
      | reload =>
        have hrl := hi.muFree' hm
        cases hl : s.rl with
        | idle => exact absurd hl hrl
        | entered =>
          exact ⟨.rlConfig (.ok 0) true, by simp [progressActs], by simp [step, hl]⟩
        | cbReturned r b =>
          refine ⟨.rlAfterCb, by simp [progressActs], ?_⟩
          cases r <;> simp only [step, hl]
          · split <;> simp
          · simp
          · simp
        | stopOld =>
          refine ⟨.rlStopOld true, by simp [progressActs], ?_⟩
          simp only [step, hl]
          cases stopErr s true <;> simp
        | toBoot => exact ⟨.rlBootBegin true, by simp [progressActs], by simp [step, hl]⟩
        | probing => exact ⟨.rlProbeFail false, by simp [progressActs], by simp [step, hl]⟩
  | stopped b =>
    refine ⟨.runFinish, by simp [progressActs], ?_⟩
    simp only [step, hr]
    cases b
    · cases tr s .stopped <;> simp
    · simp
  | returned r => exact absurd hr (hnot r)

end GoSup.Props.C12L

namespace GoSup.Props.C12L
open GoSup.Core GoSup.HttpLts
open GoSup.CompSeq (Fsm)

/-- the actions of the library's own threads (`Run`, `Reload`), whatever the environment answers -/
def isLib : Act → Bool
  | .runEnter | .runBootBegin _ _ | .runBootFail | .runProbeOk | .runProbeFail _ | .runToRunning | .runSelCtx | .runSelStop | .runSelErr
  | .runToStopping | .runStopServer _ | .runFinish
  | .rlEnter | .rlConfig _ _ | .rlAfterCb | .rlStopOld _ | .rlBootBegin _ | .rlProbeOk | .rlProbeFail _ => true
  | _ => false

def runRank : RunPc → Nat
  | .idle => 9 | .entered => 8 | .bootFailed => 1 | .probing => 7 | .booted => 6 | .select => 5 | .afterSelect => 4 | .toStop => 3
  | .stopped _ => 2 | .returned _ => 0

def rlRank : RlPc → Nat
  | .idle => 0 | .entered => 5 | .cbReturned _ _ => 4 | .stopOld => 3 | .toBoot => 2 | .probing => 1

/-- steps the library can still take: what is left of `Run`, of the reload under way, and of the reloads waiting -/
def measure (s : St) : Nat := runRank s.run + rlRank s.rl + 6 * s.pendingRl

theorem stopServer_pendingRl (s : St) : (stopServer s).pendingRl = s.pendingRl := by
  unfold stopServer; split
  · rfl
  · split <;> rfl

theorem lib_step_decreases (s : St) (a : Act) (s' : St) (hl : isLib a = true) (hs : lts.step s a = some s') :
    measure s' < measure s := by
  have hs : step s a = some s' := hs
  cases a <;> simp only [isLib] at hl <;> simp only [step] at hs
  all_goals
    repeat' (split at hs)
    all_goals first
      | (cases hs; done)
      | (cases hs; simp_all [measure, runRank, rlRank, stopServer_run, stopServer_rl, stopServer_pendingRl, create] <;> omega)

end GoSup.Props.C12L

namespace GoSup.Props.C12L
open GoSup.Core GoSup.HttpLts
open GoSup.CompSeq (Fsm)

theorem progressActs_lib : ∀ a ∈ progressActs, isLib a = true := by
  intro a ha
  simp only [progressActs, List.mem_cons, List.not_mem_nil, or_false] at ha
  rcases ha with h | h | h | h | h | h | h | h | h | h | h | h | h | h <;> subst h <;> rfl

theorem lib_keeps_stopReq (s : St) (a : Act) (s' : St) (hl : isLib a = true) (hs : step s a = some s') (h : s.stopReq = true) :
    s'.stopReq = true := by
  cases a <;> simp only [isLib] at hl <;> simp only [step] at hs
  all_goals
    repeat' (split at hs)
    all_goals first
      | (cases hs; done)
      | (cases hs; first | exact h | (simp [create, stopServer]; try (split <;> try split) <;> simp_all))

/-- **The library's own steps are bounded** (C14: "`Stop()` still returns"): from any state, the `Run` and `Reload`
threads can take at most `measure s` steps — what is left of `Run`, of the reload under way and of the reloads that are
waiting — before new requests arrive. -/
theorem c14_lib_steps_bounded (s t : St) (as : List Act) (hall : as.all isLib = true) (hrun : run lts s as = some t) :
    as.length + measure t ≤ measure s :=
  run_length_le_measure isLib measure lib_step_decreases s t as hall hrun

/-- **`Stop()` returns** (C13, C14) — every interleaving: from every reachable state in which a `Stop()` caller is
waiting, the library's own steps lead to the return of `Run()` (which releases the caller) within `measure s` steps, and
by `c14_lib_steps_bounded` they cannot go on for longer: no deadlock, no livelock. -/
theorem c14_stop_returns {s : St} (h : Reach lts init s) (hstop : s.stopReq = true) :
    ∃ as t, as.all isLib = true ∧ run lts s as = some t ∧ (∃ r, t.run = .returned r) ∧ as.length ≤ measure s := by
  apply exists_final_run isLib measure (fun u => Reach lts init u ∧ u.stopReq = true) (fun u => ∃ r, u.run = .returned r)
  · intro u a u' hp hl hs
    exact ⟨.step hp.1 hs, lib_keeps_stopReq u a u' hl hs hp.2⟩
  · intro u hp hf
    obtain ⟨a, ha, hen⟩ := c13_stop_never_stuck hp.1 hp.2 (fun r hr => hf ⟨r, hr⟩)
    exact ⟨a, progressActs_lib a ha, hen⟩
  · exact lib_step_decreases
  · exact ⟨h, hstop⟩

end GoSup.Props.C12L
