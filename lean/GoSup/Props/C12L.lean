import GoSup.Proofs.HttpLts
/-!
# C12 / C13 — the HTTP server runner under every interleaving of `Run`, `Reload()`, `Stop()`, cancellation and server events

The theorems quantify over every reachable state of the concurrent model `HttpLts` (any number of reloads and server
instances, any schedule).  Model assumptions: the readiness probe succeeds only while the runner's context is live and
the instance it waits for is listening; an instance fails only when it binds.
-/
namespace GoSup.Props.C12L
open GoSup.Core GoSup.HttpLts
open GoSup.CompSeq (Fsm)

/-- **At most one server instance holds (or is about to hold) the listen address, and it can still be shut down**:
an open instance is always the runner's current one, with the shutdown guard not yet used — so `stopServer` really
closes it.  (What the seeded changes around `serverCloseOnce` break.) -/
theorem c12_one_open_instance {s : St} (h : Reach lts init s) {i j : Nat} (hi : isOpenAt s i = true) (hj : isOpenAt s j = true) :
    i = j ∧ s.srv = some i ∧ s.onceUsed = false := by
  have hinv := inv_reach h
  obtain ⟨h1, h2⟩ := hinv.one i hi
  obtain ⟨h3, _⟩ := hinv.one j hj
  rw [h1] at h3
  exact ⟨Option.some.inj h3, h1, h2⟩

/-- **Once `Run()` has returned the listen address is released** (C12) — in every interleaving: if `Run()` returned
through its shutdown path, a failed boot or a refused transition, then no server instance is open, unless a `Reload()`
that was overtaken is at this moment inside its readiness probe (its instance is shut down as soon as the probe sees the
ended context).  The server-error arm returns without a shutdown: the instance that reported the error is not serving. -/
theorem c12_released {s : St} (h : Reach lts init s) {r : RRet} (hr : s.run = .returned r) (hne : r ≠ .serverErr)
    (hrl : s.rl ≠ .probing) : ∀ i, isOpenAt s i = false :=
  (inv_reach h).released (by simp [post, hr, hne]) hrl

/-- **Running means serving** (C12) — in every interleaving: while `Run` waits in its `select`, no reload is past its
decision to restart, and the state is not Error, the current instance is listening. -/
theorem c12_running_serving {s : St} (h : Reach lts init s) (hrun : s.run = .select) (hrl : s.rl = .idle ∨ s.rl = .entered)
    (hf : s.fsm ≠ .error) : listening s = true :=
  (inv_reach h).serving (Or.inr hrun) hrl hf

/-- **An equivalent configuration leaves the live server untouched** (C13): the reload ends without touching the
instance, the guard or the instance table. -/
theorem c13_same_untouched (s : St) (c c0 : Nat) (hrl : s.rl = .entered) (hcfg : s.cfg = some c0) :
    ∃ s', step s (.rlConfig (.ok c) true) = some s' ∧ s'.srv = s.srv ∧ s'.insts = s.insts ∧ s'.onceUsed = s.onceUsed
      ∧ s'.cfg = s.cfg ∧ s'.rl = .idle := by
  refine ⟨{ s with fsm := (tr s .running).getD .error, rl := .idle, mu := none, reloads := s.reloads + 1 }, ?_, rfl, rfl, rfl, rfl, rfl⟩
  simp [step, hrl, hcfg]

/-- **A changed configuration is served by a freshly created instance** (C13): the restart path shuts the current
instance down first and boots an instance that did not exist before. -/
theorem c13_changed_fresh (s : St) (inTime : Bool) (hrl : s.rl = .stopOld) (hok : stopErr s inTime = false) :
    ∃ s1 s2, step s (.rlStopOld inTime) = some s1 ∧ s1.srv = none ∧ step s1 (.rlBootBegin true) = some s2
      ∧ s2.srv = some s.insts.length ∧ s2.onceUsed = false := by
  refine ⟨{ stopServer s with rl := .toBoot }, { create { stopServer s with rl := .toBoot } with rl := .probing }, ?_, ?_, ?_, ?_, ?_⟩
  · simp [step, hrl, hok]
  · exact stopServer_srv s
  · simp [step]
  · simp [create, stopServer_insts_length]
  · simp [create]

/-- finding C12-F1 inside the model: a `Stop()` that overtakes a reload leaves the state Running although the server
has been shut down (the reload put the state back to Running after `Run` had failed to move it to Stopping) -/
def f1Schedule : List Act :=
  [.runEnter, .runBootBegin (.ok 0) true, .instBind 0, .runProbeOk, .runToRunning,
   .reloadCall, .rlEnter, .stopCall, .runSelStop, .runToStopping, .rlConfig (.ok 0) true, .runStopServer true]

theorem c12_f1_reachable : ∃ s, Reach lts init s ∧ s.fsm = .running ∧ s.rl = .idle ∧ s.run = .stopped false
    ∧ s.insts = [.closed] := by
  have : ∃ s, run lts init f1Schedule = some s ∧ s.fsm = .running ∧ s.rl = .idle ∧ s.run = .stopped false ∧ s.insts = [.closed] := by
    refine ⟨_, rfl, ?_⟩
    decide
  obtain ⟨s, hs, h1⟩ := this
  exact ⟨s, reach_of_run hs, h1⟩

/-- the hypotheses of the theorems above are met by non-trivial states: a reload that moves to a fresh instance, then a
stop with the drain in time: `Run()` returns nil, nothing is open, two instances existed -/
example : ∃ s, run lts init
      [.runEnter, .runBootBegin (.ok 0) true, .instBind 0, .runProbeOk, .runToRunning,
       .reloadCall, .rlEnter, .rlConfig (.ok 1) false, .rlStopOld true, .rlBootBegin true, .instBind 1, .rlProbeOk,
       .stopCall, .runSelStop, .runToStopping, .runStopServer true, .runFinish] = some s
    ∧ s.run = .returned .nil ∧ s.fsm = .stopped ∧ s.insts = [.closed, .closed] ∧ s.reloads = 1 := by
  refine ⟨_, rfl, ?_⟩
  decide

end GoSup.Props.C12L
