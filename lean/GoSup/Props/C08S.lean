import GoSup.Model.FsmSub
/-!
# C08 / C06 — one state subscription: what a subscriber that keeps up receives, for every interleaving of state changes with
the two steps of `getStateChanInternal`
-/
namespace GoSup.Props.C08S
open GoSup.Core GoSup.FsmSub

/-- the value of the state variable after the first `a` changes -/
def stateAt (c : State) (hist : List State) (a : Nat) : State := ((hist.take a).getLast?).getD c

/-- invariant of the code as it is (register, then read) -/
structure Inv (c : State) (s : St) : Prop where
  cur   : s.cur = stateAt c s.hist s.hist.length
  start : s.pc = .start → s.queue = [] ∧ s.delivered = [] ∧ s.regAt = none
  reg   : s.pc ≠ .start → ∃ r, s.regAt = some r ∧ r ≤ s.hist.length
  regd  : s.pc = .registered → ∀ r, s.regAt = some r → s.queue = s.hist.drop r ∧ s.delivered = []
  rdng  : ∀ i, s.pc = .reading i → ∀ r, s.regAt = some r →
            s.queue = s.hist.drop r ∧ s.delivered = [] ∧ ∃ a, s.readAt = some a ∧ r ≤ a ∧ a ≤ s.hist.length ∧ i = stateAt c s.hist a
  strm  : s.pc = .streaming → ∀ r, s.regAt = some r →
            ∃ a, s.readAt = some a ∧ r ≤ a ∧ a ≤ s.hist.length ∧ s.delivered ++ s.queue = stateAt c s.hist a :: s.hist.drop r
  noRd  : ∀ i, s.pc ≠ .readDone i

theorem stateAt_append_of_le (c : State) (hist : List State) (v : State) {a : Nat} (h : a ≤ hist.length) :
    stateAt c (hist ++ [v]) a = stateAt c hist a := by
  simp [stateAt, List.take_append_of_le_length h]

theorem stateAt_snoc (c : State) (hist : List State) (v : State) : stateAt c (hist ++ [v]) (hist ++ [v]).length = v := by
  simp only [stateAt, List.take_length]
  simp

theorem drop_snoc_of_le (hist : List State) (v : State) {r : Nat} (h : r ≤ hist.length) :
    (hist ++ [v]).drop r = hist.drop r ++ [v] := by
  rw [List.drop_append_of_le_length h]

theorem inv_init (c : State) : Inv c (init c) := by
  refine ⟨by simp [init, stateAt], by simp [init], by simp [init], by simp [init], by simp [init], by simp [init], by simp [init]⟩

theorem inv_step {c : State} {s s' : St} {a : Act} (h : Inv c s) (hs : step false s a = some s') : Inv c s' := by
  cases a with
  | change v =>
    simp only [step] at hs
    cases hs
    refine ⟨(stateAt_snoc c s.hist v).symm, ?_, ?_, ?_, ?_, ?_, h.noRd⟩
    · intro hp
      have hp' : s.pc = .start := hp
      obtain ⟨h1, h2, h3⟩ := h.start hp'
      simp [isRegistered, hp', h1, h2, h3]
    · intro hp
      have hp' : s.pc ≠ .start := hp
      obtain ⟨r, hr, hle⟩ := h.reg hp'
      exact ⟨r, hr, by simp; omega⟩
    · intro hp r hr
      have hp' : s.pc = .registered := hp
      have hr' : s.regAt = some r := hr
      obtain ⟨_, hr0, hle⟩ := h.reg (by rw [hp']; simp)
      rw [hr'] at hr0; cases hr0
      obtain ⟨h1, h2⟩ := h.regd hp' r hr'
      simp [isRegistered, hp', h1, h2, drop_snoc_of_le _ _ hle]
    · intro i hp r hr
      have hp' : s.pc = .reading i := hp
      have hr' : s.regAt = some r := hr
      obtain ⟨_, hr0, hle⟩ := h.reg (by rw [hp']; simp)
      rw [hr'] at hr0; cases hr0
      obtain ⟨h1, h2, a, ha, hra, hal, hi⟩ := h.rdng i hp' r hr'
      refine ⟨by simp [isRegistered, hp', h1, drop_snoc_of_le _ _ hle], h2, a, ha, hra, by simp; omega, ?_⟩
      rw [stateAt_append_of_le _ _ _ hal]; exact hi
    · intro hp r hr
      have hp' : s.pc = .streaming := hp
      have hr' : s.regAt = some r := hr
      obtain ⟨_, hr0, hle⟩ := h.reg (by rw [hp']; simp)
      rw [hr'] at hr0; cases hr0
      obtain ⟨a, ha, hra, hal, hd⟩ := h.strm hp' r hr'
      refine ⟨a, ha, hra, by simp; omega, ?_⟩
      show s.delivered ++ (if isRegistered s = true then s.queue ++ [v] else s.queue) = _
      have hreg : isRegistered s = true := by simp [isRegistered, hp']
      rw [hreg, if_pos rfl, stateAt_append_of_le _ _ _ hal, drop_snoc_of_le _ _ hle, ← List.append_assoc, hd]
      simp
  | register =>
    simp only [step] at hs
    split at hs
    · rename_i hp
      obtain ⟨h1, h2, _⟩ := h.start hp
      cases hs
      refine ⟨h.cur, by simp, fun _ => ⟨s.hist.length, rfl, Nat.le_refl _⟩, ?_, by simp, by simp, by simp⟩
      intro _ r hr
      simp only [Option.some.injEq] at hr
      subst hr
      simp [h1, h2]
    · rename_i hf _; cases hf
    · cases hs
  | readCurrent =>
    simp only [step] at hs
    split at hs
    · rename_i hp
      obtain ⟨r, hr, hle⟩ := h.reg (by rw [hp]; simp)
      obtain ⟨h1, h2⟩ := h.regd hp r hr
      cases hs
      refine ⟨h.cur, by simp, fun _ => ⟨r, hr, hle⟩, by simp, ?_, by simp, by simp⟩
      intro i hi r' hr'
      simp only [Pc.reading.injEq] at hi
      rw [hr] at hr'; cases hr'
      exact ⟨h1, h2, s.hist.length, rfl, hle, Nat.le_refl _, by rw [← hi]; exact h.cur⟩
    · rename_i hf _; cases hf
    · cases hs
  | forward =>
    simp only [step] at hs
    split at hs
    · rename_i i hp
      obtain ⟨r, hr, hle⟩ := h.reg (by rw [hp]; simp)
      obtain ⟨h1, h2, a, ha, hra, hal, hi⟩ := h.rdng i hp r hr
      cases hs
      refine ⟨h.cur, by simp, fun _ => ⟨r, hr, hle⟩, by simp, by simp, ?_, by simp⟩
      intro _ r' hr'
      rw [hr] at hr'; cases hr'
      exact ⟨a, ha, hra, hal, by simp [h1, h2, hi]⟩
    · rename_i hp
      obtain ⟨r, hr, hle⟩ := h.reg (by rw [hp]; simp)
      obtain ⟨a, ha, hra, hal, hd⟩ := h.strm hp r hr
      split at hs
      · rename_i v rest hq
        cases hs
        refine ⟨h.cur, by simp [hp], fun _ => ⟨r, hr, hle⟩, by simp [hp], by simp [hp], ?_, h.noRd⟩
        intro _ r' hr'
        rw [hr] at hr'; cases hr'
        refine ⟨a, ha, hra, hal, ?_⟩
        rw [hq] at hd
        simpa using hd
      · cases hs
    · cases hs

theorem inv_reach {c : State} {s : St} (h : Reach (lts false) (init c) s) : Inv c s :=
  inv_of_reach (Inv c) (inv_init c) (fun _ _ _ hi hs => inv_step hi hs) h

/-- **What a subscriber receives** (the code as it is): once it streams, what it has received plus what is still queued
is the state that was current when `getStateChanInternal` read it, followed by every change since the *registration*, in
order. -/
theorem c08_sub_stream {c : State} {s : St} (h : Reach (lts false) (init c) s) (hp : s.pc = .streaming) :
    ∃ r a, s.regAt = some r ∧ s.readAt = some a ∧ r ≤ a ∧ s.delivered ++ s.queue = stateAt c s.hist a :: s.hist.drop r := by
  have hi := inv_reach h
  obtain ⟨r, hr, _⟩ := hi.reg (by rw [hp]; simp)
  obtain ⟨a, ha, hra, _, hd⟩ := hi.strm hp r hr
  exact ⟨r, a, hr, ha, hra, hd⟩

/-- **In order, when no change falls into the window** (C08, subscriber clause): if no state change fell between the
registration and the read, a subscriber that keeps up has received exactly the state current at subscription and then
every later change, in order. -/
theorem c08_sub_in_order {c : State} {s : St} (h : Reach (lts false) (init c) s) (hd : drained s = true)
    (hwin : s.regAt = s.readAt) :
    ∃ r, s.regAt = some r ∧ s.delivered = stateAt c s.hist r :: s.hist.drop r := by
  simp only [drained, Bool.and_eq_true, beq_iff_eq, List.isEmpty_iff] at hd
  obtain ⟨r, a, hr, ha, _, hdel⟩ := c08_sub_stream h hd.1
  rw [hr, ha] at hwin
  cases hwin
  exact ⟨r, hr, by simpa [hd.2] using hdel⟩

/-- **No update is lost** (C06/C08): the last value a subscriber that keeps up has received is the current state —
whatever fell into the window. -/
theorem c08_sub_last_is_current {c : State} {s : St} (h : Reach (lts false) (init c) s) (hd : drained s = true) :
    s.delivered.getLast? = some s.cur := by
  have hi := inv_reach h
  simp only [drained, Bool.and_eq_true, beq_iff_eq, List.isEmpty_iff] at hd
  obtain ⟨r, hr, hle⟩ := hi.reg (by rw [hd.1]; simp)
  obtain ⟨a, ha, hra, hal, hdel⟩ := hi.strm hd.1 r hr
  rw [hd.2, List.append_nil] at hdel
  rw [hdel, hi.cur]
  by_cases hlt : r < s.hist.length
  · -- something was published after the registration: its last element is the last change
    have hne : s.hist.drop r ≠ [] := by
      intro he
      have := congrArg List.length he
      simp at this; omega
    rw [List.getLast?_cons, List.getLast?_drop]
    simp only [stateAt, List.take_length]
    have : ¬ s.hist.length ≤ r := by omega
    simp only [this, if_false]
    cases hx : s.hist.getLast? with
    | none => simp [List.getLast?_eq_none_iff] at hx; simp [hx] at hlt
    | some v => simp
  · have hr' : r = s.hist.length := by omega
    have ha' : a = s.hist.length := by omega
    subst hr'
    simp [ha']

/-- **Finding C08-F1 inside the model**: two changes between the registration and the read are delivered after the
newer state that was read (states 0 → 1 → 2: the subscriber receives 2, 1, 2). -/
theorem c08_f1_witness :
    ∃ s, run (lts false) (init 0) [.register, .change 1, .change 2, .readCurrent, .forward, .forward, .forward] = some s
      ∧ s.delivered = [2, 1, 2] ∧ drained s = true := by
  refine ⟨_, rfl, ?_⟩
  decide

/-- **Reading before registering loses updates** (seeded changes C08-m3 / C06-m4): a change between the read and the
registration is never delivered — the subscriber has drained everything and its last value is not the current state. -/
theorem read_first_loses_update :
    ∃ s, run (lts true) (init 0) [.readCurrent, .change 1, .register, .forward] = some s
      ∧ drained s = true ∧ s.delivered = [0] ∧ s.cur = 1 := by
  refine ⟨_, rfl, ?_⟩
  decide

end GoSup.Props.C08S
