import GoSup.Model.Planner
/-! # C13 — property theorems -/
namespace GoSup.Props.C13
end GoSup.Props.C13
