import Batteries.Data.List.Perm
import GoSup.Model.Equal
import GoSup.Model.HttpSeq
import GoSup.Spec.C13
/-!
# C13 — property theorems (Config.Equal decides "equivalent"; reload restarts iff not equivalent)
-/
namespace GoSup.Props.C13
open GoSup.Equal

/-- pairwise distinct paths (the only route lists a `ServeMux` accepts) -/
def Distinct (rs : List Route) : Prop := rs.Pairwise fun a b => a.path ≠ b.path

theorem distinct_unique {rs : List Route} (h : Distinct rs) {x y : Route} (hx : x ∈ rs) (hy : y ∈ rs)
    (hp : x.path = y.path) : x = y := by
  induction rs with
  | nil => simp at hx
  | cons a t ih =>
    have hc := List.pairwise_cons.mp h
    rcases List.mem_cons.mp hx with rfl | hx' <;> rcases List.mem_cons.mp hy with rfl | hy'
    · rfl
    · exact absurd hp (hc.1 y hy')
    · exact absurd hp.symm (hc.1 x hx')
    · exact ih hc.2 hx' hy'

theorem distinct_nodup {rs : List Route} (h : Distinct rs) : rs.Nodup :=
  h.imp (fun hne e => hne (by rw [e]))

/-- with distinct paths the path map of `Routes.Equal` finds exactly the route of that path -/
theorem lookupLast_distinct {rs : List Route} (h : Distinct rs) (p : String) (y : Route) :
    lookupLast rs p = some y ↔ y ∈ rs ∧ y.path = p := by
  simp only [lookupLast]
  constructor
  · intro hf
    have hm := List.mem_of_find?_eq_some hf
    have hp := List.find?_some hf
    exact ⟨by simpa using hm, by simpa using hp⟩
  · rintro ⟨hm, hp⟩
    cases hf : rs.reverse.find? (fun r => r.path == p) with
    | none =>
      have := List.find?_eq_none.mp hf y (by simpa using hm)
      simp [hp] at this
    | some z =>
      have hzm := List.mem_of_find?_eq_some hf
      have hzp := List.find?_some hf
      have : z = y := distinct_unique h (by simpa using hzm) hm (by simp at hzp; rw [hzp, hp])
      rw [this]

theorem sortedNames_perm {a b : List Route} (h : a.Perm b) : sortedNames a = sortedNames b := by
  unfold sortedNames
  have hm : (a.map (·.name)).Perm (b.map (·.name)) := h.map _
  have h1 := List.mergeSort_perm (a.map (·.name)) (fun x y => decide (x ≤ y))
  have h2 := List.mergeSort_perm (b.map (·.name)) (fun x y => decide (x ≤ y))
  have hp := h1.trans (hm.trans h2.symm)
  have tr : ∀ (x y z : String), decide (x ≤ y) = true → decide (y ≤ z) = true → decide (x ≤ z) = true := by
    intro x y z h1 h2; simp at *; exact String.le_trans h1 h2
  have tot : ∀ (x y : String), (decide (x ≤ y) || decide (y ≤ x)) = true := by
    intro x y; simp; exact String.le_total x y
  have hs1 := List.pairwise_mergeSort tr tot (a.map (·.name))
  have hs2 := List.pairwise_mergeSort tr tot (b.map (·.name))
  exact hp.eq_of_pairwise (le := fun x y => decide (x ≤ y) = true)
    (fun x y _ _ h1 h2 => by simp at h1 h2; exact String.le_antisymm h1 h2) hs1 hs2

/-- **`Routes.Equal` decides set equality of (name, path) pairs** on route lists with pairwise
distinct paths, of any length and in any order. -/
theorem routesEqual_iff (r o : List Route) (hr : Distinct r) (ho : Distinct o) :
    routesEqual r o = true ↔ ∀ x, x ∈ r ↔ x ∈ o := by
  have sub_iff : (o.all fun x => match lookupLast r x.path with
        | some y => routeEqual y x
        | none => false) = true ↔ ∀ x ∈ o, x ∈ r := by
    simp only [List.all_eq_true]
    constructor
    · intro h x hx
      have := h x hx
      cases hl : lookupLast r x.path with
      | none => simp [hl] at this
      | some y =>
        simp only [hl, routeEqual, Bool.and_eq_true, beq_iff_eq] at this
        have hy := (lookupLast_distinct hr x.path y).mp hl
        have : y = x := by cases x; cases y; simp_all
        rw [← this]; exact hy.1
    · intro h x hx
      have := (lookupLast_distinct hr x.path x).mpr ⟨h x hx, rfl⟩
      simp [this, routeEqual]
  constructor
  · intro h
    simp only [routesEqual, Bool.and_eq_true, beq_iff_eq] at h
    obtain ⟨⟨hlen, _⟩, hsub⟩ := h
    have hsub' := sub_iff.mp hsub
    have hsp : o.Subperm r := List.subperm_of_subset (distinct_nodup ho) (fun x hx => hsub' x hx)
    have hp : o.Perm r := hsp.perm_of_length_le (by omega)
    intro x; exact (hp.mem_iff).symm
  · intro h
    have hsp1 : o.Subperm r := List.subperm_of_subset (distinct_nodup ho) (fun x hx => (h x).mpr hx)
    have hsp2 : r.Subperm o := List.subperm_of_subset (distinct_nodup hr) (fun x hx => (h x).mp hx)
    have hlen : r.length = o.length := Nat.le_antisymm hsp2.length_le hsp1.length_le
    have hp : r.Perm o := hsp2.perm_of_length_le (by omega)
    simp only [routesEqual, Bool.and_eq_true, beq_iff_eq]
    exact ⟨⟨hlen, by rw [sortedNames_perm hp]⟩, sub_iff.mpr (fun x hx => (h x).mpr hx)⟩

/-- **`Config.Equal` = "same address, timeouts and route name/path set".** -/
theorem configEqual_iff (a b : Config) (ha : Distinct a.routes) (hb : Distinct b.routes) :
    configEqual a b = true ↔
      a.addr = b.addr ∧ a.drain = b.drain ∧ a.read = b.read ∧ a.write = b.write ∧ a.idle = b.idle
        ∧ ∀ x, x ∈ a.routes ↔ x ∈ b.routes := by
  simp only [configEqual, Bool.and_eq_true, beq_iff_eq, routesEqual_iff _ _ ha hb]
  constructor
  · rintro ⟨⟨⟨⟨⟨h1, h2⟩, h3⟩, h4⟩, h5⟩, h6⟩; exact ⟨h1, h2, h4, h5, h6, h3⟩
  · rintro ⟨h1, h2, h4, h5, h6, h3⟩; exact ⟨⟨⟨⟨⟨h1, h2⟩, h3⟩, h4⟩, h5⟩, h6⟩

/-- on that domain `Equal` is reflexive and symmetric -/
theorem configEqual_refl (a : Config) (ha : Distinct a.routes) : configEqual a a = true :=
  (configEqual_iff a a ha ha).mpr ⟨rfl, rfl, rfl, rfl, rfl, fun _ => Iff.rfl⟩

theorem configEqual_symm (a b : Config) (ha : Distinct a.routes) (hb : Distinct b.routes)
    (h : configEqual a b = true) : configEqual b a = true := by
  obtain ⟨h1, h2, h3, h4, h5, h6⟩ := (configEqual_iff a b ha hb).mp h
  exact (configEqual_iff b a hb ha).mpr ⟨h1.symm, h2.symm, h3.symm, h4.symm, h5.symm, fun x => (h6 x).symm⟩

open GoSup.HttpSeq in
/-- **Reload decision, operation level.** On a Running server: an equivalent configuration leaves
the state (live instance, instance count, address) untouched; a different, bindable one is
served by exactly one freshly created instance on the new address, still Running; a callback
error, a nil configuration or an unbindable address is visible as `Error`. -/
theorem c13_reload (s : St) (hr : s.ret = .none) (hf : s.fsm = .running) (v addr : Nat) :
    step s (.reload (.ok v addr true true)) = s
    ∧ (step s (.reload (.ok v addr false true))).created = s.created + 1
    ∧ (step s (.reload (.ok v addr false true))).listening = some addr
    ∧ (step s (.reload (.ok v addr false true))).active = some v
    ∧ (step s (.reload (.ok v addr false true))).fsm = .running
    ∧ (step s (.reload (.ok v addr false false))).fsm = .error
    ∧ (step s (.reload .err)).fsm = .error ∧ (step s (.reload .nil)).fsm = .error := by
  simp [step, hr, hf]

end GoSup.Props.C13
