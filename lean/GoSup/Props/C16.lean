import GoSup.Model.Planner
/-! # C16 — property theorems -/
namespace GoSup.Props.C16
end GoSup.Props.C16
