import GoSup.Model.Planner
import GoSup.Model.Cluster
import GoSup.Spec.C16
import GoSup.Proofs.Planner
/-!
# C16 — property theorems (httpcluster diff planner and update execution)
-/
namespace GoSup.Props.C16
open GoSup.Planner GoSup.Spec.C16

/-- **`commit` leaves no pending work**: every surviving entry has action `none`, and no entry
that was marked `stop` survives -/
theorem commit_clean (m : Entries) :
    (commit m).all (fun p => p.2.action == .none) = true
    ∧ ∀ k e, (k, e) ∈ m → e.action = .stop → ∀ e', (k, e') ∈ commit m → ∃ e0, (k, e0) ∈ m ∧ e0.action ≠ .stop := by
  refine ⟨?_, ?_⟩
  · simp [commit, List.all_eq_true]
  · intro k e _ _ e' h'
    simp only [commit, List.mem_map, List.mem_filter] at h'
    obtain ⟨⟨k0, e0⟩, ⟨hm, hne⟩, heq⟩ := h'
    simp at heq
    exact ⟨e0, by rw [← heq.1]; exact hm, by simpa using hne⟩

/-- **Decision logic of `processExistingServer`, stated outright** (for every id and entry):
removed and running ⇒ one stop entry under the id; unchanged ⇒ the same entry, untouched
(same runner instance), action none; changed and running ⇒ a stop entry for the old instance
under `id:stop` *and* a fresh start entry under the id; changed and not running ⇒ only the start
entry. -/
theorem processExisting_cases (id : String) (old : Entry) (c : Nat) :
    (old.runner.isSome → processExisting id old none = [(id, { old with action := .stop })])
    ∧ (old.runner.isNone → processExisting id old none = [])
    ∧ (old.cfg = c → processExisting id old (some c) = [(id, { old with action := .none })])
    ∧ (old.cfg ≠ c → old.runner.isSome → processExisting id old (some c) =
        [(id ++ ":stop", { old with action := .stop }), (id, { id := id, cfg := c, runner := none, action := .start })])
    ∧ (old.cfg ≠ c → old.runner.isNone → processExisting id old (some c) =
        [(id, { id := id, cfg := c, runner := none, action := .start })]) := by
  refine ⟨?_, ?_, ?_, ?_, ?_⟩
  · intro h; simp [processExisting, h]
  · intro h; simp [processExisting, Option.isNone_iff_eq_none.mp h]
  · intro h; simp [processExisting, h]
  · intro h1 h2; simp [processExisting, h1, h2]
  · intro h1 h2; simp [processExisting, h1, Option.isNone_iff_eq_none.mp h2]

/-! ## the planner under NoClash, for maps of any size and any iteration order

`cur` is the list of current entries **in the order the Go map happened to be iterated**; the
theorems hold for every such order, i.e. the plan does not depend on it. -/

/-- **Unchanged entries are untouched**: an entry whose desired configuration equals its current one is
carried into the plan as it is (same runner instance), with no action. -/
theorem plan_unchanged (cur : Entries) (des : List (String × Nat)) (h : Wf cur des) (k : String) (e : Entry)
    (hmem : (k, e) ∈ cur) (hsame : lookupD des k = some e.cfg) :
    get (buildPending cur des) k = some { e with action := .none } := by
  obtain ⟨l1, l2, hsplit⟩ := List.append_of_mem hmem
  rw [get_pending_owned h hsplit k (Or.inl rfl)]
  simp only [contrib, processExisting, hsame, beq_self_eq_true, if_true, putAll, List.foldl_cons, List.foldl_nil]
  rw [get_put]; simp

/-- **Changed and running**: the old instance is handed to a stop action (under `id:stop`) and the id gets a
fresh start entry with the desired configuration. -/
theorem plan_changed_running (cur : Entries) (des : List (String × Nat)) (h : Wf cur des) (k : String) (e : Entry)
    (c inst : Nat) (hmem : (k, e) ∈ cur) (hwant : lookupD des k = some c) (hne : e.cfg ≠ c) (hrun : e.runner = some inst) :
    get (buildPending cur des) (k ++ ":stop") = some { e with action := .stop }
    ∧ get (buildPending cur des) k = some { id := k, cfg := c, runner := none, action := .start } := by
  obtain ⟨l1, l2, hsplit⟩ := List.append_of_mem hmem
  have hne' : (e.cfg == c) = false := by simpa using hne
  constructor
  · rw [get_pending_owned h hsplit _ (Or.inr rfl)]
    simp only [contrib, processExisting, hwant, hne', hrun, Option.isSome_some, if_true, putAll, List.foldl_cons,
      List.foldl_nil, Bool.false_eq_true, if_false]
    rw [get_put, get_put]
    simp [(ne_append_stop k).symm]
  · rw [get_pending_owned h hsplit _ (Or.inl rfl)]
    simp only [contrib, processExisting, hwant, hne', hrun, Option.isSome_some, if_true, putAll, List.foldl_cons,
      List.foldl_nil, Bool.false_eq_true, if_false]
    rw [get_put]; simp

/-- **Removed and running**: the instance is handed to a stop action under its id. -/
theorem plan_removed_running (cur : Entries) (des : List (String × Nat)) (h : Wf cur des) (k : String) (e : Entry)
    (inst : Nat) (hmem : (k, e) ∈ cur) (hgone : lookupD des k = none) (hrun : e.runner = some inst) :
    get (buildPending cur des) k = some { e with action := .stop } := by
  obtain ⟨l1, l2, hsplit⟩ := List.append_of_mem hmem
  rw [get_pending_owned h hsplit _ (Or.inl rfl)]
  simp only [contrib, processExisting, hgone, hrun, Option.isSome_some, if_true, putAll, List.foldl_cons, List.foldl_nil]
  rw [get_put]; simp

/-- **Nothing leaks**: every running instance that is not kept (its id was removed or its configuration
changed) is the runner of some stop entry of the plan — whatever the map sizes and iteration order. -/
theorem plan_no_leak (cur : Entries) (des : List (String × Nat)) (h : Wf cur des) (k : String) (e : Entry) (inst : Nat)
    (hmem : (k, e) ∈ cur) (hrun : e.runner = some inst) (hnot : lookupD des k ≠ some e.cfg) :
    ∃ q ∈ buildPending cur des, q.2.action = .stop ∧ q.2.runner = some inst := by
  cases hw : lookupD des k with
  | none =>
    exact ⟨_, mem_of_get (plan_removed_running cur des h k e inst hmem hw hrun), rfl, hrun⟩
  | some c =>
    have hne : e.cfg ≠ c := fun heq => hnot (by rw [hw, heq])
    exact ⟨_, mem_of_get (plan_changed_running cur des h k e c inst hmem hw hne hrun).1, rfl, hrun⟩

/-- the hypotheses are satisfiable by a non-trivial input, and the conclusion is computed there -/
example :
    let cur : Entries := [("b", { id := "b", cfg := 1, runner := some 11, action := .none }),
                          ("a", { id := "a", cfg := 1, runner := some 10, action := .none })]
    let des : List (String × Nat) := [("a", 2), ("c", 3)]
    (keysOf cur).Nodup ∧ noClash cur des = true
    ∧ (toStop (buildPending cur des)).length = 2 ∧ (toStart (buildPending cur des)).length = 2 := by
  decide

/-- **The full statement is false** (finding C16-F1): with ids `a` and `a:stop` the stop entry of
the changed server `a` is overwritten — its running instance is never stopped -/
theorem plan_fails_with_clash :
    let cur : Entries := [("a", { id := "a", cfg := 1, runner := some 10, action := .none })]
    let des : List (String × Nat) := [("a", 2), ("a:stop", 3)]
    noClash cur des = false ∧ planOk cur des (buildPending cur des) (commit (buildPending cur des)) = false := by
  decide

end GoSup.Props.C16
