import GoSup.Model.Planner
import GoSup.Model.Cluster
import GoSup.Spec.C16
/-!
# C16 — property theorems (httpcluster diff planner and update execution)
-/
namespace GoSup.Props.C16
open GoSup.Planner GoSup.Spec.C16

/-- **`commit` leaves no pending work**: every surviving entry has action `none`, and no entry
that was marked `stop` survives -/
theorem commit_clean (m : Entries) :
    (commit m).all (fun p => p.2.action == .none) = true
    ∧ ∀ k e, (k, e) ∈ m → e.action = .stop → ∀ e', (k, e') ∈ commit m → ∃ e0, (k, e0) ∈ m ∧ e0.action ≠ .stop := by
  refine ⟨?_, ?_⟩
  · simp [commit, List.all_eq_true]
  · intro k e _ _ e' h'
    simp only [commit, List.mem_map, List.mem_filter] at h'
    obtain ⟨⟨k0, e0⟩, ⟨hm, hne⟩, heq⟩ := h'
    simp at heq
    exact ⟨e0, by rw [← heq.1]; exact hm, by simpa using hne⟩

/-- **Decision logic of `processExistingServer`, stated outright** (for every id and entry):
removed and running ⇒ one stop entry under the id; unchanged ⇒ the same entry, untouched
(same runner instance), action none; changed and running ⇒ a stop entry for the old instance
under `id:stop` *and* a fresh start entry under the id; changed and not running ⇒ only the start
entry. -/
theorem processExisting_cases (id : String) (old : Entry) (c : Nat) :
    (old.runner.isSome → processExisting id old none = [(id, { old with action := .stop })])
    ∧ (old.runner.isNone → processExisting id old none = [])
    ∧ (old.cfg = c → processExisting id old (some c) = [(id, { old with action := .none })])
    ∧ (old.cfg ≠ c → old.runner.isSome → processExisting id old (some c) =
        [(id ++ ":stop", { old with action := .stop }), (id, { id := id, cfg := c, runner := none, action := .start })])
    ∧ (old.cfg ≠ c → old.runner.isNone → processExisting id old (some c) =
        [(id, { id := id, cfg := c, runner := none, action := .start })]) := by
  refine ⟨?_, ?_, ?_, ?_, ?_⟩
  · intro h; simp [processExisting, h]
  · intro h; simp [processExisting, Option.isNone_iff_eq_none.mp h]
  · intro h; simp [processExisting, h]
  · intro h1 h2; simp [processExisting, h1, h2]
  · intro h1 h2; simp [processExisting, h1, Option.isNone_iff_eq_none.mp h2]

/-- **The full statement is false** (finding C16-F1): with ids `a` and `a:stop` the stop entry of
the changed server `a` is overwritten — its running instance is never stopped -/
theorem plan_fails_with_clash :
    let cur : Entries := [("a", { id := "a", cfg := 1, runner := some 10, action := .none })]
    let des : List (String × Nat) := [("a", 2), ("a:stop", 3)]
    noClash cur des = false ∧ planOk cur des (buildPending cur des) (commit (buildPending cur des)) = false := by
  decide

end GoSup.Props.C16
