import GoSup.Model.Planner
import GoSup.Model.Cluster
import GoSup.Spec.C16
import GoSup.Proofs.Planner
import GoSup.Proofs.Cluster
/-!
# C16 — property theorems (httpcluster diff planner and update execution)
-/
namespace GoSup.Props.C16
open GoSup.Planner GoSup.Spec.C16

/-- **`commit` leaves no pending work**: every surviving entry has action `none`, and no entry
that was marked `stop` survives -/
theorem commit_clean (m : Entries) :
    (commit m).all (fun p => p.2.action == .none) = true
    ∧ ∀ k e, (k, e) ∈ m → e.action = .stop → ∀ e', (k, e') ∈ commit m → ∃ e0, (k, e0) ∈ m ∧ e0.action ≠ .stop := by
  refine ⟨?_, ?_⟩
  · simp [commit, List.all_eq_true]
  · intro k e _ _ e' h'
    simp only [commit, List.mem_map, List.mem_filter] at h'
    obtain ⟨⟨k0, e0⟩, ⟨hm, hne⟩, heq⟩ := h'
    simp at heq
    exact ⟨e0, by rw [← heq.1]; exact hm, by simpa using hne⟩

/-- **Decision logic of `processExistingServer`, stated outright** (for every id and entry):
removed and running ⇒ one stop entry under the id; unchanged ⇒ the same entry, untouched
(same runner instance), action none; changed and running ⇒ a stop entry for the old instance
under `id:stop` *and* a fresh start entry under the id; changed and not running ⇒ only the start
entry. -/
theorem processExisting_cases (id : String) (old : Entry) (c : Nat) :
    (old.runner.isSome → processExisting id old none = [(id, { old with action := .stop })])
    ∧ (old.runner.isNone → processExisting id old none = [])
    ∧ (old.cfg = c → processExisting id old (some c) = [(id, { old with action := .none })])
    ∧ (old.cfg ≠ c → old.runner.isSome → processExisting id old (some c) =
        [(id ++ ":stop", { old with action := .stop }), (id, { id := id, cfg := c, runner := none, action := .start })])
    ∧ (old.cfg ≠ c → old.runner.isNone → processExisting id old (some c) =
        [(id, { id := id, cfg := c, runner := none, action := .start })]) := by
  refine ⟨?_, ?_, ?_, ?_, ?_⟩
  · intro h; simp [processExisting, h]
  · intro h; simp [processExisting, Option.isNone_iff_eq_none.mp h]
  · intro h; simp [processExisting, h]
  · intro h1 h2; simp [processExisting, h1, h2]
  · intro h1 h2; simp [processExisting, h1, Option.isNone_iff_eq_none.mp h2]

/-! ## the planner under NoClash, for maps of any size and any iteration order

`cur` is the list of current entries **in the order the Go map happened to be iterated**; the
theorems hold for every such order, i.e. the plan does not depend on it. -/

/-- **Unchanged entries are untouched**: an entry whose desired configuration equals its current one is
carried into the plan as it is (same runner instance), with no action. -/
theorem plan_unchanged (cur : Entries) (des : List (String × Nat)) (h : Wf cur des) (k : String) (e : Entry)
    (hmem : (k, e) ∈ cur) (hsame : lookupD des k = some e.cfg) :
    get (buildPending cur des) k = some { e with action := .none } := by
  obtain ⟨l1, l2, hsplit⟩ := List.append_of_mem hmem
  rw [get_pending_owned h hsplit k (Or.inl rfl)]
  simp only [contrib, processExisting, hsame, beq_self_eq_true, if_true, putAll, List.foldl_cons, List.foldl_nil]
  rw [get_put]; simp

/-- **Changed and running**: the old instance is handed to a stop action (under `id:stop`) and the id gets a
fresh start entry with the desired configuration. -/
theorem plan_changed_running (cur : Entries) (des : List (String × Nat)) (h : Wf cur des) (k : String) (e : Entry)
    (c inst : Nat) (hmem : (k, e) ∈ cur) (hwant : lookupD des k = some c) (hne : e.cfg ≠ c) (hrun : e.runner = some inst) :
    get (buildPending cur des) (k ++ ":stop") = some { e with action := .stop }
    ∧ get (buildPending cur des) k = some { id := k, cfg := c, runner := none, action := .start } := by
  obtain ⟨l1, l2, hsplit⟩ := List.append_of_mem hmem
  have hne' : (e.cfg == c) = false := by simpa using hne
  constructor
  · rw [get_pending_owned h hsplit _ (Or.inr rfl)]
    simp only [contrib, processExisting, hwant, hne', hrun, Option.isSome_some, if_true, putAll, List.foldl_cons,
      List.foldl_nil, Bool.false_eq_true, if_false]
    rw [get_put, get_put]
    simp [(ne_append_stop k).symm]
  · rw [get_pending_owned h hsplit _ (Or.inl rfl)]
    simp only [contrib, processExisting, hwant, hne', hrun, Option.isSome_some, if_true, putAll, List.foldl_cons,
      List.foldl_nil, Bool.false_eq_true, if_false]
    rw [get_put]; simp

/-- **Removed and running**: the instance is handed to a stop action under its id. -/
theorem plan_removed_running (cur : Entries) (des : List (String × Nat)) (h : Wf cur des) (k : String) (e : Entry)
    (inst : Nat) (hmem : (k, e) ∈ cur) (hgone : lookupD des k = none) (hrun : e.runner = some inst) :
    get (buildPending cur des) k = some { e with action := .stop } := by
  obtain ⟨l1, l2, hsplit⟩ := List.append_of_mem hmem
  rw [get_pending_owned h hsplit _ (Or.inl rfl)]
  simp only [contrib, processExisting, hgone, hrun, Option.isSome_some, if_true, putAll, List.foldl_cons, List.foldl_nil]
  rw [get_put]; simp

/-- **Nothing leaks**: every running instance that is not kept (its id was removed or its configuration
changed) is the runner of some stop entry of the plan — whatever the map sizes and iteration order. -/
theorem plan_no_leak (cur : Entries) (des : List (String × Nat)) (h : Wf cur des) (k : String) (e : Entry) (inst : Nat)
    (hmem : (k, e) ∈ cur) (hrun : e.runner = some inst) (hnot : lookupD des k ≠ some e.cfg) :
    ∃ q ∈ buildPending cur des, q.2.action = .stop ∧ q.2.runner = some inst := by
  cases hw : lookupD des k with
  | none =>
    exact ⟨_, mem_of_get (plan_removed_running cur des h k e inst hmem hw hrun), rfl, hrun⟩
  | some c =>
    have hne : e.cfg ≠ c := fun heq => hnot (by rw [hw, heq])
    exact ⟨_, mem_of_get (plan_changed_running cur des h k e c inst hmem hw hne hrun).1, rfl, hrun⟩

/-- the hypotheses are satisfiable by a non-trivial input, and the conclusion is computed there -/
example :
    let cur : Entries := [("b", { id := "b", cfg := 1, runner := some 11, action := .none }),
                          ("a", { id := "a", cfg := 1, runner := some 10, action := .none })]
    let des : List (String × Nat) := [("a", 2), ("c", 3)]
    (keysOf cur).Nodup ∧ noClash cur des = true
    ∧ (toStop (buildPending cur des)).length = 2 ∧ (toStart (buildPending cur des)).length = 2 := by
  decide

/-- **The full statement is false** (finding C16-F1): with ids `a` and `a:stop` the stop entry of
the changed server `a` is overwritten — its running instance is never stopped -/
theorem plan_fails_with_clash :
    let cur : Entries := [("a", { id := "a", cfg := 1, runner := some 10, action := .none })]
    let des : List (String × Nat) := [("a", 2), ("a:stop", 3)]
    noClash cur des = false ∧ planOk cur des (buildPending cur des) (commit (buildPending cur des)) = false := by
  decide

/-! ## the update executor (`processConfigUpdate` / `executeActions` / `shutdown`) — for every map, every
sequence of maps, every iteration order, every pattern of start failures

`Committed cur`: what the cluster holds between two updates.  `Acc cur effs next`: over the whole effect log
`effs` of the run so far, the instances started and not yet stopped (`Live effs`) are exactly the runners held
in `cur`, each under one key.  `fate` says, for this update, which ids start fine, fail in the factory, or
never become ready. -/
open GoSup.Cluster

/-- **Unchanged entries keep their server instance** (no stop, no start: the entry is literally the same). -/
theorem c16_unchanged_kept (fate : String → Fate) {cur : Entries} {des : List (String × Nat)} (next : Nat)
    (hw : Wf cur des) (hc : Committed cur) {K : String} {e : Entry} (hK : get cur K = some e)
    (hsame : lookupD des K = some e.cfg) :
    get (applyUpdate fate cur des next).entries K = some e := by
  have hp := plan_unchanged cur des hw K e (mem_of_get hK) hsame
  have := get_update fate cur des next K
  rw [hp] at this
  simp only at this
  rw [this]
  have := (hc.shape K e hK).2.1
  cases e; simp_all

/-- **Removed entries are gone** (and, with `c16_old_stopped_first`, stopped): an id the map does not list is not served afterwards. -/
theorem c16_removed_gone (fate : String → Fate) {cur : Entries} {des : List (String × Nat)} (next : Nat)
    (hw : Wf cur des) (hc : Committed cur) {K : String} (hgone : lookupD des K = none) :
    get (applyUpdate fate cur des next).entries K = none := by
  have hu := get_update fate cur des next K
  cases hK : get cur K with
  | some e =>
    obtain ⟨_, _, hr⟩ := hc.shape K e hK
    obtain ⟨inst, hinst⟩ := Option.isSome_iff_exists.mp hr
    have hp := plan_removed_running cur des hw K e inst (mem_of_get hK) hgone hinst
    rw [hp] at hu
    exact hu
  | none =>
    have hKc : K ∉ keysOf cur := fun hm => by
      simp only [keysOf, List.mem_map] at hm
      obtain ⟨⟨k, e⟩, hm, rfl⟩ := hm
      have := get_isSome_of_mem hm
      simp [hK] at this
    have hKd : K ∉ des.map (·.1) := lookupD_none_not_mem (by simp [hgone])
    cases hg : get (buildPending cur des) K with
    | none => rw [hg] at hu; exact hu
    | some e =>
      rw [hg] at hu
      simp only [plan_other hKc hKd hg] at hu
      exact hu

/-- **New and changed entries**: an id whose configuration is new or differs is served afterwards by a *fresh*
instance with exactly the desired configuration if it could be started, and is dropped (without touching any other
entry: see the other theorems, which do not mention `fate`) if it could not. -/
theorem c16_new_or_changed (fate : String → Fate) {cur : Entries} {des : List (String × Nat)} (next : Nat)
    (hw : Wf cur des) (hc : Committed cur) (hnd : (des.map (·.1)).Nodup) {K : String} {c : Nat}
    (hwant : lookupD des K = some c) (hdiff : ∀ e, get cur K = some e → e.cfg ≠ c) :
    (fate K = .ok → ∃ i, next ≤ i ∧ i < (applyUpdate fate cur des next).next
        ∧ get (applyUpdate fate cur des next).entries K = some { id := K, cfg := c, runner := some i, action := .none })
    ∧ (fate K ≠ .ok → get (applyUpdate fate cur des next).entries K = none) := by
  have hp : get (buildPending cur des) K = some (startEntry K c) := by
    cases hK : get cur K with
    | some e =>
      obtain ⟨_, _, hr⟩ := hc.shape K e hK
      obtain ⟨inst, hinst⟩ := Option.isSome_iff_exists.mp hr
      exact (plan_changed_running cur des hw K e c inst (mem_of_get hK) hwant (hdiff e hK) hinst).2
    | none =>
      have hKc : K ∉ keysOf cur := fun hm => by
        simp only [keysOf, List.mem_map] at hm
        obtain ⟨⟨k, e⟩, hm, rfl⟩ := hm
        have := get_isSome_of_mem hm
        simp [hK] at this
      exact plan_new hw hnd hKc hwant
  have hu := get_update fate cur des next K
  rw [hp] at hu
  simpa [startEntry] using hu

/-- **The state between updates is re-established** (so that all of this holds for every sequence of maps) -/
theorem c16_committed (fate : String → Fate) {cur : Entries} {des : List (String × Nat)} (next : Nat)
    (hc : Committed cur) : Committed (applyUpdate fate cur des next).entries := by
  have hndp := nodup_buildPending cur des
  have hnds : (keysOf (stopPhase (buildPending cur des)).1).Nodup := by rw [keysOf_stopPhase]; exact hndp
  refine ⟨nodup_commit (startFold_nodup _ hnds), ?_⟩
  intro K e he
  have hu := get_update fate cur des next K
  cases hg : get (buildPending cur des) K with
  | none => rw [hg] at hu; simp only at hu; rw [hu] at he; cases he
  | some e0 =>
    rw [hg] at hu
    simp only at hu
    rcases mem_buildPending (mem_of_get hg) with ⟨⟨k0, c0⟩, hp, hq⟩ | ⟨d, _, hq⟩
    · rcases mem_processExisting hq with ⟨h1, _⟩ | ⟨h1, _⟩ | ⟨c, h1, _⟩
      · simp only at h1
        rw [h1] at hu; simp only at hu
        rw [hu] at he; cases he
      · simp only [Prod.mk.injEq] at h1
        obtain ⟨hk, he0⟩ := h1
        subst hk
        rw [he0] at hu; simp only at hu
        rw [hu] at he; cases he
        have := hc.shape K c0 (get_of_mem_nodup hc.nodup hp)
        exact ⟨this.1, rfl, this.2.2⟩
      · simp only [Prod.mk.injEq] at h1
        obtain ⟨hk, he0⟩ := h1
        subst hk
        rw [he0] at hu
        simp only [startEntry] at hu
        by_cases hf : fate K = .ok
        · obtain ⟨i, _, _, hi⟩ := hu.1 hf
          rw [hi] at he; cases he; exact ⟨rfl, rfl, rfl⟩
        · rw [hu.2 hf] at he; cases he
    · simp only [Prod.mk.injEq] at hq
      obtain ⟨hk, he0⟩ := hq
      subst hk
      rw [he0] at hu
      simp only [startEntry] at hu
      by_cases hf : fate d.1 = .ok
      · obtain ⟨i, _, _, hi⟩ := hu.1 hf
        rw [hi] at he; cases he; exact ⟨rfl, rfl, rfl⟩
      · rw [hu.2 hf] at he; cases he

/-- **Nothing is leaked, nothing is counted twice** (`acc_applyUpdate`, restated): after any update the instances
started and not yet stopped are exactly the runners in the committed entries. -/
theorem c16_accounting (fate : String → Fate) {cur : Entries} {effs : List Eff} {next : Nat} {des : List (String × Nat)}
    (h : Acc cur effs next) (hw : Wf cur des) :
    Acc (applyUpdate fate cur des next).entries (effs ++ (applyUpdate fate cur des next).effects)
      (applyUpdate fate cur des next).next := acc_applyUpdate h hw

/-- **The old server is fully stopped before any replacement is started**: the effect log of an update is the log of
the stop phase (only `Stop()`s) followed by the log of the start phase, and the `Stop()` of every instance that is not
kept — its id was removed or its configuration changed — is in the first part. -/
theorem c16_old_stopped_first (fate : String → Fate) {cur : Entries} {effs : List Eff} {next : Nat} {des : List (String × Nat)}
    (h : Acc cur effs next) (hw : Wf cur des) :
    (applyUpdate fate cur des next).effects
        = (stopPhase (buildPending cur des)).2 ++ (startPhase fate (stopPhase (buildPending cur des)).1 next).effects
    ∧ (∀ ε ∈ (stopPhase (buildPending cur des)).2, ∃ i, ε = Eff.stop i)
    ∧ (∀ k e i, get cur k = some e → e.runner = some i → lookupD des k ≠ some e.cfg →
        Eff.stop i ∈ (stopPhase (buildPending cur des)).2) := by
  refine ⟨rfl, ?_, ?_⟩
  · intro ε hε
    rcases stopFold_effs _ hε with h1 | h1
    · simp at h1
    · exact h1
  · intro k e i hk hr hnot
    have hacc := acc_after_stop h hw
    have hlive : Live effs i := (h.live i).mpr ⟨k, e, hk, hr⟩
    -- after the stop phase the instance is no longer held by any entry
    have hnot_at : ¬ RunnerAt (stopPhase (buildPending cur des)).1 i := by
      rintro ⟨K, e', hK, hr'⟩
      rw [get_stopPhase] at hK
      split at hK
      · cases hg : get (buildPending cur des) K with
        | none => simp [hg] at hK
        | some e0 => simp only [hg, Option.map_some, Option.some.injEq] at hK; rw [← hK] at hr'; simp [clr] at hr'
      · rename_i hns
        obtain ⟨k', e0, hp, hr0, hq⟩ := pending_runner_origin (mem_of_get hK) hr'
        have g0 := get_of_mem_nodup hw.nodup hp
        have hkk : k' = k := h.inj k' k e0 e i g0 hk hr0 hr
        subst hkk
        rw [hk] at g0; cases g0
        rcases mem_processExisting hq with ⟨h1, _⟩ | ⟨_, h1⟩ | ⟨c, h1, _⟩
        · simp only at h1
          exact hns ((mem_toStop (nodup_buildPending cur des) K).mpr ⟨e', hK, by rw [h1]⟩)
        · exact hnot h1
        · simp only [Prod.mk.injEq] at h1; rw [h1.2] at hr'; simp [startEntry] at hr'
    have hnl : ¬ Live (effs ++ (stopPhase (buildPending cur des)).2) i := fun hl => hnot_at ((hacc.live i).mp hl)
    -- it was started and not stopped before, so its Stop() is in the stop phase's log
    apply Classical.byContradiction
    intro hns
    apply hnl
    refine ⟨?_, ?_⟩
    · obtain ⟨id, c, hs⟩ := hlive.1
      exact ⟨id, c, List.mem_append_left _ hs⟩
    · intro hm
      rcases List.mem_append.mp hm with hm | hm
      · exact hlive.2 hm
      · exact hns hm

/-- **GetServerCount() = the number of servers started and not yet stopped**: between updates the runners of the
entries enumerate the live instances without repetition, one per entry. -/
theorem c16_count {cur : Entries} {effs : List Eff} {next : Nat} (hc : Committed cur) (h : Acc cur effs next) :
    (cur.filterMap fun p => p.2.runner).Nodup
    ∧ (cur.filterMap fun p => p.2.runner).length = cur.length
    ∧ ∀ i, i ∈ (cur.filterMap fun p => p.2.runner) ↔ Live effs i := by
  refine ⟨runners_nodup hc.nodup h.inj, ?_, ?_⟩
  · apply filterMap_length_of_all_some
    intro p hp
    exact (hc.shape p.1 p.2 (get_of_mem_nodup hc.nodup hp)).2.2
  · intro i
    rw [h.live i]
    simp only [List.mem_filterMap]
    constructor
    · rintro ⟨⟨k, e⟩, hm, hr⟩
      exact ⟨k, e, get_of_mem_nodup hc.nodup hm, hr⟩
    · rintro ⟨k, e, hk, hr⟩
      exact ⟨(k, e), mem_of_get hk, hr⟩

/-! ### every sequence of maps, arbitrary ids -/

/-- the ids in use never collide with the planner's `":stop"` keys (the precondition whose failure is finding C16-F1) -/
def IdsOk (U : List String) : Prop := ∀ a ∈ U, ∀ b ∈ U, a ++ ":stop" ≠ b

/-- a pushed map: a Go map (distinct ids) over the id universe -/
structure StepOk (U : List String) (s : Step) : Prop where
  nodup : (s.des.map (·.1)).Nodup
  sub   : ∀ k ∈ s.des.map (·.1), k ∈ U

theorem wf_of_universe {U : List String} (hU : IdsOk U) {cur : Entries} {des : List (String × Nat)}
    (hnd : (keysOf cur).Nodup) (hcur : ∀ k ∈ keysOf cur, k ∈ U) (hdes : ∀ k ∈ des.map (·.1), k ∈ U) : Wf cur des := by
  refine ⟨hnd, ?_⟩
  simp only [noClash, List.all_eq_true, Bool.and_eq_true]
  intro p hp
  have hpU : p.1 ∈ U := hcur p.1 (List.mem_map_of_mem (f := (·.1)) hp)
  constructor
  · have : p.1 ++ ":stop" ∉ keysOf cur := fun hm => hU p.1 hpU _ (hcur _ hm) rfl
    rw [get_eq_none_of_not_mem this]; rfl
  · have : p.1 ++ ":stop" ∉ des.map (·.1) := fun hm => hU p.1 hpU _ (hdes _ hm) rfl
    rw [lookupD_eq_none_of_not_mem this]; rfl

/-- the invariant of the event loop -/
structure LoopInv (U : List String) (a : Res) : Prop where
  committed : Committed a.entries
  acc : Acc a.entries a.effects a.next
  keys : ∀ k ∈ keysOf a.entries, k ∈ U

theorem keys_update_sub (fate : String → Fate) {cur : Entries} {des : List (String × Nat)} (next : Nat)
    (hw : Wf cur des) (hc : Committed cur) {k : String} (hk : k ∈ keysOf (applyUpdate fate cur des next).entries) :
    k ∈ des.map (·.1) := by
  apply Classical.byContradiction
  intro hnot
  have hgone := c16_removed_gone fate next hw hc (lookupD_eq_none_of_not_mem hnot)
  simp only [keysOf, List.mem_map] at hk
  obtain ⟨⟨k', e⟩, hm, rfl⟩ := hk
  have := get_isSome_of_mem hm
  simp [hgone] at this

theorem loopInv_step {U : List String} (hU : IdsOk U) {a : Res} (h : LoopInv U a) {s : Step} (hs : StepOk U s) :
    LoopInv U { entries := (applyUpdate s.fate a.entries s.des a.next).entries,
                effects := a.effects ++ (applyUpdate s.fate a.entries s.des a.next).effects,
                next := (applyUpdate s.fate a.entries s.des a.next).next } := by
  have hw := wf_of_universe hU h.committed.nodup h.keys hs.sub
  exact ⟨c16_committed s.fate a.next h.committed, acc_applyUpdate h.acc hw,
    fun k hk => hs.sub k (keys_update_sub s.fate a.next hw h.committed hk)⟩

theorem loopInv_runSteps {U : List String} (hU : IdsOk U) (steps : List Step) (hs : ∀ s ∈ steps, StepOk U s)
    {a : Res} (h : LoopInv U a) : LoopInv U (runSteps steps a) := by
  induction steps generalizing a with
  | nil => exact h
  | cons s t ih =>
    simp only [runSteps, List.foldl_cons]
    exact ih (fun s' hs' => hs s' (List.mem_cons_of_mem _ hs')) (loopInv_step hU h (hs s List.mem_cons_self))

/-- **While running, after any sequence of maps**: the committed entries and the effect log of the whole run so far
satisfy `Committed` and `Acc` — so `c16_count`, `c16_unchanged_kept`, `c16_removed_gone`, `c16_new_or_changed`,
`c16_old_stopped_first` apply to the next map, whatever came before and whichever starts failed. -/
theorem c16_every_sequence {U : List String} (hU : IdsOk U) (steps : List Step) (hs : ∀ s ∈ steps, StepOk U s) :
    LoopInv U (runSteps steps { entries := [], effects := [], next := 1 }) :=
  loopInv_runSteps hU steps hs ⟨committed_nil, acc_init, by simp [keysOf]⟩

/-- **When `Run()` returns every server ever started has been stopped** — for every sequence of maps over any ids
that do not collide with the `":stop"` keys, and every pattern of transient or permanent start failures: the final
entries are empty and no instance of the whole effect log is live. -/
theorem c16_run_all_stopped {U : List String} (hU : IdsOk U) (steps : List Step) (hs : ∀ s ∈ steps, StepOk U s) :
    (runCluster steps).entries = [] ∧ ∀ i, ¬ Live (runCluster steps).effects i := by
  have hinv := c16_every_sequence hU steps hs
  have hw : Wf (runSteps steps { entries := [], effects := [], next := 1 }).entries [] :=
    wf_of_universe hU hinv.committed.nodup hinv.keys (by simp)
  have hnil : (runCluster steps).entries = [] := by
    apply nil_of_get_none
    intro K
    exact c16_removed_gone _ _ hw hinv.committed rfl
  refine ⟨hnil, ?_⟩
  intro i hl
  have hacc := acc_applyUpdate (fate := fun _ => Fate.ok) hinv.acc hw
  have := (hacc.live i).mp hl
  obtain ⟨K, e, hK, _⟩ := this
  have hnil' : (applyUpdate (fun _ => Fate.ok) (runSteps steps { entries := [], effects := [], next := 1 }).entries []
      (runSteps steps { entries := [], effects := [], next := 1 }).next).entries = [] := hnil
  rw [hnil'] at hK
  simp [Planner.get] at hK

/-- **... also when the last update is cut short** by the end of the run context (`executeActions` gives up during
`restartDelay`, after its stop phase): the entries it leaves without a runner are dropped by the shutdown, and still no
instance ever started is live when `Run()` returns. -/
theorem c16_run_all_stopped_cut {U : List String} (hU : IdsOk U) (steps : List Step) (hs : ∀ s ∈ steps, StepOk U s)
    (last : List (String × Nat)) (hl : ∀ k ∈ last.map (·.1), k ∈ U) :
    (runClusterCut steps last).entries = [] ∧ ∀ i, ¬ Live (runClusterCut steps last).effects i := by
  have hinv := c16_every_sequence hU steps hs
  have hw : Wf (runSteps steps { entries := [], effects := [], next := 1 }).entries last :=
    wf_of_universe hU hinv.committed.nodup hinv.keys hl
  have hacc := acc_applyUpdateCut hinv.acc hw
  -- the state the cut update leaves: distinct ids from the universe
  have hndc : (keysOf (applyUpdateCut (runSteps steps { entries := [], effects := [], next := 1 }).entries last
      (runSteps steps { entries := [], effects := [], next := 1 }).next).entries).Nodup := by
    simp only [applyUpdateCut]
    apply nodup_commit
    rw [keysOf_stopPhase]; exact nodup_buildPending _ _
  have hkeys : ∀ k ∈ keysOf (applyUpdateCut (runSteps steps { entries := [], effects := [], next := 1 }).entries last
      (runSteps steps { entries := [], effects := [], next := 1 }).next).entries, k ∈ U := by
    intro k hk
    rcases keys_cut_sub hk with h1 | h1
    · exact hinv.keys k h1
    · exact hl k h1
  have hw2 := wf_of_universe (des := []) hU hndc hkeys (by simp)
  have hnil : (runClusterCut steps last).entries = [] := shutdown_entries_nil _ _
  refine ⟨hnil, ?_⟩
  intro i hl'
  have hacc2 := acc_applyUpdate (fate := fun _ => Fate.ok) hacc hw2
  have hlive : Live ((runSteps steps { entries := [], effects := [], next := 1 }).effects
      ++ (applyUpdateCut (runSteps steps { entries := [], effects := [], next := 1 }).entries last
          (runSteps steps { entries := [], effects := [], next := 1 }).next).effects
      ++ (shutdown (applyUpdateCut (runSteps steps { entries := [], effects := [], next := 1 }).entries last
          (runSteps steps { entries := [], effects := [], next := 1 }).next).entries
          (applyUpdateCut (runSteps steps { entries := [], effects := [], next := 1 }).entries last
          (runSteps steps { entries := [], effects := [], next := 1 }).next).next).effects) i := hl'
  have := (hacc2.live i).mp hlive
  obtain ⟨K, e, hK, _⟩ := this
  have hnil' := shutdown_entries_nil (applyUpdateCut (runSteps steps { entries := [], effects := [], next := 1 }).entries last
      (runSteps steps { entries := [], effects := [], next := 1 }).next).entries
      (applyUpdateCut (runSteps steps { entries := [], effects := [], next := 1 }).entries last
      (runSteps steps { entries := [], effects := [], next := 1 }).next).next
  unfold shutdown at hnil'
  rw [hnil'] at hK
  simp [Planner.get] at hK

/-- the hypotheses are satisfiable by a non-trivial history and the conclusions are computed there: three maps over
`a`, `b`, `c` with a changed configuration, a removal, a factory error and a server that never becomes ready -/
example :
    let steps : List Step :=
      [{ des := [("a", 1), ("b", 1)], fate := fun _ => .ok },
       { des := [("a", 2), ("b", 1), ("c", 1)], fate := fun id => if id == "c" then .notReady else .ok },
       { des := [("b", 1), ("c", 2)], fate := fun id => if id == "c" then .factoryErr else .ok }]
    (runSteps steps { entries := [], effects := [], next := 1 }).effects
      = [.start "a" 1 1, .start "b" 1 2, .stop 1, .start "a" 2 3, .start "c" 1 4, .stop 4, .dropped "c", .stop 3, .dropped "c"]
    ∧ running (runSteps steps { entries := [], effects := [], next := 1 }).entries = [("b", 1, 2)]
    ∧ (runCluster steps).effects.getLast? = some (.stop 2) := by
  decide

end GoSup.Props.C16
