import GoSup.Proofs.SupErr
/-!
# C04 — property theorems (the result of `Run()` reflects the cause of termination)
For all runnable sets, all interleavings of runnable exits (nil, cancellation-classified, real
errors), signals, context cancellation, Shutdown() calls and ShutdownSender triggers.
`realErr` is *defined* as "not `isCancel`" (`Model/ErrClass.lean`, validated differentially against
`errors.Is`).
-/
namespace GoSup.Props.C04
open GoSup.Sup GoSup.Core

/-- **A non-nil result is an error some runnable's Run actually returned** (or the startup
timeout); the spurious "timeout … context canceled" (finding C04-F1) is never returned. -/
theorem c04_result_is_a_returned_error {caps : List Caps} {u : Nat} {s : St} (h : Reachable caps u s) :
    (∀ e, .mainReturn (.err e) ∈ s.log → ∃ i, .runReturn i (.realErr e) ∈ s.log)
    ∧ .mainReturn .spuriousTimeout ∉ s.log := by
  have hi := errInv_reach h
  refine ⟨?_, hi.nosp.2⟩
  intro e he
  have := hi.log e he
  simp only [realRet, List.any_eq_true] at this
  obtain ⟨ev, hmem, hev⟩ := this
  cases ev with
  | runReturn i o =>
    cases o with
    | realErr e' => simp at hev; subst hev; exact ⟨i, hmem⟩
    | _ => simp at hev
  | _ => simp at hev

/-- **No failure, no error.** If no runnable's Run has returned a real error, `Run()` cannot
have returned one — whatever combination of signals, cancellation, `Shutdown()` calls, nil exits
and cancellation-classified errors occurred. -/
theorem c04_nil_without_failure {caps : List Caps} {u : Nat} {s : St} (h : Reachable caps u s)
    (hno : ∀ i e, .runReturn i (.realErr e) ∉ s.log) (r : Res) (hr : .mainReturn r ∈ s.log) :
    r = .nil ∨ r = .startupTimeout := by
  obtain ⟨h1, h2⟩ := c04_result_is_a_returned_error h
  cases r with
  | nil => exact .inl rfl
  | startupTimeout => exact .inr rfl
  | err e => obtain ⟨i, hi⟩ := h1 e hr; exact absurd hi (hno i e)
  | spuriousTimeout => exact absurd hr h2

/-- **SIGHUP and unknown signals never end `Run()`**: consuming them leaves the main goroutine in
`reap` (decision logic of the signal switch, stated outright). -/
theorem c04_hup_and_unknown_signals_keep_reaping (s s' : St) (hm : s.main = .reap)
    (hq : s.sigQ = some .hup ∨ s.sigQ = some .other) (hs : step s .reapSig = some s') :
    s'.main = .reap ∧ s'.sd = s.sd ∧ s'.once = s.once ∧ s'.log = s.log := by
  rcases hq with hq | hq <;> simp [step, hm, hq] at hs <;> subst hs <;> simp [hm]

/-- non-vacuity: a run in which runnable 1 fails and `Run()` returns exactly that error -/
example : ∃ s, run lts (initSt [{}, {}] 0)
    [.mainStart, .mainLaunch 0, .mainLaunch 1, .rgInvoke 0, .rgInvoke 1, .runReturn 1 (.realErr 7), .rgFinish 1, .rgSend 1,
     .reapErr, .onceEnter .main, .sdStopInvoke, .stopReturn, .sdStopInvoke, .stopReturn, .sdCancel,
     .runReturn 0 .nil, .rgFinish 0, .sdWaitDone, .sdClose, .mainReturn] = some s
    ∧ .mainReturn (.err 7) ∈ s.log := by
  decide

end GoSup.Props.C04
