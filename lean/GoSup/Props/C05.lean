import GoSup.Model.SupReload
import GoSup.Spec.C05
/-!
# C05 — property theorems (reload passes)

For any number of runnables (any subset Reloadable / ReloadSender), any number of concurrent
`ReloadAll()` callers, SIGHUPs and ReloadSender triggers, any `Reload()` durations and any
interleaving with context cancellation.
-/
namespace GoSup.Props.C05
open GoSup.SupReload GoSup.Core GoSup.Spec.C05

/-- the Reload events of the runnables with index `< i`, in registration order -/
def passUpTo (rl : List Bool) (i : Nat) : List Ev :=
  ((List.range i).filter fun k => rl.getD k false).flatMap fun k => [Ev.reloadInvoke k, Ev.reloadReturn k]

theorem passUpTo_succ (rl : List Bool) (i : Nat) :
    passUpTo rl (i + 1) = passUpTo rl i ++ (if rl.getD i false then [Ev.reloadInvoke i, Ev.reloadReturn i] else []) := by
  simp only [passUpTo, List.range_succ, List.filter_append, List.flatMap_append]
  simp only [List.filter_cons, List.filter_nil]
  split <;> simp

theorem onePass_eq (rl : List Bool) : onePass rl = passUpTo rl rl.length := rfl

def reloadLog (s : St) : List Ev := s.log.filter isReload

def current (s : St) : List Ev :=
  match s.mgr with
  | .pass i b => passUpTo s.reloadable i ++ (if b then [Ev.reloadInvoke i] else [])
  | _ => []

def inPass (s : St) : Nat := match s.mgr with | .pass _ _ => 1 | _ => 0

/-- requests made so far -/
def requestEvents (s : St) : Nat :=
  (s.log.filter fun e => match e with | .allCall | .hup | .trigIntent _ => true | _ => false).length

/-- requests accepted by the manager or still waiting somewhere (blocked send, signal path, listener) -/
def waiting (s : St) : Nat :=
  s.handed + s.pendAll + s.pendHup + s.hupQueued + s.holding.length + s.intents.length

structure Inv (s : St) : Prop where
  shape  : reloadLog s = (List.replicate s.passes (onePass s.reloadable)).flatten ++ current s
  bound  : ∀ i b, s.mgr = .pass i b → i ≤ s.n ∧ (b = true → i < s.n ∧ s.reloadable.getD i false = true)
  handed : s.handed = s.passes + inPass s
  issued : waiting s ≤ requestEvents s

theorem inv_init (rl sd : List Bool) : Inv (initSt rl sd) := by
  refine ⟨?_, ?_, ?_, ?_⟩
  · simp only [initSt]; split <;> simp [reloadLog, current]
  · intro i b h; simp only [initSt] at h; split at h <;> simp at h
  · simp only [initSt]; split <;> simp [inPass]
  · simp only [initSt]; split <;> simp [requestEvents, waiting]

@[simp] theorem emit_reloadable (s : St) (e : Ev) : (s.emit e).reloadable = s.reloadable := rfl
@[simp] theorem emit_mgr (s : St) (e : Ev) : (s.emit e).mgr = s.mgr := rfl
@[simp] theorem emit_passes (s : St) (e : Ev) : (s.emit e).passes = s.passes := rfl
@[simp] theorem emit_handed (s : St) (e : Ev) : (s.emit e).handed = s.handed := rfl
@[simp] theorem emit_waiting (s : St) (e : Ev) : waiting (s.emit e) = waiting s := rfl
@[simp] theorem emit_n (s : St) (e : Ev) : (s.emit e).n = s.n := rfl

theorem reloadLog_emit (s : St) (e : Ev) :
    reloadLog (s.emit e) = reloadLog s ++ (if isReload e then [e] else []) := by
  simp only [reloadLog, St.emit, List.filter_append]
  by_cases h : isReload e <;> simp [h]

theorem requestEvents_emit (s : St) (e : Ev) :
    requestEvents (s.emit e) = requestEvents s +
      (match e with | .allCall | .hup | .trigIntent _ => 1 | _ => 0) := by
  simp only [requestEvents, St.emit, List.filter_append, List.length_append]
  cases e <;> simp

/-- frame lemma: a step that leaves the manager and the counters of passes alone, emits no Reload
event, and does not let more requests wait than were made -/
theorem inv_frame {s s' : St} (hi : Inv s) (hr : s'.reloadable = s.reloadable) (hm : s'.mgr = s.mgr)
    (hp : s'.passes = s.passes) (hh : s'.handed = s.handed) (hl : reloadLog s' = reloadLog s)
    (hw : waiting s' + requestEvents s ≤ waiting s + requestEvents s') : Inv s' := by
  obtain ⟨h1, h2, h3, h4⟩ := hi
  refine ⟨?_, ?_, ?_, ?_⟩
  · rw [hl, h1]; simp [current, hm, hr, hp]
  · intro i b h; rw [hm] at h; simpa [St.n, hr] using h2 i b h
  · rw [hh, hp, h3]; simp [inPass, hm]
  · omega

/-- a step from the idle manager into a new pass -/
theorem inv_handoff {s s' : St} (hi : Inv s) (hidle : s.mgr = .idle) (hr : s'.reloadable = s.reloadable)
    (hm : s'.mgr = .pass 0 false) (hp : s'.passes = s.passes) (hh : s'.handed = s.handed + 1)
    (hl : s'.log = s.log) (hw : waiting s' = waiting s) : Inv s' := by
  obtain ⟨h1, h2, h3, h4⟩ := hi
  refine ⟨?_, ?_, ?_, ?_⟩
  · simp only [reloadLog, hl] at *; rw [h1]; simp [current, hm, hidle, hr, hp, passUpTo]
  · intro i b h; rw [hm] at h; simp at h; obtain ⟨rfl, rfl⟩ := h; simp
  · rw [hh, hp, h3]; simp [inPass, hm, hidle]
  · simp only [requestEvents, hl] at *; omega

theorem inv_step {s s' : St} {a : Act} (hi : Inv s) (hs : step s a = some s') : Inv s' := by
  cases a with
  | allCall =>
    simp only [step, Option.some.injEq] at hs; subst hs
    exact inv_frame hi rfl rfl rfl rfl (by simp [St.emit, reloadLog, isReload, List.filter_append])
      (by simp [St.emit, waiting, requestEvents, List.filter_append]; omega)
  | allReturn =>
    simp only [step] at hs; split at hs <;> simp at hs; subst hs
    exact inv_frame hi rfl rfl rfl rfl (by simp [St.emit, reloadLog, isReload, List.filter_append])
      (by simp [St.emit, waiting, requestEvents, List.filter_append])
  | hup =>
    simp only [step, Option.some.injEq] at hs; subst hs
    exact inv_frame hi rfl rfl rfl rfl (by simp [St.emit, reloadLog, isReload, List.filter_append])
      (by simp [St.emit, waiting, requestEvents, List.filter_append]; omega)
  | hupSpawn =>
    simp only [step] at hs; split at hs <;> simp at hs; subst hs
    exact inv_frame hi rfl rfl rfl rfl rfl (by simp [waiting, requestEvents]; omega)
  | hupDrop =>
    simp only [step] at hs; split at hs <;> simp at hs; subst hs
    exact inv_frame hi rfl rfl rfl rfl rfl (by simp [waiting, requestEvents])
  | trigIntent j =>
    simp only [step, Option.some.injEq] at hs; subst hs
    exact inv_frame hi rfl rfl rfl rfl (by simp [St.emit, reloadLog, isReload, List.filter_append])
      (by simp [St.emit, waiting, requestEvents, List.filter_append]; omega)
  | trigRecv j =>
    simp only [step] at hs; split at hs <;> simp at hs; subst hs
    rename_i hc
    simp only [Bool.and_eq_true] at hc
    have hmem : j ∈ s.intents := by simpa using hc.2
    have hlen := List.length_erase_of_mem hmem
    have hpos : 0 < s.intents.length := List.length_pos_of_mem hmem
    exact inv_frame hi rfl rfl rfl rfl rfl (by simp [waiting, requestEvents]; omega)
  | trigDelivered j =>
    simp only [step] at hs; split at hs <;> simp at hs; subst hs
    exact inv_frame hi rfl rfl rfl rfl (by simp [St.emit, reloadLog, isReload, List.filter_append])
      (by simp [St.emit, waiting, requestEvents, List.filter_append])
  | handoffAll =>
    simp only [step] at hs; split at hs <;> simp at hs; subst hs
    rename_i hc
    simp only [Bool.and_eq_true, decide_eq_true_eq] at hc
    exact inv_handoff hi (by simpa using hc.1) rfl rfl rfl rfl rfl (by have := hc.2; simp [waiting]; omega)
  | handoffHup =>
    simp only [step] at hs; split at hs <;> simp at hs; subst hs
    rename_i hc
    simp only [Bool.and_eq_true, decide_eq_true_eq] at hc
    exact inv_handoff hi (by simpa using hc.1) rfl rfl rfl rfl rfl (by have := hc.2; simp [waiting]; omega)
  | handoffL j =>
    simp only [step] at hs; split at hs <;> simp at hs; subst hs
    rename_i hc
    simp only [Bool.and_eq_true] at hc
    have hmem : j ∈ s.holding := by simpa using hc.2
    have hlen := List.length_erase_of_mem hmem
    have hpos : 0 < s.holding.length := List.length_pos_of_mem hmem
    exact inv_handoff hi (by simpa using hc.1) rfl rfl rfl rfl rfl (by simp [waiting]; omega)
  | passStep =>
    obtain ⟨h1, h2, h3, h4⟩ := hi
    simp only [step] at hs
    split at hs
    · rename_i i hm
      obtain ⟨hin, _⟩ := h2 i false hm
      split at hs
      · rename_i hlt
        split at hs
        · rename_i hr
          simp only [Option.some.injEq] at hs; subst hs
          refine ⟨?_, ?_, ?_, ?_⟩
          · rw [reloadLog_emit]; simp only [isReload, if_true]
            rw [show reloadLog { s with mgr := Mgr.pass i true } = reloadLog s from rfl, h1]
            simp [current, hm]
          · intro i' b h; simp at h; obtain ⟨rfl, rfl⟩ := h
            exact ⟨hin, fun _ => ⟨hlt, hr⟩⟩
          · simp [inPass, hm] at *; exact h3
          · simpa [St.emit, waiting, requestEvents, List.filter_append] using h4
        · rename_i hr
          have hr' : s.reloadable[i]?.getD false = false := by simpa using hr
          simp only [Option.some.injEq] at hs; subst hs
          refine ⟨?_, ?_, ?_, ?_⟩
          · show reloadLog s = _
            rw [h1]; simp [current, hm, passUpTo_succ, hr']
          · intro i' b h; simp at h; obtain ⟨rfl, rfl⟩ := h
            simp [St.n] at *; omega
          · simp [inPass, hm] at *; exact h3
          · simpa [waiting, requestEvents] using h4
      · rename_i hge
        simp only [Option.some.injEq] at hs; subst hs
        have hin' : i = s.reloadable.length := by simp [St.n] at *; omega
        refine ⟨?_, ?_, ?_, ?_⟩
        · show reloadLog s = _
          rw [h1]; simp [current, hm, hin', onePass_eq, List.replicate_succ']
        · intro i' b h; simp at h
        · simp [inPass, hm] at *; omega
        · simpa [waiting, requestEvents] using h4
    · simp at hs
  | reloadReturn =>
    obtain ⟨h1, h2, h3, h4⟩ := hi
    simp only [step] at hs
    split at hs
    · rename_i i hm
      obtain ⟨hin, hb⟩ := h2 i true hm
      obtain ⟨hlt, hr⟩ := hb rfl
      have hr' : s.reloadable[i]?.getD false = true := by simpa using hr
      simp only [Option.some.injEq] at hs; subst hs
      refine ⟨?_, ?_, ?_, ?_⟩
      · rw [reloadLog_emit]; simp only [isReload, if_true]
        rw [show reloadLog { s with mgr := Mgr.pass (i + 1) false } = reloadLog s from rfl, h1]
        simp [current, hm, passUpTo_succ, hr']
      · intro i' b h; simp at h; obtain ⟨rfl, rfl⟩ := h
        simp [St.n] at *; omega
      · simp [inPass, hm] at *; exact h3
      · simpa [St.emit, waiting, requestEvents, List.filter_append] using h4
    · simp at hs
  | ctxCancel =>
    simp only [step] at hs; split at hs <;> simp at hs; subst hs
    exact inv_frame hi rfl rfl rfl rfl rfl (by simp [waiting, requestEvents]; done)
  | mgrExit =>
    obtain ⟨h1, h2, h3, h4⟩ := hi
    simp only [step] at hs; split at hs <;> simp at hs; subst hs
    rename_i hc
    simp only [Bool.and_eq_true] at hc
    have hidle : s.mgr = .idle := by simpa using hc.1
    exact ⟨by simpa [reloadLog, current, hidle] using h1, by intro i b h; simp at h,
      by simp [inPass, hidle] at *; exact h3, by simpa [waiting, requestEvents] using h4⟩
  | listenerExit j =>
    simp only [step] at hs; split at hs <;> simp at hs; subst hs
    have hle : (s.holding.erase j).length ≤ s.holding.length := List.length_erase_le
    exact inv_frame hi rfl rfl rfl rfl rfl (by simp [waiting, requestEvents]; omega)

theorem inv_reach {rl sd : List Bool} {s : St} (h : Reachable rl sd s) : Inv s :=
  inv_of_reach (L := lts) Inv (inv_init rl sd) (fun _ _ _ hi hs => inv_step hi hs) h

/-- **(a) Passes.** In every reachable state the Reload events are `passes` complete passes —
each `Reload` begins and returns on every Reloadable runnable in registration order, the others
are left alone — followed by the prefix of the pass in progress: passes never overlap. -/
theorem c05_passes {rl sd : List Bool} {s : St} (h : Reachable rl sd s) :
    reloadLog s = (List.replicate s.passes (onePass s.reloadable)).flatten ++ current s :=
  (inv_reach h).shape

/-- **(b) Exactly one pass per accepted request, none without a request.** The number of passes
started equals the number of requests the manager accepted over the unbuffered channel, and
accepted + still-blocked requests never exceed the requests made: nothing is duplicated. -/
theorem c05_one_pass_per_request {rl sd : List Bool} {s : St} (h : Reachable rl sd s) :
    s.passes + inPass s = s.handed ∧ s.handed ≤ requestEvents s := by
  have hi := inv_reach h
  exact ⟨hi.handed.symm, by have := hi.issued; simp only [waiting] at this; omega⟩

/-- **A trigger of a ReloadSender is taken** (no request is lost while running): in every state in which the
supervisor runs a reload manager (some runnable is Reloadable), runnable `j` is a ReloadSender — Reloadable itself or
not — and its listener is neither holding an earlier trigger nor gone, a pending send on `j`'s trigger channel can be
received: the listener's receive is enabled.  (The trace oracle checks the consequence at rest: no trigger intent is
left undelivered.) -/
theorem c05_trigger_taken (s : St) (j : Nat) (hs : s.sender.getD j false = true) (hm : s.reloadable.any id = true)
    (hfree : s.holding.contains j = false) (hlive : s.exitedL.contains j = false) (hpend : s.intents.contains j = true) :
    (step s (.trigRecv j)).isSome = true := by
  simp only [List.contains_eq_mem, decide_eq_false_iff_not, decide_eq_true_eq, List.getD_eq_getElem?_getD] at hs hfree hlive hpend
  simp [step, St.listening, hs, hm, hfree, hlive, hpend]

/-- the listener exists whether or not the sender is itself Reloadable: a sender-only runnable next to a Reloadable one -/
example : (step { (initSt [false, true] [true, false]) with intents := [0] } (.trigRecv 0)).isSome = true := by decide

end GoSup.Props.C05
