import Batteries.Data.List.Perm
import GoSup.Model.CompSeq
/-!
# C09 — property theorems (composite: running children = configured children)
Operation-level model; every history of public operations and child events, any pool size, any
configurations without repeated identities (repeated identities: finding C11-F1).
-/
namespace GoSup.Props.C09
open GoSup.CompSeq

theorem insertNat_perm (a : Nat) (l : List Nat) : (insertNat a l).Perm (a :: l) := by
  induction l with
  | nil => exact List.Perm.refl _
  | cons b t ih =>
    simp only [insertNat]
    split
    · exact List.Perm.refl _
    · exact (List.Perm.cons b ih).trans (List.Perm.swap a b t)

theorem insertNat_sorted (a : Nat) (l : List Nat) (h : l.Pairwise (· ≤ ·)) : (insertNat a l).Pairwise (· ≤ ·) := by
  induction l with
  | nil => simp [insertNat]
  | cons b t ih =>
    simp only [insertNat]
    have hb := List.pairwise_cons.mp h
    split
    · rename_i hab
      exact List.pairwise_cons.mpr ⟨fun x hx => by
        rcases List.mem_cons.mp hx with rfl | hx
        · exact hab
        · exact Nat.le_trans hab (hb.1 x hx), h⟩
    · rename_i hab
      refine List.pairwise_cons.mpr ⟨fun x hx => ?_, ih hb.2⟩
      have := (insertNat_perm a t).mem_iff.mp hx
      rcases List.mem_cons.mp this with rfl | hx'
      · omega
      · exact hb.1 x hx'

theorem sortNat_perm_self (l : List Nat) : (sortNat l).Perm l := by
  induction l with
  | nil => exact List.Perm.refl _
  | cons a t ih => exact (insertNat_perm a _).trans (List.Perm.cons a ih)

theorem sortNat_sorted (l : List Nat) : (sortNat l).Pairwise (· ≤ ·) := by
  induction l with
  | nil => simp [sortNat]
  | cons a t ih => exact insertNat_sorted a _ ih

theorem sortNat_perm {a b : List Nat} (h : a.Perm b) : sortNat a = sortNat b :=
  ((sortNat_perm_self a).trans (h.trans (sortNat_perm_self b).symm)).eq_of_pairwise
    (fun x y _ _ h1 h2 => Nat.le_antisymm h1 h2) (sortNat_sorted a) (sortNat_sorted b)

theorem unchanged_perm (old new : List Nat) (ho : old.Nodup) (hn : new.Nodup) (h : changed old new = false) :
    new.Perm old := by
  simp [changed] at h
  obtain ⟨hlen, hsub⟩ := h
  exact (List.subperm_of_subset hn (fun x hx => hsub x hx)).perm_of_length_le (by omega)

/-- an operation is *clean* when configurations name each child once and no child leaves on its
own with nil / a cancellation error (such a child is configured but legitimately not running) -/
def cleanOp : Op → Prop
  | .run (.ok es) => (names es).Nodup
  | .reload (.ok es) => (names es).Nodup
  | .childExit _ .nil | .childExit _ .cancelErr => False
  | _ => True

structure Inv (s : St) : Prop where
  nodup  : (names s.cfg).Nodup
  live   : s.ret = .none → s.fsm = .running → s.running = sortNat (names s.cfg)
  dead   : s.ret ≠ .none → s.running = []
  okRet  : s.ret ≠ .none → s.fsm ≠ .running
  fresh  : s.fsm = .new → s.running = [] ∧ s.ret = .none

theorem inv_step (s : St) (o : Op) (hi : Inv s) (hc : cleanOp o) : Inv (step s o) := by
  obtain ⟨h0, h1, h2, h3, h4⟩ := hi
  cases o with
  | run first =>
    simp only [step]
    split
    · exact ⟨h0, h1, h2, h3, h4⟩
    · rename_i hn
      simp at hn
      obtain ⟨hr0, hret⟩ := h4 hn
      cases first with
      | ok es => exact ⟨hc, fun _ _ => rfl, fun h => absurd hret h, fun h => absurd hret h, fun h => by simp at h⟩
      | err => exact ⟨h0, fun h => by simp at h, fun _ => hr0, by simp, fun h => by simp at h⟩
      | nil => exact ⟨h0, fun h => by simp at h, fun _ => hr0, by simp, fun h => by simp at h⟩
  | reload r =>
    simp only [step]
    split
    · exact ⟨h0, h1, h2, h3, h4⟩
    · rename_i hr
      simp at hr
      split
      · exact ⟨h0, fun _ h => by simp at h, fun h => absurd hr h, by simp, fun h => by simp at h⟩
      · rename_i hf
        simp at hf
        cases r with
        | err => exact ⟨h0, fun _ h => by simp at h, fun h => absurd hr h, by simp, fun h => by simp at h⟩
        | nil => exact ⟨h0, fun _ h => by simp at h, fun h => absurd hr h, by simp, fun h => by simp at h⟩
        | ok es =>
          simp only
          split
          · exact ⟨hc, fun _ _ => rfl, fun h => absurd hr h, fun h => absurd hr h, fun h => by simp [hf] at h⟩
          · rename_i hch
            simp at hch
            refine ⟨hc, fun _ _ => ?_, fun h => absurd hr h, fun h => absurd hr h, fun h => by simp [hf] at h⟩
            show s.running = sortNat (names es)
            rw [h1 hr hf]
            exact (sortNat_perm (unchanged_perm _ _ h0 hc hch)).symm
  | stop =>
    simp only [step]; split
    · exact ⟨h0, h1, h2, h3, h4⟩
    · exact ⟨h0, fun h => by simp at h, fun _ => rfl, by simp, fun h => by simp at h⟩
  | cancel =>
    simp only [step]; split
    · exact ⟨h0, h1, h2, h3, h4⟩
    · exact ⟨h0, fun h => by simp at h, fun _ => rfl, by simp, fun h => by simp at h⟩
  | childExit c out =>
    cases out with
    | realErr =>
      simp only [step]; split
      · exact ⟨h0, h1, h2, h3, h4⟩
      · exact ⟨h0, fun h => by simp at h, fun _ => rfl, by simp, fun h => by simp at h⟩
    | nil => exact absurd hc (by simp [cleanOp])
    | cancelErr => exact absurd hc (by simp [cleanOp])

/-- **Conservation.** After any history of clean operations (any length), if the composite is
Running and `Run` has not returned, the running children are exactly the children of the current
configuration — each once, no other — and once `Run` has returned no child is running. -/
theorem c09_conserve (ops : List Op) (hclean : ∀ o ∈ ops, cleanOp o) :
    let s := run {} ops
    (s.ret = .none → s.fsm = .running → s.running = sortNat (names s.cfg)) ∧ (s.ret ≠ .none → s.running = []) := by
  have key : ∀ (ops : List Op) (s : St), Inv s → (∀ o ∈ ops, cleanOp o) → Inv (run s ops) := by
    intro ops
    induction ops with
    | nil => intro s hi _; exact hi
    | cons o os ih =>
      intro s hi hc
      simp only [run, List.foldl_cons]
      exact ih _ (inv_step s o hi (hc o (by simp))) (fun o' ho' => hc o' (by simp [ho']))
  have hinit : Inv {} := ⟨by simp [names], fun _ h => by simp at h, fun h => by simp at h, fun h => by simp at h, fun _ => ⟨rfl, rfl⟩⟩
  have := key ops {} hinit hclean
  exact ⟨this.live, this.dead⟩

/-- non-vacuity: grow, permute in place, shrink, then stop -/
example : (run {} [.run (.ok [(0, 1)]), .reload (.ok [(0, 1), (1, 1), (2, 1)]), .reload (.ok [(2, 5), (0, 2), (1, 3)]),
    .reload (.ok [(1, 0)])]).running = [1] := by decide

end GoSup.Props.C09
