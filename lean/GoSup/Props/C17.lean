import GoSup.Proofs.Locks
/-!
# C17 — property theorems (public API free of data races)
-/
namespace GoSup.Props.C17
open GoSup.Locks

/-- **Discipline ⇒ no race.** In every reachable state of the lock machine, two different threads
are never inside conflicting accesses (same variable, at least one write) — for any number of
threads, locks and variables and any schedule. -/
theorem discipline_sound (guard : Var → Lock) (s : St) (h : Reach guard s) (t1 t2 : Tid) (x : Var) (w1 w2 : Bool)
    (h1 : s.inAcc t1 = some (x, w1)) (h2 : s.inAcc t2 = some (x, w2)) (hne : t1 ≠ t2)
    (hw : w1 = true ∨ w2 = true) : False := by
  have hi := inv_reach h
  have a1 := hi.held t1 x w1 h1
  have a2 := hi.held t2 x w2 h2
  cases w1 <;> cases w2 <;> simp at hw a1 a2
  · -- t2 writes, t1 reads
    rcases a1 with a1 | a1
    · rw [a1] at a2; simp at a2; exact hne a2
    · have := hi.excl (guard x) t2 a2 t1; simp [this] at a1
  · rcases a2 with a2 | a2
    · rw [a1] at a2; simp at a2; exact hne a2
    · have := hi.excl (guard x) t1 a1 t2; simp [this] at a2
  · rw [a1] at a2; simp at a2; exact hne a2

/-! ## instantiation: the regenerated access table of the runner structs -/

/-- holds `m` at least shared / exclusively -/
def holdsR (ls : List String) (m : String) : Bool := ls.contains (m ++ ":R") || ls.contains (m ++ ":W")
def holdsW (ls : List String) (m : String) : Bool := ls.contains (m ++ ":W")

def inter (a b : List String) : List String := a.filter b.contains

abbrev Call := String × String × List String × Bool
abbrev Access := String × String × String × String × List String × String

/-- locks certainly held on entry of `fn`: nothing for exported methods (callable from outside)
and for functions started as goroutines; otherwise the intersection over the internal call sites
of (what the caller certainly holds) ∪ (what it holds at the call) -/
def entryLocks (exportedFns : List String) (calls : List Call) : Nat → String → List String
  | 0, _ => []
  | d + 1, fn =>
    if exportedFns.contains fn then [] else
    let sites := calls.filter fun c => c.2.1 == fn
    match sites with
    | [] => []
    | c :: cs =>
      let heldAt (c : Call) : List String :=
        if c.2.2.2 then c.2.2.1 else entryLocks exportedFns calls d c.1 ++ c.2.2.1
      cs.foldl (fun acc c' => inter acc (heldAt c')) (heldAt c)

def effLocks (exportedFns : List String) (calls : List Call) (a : Access) : List String :=
  if a.2.2.2.2.2 == "go" then a.2.2.2.2.1 else a.2.2.2.2.1 ++ entryLocks exportedFns calls 4 a.2.2.2.1

/-- the discipline on one field: no post-construction write at all, or one mutex held exclusively
at every write and at least shared at every other access, or a listed protocol field -/
def fieldOk (exportedFns mutexNames : List String) (calls : List Call) (acc : List Access)
    (protocol : List (String × String × String)) (st f : String) : Bool :=
  let mine := acc.filter fun a => a.1 == st && a.2.1 == f && a.2.2.2.2.2 != "ctor"
  let writes := mine.filter fun a => a.2.2.1 == "W"
  writes.isEmpty
  || (protocol.any fun p => p.1 == st && p.2.1 == f)
  || mutexNames.any fun m =>
      (writes.all fun a => holdsW (effLocks exportedFns calls a) m)
      && (mine.all fun a => holdsR (effLocks exportedFns calls a) m)

def disciplined (exportedFns mutexNames : List String) (calls : List Call) (acc : List Access)
    (protocol : List (String × String × String)) : Bool :=
  acc.all fun a => fieldOk exportedFns mutexNames calls acc protocol a.1 a.2.1

end GoSup.Props.C17
