import GoSup.Proofs.CompLts3
import GoSup.Proofs.HttpLts
/-!
# C08 — the result clause under every interleaving: at the moment `Run()` returns, the state is `Stopped` iff it returns nil, `Error` otherwise

Stated for the two concurrent models: whatever `Reload()`, `Stop()`, cancellation and child / server events are
interleaved with the single `Run()`, the step that makes `Run()` return leaves the state machine in `Stopped` exactly
when the result is nil and in `Error` for every other result.  (Afterwards a late `Reload()` of a composite may still
move a `Stopped` runner to `Error`: the clause is about the moment of the return, which is when the harness reads
the state.)
-/
namespace GoSup.Props.C08L
open GoSup.Core
open GoSup.CompSeq (Fsm)

section composite
open GoSup.CompLts

theorem c08_result_comp {b : List Nat} {s s' : St} {a : Act} (h : Reach lts (init b) s) (hs : step s a = some s')
    (hnot : ∀ r, s.run ≠ .returned r) {r : RRet} (hret : s'.run = .returned r) :
    (r = .nil ↔ s'.fsm = .stopped) ∧ (r ≠ .nil → s'.fsm = .error) := by
  obtain ⟨hi, _⟩ := inv12_reach h
  have h3 := inv3_reach h
  have hidle : s.run = .idle → s.fsm = .new ∨ s.fsm = .error := by
    intro hr
    rcases (hi.early (Or.inl hr)).2.2.2 with h1 | h1 | h1
    · exact Or.inl h1
    · rcases h3.booting h1 with h2 | h2 | h2 <;> rw [hr] at h2 <;> cases h2
    · exact Or.inr h1
  have hfail := h3.failing
  cases a <;> simp only [step] at hs
  all_goals
    repeat' (split at hs)
    all_goals first
      | (cases hs; done)
      | (cases hs; simp at hret; done)
      | (cases hs; exact absurd hret (hnot r))
      | (cases hs; exact absurd (by simpa using hret) (hnot r))
      | (cases hs; simp only [RunPc.returned.injEq, cancelLive_run, boot_run] at hret; subst hret
         simp_all [tr_eq_some, tr_eq_none] <;> (try (cases hx : s.fsm <;> simp_all [allowed])))

end composite

section http
open GoSup.HttpLts

/-- while the HTTP runner's `Run` has not reached its `select` the state is `New` (before `Run`) or `Booting` -/
theorem c08_result_http {s s' : St} {a : Act} (h : Reach lts init s) (hs : step s a = some s')
    (hnot : ∀ r, s.run ≠ .returned r) {r : RRet} (hret : s'.run = .returned r) :
    (r = .nil ↔ s'.fsm = .stopped) ∧ (r ≠ .nil → s'.fsm = .error) := by
  have hi := inv_reach h
  have hidle : s.run = .idle → s.fsm = .new := fun hr => (hi.early (by simp [early, hr])).2.1 hr
  cases a <;> simp only [step] at hs
  all_goals
    repeat' (split at hs)
    all_goals first
      | (cases hs; done)
      | (cases hs; simp at hret; done)
      | (cases hs; exact absurd hret (hnot r))
      | (cases hs; exact absurd (by simpa using hret) (hnot r))
      | (cases hs; simp only [RunPc.returned.injEq, stopServer_run] at hret; subst hret
         simp_all [tr, allowed] <;> (try (cases hx : s.fsm <;> simp_all [allowed])))

end http

end GoSup.Props.C08L
