import GoSup.Model.ClusterRun
/-!
# C08 for the cluster: the state walk of `Run()`, for any number of configuration maps

`Run()` of a fresh cluster walks `Booting, Running, (Reloading, Running)ⁿ, Stopping, Stopped` and returns nil; from any
other state it refuses to start, moves to `Error` and returns an error.  Every step is a table edge or an entry into
`Error`; the result clause (nil ⇔ `Stopped`, otherwise `Error`) holds for every start state and every number of maps.
-/
namespace GoSup.Props.C08C
open GoSup.CompSeq (Fsm)
open GoSup.ClusterRun
open GoSup.CompLts (allowed)

theorem update_running : update .running = (.running, [.reloading, .running]) := by decide

theorem updates_running (n : Nat) :
    updates n .running = (.running, (List.replicate n [Fsm.reloading, Fsm.running]).flatten) := by
  induction n with
  | zero => rfl
  | succ n ih => simp [updates, update_running, ih, List.replicate_succ]

/-- **the walk of a fresh cluster**, for any number of processed maps -/
theorem c08_cluster_walk (n : Nat) :
    runWalk .new n = { final := .stopped,
                       visited := [.booting, .running] ++ (List.replicate n [Fsm.reloading, Fsm.running]).flatten ++ [.stopping, .stopped],
                       nil := true } := by
  have hb : tr .new .booting = some .booting := by decide
  have hr : tr .booting .running = some .running := by decide
  have hs : shutdown .running = (.stopped, [.stopping, .stopped]) := by decide
  simp only [runWalk, hb, hr, updates_running, hs]

/-- **a `Run()` that does not start from `New` refuses**: state `Error`, an error is returned, nothing else is entered -/
theorem c08_cluster_refuses (start : Fsm) (h : start ≠ .new) (n : Nat) :
    runWalk start n = { final := .error, visited := [.error], nil := false } := by
  cases start <;> first | exact absurd rfl h | rfl

/-- **the result clause for the cluster** (C08): whatever the start state and the number of maps, `Run()` returns nil exactly
when it leaves the state `Stopped`, and otherwise leaves `Error` -/
theorem c08_result_cluster (start : Fsm) (n : Nat) :
    ((runWalk start n).nil = true ↔ (runWalk start n).final = .stopped) ∧
    ((runWalk start n).nil = false → (runWalk start n).final = .error) := by
  by_cases h : start = .new
  · subst h; rw [c08_cluster_walk]; simp
  · rw [c08_cluster_refuses start h]; simp

/-- a step of the property's graph: a table edge, or an entry into `Error` -/
def edge (a b : Fsm) : Bool := allowed a b || b == .error

def isWalk : Fsm → List Fsm → Bool
  | _, [] => true
  | a, b :: rest => edge a b && isWalk b rest

theorem isWalk_append (a : Fsm) (l1 l2 : List Fsm) :
    isWalk a (l1 ++ l2) = (isWalk a l1 && isWalk ((l1.getLast?).getD a) l2) := by
  induction l1 generalizing a with
  | nil => simp [isWalk]
  | cons b rest ih =>
    simp only [List.cons_append, isWalk, ih, Bool.and_assoc]
    cases rest with
    | nil => simp
    | cons c r =>
      cases hg : (c :: r).getLast? with
      | none => simp at hg
      | some x => simp [hg]

theorem isWalk_reloads (n : Nat) : isWalk .running (List.replicate n [Fsm.reloading, Fsm.running]).flatten = true
    ∧ ((List.replicate n [Fsm.reloading, Fsm.running]).flatten.getLast?).getD .running = .running := by
  induction n with
  | zero => simp [isWalk]
  | succ n ih =>
    simp only [List.replicate_succ, List.flatten_cons, List.cons_append, List.nil_append, isWalk]
    refine ⟨by simp [ih.1]; decide, ?_⟩
    cases hl : (List.replicate n [Fsm.reloading, Fsm.running]).flatten with
    | nil => simp
    | cons x xs =>
      have := ih.2
      rw [hl] at this
      simp only [List.getLast?_cons_cons]
      exact this

/-- **every state the cluster's `Run()` enters is reached along an edge of the table (or is `Error`)**, from any start state
and for any number of maps -/
theorem c08_cluster_edges (start : Fsm) (n : Nat) : isWalk start (runWalk start n).visited = true := by
  by_cases h : start = .new
  · subst h
    rw [c08_cluster_walk]
    simp only
    rw [isWalk_append, isWalk_append]
    obtain ⟨h1, h2⟩ := isWalk_reloads n
    have hl : (([Fsm.booting, Fsm.running] ++ (List.replicate n [Fsm.reloading, Fsm.running]).flatten).getLast?).getD .new = .running := by
      cases hf : (List.replicate n [Fsm.reloading, Fsm.running]).flatten with
      | nil => simp
      | cons x xs =>
        rw [hf] at h2
        simp only [List.cons_append, List.nil_append, List.getLast?_cons_cons]
        exact h2
    rw [hl]
    simp only [List.getLast?_cons_cons, List.getLast?_singleton, Option.getD_some, h1, Bool.and_true]
    decide
  · rw [c08_cluster_refuses start h]; simp [isWalk, edge]

/-- the statements are about non-trivial walks: three maps -/
example : (runWalk .new 3).visited =
    [.booting, .running, .reloading, .running, .reloading, .running, .reloading, .running, .stopping, .stopped] := by decide

end GoSup.Props.C08C
