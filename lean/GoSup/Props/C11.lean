import Batteries.Data.List.Perm
import GoSup.Model.Member
import GoSup.Model.CompSeq
import GoSup.Spec.C11
/-!
# C11 — property theorems (composite reload: membership decision, in place vs restart)
-/
namespace GoSup.Props.C11
open GoSup.Member GoSup.Spec.C11

/-- the decision as a proposition -/
theorem changed_false_iff (old new : List String) :
    changed old new = false ↔ old.length = new.length ∧ ∀ x ∈ new, x ∈ old := by
  simp [changed]

/-- **Membership decision, duplicate-free configurations.** For configurations that name every
runnable identity once (lists of any length), `hasMembershipChanged` is false exactly when the two
identity sets are equal — in particular a permutation counts as unchanged. -/
theorem member_spec_nodup (old new : List String) (ho : old.Nodup) (hn : new.Nodup) :
    changed old new = false ↔ (∀ x, x ∈ old ↔ x ∈ new) := by
  rw [changed_false_iff]
  constructor
  · rintro ⟨hlen, hsub⟩
    have hsp : new.Subperm old := List.subperm_of_subset hn (fun x hx => hsub x hx)
    have hp : new.Perm old := hsp.perm_of_length_le (by omega)
    intro x; exact (hp.mem_iff).symm
  · intro h
    have hsp1 : new.Subperm old := List.subperm_of_subset hn (fun x hx => (h x).mpr hx)
    have hsp2 : old.Subperm new := List.subperm_of_subset ho (fun x hx => (h x).mp hx)
    exact ⟨Nat.le_antisymm hsp2.length_le hsp1.length_le, fun x hx => (h x).mpr hx⟩

/-- the executable statement used as oracle agrees with the decision on duplicate-free lists -/
theorem holdsMember_model (old new : List String) (ho : old.Nodup) (hn : new.Nodup) :
    holdsMember old new (changed old new) = true := by
  have key : sameSet old new = true ↔ (∀ x, x ∈ old ↔ x ∈ new) := by
    simp only [sameSet, Bool.and_eq_true, List.all_eq_true, List.contains_iff_mem]
    exact ⟨fun h x => ⟨h.1 x, h.2 x⟩, fun h => ⟨fun x hx => (h x).mp hx, fun x hx => (h x).mpr hx⟩⟩
  simp only [holdsMember, beq_iff_eq]
  cases hc : changed old new with
  | false =>
    have := key.mpr ((member_spec_nodup old new ho hn).mp hc)
    simp [this]
  | true =>
    cases hs : sameSet old new with
    | false => rfl
    | true =>
      have : changed old new = false := (member_spec_nodup old new ho hn).mpr (key.mp hs)
      simp [this] at hc

/-- **The full statement is false** (finding C11-F1): with a repeated identity a changed set is
reported as unchanged, and an unchanged set as changed. -/
theorem member_spec_fails_with_duplicates :
    (changed ["a", "b"] ["a", "a"] = false ∧ sameSet ["a", "b"] ["a", "a"] = false)
    ∧ (changed ["a", "a"] ["a"] = true ∧ sameSet ["a", "a"] ["a"] = true) := by
  decide

open GoSup.CompSeq in
/-- **Reload, operation level.** On a Running composite whose `Run` has not returned: a callback
error or nil configuration leaves configuration and children untouched and gives `Error`; an
unchanged membership replaces the configuration and touches no child; a changed membership makes
exactly the new set run. -/
theorem c11_reload (s : St) (hr : s.ret = .none) (hf : s.fsm = .running) :
    (step s (.reload .err)).fsm = .error ∧ (step s (.reload .err)).cfg = s.cfg ∧ (step s (.reload .err)).running = s.running
    ∧ (step s (.reload .nil)).fsm = .error ∧ (step s (.reload .nil)).cfg = s.cfg ∧ (step s (.reload .nil)).running = s.running
    ∧ ∀ es, (step s (.reload (.ok es))).cfg = es ∧ (step s (.reload (.ok es))).fsm = .running
        ∧ (step s (.reload (.ok es))).running =
            if GoSup.CompSeq.changed (names s.cfg) (names es) then sortNat (names es) else s.running := by
  simp only [step, hr, hf]
  refine ⟨by simp, by simp, by simp, by simp, by simp, by simp, ?_⟩
  intro es
  by_cases hc : GoSup.CompSeq.changed (names s.cfg) (names es) = true <;> simp [hc]

end GoSup.Props.C11
