import GoSup.Model.Planner
/-! # C11 — property theorems -/
namespace GoSup.Props.C11
end GoSup.Props.C11
