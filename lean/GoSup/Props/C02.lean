import GoSup.Proofs.SupReturn
/-! # C02 — property theorems (shutdown completes, never crashes) -/
namespace GoSup.Props.C02
open GoSup.Sup GoSup.Core

/-- **Nothing a runnable does can panic the supervisor.** The only operations of the modelled
code that can panic are a send on the closed `errorChan` (explicit `panicked := true` transition
of `rgSend`); the repaired `Shutdown` never closes the channel, so the flag is unreachable —
whatever the runnables do and however late they return an error. -/
theorem c02_no_panic {caps : List Caps} {u : Nat} {s : St} (h : Reachable caps u s) :
    s.panicked = false ∧ s.errClosed = false := by
  have := (stopInv_reach h).noErrClose
  exact ⟨this.2, this.1⟩

/-- the actions of the thread that executes the body of `Shutdown()`, plus the two environment events it
waits for: a runnable's `Stop()` returning and the shutdown timer firing -/
def isBodyAct : Act → Bool
  | .sdStopInvoke | .stopReturn | .sdCancel | .sdWaitDone | .shutdownTimeout | .sdClose => true
  | _ => false

/-- **The body of `Shutdown()` is never stuck** (any state, reachable or not): while it is under way,
its next action is enabled — it calls the next `Stop()`, or cancels the context, or, while it waits,
the timer can fire — except that inside a `Stop()` call it waits for that call to return, which is
the hypothesis of the property ("Stop blocks at most until its Run has returned"). In particular it
never waits for anything but a runnable's `Stop()` and the bounded wait for the goroutines. -/
theorem c02_body_never_stuck (s : St) (h1 : s.sd ≠ .idle) (h2 : s.sd ≠ .finished) :
    ∃ a, isBodyAct a = true ∧ (step s a).isSome = true := by
  cases hsd : s.sd with
  | idle => exact absurd hsd h1
  | finished => exact absurd hsd h2
  | waiting => exact ⟨.shutdownTimeout, rfl, by simp [step, hsd]⟩
  | afterWait b => exact ⟨.sdClose, rfl, by simp [step, hsd]⟩
  | stopping k b =>
    cases b with
    | true => exact ⟨.stopReturn, rfl, by simp [step, hsd]⟩
    | false =>
      cases k with
      | zero => exact ⟨.sdCancel, rfl, by simp [step, hsd]⟩
      | succ k => exact ⟨.sdStopInvoke, rfl, by simp [step, hsd]⟩

/-- **`Shutdown()` can always be completed**: from any state in which its body still has `k` runnables to
stop, the sequence "call Stop, Stop returns" `k` times, cancel, timer (or goroutines done), close
leads to the end of the body with the `Once` released — for every `k`, i.e. for any number of runnables. -/
theorem c02_body_can_finish (k : Nat) (s : St) (hsd : s.sd = .stopping k false) :
    ∃ as s', (∀ a ∈ as, isBodyAct a = true) ∧ run lts s as = some s' ∧ s'.sd = .finished ∧ s'.once = .done := by
  induction k generalizing s with
  | zero =>
    refine ⟨[.sdCancel, .shutdownTimeout, .sdClose],
      { s with sd := .finished, once := .done, ctx := true, byShutdown := true }, by simp [isBodyAct], ?_, rfl, rfl⟩
    simp [run, lts, step, hsd]
  | succ k ih =>
    -- one Stop() call and its return
    let s1 : St := ({ s with sd := .stopping (k + 1) true }.emit (.stopInvoke k))
    let s2 : St := ({ s1 with sd := .stopping k false }.emit (.stopReturn k))
    have h1 : step s .sdStopInvoke = some s1 := by simp [step, hsd, s1]
    have h2 : step s1 .stopReturn = some s2 := by simp [step, s1, s2, St.emit]
    obtain ⟨as, s', hall, hrun, hfin, honce⟩ := ih s2 (by simp [s2, St.emit])
    refine ⟨.sdStopInvoke :: .stopReturn :: as, s', ?_, ?_, hfin, honce⟩
    · intro a ha
      simp only [List.mem_cons] at ha
      rcases ha with rfl | rfl | ha
      · rfl
      · rfl
      · exact hall a ha
    · simp only [run, lts] at hrun ⊢
      simp [h1, h2, hrun]

end GoSup.Props.C02
