import GoSup.Proofs.SupReturn
/-! # C02 — property theorems (shutdown completes, never crashes) -/
namespace GoSup.Props.C02
open GoSup.Sup GoSup.Core

/-- **Nothing a runnable does can panic the supervisor.** The only operations of the modelled
code that can panic are a send on the closed `errorChan` (explicit `panicked := true` transition
of `rgSend`); the repaired `Shutdown` never closes the channel, so the flag is unreachable —
whatever the runnables do and however late they return an error. -/
theorem c02_no_panic {caps : List Caps} {u : Nat} {s : St} (h : Reachable caps u s) :
    s.panicked = false ∧ s.errClosed = false := by
  have := (stopInv_reach h).noErrClose
  exact ⟨this.2, this.1⟩

end GoSup.Props.C02
