import GoSup.Proofs.SupErr
import GoSup.Proofs.SupGate
/-!
# C03 — property theorems (readiness-gated startup, clean abort)
-/
namespace GoSup.Props.C03
open GoSup.Sup GoSup.Core

def aborted (m : MainPc) : Prop := ∃ r, m = .sdCall r ∨ m = .returned r

macro "abort_case" hab:ident hs:ident : tactic =>
  `(tactic| (
    simp only [step] at $hs:ident
    repeat' split at $hs:ident
    all_goals first
      | (simp at $hs:ident; done)
      | (simp only [Option.some.injEq] at $hs:ident
         subst $hs:ident
         first
           | exact ⟨by simpa [aborted, St.emit] using $hab, fun i h => by simpa [St.emit] using h⟩
           | (exfalso; obtain ⟨r, hr'⟩ := $hab; rcases hr' with hr' | hr' <;> simp_all; done)
           | (refine ⟨by simpa [aborted, St.emit] using $hab, fun j h => ?_⟩
              simp only [St.emit, List.getElem?_set]
              split
              · rename_i hij; subst hij; simp_all
              · exact h))))

/-- **(c) After a failed gate nothing further is started.** Once the startup loop has left for
`Shutdown()` (gate error, startup timeout, or any `reap` branch), no step of any thread launches a
runnable that was not launched before, and the main goroutine never returns to the loop. -/
theorem c03_no_launch_after_abort (s s' : St) (a : Act) (hs : step s a = some s') (hab : aborted s.main) :
    aborted s'.main ∧ ∀ (i : Nat), s.rg[i]? = some Rg.none → s'.rg[i]? = some Rg.none := by
  cases a with
  | sendSig g => abort_case hab hs
  | sigDeliver k => abort_case hab hs
  | sigDrop k => abort_case hab hs
  | parentCancel => abort_case hab hs
  | userCall u => abort_case hab hs
  | trigger j => abort_case hab hs
  | runReturn i o => abort_case hab hs
  | stopReturn => abort_case hab hs
  | pollAns i b => abort_case hab hs
  | tickAns i b => abort_case hab hs
  | ctxSeen i => abort_case hab hs
  | shutdownTimeout => abort_case hab hs
  | startupTimeoutFire => abort_case hab hs
  | mainStart => abort_case hab hs
  | mainLaunch i => abort_case hab hs
  | gateWake i => abort_case hab hs
  | gateErr i => abort_case hab hs
  | gateTimeout i => abort_case hab hs
  | gateCtx i => abort_case hab hs
  | gateTickFire i => abort_case hab hs
  | reapErr => abort_case hab hs
  | reapCtx => abort_case hab hs
  | reapSig => abort_case hab hs
  | mainReturn =>
    simp only [step] at hs
    split at hs
    · split at hs
      · simp only [Option.some.injEq] at hs; subst hs
        exact ⟨⟨_, .inr rfl⟩, fun i h => by simpa [St.emit] using h⟩
      · simp at hs
    · simp at hs
  | rgInvoke i => abort_case hab hs
  | rgFinish i => abort_case hab hs
  | rgSend i => abort_case hab hs
  | onceEnter o => abort_case hab hs
  | sdStopInvoke => abort_case hab hs
  | sdCancel => abort_case hab hs
  | sdWaitDone => abort_case hab hs
  | sdClose => abort_case hab hs
  | userReturn u => abort_case hab hs
  | mgrExit m => abort_case hab hs
  | listenerFire j => abort_case hab hs
  | listenerCtx j => abort_case hab hs
  | listenerDone j => abort_case hab hs

/-- **(b) A runnable's Run is invoked only from the `spawned` state, which is left for good**:
`rgInvoke i` is the only action emitting `runInvoke i`, it requires `rg i = spawned` and moves
it to `inRun`. -/
theorem c03_invoke_once (s s' : St) (i : Nat) (hs : step s (.rgInvoke i) = some s') :
    s.rg[i]? = some .spawned ∧ s'.rg[i]? = some .inRun := by
  simp only [step] at hs
  split at hs
  · rename_i h
    simp only [Option.some.injEq] at hs; subst hs
    simp at h
    refine ⟨h, ?_⟩
    have : i < s.rg.length := by
      rcases Nat.lt_or_ge i s.rg.length with h1 | h1
      · exact h1
      · simp [List.getElem?_eq_none h1] at h
    simp [St.emit, this]
  · simp at hs

/-- **(a, one step) The loop passes a Stateable's gate only on `IsRunning() == true` or with the
supervisor context cancelled.** Every action that moves the main goroutine out of gate `i` to
the rest of the loop is a poll answered `true`, or requires `ctx`. -/
theorem c03_gate_exit (s s' : St) (a : Act) (i : Nat) (hs : step s a = some s')
    (hg : s.main = .gateSelect i ∨ s.main = .gatePoll i ∨ s.main = .gateTick i ∨ s.main = .gateSleep i)
    (hout : s'.main = s.next i) :
    a = .pollAns i true ∨ a = .tickAns i true ∨ s.ctx = true := by
  have hsd : ∀ r, MainPc.sdCall r ≠ s.next i := by
    intro r; simp only [St.next]; split <;> simp
  have hne : ∀ j, s.next i ≠ .gateSelect j ∧ s.next i ≠ .gatePoll j ∧ s.next i ≠ .gateTick j ∧ s.next i ≠ .gateSleep j := by
    intro j; simp only [St.next]; split <;> simp
  cases a <;> simp only [step] at hs <;> (repeat' split at hs) <;>
    first
    | (simp at hs; done)
    | (simp only [Option.some.injEq] at hs; subst hs
       simp_all [St.emit]
       done)
    | (simp only [Option.some.injEq] at hs; subst hs
       have := hne i
       rcases hg with hg | hg | hg | hg <;> simp_all [St.emit] <;>
         first | (exact absurd hout (hsd _)) | (subst_vars; exact absurd hout (hsd _)))

/-- **(a), every reachable state.** For any number of runnables, any capability mix, any number of
Shutdown() callers and any schedule: if the log shows that runnable `j`'s Run was invoked, then for
every Stateable runnable `i` registered before it the log shows a readiness poll answered `true`, or
the supervisor's context is cancelled. -/
theorem c03_gated (caps : List Caps) (users : Nat) (s : St) (h : Reachable caps users s) (j : Nat)
    (hinv : Ev.runInvoke j ∈ s.log) (i : Nat) (hlt : i < j) (hst : (capAt s i).stateable = true) :
    Ev.poll i true ∈ s.log ∨ s.ctx = true := by
  have hi := gateInv_reach h
  exact hi.launched j (hi.invoked j hinv) i hlt hst

/-- the hypotheses are met by a non-trivial run: a Stateable gate that needs two polls, then the second runnable -/
example : ∃ s, run lts (initSt [{ stateable := true }, {}] 0)
      [.mainStart, .mainLaunch 0, .rgInvoke 0, .gateWake 0, .pollAns 0 false, .gateTickFire 0, .tickAns 0 true,
       .mainLaunch 1, .rgInvoke 1] = some s
    ∧ Ev.runInvoke 1 ∈ s.log ∧ Ev.poll 0 true ∈ s.log ∧ s.ctx = false := by
  refine ⟨_, rfl, ?_, ?_, rfl⟩ <;> decide

end GoSup.Props.C03
