import GoSup.Proofs.CompLts
import GoSup.Proofs.CompLts2
import GoSup.Proofs.CompLts3
/-!
# C09 / C11 / C18 — the composite under every interleaving of `Run`, `Reload()`, `Stop()`, cancellation and child events

The theorems quantify over every reachable state of the concurrent model `CompLts` (any number of
reloads, generations, children, any schedule; children are arbitrary processes).
-/
namespace GoSup.Props.C09L
open GoSup.Core GoSup.CompLts
open GoSup.CompSeq (CbRes Out)

theorem inv_reach {b : List Nat} {s : St} (h : Reach lts (init b) s) : Inv s :=
  inv_of_reach Inv (inv_init b) (fun _ _ _ hi hs => inv_step hi hs) h

/-- **No child survives `Run()`** (C09, C18): in every state in which `Run()` has returned — and in every later
state, whatever a `Reload()` still in flight does afterwards — the context of every generation of children ever booted
is done: the generation was cancelled by `stopAllRunnables`, or it derives from the run context, which the deferred
`runCancel()` has ended.  A generation booted after the return (by a reload that was overtaken) is born cancelled. -/
theorem c09_none_survive {b : List Nat} {s : St} (h : Reach lts (init b) s) {r : RRet} (hr : s.run = .returned r) :
    ∀ g ∈ s.gens, Gen.done s g = true := by
  intro g hg
  have hi := inv_reach h
  simp [Gen.done, hi.g.fromRun g hg, hi.returned r hr]

/-- **At most one generation of children is alive** (C09, C11): whenever a generation's own context has not been
cancelled it is the one `r.childCancel` belongs to; so two generations are never alive together — a restart boots the
new children only after the generation before has been ended (the clause the repair C09-F2 established). -/
theorem c09_one_live_generation {b : List Nat} {s : St} (h : Reach lts (init b) s) {i j : Nat} {gi gj : Gen}
    (hi : s.gens[i]? = some gi) (hj : s.gens[j]? = some gj) (ci : gi.cancelled = false) (cj : gj.cancelled = false) : i = j := by
  have hinv := (inv_reach h).g
  have h1 := hinv.oneLive i gi hi ci
  have h2 := hinv.oneLive j gj hj cj
  rw [h1] at h2
  exact Option.some.inj h2

/-- **`boot` is never given a nil context** (C19 flavour): `reloadWithRestart` reads `r.ctx` only after `Run()` has set it. -/
theorem c09_no_nil_context {b : List Nat} {s : St} (h : Reach lts (init b) s) : s.nilBoot = false := (inv_reach h).nilBoot

/-- **A restart boots into a clean slate** (C11): in every state in which `reloadWithRestart` is between its
`stopAllRunnables` and its `boot`, no generation is alive. -/
theorem c11_restart_stops_first {b : List Nat} {s : St} (h : Reach lts (init b) s)
    (hrl : (∃ cfg, s.rl = .stoppedOld cfg) ∨ s.rl = .configSet) : ∀ g ∈ s.gens, g.cancelled = true := by
  intro g hg
  have hinv := inv_reach h
  have hl := hinv.rlLive hrl
  obtain ⟨i, hi⟩ := List.getElem?_of_mem hg
  cases hc : g.cancelled with
  | true => rfl
  | false =>
    have := hinv.g.oneLive i g hi hc
    rw [hl] at this; cases this

/-- **While Running with no reload in progress, exactly the configured children have been started** (C09, first
clause) — in every interleaving: whenever `Run` is waiting in its `select` and no `Reload()` is under way, the children
launched in the one live generation are, by the code's own membership criterion (`hasMembershipChanged = false`: same
number, every configured identity among them), the children of the configuration in force, each launched once; every
other generation has been cancelled.  (For configurations that name an identity twice the criterion is weaker than
equality: finding C11-F1.) -/
theorem c09_running_is_configured {b : List Nat} {s : St} (h : Reach lts (init b) s) (hrun : s.run = .select)
    (hrl : s.rl = .idle) :
    ∃ c, s.cfg = some c ∧ GoSup.CompSeq.changed (liveNames s) (GoSup.CompSeq.names c) = false
      ∧ (liveNames s).length = (GoSup.CompSeq.names c).length ∧ (∀ x ∈ GoSup.CompSeq.names c, x ∈ liveNames s)
      ∧ ∀ i g, s.gens[i]? = some g → s.live ≠ some i → g.cancelled = true := by
  obtain ⟨hi, h2⟩ := inv12_reach h
  obtain ⟨c, h1, hch⟩ := h2.conf (by simp [runEarly, hrun]) (by simp [rlCalm, hrl])
  have := (changed_false_iff _ _).mp hch
  refine ⟨c, h1, hch, this.1, this.2, ?_⟩
  intro i g hg hne
  cases hc : g.cancelled with
  | true => rfl
  | false => exact absurd (hi.g.oneLive i g hg hc) hne

/-- **A composite fails only for a child that failed** (C10, last clause): `Run()` returns `ErrRunnableFailed` naming
child `c` only if a `Run` of `c` really returned a non-cancellation error; children that exit with nil or a
cancellation error never enter `serverErrors`. -/
theorem c10_failed_is_real {b : List Nat} {s : St} (h : Reach lts (init b) s) {c : Nat}
    (hr : s.run = .returned (.failed c)) : ExitedErr s c :=
  (inv12_reach h).2.failing c (Or.inr (Or.inr hr))

/-- **A reported failure is taken** (C10): while `Run` waits in its `select` a pending child error enables the failure
arm, which moves the composite to Error and on to stopping every child, whichever child and whenever (also children
added by earlier reloads: `errs` does not care about generations). -/
theorem c10_failure_taken (s : St) (c : Nat) (rest : List Nat) (hrun : s.run = .select) (herr : s.errs = c :: rest) :
    step s .runSelErr = some { s with errs := rest, fsm := .error, run := .failToStop c } := by
  simp [step, hrun, herr]

/-! ## finding C09-F1 inside the model: `Stop()` overlapping a restart reload deadlocks with bundled-style children -/

def neverLaunched (s : St) (c : Nat) : Bool := s.gens.all fun g => g.children.all fun p => p.1 != c

/-- `Run` is inside its final `stopAllRunnables`, holding `runnablesMu`, waiting for the `Stop()` of child `c` of the
*new* configuration, which was never started; the reload is waiting for the same mutex in order to start it -/
structure Stuck (s : St) (c : Nat) (rest : List Nat) : Prop where
  blocking : s.blockers.contains c = true
  run   : s.run = .stopping (c :: rest)
  nodup : (c :: rest).Nodup
  mu    : s.mu = some .run
  rl    : s.rl = .configSet
  never : neverLaunched s c = true
  okd   : s.okd.contains c = false

theorem neverLaunched_setChild (s : St) (c g c' : Nat) (st : ChildSt) (h : neverLaunched s c = true) :
    neverLaunched (setChild s g c' st) c = true := by
  simp only [neverLaunched, List.all_eq_true, bne_iff_ne, ne_eq] at h ⊢
  intro x hx p hp
  simp only [setChild] at hx
  obtain ⟨i, hi⟩ := List.getElem?_of_mem hx
  rw [getElem?_modify'] at hi
  split at hi
  · cases hy : s.gens[i]? with
    | none => simp [hy] at hi
    | some y =>
      simp only [hy, Option.map_some, Option.some.injEq] at hi
      subst hi
      simp only [List.mem_map] at hp
      obtain ⟨q, hq, rfl⟩ := hp
      have := h y (List.mem_of_getElem? hy) q hq
      split
      · rename_i heq
        simp only [beq_iff_eq] at heq
        simpa [heq] using this
      · exact this
  · exact h x (List.mem_of_getElem? hi) p hp

theorem ranAndReturned_never {s : St} {c : Nat} (h : neverLaunched s c = true) : ranAndReturned s c = false := by
  simp only [neverLaunched, List.all_eq_true, bne_iff_ne, ne_eq] at h
  have : (s.gens.flatMap fun x => (x.children.filter (·.1 == c)).map (·.2)) = [] := by
    simp only [List.flatMap_eq_nil_iff, List.map_eq_nil_iff, List.filter_eq_nil_iff, beq_iff_eq]
    intro x hx p hp
    exact h x hx p hp
  simp [ranAndReturned, this]

/-- nothing any thread or child can do leads out of the stuck configuration: `Run` keeps waiting for the `Stop()` of `c`
(the other pending `Stop()`s may return) -/
theorem stuck_step {s s' : St} {c : Nat} {rest : List Nat} {a : Act} (h : Stuck s c rest) (hs : step s a = some s') :
    ∃ rest', Stuck s' c rest' := by
  obtain ⟨hb, hrun, hnd, hmu, hrl, hnever, hokd⟩ := h
  cases a <;> simp only [step, hrun, hmu, hrl, tr] at hs
  case stopCall =>
    cases hs; exact ⟨rest, hb, by simp, hnd, by simp, by simp, hnever, hokd⟩
  case cancelCtx =>
    cases hs; exact ⟨rest, hb, by simp, hnd, by simp, by simp, hnever, hokd⟩
  case reloadCall =>
    cases hs; exact ⟨rest, hb, by simp, hnd, by simp, by simp, hnever, hokd⟩
  case reloadAck st =>
    split at hs
    · cases hs; exact ⟨rest, hb, by simp, hnd, by simp, by simp, hnever, hokd⟩
    · cases hs
  case observe st =>
    split at hs
    · cases hs; exact ⟨rest, hb, hrun, hnd, hmu, hrl, hnever, hokd⟩
    · cases hs
  case childStopInv c' =>
    split at hs
    · cases hs
      by_cases hrr : ranAndReturned s c' = true
      · simp only [hrr, if_true]
        have hne : c' ≠ c := by
          intro heq; subst heq
          rw [ranAndReturned_never hnever] at hrr; cases hrr
        refine ⟨rest, hb, by simp, hnd, by simp, by simp, hnever, ?_⟩
        have hcc : (c == c') = false := by simpa using fun h' => hne h'.symm
        show (c' :: s.okd).contains c = false
        rw [List.contains_cons, hcc, hokd]; rfl
      · simp only [hrr, Bool.false_eq_true, if_false]
        exact ⟨rest, hb, hrun, hnd, hmu, hrl, hnever, hokd⟩
    · cases hs
  case childRun g c' =>
    split at hs
    · cases hs; exact ⟨rest, hb, hrun, hnd, hmu, hrl, neverLaunched_setChild _ _ _ _ _ hnever, hokd⟩
    · cases hs
  case childExit g c' o =>
    split at hs
    · cases hs
      split
      · exact ⟨rest, hb, hrun, hnd, hmu, hrl, neverLaunched_setChild _ _ _ _ _ hnever, hokd⟩
      · exact ⟨rest, hb, hrun, hnd, hmu, hrl, neverLaunched_setChild _ _ _ _ _ hnever, hokd⟩
    · cases hs
  case childExitDropped g c' =>
    split at hs
    · cases hs; exact ⟨rest, hb, hrun, hnd, hmu, hrl, neverLaunched_setChild _ _ _ _ _ hnever, hokd⟩
    · cases hs
  case childStopRet c' =>
    split at hs
    · rename_i hc
      simp only [Bool.and_eq_true, Bool.or_eq_true, Bool.not_eq_true'] at hc
      obtain ⟨hmem, hok⟩ := hc
      cases hs
      by_cases hcc : c' = c
      · subst hcc
        rcases hok with (hok | hok) | hok
        · rw [hb] at hok; cases hok
        · rw [ranAndReturned_never hnever] at hok; cases hok
        · rw [hokd] at hok; cases hok
      · -- another pending Stop() returned
        have hne : (c == c') = false := by simpa using fun h' => hcc h'.symm
        refine ⟨rest.erase c', hb, ?_, ?_, by simp, by simp, hnever, ?_⟩
        · simp [hne]
        · have := List.nodup_cons.mp hnd
          exact List.nodup_cons.mpr ⟨fun hm => this.1 (List.mem_of_mem_erase hm), this.2.erase c'⟩
        · cases hx : (s.okd.erase c').contains c with
          | false => rfl
          | true =>
            have : c ∈ s.okd := List.mem_of_mem_erase (by simpa using hx)
            simp [this] at hokd
    · cases hs
  all_goals (simp at hs)

/-- from a stuck configuration `Run()` never returns and the `Reload()` never finishes, whatever happens -/
theorem c09_f1_stuck_forever {s t : St} {c : Nat} {rest : List Nat} (h : Stuck s c rest) (hr : Reach lts s t) :
    (∀ r, t.run ≠ .returned r) ∧ t.rl = .configSet := by
  have : ∃ rest', Stuck t c rest' := by
    induction hr with
    | init => exact ⟨rest, h⟩
    | step _ hs ih => obtain ⟨r', hr'⟩ := ih; exact stuck_step hr' hs
  obtain ⟨r', this⟩ := this
  exact ⟨fun r hr => (by rw [this.run] at hr; cases hr), this.rl⟩

/-- the schedule of finding C09-F1: a restart reload `[0] → [1]` is overtaken by `Stop()` between its `setConfig`
and its `boot` -/
def f1Schedule : List Act :=
  [.runEnter, .runBoot (.ok [(0, 0)]), .runToRunning, .childRun 0 0,
   .reloadCall, .rlEnter, .rlCallback (.ok [(1, 0)]), .rlAfterCb, .rlDecide, .rlStopBegin, .childExit 0 0 .nil, .childStopRet 0, .rlStopEnd, .rlSetConfig,
   .stopCall, .runSelStop, .runToStopping, .runStopBegin]

/-- **C09-F1 is a behaviour of the model**: the stuck configuration is reachable with bundled-style children -/
theorem c09_f1_reachable : ∃ s, Reach lts (init [0, 1]) s ∧ Stuck s 1 [] := by
  have hrun : ∃ s, run lts (init [0, 1]) f1Schedule = some s ∧ s.blockers.contains 1 = true ∧ s.run = .stopping [1]
      ∧ s.mu = some .run ∧ s.rl = .configSet ∧ neverLaunched s 1 = true ∧ s.okd.contains 1 = false := by
    refine ⟨_, rfl, ?_⟩
    decide
  obtain ⟨s, hs, h1, h2, h3, h4, h5, h6⟩ := hrun
  exact ⟨s, reach_of_run hs, ⟨h1, h2, by simp, h3, h4, h5, h6⟩⟩

/-- with children whose `Stop()` never waits (`blocking = false`) the same schedule runs to the end: `Run()` returns
(with an error: `Transition(Stopped)` is refused in state Reloading), the reload returns, and the child the overtaken
reload booted afterwards is born with a context that is done -/
example : ∃ s, run lts (init [])
      (f1Schedule ++ [.childStopRet 1, .runStopEnd, .runFinish, .rlBoot, .rlFinish]) = some s
    ∧ s.run = .returned .other ∧ s.rl = .idle ∧ s.reloads = 1 ∧ s.gens.all (Gen.done s) = true := by
  refine ⟨_, rfl, ?_⟩
  decide

end GoSup.Props.C09L

namespace GoSup.Props.C09L
open GoSup.Core GoSup.CompLts
open GoSup.CompSeq (CbRes Out)

/-- the steps the library and well-behaved children can take once a `Stop()` is waiting (with some answer of the
environment where one is needed: a callback that returns, a child `Stop()` that returns) -/
def progressActs (s : St) : List Act :=
  [.runEnter, .runBoot (.ok []), .runBootFail, .runToRunning, .runSelStop, .runToStopping, .runStopBegin, .runStopEnd, .runFinish, .rlStopEnd]
  ++ (match s.run with | .stopping (c :: _) => [.childStopRet c] | .failStopping (c :: _) _ => [.childStopRet c] | _ => [])
  ++ (match s.rl with | .stopping _ (c :: _) => [.childStopRet c] | _ => [])

/-- **With children whose `Stop()` never waits, `Stop()` is never stuck** (C09, third clause) — in every interleaving:
in every reachable state in which a `Stop()` caller is waiting and `Run()` has not returned, `Run` can move on, or the
holder of `runnablesMu` can.  Together with `c09_f1_reachable` / `c09_f1_stuck_forever` (lifecycle-style children can be
stuck for ever) this locates the deadlock exactly: it needs a child whose `Stop()` waits for a `Run` that the overtaken
reload has not started. -/
theorem c09_stop_never_stuck_nonblocking {s : St} (h : Reach lts (init []) s) (hstop : s.stopReq = true)
    (hnot : ∀ r, s.run ≠ .returned r) : ∃ a ∈ progressActs s, (step s a).isSome = true := by
  obtain ⟨hi, _⟩ := inv12_reach h
  have h4 := inv4_reach h
  have hb : s.blockers = [] := by
    have : ∀ t, Reach lts (init []) t → t.blockers = [] := by
      intro t ht
      induction ht with
      | init => rfl
      | @step u v a _ hs ih =>
        have hbb : ∀ (t : St) (f : Bool) (c : List (Nat × Nat)), (boot t f c).blockers = t.blockers := by
          intro t f c; unfold boot; split <;> rfl
        have hcb : ∀ (t : St), (cancelLive t).blockers = t.blockers := by
          intro t; unfold cancelLive; split <;> rfl
        have : v.blockers = u.blockers := by
          have hs : step u a = some v := hs
          cases a <;> simp only [step] at hs
          all_goals
            repeat' (split at hs)
            all_goals first
              | (cases hs; done)
              | (cases hs; rfl)
              | (cases hs; simp only [hbb, hcb]; done)
              | (cases hs; exact hbb _ _ _)
              | (cases hs; exact hcb _)
              | (cases hs; split <;> rfl)
        rw [this]; exact ih
    exact this s h
  -- who can hold the mutex
  have hmuNone : (∀ p, s.run ≠ .stopping p) → (∀ p c, s.run ≠ .failStopping p c) → (∀ cfg p, s.rl ≠ .stopping cfg p) → s.mu = none := by
    intro a1 a2 a3
    cases hm : s.mu with
    | none => rfl
    | some o =>
      cases o with
      | run =>
        rcases h4.muRun.mp hm with ⟨p, hp⟩ | ⟨p, c, hp⟩
        · exact absurd hp (a1 p)
        · exact absurd hp (a2 p c)
      | reload =>
        obtain ⟨cfg, p, hp⟩ := h4.muRl.mp hm
        exact absurd hp (a3 cfg p)
  -- if the reload holds the mutex it can finish its stop phase
  have hrlProgress : ∀ cfg p, s.rl = .stopping cfg p → ∃ a ∈ progressActs s, (step s a).isSome = true := by
    intro cfg p hp
    cases p with
    | nil => exact ⟨.rlStopEnd, by simp [progressActs], by simp [step, hp]⟩
    | cons c rest =>
      refine ⟨.childStopRet c, by simp [progressActs, hp], ?_⟩
      have hnr1 : ∀ q, s.run ≠ .stopping q := fun q hq => by
        have := h4.muRun.mpr (Or.inl ⟨q, hq⟩)
        have := h4.muRl.mpr ⟨cfg, c :: rest, hp⟩
        simp_all
      have hnr2 : ∀ q e, s.run ≠ .failStopping q e := fun q e hq => by
        have := h4.muRun.mpr (Or.inr ⟨q, e, hq⟩)
        have := h4.muRl.mpr ⟨cfg, c :: rest, hp⟩
        simp_all
      simp only [step, hb, hp]
      split <;> first
        | (simp; done)
        | (rename_i hq; exact absurd hq (hnr1 _))
        | (rename_i hq; exact absurd hq (hnr2 _ _))
        | (rename_i hx; exact absurd rfl (hx _))
        | (rename_i hx; exact (hx _).elim)
        | (rename_i hx; exact absurd (by simp) hx)
  by_cases hrl : ∃ cfg p, s.rl = .stopping cfg p
  · obtain ⟨cfg, p, hp⟩ := hrl
    exact hrlProgress cfg p hp
  · have hrl' : ∀ cfg p, s.rl ≠ .stopping cfg p := fun cfg p hp => hrl ⟨cfg, p, hp⟩
    cases hr : s.run with
    | idle =>
      have hm := hmuNone (by simp [hr]) (by simp [hr]) hrl'
      refine ⟨.runEnter, by simp [progressActs], ?_⟩
      simp only [step, hr, hm]
      cases tr s .booting <;> simp
    | entered =>
      have hm := hmuNone (by simp [hr]) (by simp [hr]) hrl'
      refine ⟨.runBoot (.ok []), by simp [progressActs], ?_⟩
      simp only [step, hr, hm]
      cases s.cfg <;> simp
    | bootFailed => exact ⟨.runBootFail, by simp [progressActs], by simp [step, hr]⟩
    | booted =>
      refine ⟨.runToRunning, by simp [progressActs], ?_⟩
      simp only [step, hr]
      cases tr s .running <;> simp
    | select => exact ⟨.runSelStop, by simp [progressActs], by simp [step, hr, hstop]⟩
    | afterSelect => exact ⟨.runToStopping, by simp [progressActs], by simp [step, hr]⟩
    | toStop =>
      have hm := hmuNone (by simp [hr]) (by simp [hr]) hrl'
      have hcfg : s.cfg ≠ none := fun hc => by
        rcases h4.cfg hc with h1 | h1 | h1 | ⟨r, h1⟩ <;> rw [hr] at h1 <;> cases h1
      refine ⟨.runStopBegin, by simp [progressActs], ?_⟩
      simp only [step, hr, hm]
      cases hc : s.cfg with
      | none => exact absurd hc hcfg
      | some c => simp
    | failToStop c =>
      have hm := hmuNone (by simp [hr]) (by simp [hr]) hrl'
      have hcfg : s.cfg ≠ none := fun hc => by
        rcases h4.cfg hc with h1 | h1 | h1 | ⟨r, h1⟩ <;> rw [hr] at h1 <;> cases h1
      refine ⟨.runStopBegin, by simp [progressActs], ?_⟩
      simp only [step, hr, hm]
      cases hc : s.cfg with
      | none => exact absurd hc hcfg
      | some c => simp
    | stopping p =>
      cases p with
      | nil => exact ⟨.runStopEnd, by simp [progressActs], by simp [step, hr]⟩
      | cons c rest => exact ⟨.childStopRet c, by simp [progressActs, hr], by simp [step, hr, hb]⟩
    | failStopping p e =>
      cases p with
      | nil => exact ⟨.runStopEnd, by simp [progressActs], by simp [step, hr]⟩
      | cons c rest => exact ⟨.childStopRet c, by simp [progressActs, hr], by simp [step, hr, hb]⟩
    | stopped =>
      refine ⟨.runFinish, by simp [progressActs], ?_⟩
      simp only [step, hr]
      cases tr s .stopped <;> simp
    | returned r => exact absurd hr (hnot r)

end GoSup.Props.C09L

namespace GoSup.Props.C09L
open GoSup.Core GoSup.CompLts
open GoSup.CompSeq (CbRes Out names)

/-- the actions of the library's own threads and of children's `Stop()`s, without the two that wait for the user's
configuration callback (`runBoot`, `rlCallback`: how long that takes, and how large a configuration it returns, is the
environment's business) -/
def isLib : Act → Bool
  | .runEnter | .runBootFail | .runToRunning | .runSelCtx | .runSelStop | .runSelErr | .runToStopping | .runStopBegin | .runStopEnd | .runFinish
  | .rlEnter | .rlAfterCb | .rlDecide | .rlStopBegin | .rlStopEnd | .rlSetConfig | .rlBoot | .rlChildReload | .rlFinish
  | .childStopRet _ => true
  | _ => false

def cfgLen (s : St) : Nat := (s.cfg.getD []).length

def runPart (s : St) : Nat :=
  match s.run with
  | .idle => 11 + cfgLen s | .entered => 10 + cfgLen s | .bootFailed => 1 | .booted => 9 + cfgLen s | .select => 8 + cfgLen s
  | .afterSelect => 7 + cfgLen s | .toStop => 6 + cfgLen s | .failToStop _ => 6 + cfgLen s
  | .stopping p => 3 + p.length | .failStopping p _ => 3 + p.length | .stopped => 2 | .returned _ => 0

def rlPart (s : St) : Nat :=
  match s.rl with
  | .idle => 0 | .entered => 1
  | .cbReturned (.ok cfg) => 7 + cfg.length + cfgLen s | .cbReturned _ => 1
  | .gotConfig cfg => 6 + cfg.length + cfgLen s | .restart cfg => 5 + cfg.length + cfgLen s | .skip cfg => 3 + cfg.length
  | .stopping cfg p => 4 + cfg.length + p.length | .stoppedOld cfg => 3 + cfg.length | .configSet => 2 | .children => 2
  | .finishing => 1

/-- steps the library (and its children's `Stop()`s) can still take before the next answer of a configuration callback -/
def measure (s : St) : Nat := runPart s + rlPart s + 2 * s.pendingRl

end GoSup.Props.C09L

namespace GoSup.Props.C09L
open GoSup.Core GoSup.CompLts
open GoSup.CompSeq (CbRes Out names)

theorem names_length (cfg : List (Nat × Nat)) : (names cfg).length = cfg.length := by simp [names]

theorem erase_length_of_contains (p : List Nat) (c : Nat) (h : p.contains c = true) : (p.erase c).length + 1 = p.length := by
  have hm : c ∈ p := by simpa using h
  rw [List.length_erase_of_mem hm]
  have : 0 < p.length := List.length_pos_of_mem hm
  omega

@[simp] theorem boot_cfg' (s : St) (f : Bool) (c : List (Nat × Nat)) : (boot s f c).cfg = s.cfg := by unfold boot; split <;> rfl
@[simp] theorem boot_pendingRl (s : St) (f : Bool) (c : List (Nat × Nat)) : (boot s f c).pendingRl = s.pendingRl := by
  unfold boot; split <;> rfl
@[simp] theorem cancelLive_cfg' (s : St) : (cancelLive s).cfg = s.cfg := by unfold cancelLive; split <;> rfl
@[simp] theorem cancelLive_pendingRl (s : St) : (cancelLive s).pendingRl = s.pendingRl := by unfold cancelLive; split <;> rfl

theorem runPart_setCfg (s : St) (cfg : List (Nat × Nat)) (rl' : RlPc) :
    runPart { s with cfg := some cfg, rl := rl' } ≤ runPart s + cfg.length := by
  unfold runPart cfgLen
  cases s.run <;> simp <;> omega

theorem lib_step_decreases (s : St) (a : Act) (s' : St) (hl : isLib a = true) (hs0 : lts.step s a = some s') :
    measure s' < measure s := by
  have hs : step s a = some s' := hs0
  clear hs0
  cases a <;> simp only [isLib] at hl <;> simp only [step] at hs
  case childStopRet c =>
    split at hs
    · split at hs
      · rename_i p hr hc
        simp only [Bool.and_eq_true] at hc
        have := erase_length_of_contains p c hc.1
        cases hs
        simp only [measure, runPart, rlPart, cfgLen, hr]
        omega
      · cases hs
    · split at hs
      · rename_i p e hr hc
        simp only [Bool.and_eq_true] at hc
        have := erase_length_of_contains p c hc.1
        cases hs
        simp only [measure, runPart, rlPart, cfgLen, hr]
        omega
      · cases hs
    · split at hs
      · rename_i cfg p hrl hr1 hr2 hc
        simp only [Bool.and_eq_true] at hc
        have := erase_length_of_contains p c hc.1
        cases hs
        simp only [measure, runPart, rlPart, cfgLen, hrl]
        omega
      · cases hs
    · cases hs
  case rlSetConfig =>
    split at hs
    · rename_i cfg hrl
      cases hs
      have := runPart_setCfg s cfg RlPc.configSet
      simp only [measure, rlPart, hrl] at this ⊢
      omega
    · rename_i cfg hrl
      cases hs
      have := runPart_setCfg s cfg RlPc.children
      simp only [measure, rlPart, hrl] at this ⊢
      omega
    · cases hs
  all_goals
    repeat' (split at hs)
    all_goals first
      | (cases hs; done)
      | (cases hs; simp_all [measure, runPart, rlPart, cfgLen, names_length] <;> omega)

end GoSup.Props.C09L

namespace GoSup.Props.C09L
open GoSup.Core GoSup.CompLts
open GoSup.CompSeq (CbRes Out names)

def booted (s : St) : Bool := match s.run with | .idle | .entered => false | _ => true

theorem lib_keeps {s s' : St} {a : Act} (hl : isLib a = true) (hs : step s a = some s')
    (h1 : s.stopReq = true) (h2 : booted s = true) : s'.stopReq = true ∧ booted s' = true := by
  cases a <;> simp only [isLib] at hl <;> simp only [step] at hs
  all_goals
    repeat' (split at hs)
    all_goals first
      | (cases hs; done)
      | (cases hs; simp_all [booted, boot, cancelLive] <;> (try split) <;> simp_all)

/-- **The library's own steps are bounded** (C09, third clause): between two answers of the configuration callback the
`Run` and `Reload` threads and the children's `Stop()`s can take at most `measure s` steps. -/
theorem c09_lib_steps_bounded (s t : St) (as : List Act) (hall : as.all isLib = true) (hrun : run lts s as = some t) :
    as.length + measure t ≤ measure s :=
  run_length_le_measure isLib measure lib_step_decreases s t as hall hrun

/-- **With children whose `Stop()` never waits, `Stop()` returns** (C09, third clause) — every interleaving: from every
reachable state in which `Run` has booted and a `Stop()` caller is waiting, the steps of the library and of the children's
`Stop()`s lead to the return of `Run()` within `measure s` steps, without needing another answer of the configuration
callback, and by `c09_lib_steps_bounded` they cannot go on for longer. -/
theorem c09_stop_returns_nonblocking {s : St} (h : Reach lts (init []) s) (hstop : s.stopReq = true) (hb : booted s = true) :
    ∃ as t, as.all isLib = true ∧ run lts s as = some t ∧ (∃ r, t.run = .returned r) ∧ as.length ≤ measure s := by
  apply exists_final_run isLib measure (fun u => Reach lts (init []) u ∧ u.stopReq = true ∧ booted u = true)
    (fun u => ∃ r, u.run = .returned r)
  · intro u a u' hp hl hs
    have := lib_keeps hl hs hp.2.1 hp.2.2
    exact ⟨.step hp.1 hs, this.1, this.2⟩
  · intro u hp hf
    obtain ⟨a, ha, hen⟩ := c09_stop_never_stuck_nonblocking hp.1 hp.2.1 (fun r hr => hf ⟨r, hr⟩)
    refine ⟨a, ?_, hen⟩
    -- the enabled action is one of the library's: `runBoot` is not enabled once `Run` has booted
    simp only [progressActs, List.mem_append, List.mem_cons, List.not_mem_nil, or_false] at ha
    rcases ha with (((h | h | h | h | h | h | h | h | h | h) | h) | h)
    · subst h; rfl
    · subst h
      have hbt := hp.2.2
      simp only [step] at hen
      split at hen
      · simp at hen
      · rename_i hc
        simp only [Bool.or_eq_true, bne_iff_ne, ne_eq, not_or, Decidable.not_not] at hc
        simp [booted, hc.1] at hbt
    all_goals first
      | (subst h; rfl)
      | (split at h <;> simp at h <;> (try subst h) <;> rfl)
  · exact lib_step_decreases
  · exact ⟨h, hstop, hb⟩

end GoSup.Props.C09L

namespace GoSup.Props.C09L
open GoSup.Core GoSup.CompLts
open GoSup.CompSeq (CbRes Out names Fsm)

/-- **A callback error or a nil configuration leaves the children untouched and moves the composite to Error** (C11, last
clause): the reload ends at once; configuration, generations and children are exactly what they were. -/
theorem c11_callback_failure_untouched (s : St) (res : CbRes) (hrl : s.rl = .entered) (hres : ∀ c, res ≠ .ok c) :
    ∃ s1 s', step s (.rlCallback res) = some s1 ∧ s1 = { s with rl := .cbReturned res }
      ∧ step s1 .rlAfterCb = some s' ∧ s'.fsm = .error ∧ s'.rl = .idle ∧ s'.cfg = s.cfg ∧ s'.gens = s.gens
      ∧ s'.live = s.live ∧ s'.reloads = s.reloads + 1 := by
  cases res with
  | ok c => exact absurd rfl (hres c)
  | err => exact ⟨_, { s with fsm := .error, rl := .idle, reloads := s.reloads + 1 }, by simp [step, hrl], rfl, by simp [step], rfl, rfl, rfl, rfl, rfl, rfl⟩
  | nil => exact ⟨_, { s with fsm := .error, rl := .idle, reloads := s.reloads + 1 }, by simp [step, hrl], rfl, by simp [step], rfl, rfl, rfl, rfl, rfl, rfl⟩

/-- the same at whatever moment `Reload` gets to act on the failed callback (other threads may have run since the callback
returned): only the FSM state, the reload's own position and the count of finished reloads change -/
theorem c11_callback_failure_untouched_later (s : St) (res : CbRes) (hrl : s.rl = .cbReturned res) (hres : ∀ c, res ≠ .ok c) :
    step s .rlAfterCb = some { s with fsm := .error, rl := .idle, reloads := s.reloads + 1 } := by
  cases res with
  | ok c => exact absurd rfl (hres c)
  | err => simp [step, hrl]
  | nil => simp [step, hrl]

/-- **In place when the membership is unchanged** (C11): the reload stores the new configuration and touches no
generation — no child is stopped or started; every child then gets its one reload call (`rlChildReload`). -/
theorem c11_in_place (s : St) (cfg : List (Nat × Nat)) (hrl : s.rl = .gotConfig cfg)
    (hsame : GoSup.CompSeq.changed (names (s.cfg.getD [])) (names cfg) = false) :
    ∃ s1 s2 s3, step s .rlDecide = some s1 ∧ step s1 .rlSetConfig = some s2 ∧ step s2 .rlChildReload = some s3
      ∧ s3.cfg = some cfg ∧ s3.gens = s.gens ∧ s3.live = s.live ∧ s3.rl = .finishing := by
  refine ⟨{ s with rl := .skip cfg }, { s with cfg := some cfg, rl := .children }, { s with cfg := some cfg, rl := .finishing },
    ?_, ?_, ?_, rfl, rfl, rfl, rfl⟩
  · simp [step, hrl, hsame]
  · simp [step]
  · simp [step]

/-- **By full restart when the membership changed** (C11): the reload first stops the children of the configuration in
force (`rlStopBegin`: one `Stop()` per entry, last to first), and only when all of them have returned ends the
generation, stores the new configuration and boots it. -/
theorem c11_restart_order (s : St) (cfg cur : List (Nat × Nat)) (hrl : s.rl = .gotConfig cfg) (hcur : s.cfg = some cur)
    (hmu : s.mu = none) (hch : GoSup.CompSeq.changed (names cur) (names cfg) = true) :
    ∃ s1 s2, step s .rlDecide = some s1 ∧ step s1 .rlStopBegin = some s2
      ∧ s2.rl = .stopping cfg (names cur).reverse ∧ s2.cfg = some cur ∧ s2.gens = s.gens
      ∧ step s2 .rlSetConfig = none ∧ step s2 .rlBoot = none := by
  refine ⟨{ s with rl := .restart cfg }, { s with rl := .stopping cfg (names cur).reverse, mu := some .reload }, ?_, ?_, rfl, hcur, rfl, ?_, ?_⟩
  · simp [step, hrl, hcur, hch]
  · simp [step, hmu, hcur]
  · simp [step]
  · simp [step]

end GoSup.Props.C09L
