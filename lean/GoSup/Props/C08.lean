import GoSup.Model.Fsm
import GoSup.Generated.Tables
/-!
# C08 — property theorems (state stream of the bundled runnables)
-/
namespace GoSup.Props.C08
open GoSup.Fsm

/-- **Walk.** Whatever sequence of FSM calls a runner makes — any length, any order, any mix of
`Transition`, `TransitionBool`, `TransitionIfCurrentState` and `SetState(Error)` — from any state,
over any transition table, the successive states form a walk in the lifecycle graph in which only
`Error` is entered out of turn. -/
theorem edge_apply (tbl : Table) (s : String) (c : Call) (h : disciplined c = true) :
    edge tbl s (apply tbl s c) = true := by
  cases c with
  | transition x =>
    simp only [apply]; split
    · rename_i ha; simp [edge, ha]
    · simp [edge]
  | transitionIf cur x =>
    simp only [apply]; split
    · rename_i ha; simp only [Bool.and_eq_true] at ha; simp [edge, ha.2]
    · simp [edge]
  | setState x =>
    simp only [disciplined, beq_iff_eq] at h
    simp [apply, edge, h]

theorem c08_walk (tbl : Table) (s : String) (cs : List Call) (h : cs.all disciplined = true) :
    isWalk tbl (states tbl s cs) = true := by
  induction cs generalizing s with
  | nil => simp [states, isWalk]
  | cons c cs ih =>
    simp only [List.all_cons, Bool.and_eq_true] at h
    have ih' := ih (apply tbl s c) h.2
    have he := edge_apply tbl s c h.1
    cases cs with
    | nil => simp [states, isWalk, he]
    | cons c2 cs2 =>
      simp only [states, isWalk, Bool.and_eq_true] at ih' ⊢
      exact ⟨he, ih'⟩

/-! ## ties to the regenerated tables -/
open GoSup.Generated

/-- every `SetState` call in the bundled runners forces `Error`, or `Unknown` as the fallback
inside `setStateError` after `SetState(Error)` failed -/
def setStateSitesOk (t : List (String × String × String)) : Bool :=
  t.all fun (fn, method, arg) =>
    method != "SetState" || arg == "Error" || (arg == "Unknown" && fn.endsWith "setStateError")

theorem tie_setState_sites : setStateSitesOk fsmSites = true := by decide +kernel

/-- `Error` is a state of the extracted table, so `SetState(Error)` cannot fail and the `Unknown`
fallback is dead code; and `Error` is reachable by a table edge from every lifecycle state -/
def errorEverywhere (tbl : Table) : Bool :=
  ["New", "Booting", "Running", "Reloading", "Stopping", "Stopped", "Error"].all fun s => allowed tbl s "Error"

theorem tie_error_reachable : errorEverywhere typical = true := by decide +kernel

/-- the extracted table has no edge outside the documented lifecycle graph (plus the recovery
edges out of `Error` and the restart edge `Stopped → New`) -/
def documentedEdges : List (String × String) :=
  [("New", "Booting"), ("Booting", "Running"), ("Running", "Reloading"), ("Reloading", "Running"),
   ("Running", "Stopping"), ("Stopping", "Stopped"), ("Stopped", "New"),
   ("Error", "Stopping"), ("Error", "Stopped"), ("Unknown", "Unknown")]

def tableWithinDocumented (tbl : Table) : Bool :=
  tbl.all fun (a, ts) => ts.all fun b => b == "Error" || documentedEdges.contains (a, b)

theorem tie_table_documented : tableWithinDocumented typical = true := by decide +kernel

/-- `IsRunning()` of each bundled runner is literally `state == Running` -/
def isRunningOk (t : List (String × String)) : Bool :=
  ["composite", "httpserver", "httpcluster"].all fun p =>
    t.any fun (fn, body) => fn == p ++ ".Runner.IsRunning"
      && body == "{ return r.fsm.GetState() == finitestate.StatusRunning }"

theorem tie_isRunning : isRunningOk isRunningBodies = true := by decide +kernel

/-- non-vacuity: a real history over the extracted table, including an illegal request that is
refused and a forced Error -/
example : states typical "New" [.transition "Booting", .transition "Running", .transition "Stopped",
    .transition "Reloading", .setState "Error", .transition "Stopped"]
    = ["New", "Booting", "Running", "Running", "Reloading", "Error", "Stopped"] := by decide +kernel

end GoSup.Props.C08
