import GoSup.Model.HttpSeq
/-!
# C14 — property theorems (graceful drain: decision logic of `stopServer` / `shutdown`)
The wall-clock part of the property (bounds, full responses) is measured by the harness; the
theorems state the runner's decision logic for every state.
-/
namespace GoSup.Props.C14
open GoSup.HttpSeq

/-- a drain that finishes in time ends `Run` with nil and `Stopped`; one that runs into the
timeout ends it with an error and `Error` — from every state in which `Run` is active and an
instance is live; either way nothing is left listening -/
theorem c14_stop (s : St) (hr : s.ret = .none) (hl : s.listening.isSome) :
    (step s (.stop false)).ret = .nil ∧ (step s (.stop false)).fsm = .stopped
    ∧ (step s (.stop true)).ret = .err ∧ (step s (.stop true)).fsm = .error
    ∧ (step s (.stop false)).listening = none ∧ (step s (.stop true)).listening = none := by
  simp [step, hr, hl]

/-- without a live instance (failed reboot) stopping is clean whatever the drain does -/
theorem c14_stop_no_instance (s : St) (hr : s.ret = .none) (hl : s.listening = none) (d : Bool) :
    (step s (.stop d)).ret = .nil ∧ (step s (.stop d)).fsm = .stopped := by
  cases d <;> simp [step, hr, hl]

end GoSup.Props.C14
