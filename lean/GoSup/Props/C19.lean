import GoSup.Model.Validate
/-!
# C19 — property theorems (accepted inputs never crash the process)
For **any** behaviour of `ServeMux` (`muxPanics` is universally quantified: no model of the
pattern grammar is needed, acceptance and use ask the same function about the same sequence).
-/
namespace GoSup.Props.C19
open GoSup.Validate

/-- **An accepted route set never panics the mux at boot**, at construction or at reload time -/
theorem c19_accepted_never_panics (muxPanics : List String → Bool) (rs : List RouteArg)
    (h : construct muxPanics rs = .accepted) : bootPanics muxPanics rs = false := by
  simp only [construct] at h
  split at h
  · simp at h
  · split at h
    · simp at h
    · rename_i hc
      simp [newConfigAccepts] at hc
      simp [bootPanics, hc.2]

/-- **A configuration that bypassed the constructor cannot panic either**: `boot()` re-validates,
so what the mux would reject becomes `ErrCreateConfig` (Error state) -/
theorem c19_boot_never_panics (muxPanics : List String → Bool) (rs : List RouteArg) :
    bootOutcome muxPanics rs ≠ "panic" := by
  simp only [bootOutcome]
  split
  · decide
  · rename_i hc
    simp [newConfigAccepts] at hc
    have : bootPanics muxPanics rs = false := by simp [bootPanics, hc.2]
    simp [this]

/-- the pinned code accepted what it later panicked on (finding C19-F1): without the mux check in
`NewConfig` acceptance says nothing about boot -/
theorem original_code_could_panic :
    ∃ (muxPanics : List String → Bool) (rs : List RouteArg),
      rs.all newRouteAccepts = true ∧ !rs.isEmpty = true ∧ bootPanics muxPanics rs = true :=
  ⟨fun ps => ps == ["/a", "/a"], [⟨"x", "/a"⟩, ⟨"y", "/a"⟩], by decide, by decide, by decide⟩

end GoSup.Props.C19
