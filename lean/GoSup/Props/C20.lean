import GoSup.Proofs.Port
import GoSup.Spec.C20
/-!
# C20 — property theorems (ValidatePort)

All statements are for byte strings of **any length** over **all 256 byte values**.
`validatePort` is the model of the repaired code (`validatePortG true`); `validatePortG false` is
the code as originally pinned, kept to state what was wrong with it.
-/
namespace GoSup.Props.C20
open GoSup.Port

theorem vp_empty : validatePort [] = .error .emptyPort := by
  simp [validatePort, validatePortG]

/-- a plain decimal port: non-empty, digits only, value in 1…65535 (leading zeros allowed) -/
structure GoodPort (ds : Bytes) : Prop where
  ne     : ds ≠ []
  digits : allDigits ds
  lo     : 1 ≤ valOf ds
  hi     : valOf ds ≤ 65535

theorem GoodPort.atoi {ds : Bytes} (g : GoodPort ds) : atoi ds = some (valOf ds : Int) := by
  rw [atoi_digits ds g.ne g.digits]
  have : valOf ds < 2 ^ 63 := by have := g.hi; omega
  simp [this]

theorem GoodPort.clean {ds : Bytes} (g : GoodPort ds) : cColon ∉ ds ∧ cLbr ∉ ds ∧ cRbr ∉ ds ∧ cMinus ∉ ds :=
  ⟨allDigits_not_mem g.digits (by decide), allDigits_not_mem g.digits (by decide),
   allDigits_not_mem g.digits (by decide), allDigits_not_mem g.digits (by decide)⟩

theorem GoodPort.head {ds : Bytes} (g : GoodPort ds) : (ds.head? == some cMinus) = false := by
  cases ds with
  | nil => rfl
  | cons x xs =>
    have hx := g.digits x (by simp)
    have : x ≠ cMinus := digit_ne hx (by decide)
    simpa using this

/-- the body of `ValidatePort` after the split succeeded -/
theorem validate_of_split (s h p : Bytes) (n : Nat) (hne : s ≠ [])
    (hneg : containsSub s [cColon, cMinus] = false)
    (hpre : (hasPrefix s [cMinus] && !hasByte s cColon) = false)
    (hsp : splitHostPort (normalise s) = .ok (h, p)) (hat : atoi p = some (n : Int))
    (hlo : 1 ≤ n) (hhi : n ≤ 65535) : validatePort s = .ok (resultOf true h p) := by
  have he : s.isEmpty = false := by cases s <;> simp_all
  simp only [validatePort, validatePortG, he, hneg, hpre, hsp, hat]
  have h1 : ¬ ((n : Int) < 1) := by omega
  have h2 : ¬ ((n : Int) > 65535) := by omega
  simp [h1, h2]

/-- `net.SplitHostPort` on `host:port` with a host free of colons and brackets -/
theorem split_plain (h p : Bytes) (hc : cColon ∉ h) (hl : cLbr ∉ h) (hr : cRbr ∉ h)
    (pc : cColon ∉ p) (pl : cLbr ∉ p) (pr : cRbr ∉ p) :
    splitHostPort (h ++ cColon :: p) = .ok (h, p) := by
  have hs := splitLast_append h p cColon pc
  simp only [splitHostPort, hs]
  have hhead : ∀ c rest, h ++ cColon :: p = c :: rest → (c == cLbr) = false := by
    intro c rest e
    cases h with
    | nil => simp at e; rw [← e.1]; decide
    | cons x xs =>
      simp at e; rw [← e.1]
      have : x ≠ cLbr := fun e' => hl (by simp [e'])
      simpa using this
  cases hhp : h ++ cColon :: p with
  | nil => simp at hhp
  | cons c rest =>
    have := hhead c rest hhp
    simp only [this, Bool.false_eq_true, if_false]
    have e1 : hasByte h cColon = false := (hasByte_false_iff _ _).mpr hc
    have e2 : hasByte (c :: rest) cLbr = false := by
      rw [← hhp]; apply (hasByte_false_iff _ _).mpr
      simp only [List.mem_append, List.mem_cons, not_or]
      exact ⟨hl, by decide, pl⟩
    have e3 : hasByte (c :: rest) cRbr = false := by
      rw [← hhp]; apply (hasByte_false_iff _ _).mpr
      simp only [List.mem_append, List.mem_cons, not_or]
      exact ⟨hr, by decide, pr⟩
    simp [e1, e2, e3]

/-- `net.SplitHostPort` on `[host]:port` -/
theorem split_bracket (h p : Bytes) (hl : cLbr ∉ h) (hr : cRbr ∉ h)
    (pc : cColon ∉ p) (pl : cLbr ∉ p) (pr : cRbr ∉ p) :
    splitHostPort (cLbr :: (h ++ cRbr :: cColon :: p)) = .ok (h, p) := by
  have hs : splitLast (cLbr :: (h ++ cRbr :: cColon :: p)) cColon = some (cLbr :: (h ++ [cRbr]), p) := by
    have := splitLast_append (cLbr :: (h ++ [cRbr])) p cColon pc
    simpa using this
  have hf := splitFirst_append h (cColon :: p) cRbr hr
  simp only [splitHostPort, hs, hf]
  have e1 : hasByte p cColon = false := (hasByte_false_iff _ _).mpr pc
  have e2 : hasByte h cLbr = false := (hasByte_false_iff _ _).mpr hl
  have e3 : hasByte (cColon :: p) cLbr = false := by simp [hasByte, pl]; decide
  have e4 : hasByte (cColon :: p) cRbr = false := by simp [hasByte, pr]; decide
  simp [e1, e2, e3, e4]

/-! ## accepted forms -/

/-- `port` -/
theorem vp_accept_port (ds : Bytes) (g : GoodPort ds) : validatePort ds = .ok (cColon :: ds) := by
  obtain ⟨c1, c2, c3, c4⟩ := g.clean
  have hnorm : normalise ds = cColon :: ds := by simp [normalise, (hasByte_false_iff _ _).mpr c1]
  have hsp : splitHostPort (normalise ds) = .ok ([], ds) := by
    rw [hnorm]; exact split_plain [] ds (by simp) (by simp) (by simp) c1 c2 c3
  have hpre : (hasPrefix ds [cMinus] && !hasByte ds cColon) = false := by
    cases ds with
    | nil => exact absurd rfl g.ne
    | cons x xs =>
      have hx := g.digits x (by simp)
      have : x ≠ cMinus := digit_ne hx (by decide)
      simp [hasPrefix, this]
  have := validate_of_split ds [] ds (valOf ds) g.ne (containsSub_two_false _ _ _ c1) hpre hsp g.atoi g.lo g.hi
  simpa [resultOf] using this

/-- `:port` and `host:port` (host without colons and brackets; the empty host gives `:port`) -/
theorem vp_accept_host_port (h ds : Bytes) (g : GoodPort ds)
    (hc : cColon ∉ h) (hl : cLbr ∉ h) (hr : cRbr ∉ h) :
    validatePort (h ++ cColon :: ds) = .ok (h ++ cColon :: ds) := by
  obtain ⟨c1, c2, c3, c4⟩ := g.clean
  have hmem : cColon ∈ h ++ cColon :: ds := by simp
  have hnorm : normalise (h ++ cColon :: ds) = h ++ cColon :: ds := by
    simp [normalise, (hasByte_iff _ _).mpr hmem]
  have hsp : splitHostPort (normalise (h ++ cColon :: ds)) = .ok (h, ds) := by
    rw [hnorm]; exact split_plain h ds hc hl hr c1 c2 c3
  have hneg : containsSub (h ++ cColon :: ds) [cColon, cMinus] = false := by
    rw [containsSub_two_append, containsSub_two_false _ _ _ hc, containsSub_two_cons, containsSub_two_false _ _ _ c1]
    have hcm : (cColon == cMinus) = false := by decide
    simp [g.head, hcm]
  have hpre : (hasPrefix (h ++ cColon :: ds) [cMinus] && !hasByte (h ++ cColon :: ds) cColon) = false := by
    simp [(hasByte_iff _ _).mpr hmem]
  have := validate_of_split _ h ds (valOf ds) (by simp) hneg hpre hsp g.atoi g.lo g.hi
  rw [this]
  simp only [resultOf, joinHostPort, (hasByte_false_iff _ _).mpr hc]
  cases h <;> simp

/-- `[host]:port` — a bracketed host (IPv6 literal, possibly with a zone) keeps its brackets when it
contains a colon; a bracketed host without one is returned bare -/
theorem vp_accept_bracketed (h ds : Bytes) (g : GoodPort ds) (hne : h ≠ [])
    (hl : cLbr ∉ h) (hr : cRbr ∉ h) (hneg : containsSub h [cColon, cMinus] = false) :
    validatePort (cLbr :: (h ++ cRbr :: cColon :: ds)) = .ok (joinHostPort h ds) := by
  obtain ⟨c1, c2, c3, c4⟩ := g.clean
  have hmem : cColon ∈ cLbr :: (h ++ cRbr :: cColon :: ds) := by simp
  have hnorm : normalise (cLbr :: (h ++ cRbr :: cColon :: ds)) = cLbr :: (h ++ cRbr :: cColon :: ds) := by
    simp only [normalise, (hasByte_iff _ _).mpr hmem, if_true]
  have hsp : splitHostPort (normalise (cLbr :: (h ++ cRbr :: cColon :: ds))) = .ok (h, ds) := by
    rw [hnorm]; exact split_bracket h ds hl hr c1 c2 c3
  have hneg' : containsSub (cLbr :: (h ++ cRbr :: cColon :: ds)) [cColon, cMinus] = false := by
    rw [containsSub_two_cons, containsSub_two_append, hneg, containsSub_two_cons, containsSub_two_cons,
      containsSub_two_false _ _ _ c1]
    have h1 : (cLbr == cColon) = false := by decide
    have h2 : (cRbr == cColon) = false := by decide
    have h3 : (cColon == cMinus) = false := by decide
    have h4 : ¬ cRbr = cMinus := by decide
    simp [g.head, h1, h2, h3, h4]
  have hpre : (hasPrefix (cLbr :: (h ++ cRbr :: cColon :: ds)) [cMinus]
      && !hasByte (cLbr :: (h ++ cRbr :: cColon :: ds)) cColon) = false := by
    simp [(hasByte_iff _ _).mpr hmem]
  have := validate_of_split _ h ds (valOf ds) (by simp) hneg' hpre hsp g.atoi g.lo g.hi
  rw [this]
  simp only [resultOf]
  cases h with
  | nil => exact absurd rfl hne
  | cons x xs => simp


/-! ## rejected classes -/

/-- zero and every value above 65535 — of any magnitude, including numerals that do not fit a
machine integer — are `ErrPortOutOfRange` (`:port` and `host:port` forms) -/
theorem vp_reject_out_of_range (h ds : Bytes) (hne : ds ≠ []) (hd : allDigits ds)
    (hv : valOf ds = 0 ∨ 65535 < valOf ds) (hc : cColon ∉ h) (hl : cLbr ∉ h) (hr : cRbr ∉ h) :
    validatePort (h ++ cColon :: ds) = .error .outOfRange := by
  have c1 : cColon ∉ ds := allDigits_not_mem hd (by decide)
  have c2 : cLbr ∉ ds := allDigits_not_mem hd (by decide)
  have c3 : cRbr ∉ ds := allDigits_not_mem hd (by decide)
  have hmem : cColon ∈ h ++ cColon :: ds := by simp
  have hnorm : normalise (h ++ cColon :: ds) = h ++ cColon :: ds := by simp [normalise, (hasByte_iff _ _).mpr hmem]
  have hsp := split_plain h ds hc hl hr c1 c2 c3
  have hhead : (ds.head? == some cMinus) = false := by
    cases ds with
    | nil => rfl
    | cons x xs =>
      have : x ≠ cMinus := digit_ne (hd x (by simp)) (by decide)
      simpa using this
  have hcm : (cColon == cMinus) = false := by decide
  have hneg : containsSub (h ++ cColon :: ds) [cColon, cMinus] = false := by
    rw [containsSub_two_append, containsSub_two_false _ _ _ hc, containsSub_two_cons, containsSub_two_false _ _ _ c1]
    simp [hhead, hcm]
  have he : (h ++ cColon :: ds).isEmpty = false := by cases h <;> simp
  have hall : ds.all isDigit = true := by rw [List.all_eq_true]; exact hd
  have hdne : ds.isEmpty = false := by cases ds <;> simp_all
  simp only [validatePort, validatePortG, he, hneg, (hasByte_iff _ _).mpr hmem, hnorm, hsp]
  rw [atoi_digits ds hne hd]
  by_cases hbig : valOf ds < 2 ^ 63
  · simp only [hbig, if_true]
    rcases hv with h0 | h1
    · simp [h0]
    · have : ¬ ((valOf ds : Int) < 1) := by omega
      have h2 : ((valOf ds : Int) > 65535) := by omega
      simp [this, h2]
  · simp [hbig, hall, hdne]

/-- a negative port is `ErrInvalidFormat`, whatever the host part looks like -/
theorem vp_reject_negative (a p : Bytes) :
    validatePort (a ++ cColon :: cMinus :: p) = .error .invalidFormat := by
  have he : (a ++ cColon :: cMinus :: p).isEmpty = false := by cases a <;> simp
  have hneg : containsSub (a ++ cColon :: cMinus :: p) [cColon, cMinus] = true := by
    rw [containsSub_two_append, containsSub_two_cons]; simp
  simp [validatePort, validatePortG, he, hneg]

/-! ## round trip, for **every** accepted input -/

/-- what acceptance means: the normalised input split into `(h, p)`, `p` parsed to `n ∈ 1…65535` -/
theorem accepted_inv (s r : Bytes) (hv : validatePort s = .ok r) :
    ∃ h p, ∃ n : Int, s ≠ [] ∧ containsSub s [cColon, cMinus] = false ∧ splitHostPort (normalise s) = .ok (h, p)
      ∧ atoi p = some n ∧ 1 ≤ n ∧ n ≤ 65535 ∧ r = resultOf true h p := by
  simp only [validatePort, validatePortG] at hv
  split at hv
  · simp at hv
  · rename_i hne
    split at hv
    · simp at hv
    · rename_i hneg
      cases hsp : splitHostPort (normalise s) with
      | error e => simp [hsp] at hv
      | ok hp =>
        obtain ⟨h, p⟩ := hp
        simp only [hsp] at hv
        cases hat : atoi p with
        | none => simp only [hat] at hv; split at hv <;> simp at hv
        | some n =>
          simp only [hat] at hv
          split at hv
          · simp at hv
          · rename_i hr
            simp at hv
            simp only [Bool.or_eq_true, not_or, Bool.not_eq_true] at hneg
            refine ⟨h, p, n, ?_, hneg.1, rfl, hat, ?_, ?_, hv.symm⟩
            · intro e; simp [e] at hne
            · simp at hr; omega
            · simp at hr; omega

/-- re-validating a result `h:p` / `:p` built from a colon-free host -/
theorem validate_plain_result (h p : Bytes) (n : Int) (hc : cColon ∉ h) (hl : cLbr ∉ h) (hr : cRbr ∉ h)
    (pc : cColon ∉ p) (pl : cLbr ∉ p) (pr : cRbr ∉ p) (hat : atoi p = some n) (hlo : 1 ≤ n) (hhi : n ≤ 65535) :
    validatePort (h ++ cColon :: p) = .ok (h ++ cColon :: p) ∧ splitHostPort (h ++ cColon :: p) = .ok (h, p) := by
  have hmem : cColon ∈ h ++ cColon :: p := by simp
  have hnorm : normalise (h ++ cColon :: p) = h ++ cColon :: p := by simp [normalise, (hasByte_iff _ _).mpr hmem]
  have hsp := split_plain h p hc hl hr pc pl pr
  have hcm : (cColon == cMinus) = false := by decide
  have hneg : containsSub (h ++ cColon :: p) [cColon, cMinus] = false := by
    rw [containsSub_two_append, containsSub_two_false _ _ _ hc, containsSub_two_cons, containsSub_two_false _ _ _ pc]
    simp [atoi_pos_head p n hat hlo, hcm]
  have hpre : (hasPrefix (h ++ cColon :: p) [cMinus] && !hasByte (h ++ cColon :: p) cColon) = false := by
    simp [(hasByte_iff _ _).mpr hmem]
  obtain ⟨m, rfl⟩ : ∃ m : Nat, n = m := ⟨n.toNat, by omega⟩
  have := validate_of_split _ h p m (by simp) hneg hpre (by rw [hnorm]; exact hsp) hat (by omega) (by omega)
  refine ⟨?_, hsp⟩
  rw [this]
  simp only [resultOf, joinHostPort, (hasByte_false_iff _ _).mpr hc]
  cases h <;> simp

/-- **Round trip (C20, last sentence) for every accepted input.** If `ValidatePort s` returns `r`,
then `r` denotes the host and port the input was split into, `net.SplitHostPort r` gives back
exactly that host and port, and a second validation accepts `r` and returns it unchanged. -/
theorem vp_roundtrip (s r : Bytes) (hv : validatePort s = .ok r) :
    ∃ h p, splitHostPort (normalise s) = .ok (h, p) ∧ splitHostPort r = .ok (h, p) ∧ validatePort r = .ok r := by
  obtain ⟨h, p, n, hne, hneg, hsp, hat, hlo, hhi, rfl⟩ := accepted_inv s r hv
  obtain ⟨⟨pc, pl, pr, hl, hr⟩, hform⟩ := split_ok_inv _ _ _ hsp
  refine ⟨h, p, hsp, ?_⟩
  by_cases hcol : cColon ∈ h
  · -- the host contains a colon: only the bracketed form produces it; the result keeps the brackets
    rcases hform with ⟨_, hno⟩ | hx
    · exact absurd hcol hno
    · have hhne : h ≠ [] := by intro e; simp [e] at hcol
      have hres : resultOf true h p = cLbr :: (h ++ cRbr :: cColon :: p) := by
        simp only [resultOf, joinHostPort, (hasByte_iff _ _).mpr hcol]
        cases h with
        | nil => exact absurd rfl hhne
        | cons x xs => simp
      rw [hres]
      have hnorm : normalise s = s := by
        by_cases hb : hasByte s cColon = true
        · simp [normalise, hb]
        · have hx' := hx
          simp only [normalise, hb, if_false] at hx'
          have : cColon = cLbr := by simpa using congrArg List.head? hx'
          exact absurd this (by decide)
      have hnegh : containsSub h [cColon, cMinus] = false := by
        rw [← hnorm, hx, containsSub_two_cons, containsSub_two_append] at hneg
        simp only [Bool.or_eq_false_iff] at hneg
        exact hneg.2.1.1
      obtain ⟨m, rfl⟩ : ∃ m : Nat, n = m := ⟨n.toNat, by omega⟩
      have hsp2 := split_bracket h p hl hr pc pl pr
      refine ⟨hsp2, ?_⟩
      have hmem : cColon ∈ cLbr :: (h ++ cRbr :: cColon :: p) := by simp
      have hnorm2 : normalise (cLbr :: (h ++ cRbr :: cColon :: p)) = cLbr :: (h ++ cRbr :: cColon :: p) := by
        simp only [normalise, (hasByte_iff _ _).mpr hmem, if_true]
      have h1 : (cLbr == cColon) = false := by decide
      have h2 : (cRbr == cColon) = false := by decide
      have h3 : (cColon == cMinus) = false := by decide
      have h4 : ¬ cRbr = cMinus := by decide
      have hneg' : containsSub (cLbr :: (h ++ cRbr :: cColon :: p)) [cColon, cMinus] = false := by
        rw [containsSub_two_cons, containsSub_two_append, hnegh, containsSub_two_cons, containsSub_two_cons,
          containsSub_two_false _ _ _ pc]
        simp [atoi_pos_head p m hat hlo, h1, h2, h3, h4]
      have hpre : (hasPrefix (cLbr :: (h ++ cRbr :: cColon :: p)) [cMinus]
          && !hasByte (cLbr :: (h ++ cRbr :: cColon :: p)) cColon) = false := by
        simp [(hasByte_iff _ _).mpr hmem]
      have := validate_of_split _ h p m (by simp) hneg' hpre (by rw [hnorm2]; exact hsp2) hat (by omega) (by omega)
      rw [this, hres]
  · -- colon-free host: the result is `h:p` (or `:p`)
    have hres : resultOf true h p = h ++ cColon :: p := by
      simp only [resultOf, joinHostPort, (hasByte_false_iff _ _).mpr hcol]
      cases h <;> simp
    rw [hres]
    have := validate_plain_result h p n hcol hl hr pc pl pr hat hlo hhi
    exact ⟨this.2, this.1⟩

/-- what was wrong with the pinned code (finding C20-F1): it accepted `[::1]:8080` and returned a
string that it rejects itself -/
theorem original_code_breaks_roundtrip :
    ∃ s r, validatePortG false s = .ok r ∧ validatePortG false r = .error .invalidFormat := by
  exact ⟨[91, 58, 58, 49, 93, 58, 56, 48, 56, 48], [58, 58, 49, 58, 56, 48, 56, 48], rfl, rfl⟩

end GoSup.Props.C20
