import GoSup.Model.Port
import GoSup.Spec.C20
/-! # C20 — property theorems (ValidatePort) -/
namespace GoSup.Props.C20
open GoSup.Port

theorem vp_empty : validatePort [] = .error .emptyPort := by
  simp [validatePort, validatePortG]

end GoSup.Props.C20
