import GoSup.Model.SubAdd
/-!
# C06 — a subscriber that joins at any moment ends up with the quiescent map
-/
namespace GoSup.Props.C06A
open GoSup.Core GoSup.SubAdd

theorem join_inv {c : Nat} {s : St} (h : Reach (lts false) (init c) s) :
    s.pc = .registered → (s.last = some s.cache ∨ 0 < s.owed) := by
  induction h with
  | init => intro hp; simp [init] at hp
  | @step u v a _ hs ih =>
    have hs : step false u a = some v := hs
    cases a <;> simp only [step] at hs
    case change x => cases hs; intro _; right; simp
    case bcast =>
      split at hs
      · cases hs
      · cases hs
        intro hp
        have hp' : u.pc = .registered := hp
        left; simp [hp']
    case add =>
      split at hs
      · cases hs; intro _; left; rfl
      · cases hs
    case snap => simp at hs
    case reg => simp at hs

/-- **Joining at any moment** (C06, subscriber clause): with the registration and the initial snapshot in one critical
section under `subscriberMutex`, in every reachable state in which the subscriber is registered and every change has
been broadcast, the last snapshot it received is the current map — however the join interleaves with changes and
broadcasts. -/
theorem c06_join_converges {c : Nat} {s : St} (h : Reach (lts false) (init c) s) (hp : s.pc = .registered) (hq : s.owed = 0) :
    s.last = some s.cache := by
  rcases join_inv h hp with h1 | h1
  · exact h1
  · omega

/-- **The split variant loses the last change** (seeded change C06-m5): snapshot first, registration afterwards — a
change and its broadcast in between never reach the subscriber: it is registered, everything has been broadcast, and
its last snapshot is not the current map. -/
theorem split_join_loses_update :
    ∃ s, run (lts true) (init 0) [.snap, .change 1, .bcast, .reg] = some s
      ∧ s.pc = .registered ∧ s.owed = 0 ∧ s.last = some 0 ∧ s.cache = 1 := by
  refine ⟨_, rfl, ?_⟩
  decide

end GoSup.Props.C06A
