/-!
# Classification of the blocking alternatives of the library's goroutines (hand-written; C18)

`Generated/Goroutines.lean` lists, for every `go` statement / `WaitGroup.Go` of the library, the
points where the goroutine can block and the alternatives of each point.  This file says, for each
alternative that is relied upon, *why* it cannot leave the goroutine parked for ever once the
component has terminated and every subscription context has been cancelled.  An alternative that
is not listed is treated as `peer` (needs a partner that may never come) and makes the point unsafe
unless another alternative of the same `select` is listed.

Classes: `nb` never blocks; `term` enabled for ever after termination; `wait` enabled when the
listed sites have no live goroutine (`WaitGroup.Wait`).
-/
namespace GoSup.Expected

/-- (site key `function|what` or `*`, alternative, class, awaited sites, justification) -/
def goroutineClasses : List (String × String × String × List String × String) := [
  -- contexts
  ("*", "<-p.ctx.Done()", "term", [], "supervisor context; Shutdown cancels it after the runnables' Stop calls (supervisor.go, p.cancel())"),
  ("supervisor.PIDZero.SubscribeStateChanges|go func#0", "<-ctx.Done()", "term", [],
    "the subscription context; the property's premise is that it has been cancelled"),
  ("finitestate.Machine.getStateChanInternal|go func#0", "<-ctx.Done()", "term", [], "the subscription context (premise)"),
  ("finitestate.Machine.getStateChanInternal|go func#0", "range userCh", "term", [],
    "go-fsm's broadcast.Manager closes the channel after the subscription context ended (manager.go: unsubscribe, close(ch))"),
  ("finitestate.Machine.getStateChanInternal|go func#0", "<-time.After(forwardGracePeriod)", "term", [], "a timer fires"),
  -- timers
  ("*", "<-time.After(p.shutdownTimeout)", "term", [], "a timer fires"),
  -- non-blocking by construction
  ("*", "default", "nb", [], "select with default"),
  ("supervisor.PIDZero.Run|p.goTracked func#0", "p.errorChan<-", "nb", [],
    "errorChan is buffered for 2n errors, never closed (repaired code), and every runnable goroutine sends at most once"),
  ("httpserver.Runner.boot|go func#0", "r.serverErrors<-", "nb", [],
    "buffered(1): the goroutine of a boot sends at most once, and an earlier error was either consumed by that boot's " ++
    "readiness probe or made Run return (after which no boot happens); not proved, covered by the leak oracle on failing boots"),
  ("*", "call signal.Stop", "nb", [], "os/signal bookkeeping"),
  ("*", "call unsubCallback", "nb", [], "takes subscriberMutex for a map delete and closes the channel"),
  ("*", "call s.GetStateChan", "nb", [], "user getter (Stateable contract: returns a channel)"),
  ("*", "call s.GetShutdownTrigger", "nb", [], "user getter"),
  -- calls into supervised components: return once the component has been stopped (Runnable contract; C07 for the bundled ones)
  ("*", "call r.Run", "term", [], "Runnable contract: Run returns after Stop / context cancellation; Shutdown calls both"),
  ("*", "call r.Stop", "term", [], "Runnable contract: Stop returns (C07 for lifecycle-based runnables)"),
  ("*", "call subRunnable.Run", "term", [], "child Run returns after stopAllRunnables / context cancellation"),
  ("*", "call run.Stop", "term", [], "child Stop returns"),
  ("*", "call runner.Run", "term", [], "httpserver.Runner.Run returns after Stop / cancel (C14)"),
  ("*", "call entry.runner.Stop", "term", [], "httpserver.Runner.Stop returns after Run returned (C07)"),
  ("*", "call server.ListenAndServe", "term", [],
    "returns ErrServerClosed once stopServer called Shutdown on this server instance (every shutdown / reload / failed boot does)"),
  ("*", "call reloader.Reload", "term", [], "Reloadable contract: Reload returns"),
  ("*", "call p.shutdownOnce.Do", "term", [],
    "returns when the first Shutdown call returned; that call passes only points listed here (r.Stop, the wg wait with its timeout)"),
  -- wait groups
  ("*", "call senderWg.Wait", "wait", ["supervisor.PIDZero.startReloadManager|senderWg.Go func#0"], "only the reload-trigger listeners are added"),
  ("*", "call stateWg.Wait", "wait", ["supervisor.PIDZero.startStateMonitor|go func#0"], "only the per-runnable monitors are added"),
  ("*", "call shutdownWg.Wait", "wait", ["supervisor.PIDZero.startShutdownManager|go func#0"], "only the trigger listeners are added"),
  ("*", "call p.wg.Wait", "wait",
    ["supervisor.PIDZero.Run|p.goTracked p.startReloadManager", "supervisor.PIDZero.Run|p.goTracked p.startStateMonitor",
     "supervisor.PIDZero.Run|p.goTracked p.startShutdownManager", "supervisor.PIDZero.Run|p.goTracked func#0"],
    "p.wg tracks the three managers and the runnable goroutines")
]

/-- sites in ascending rank: a `wait` may only name sites that come earlier -/
def goroutineOrder : List String := [
  "supervisor.PIDZero.startReloadManager|senderWg.Go func#0",
  "supervisor.PIDZero.startStateMonitor|go func#0",
  "supervisor.PIDZero.startShutdownManager|go func#0",
  "supervisor.PIDZero.Run|p.goTracked p.startReloadManager",
  "supervisor.PIDZero.Run|p.goTracked p.startStateMonitor",
  "supervisor.PIDZero.Run|p.goTracked p.startShutdownManager",
  "supervisor.PIDZero.Run|p.goTracked func#0",
  "supervisor.PIDZero.Shutdown|go func#0",
  "supervisor.PIDZero.startShutdownManager|go p.Shutdown"
]

end GoSup.Expected
