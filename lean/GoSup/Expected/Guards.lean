/-!
# Expected guard classes (hand-written; what the C17 instantiation assumes about the source)

Fields that are written after construction and are *not* covered by one mutex at every access:
they are ordered by a protocol instead.  Every entry carries its justification; a field that is
not listed here must pass the mutex discipline.
-/
namespace GoSup.Expected

/-- (struct, field, justification) -/
def protocolFields : List (String × String × String) := [
  ("composite.Runner", "ctx",
    "written by Run (under runnablesMu) before Transition(Running); read by reloadWithRestart only after " ++
    "Transition(Reloading) succeeded, which requires the state Running: the FSM's internal mutex orders the two"),
  ("composite.Runner", "serverErrors",
    "replaced only during the initial boot (state Booting, repaired code), by the Run goroutine itself, before it " ++
    "starts the child goroutines (go statement) and before its own select: every reader is ordered after the write"),
  ("httpserver.Runner", "ctx",
    "written by Run under r.mutex before the first boot; every later read is in boot/Reload, whose callers hold " ++
    "r.mutex (call-site propagation covers Reload and Run; boot's own reads inherit the callers' lock)")
]

end GoSup.Expected
