/-!
# Labelled transition systems: reachability, invariants, runs, executable trace acceptor

Every concurrent model is an `Lts`: a partial deterministic `step : σ → α → Option σ`
(`none` = the action is not enabled).  "Every schedule / history" = every action sequence
accepted by `step` from the initial state (`Reach`, an inductive set; no bound on length).
-/
namespace GoSup.Core

structure Lts (σ α : Type) where
  step : σ → α → Option σ

variable {σ α : Type}

inductive Reach (L : Lts σ α) (init : σ) : σ → Prop where
  | init : Reach L init init
  | step {s s' : σ} {a : α} : Reach L init s → L.step s a = some s' → Reach L init s'

/-- run an action sequence; `none` as soon as an action is not enabled -/
def run (L : Lts σ α) (s : σ) : List α → Option σ
  | [] => some s
  | a :: as => (L.step s a).bind fun s' => run L s' as

theorem reach_trans {L : Lts σ α} {i s t : σ} (h : Reach L i s) (h' : Reach L s t) : Reach L i t := by
  induction h' with
  | init => exact h
  | step _ hs ih => exact .step ih hs

theorem reach_of_run {L : Lts σ α} {s t : σ} {as : List α} (h : run L s as = some t) : Reach L s t := by
  induction as generalizing s with
  | nil => simp [run] at h; subst h; exact .init
  | cons a as ih =>
    simp only [run] at h
    cases hs : L.step s a with
    | none => simp [hs] at h
    | some s' =>
      simp [hs] at h
      exact reach_trans (.step .init hs) (ih h)

theorem run_append (L : Lts σ α) (s : σ) (as bs : List α) :
    run L s (as ++ bs) = (run L s as).bind fun s' => run L s' bs := by
  induction as generalizing s with
  | nil => simp [run]
  | cons a as ih =>
    simp only [run, List.cons_append]
    cases L.step s a with
    | none => simp
    | some s' => simp [ih]

theorem run_of_reach {L : Lts σ α} {s t : σ} (h : Reach L s t) : ∃ as, run L s as = some t := by
  induction h with
  | init => exact ⟨[], rfl⟩
  | @step u v a _ hs ih =>
    obtain ⟨as, has⟩ := ih
    exact ⟨as ++ [a], by simp [run_append, has, run, hs]⟩

/-- invariant induction: the whole point of the exercise -/
theorem inv_of_reach {L : Lts σ α} {init : σ} (Inv : σ → Prop) (h0 : Inv init)
    (hstep : ∀ s a s', Inv s → L.step s a = some s' → Inv s') {s : σ} (h : Reach L init s) : Inv s := by
  induction h with
  | init => exact h0
  | step _ hs ih => exact hstep _ _ _ ih hs

/-! ## Executable acceptor with internal (unobserved) actions

`internal s` lists the candidate internal actions of state `s`, `matching s o` the candidate
actions whose observation is `o`.  The acceptor keeps the *set* of model states compatible with
the observed prefix. -/

structure Acceptor (σ α ω : Type) where
  lts      : Lts σ α
  internal : σ → List α
  matching : σ → ω → List α
  /-- *eager* internal actions: progress of one thread that commutes with every other action and
  never disables one (a goroutine running to its end, a manager exiting after cancellation).
  They are applied at once, and the state before them is not kept: this is a partial-order
  reduction that keeps the set of compatible states small.  Soundness (`accept_sound`) does not
  depend on the choice; completeness of the acceptor for conforming traces does, and is what the
  unchanged-tree sweeps exercise. -/
  eager    : σ → List α := fun _ => []

variable {ω : Type}

def insertNew [BEq σ] (acc : List σ) (s : σ) : List σ := if acc.contains s then acc else acc ++ [s]

/-- apply the first enabled action of `acts`, if any -/
def firstStep (L : Lts σ α) (s : σ) : List α → Option σ
  | [] => none
  | a :: as => match L.step s a with
    | some s' => some s'
    | none => firstStep L s as

/-- run eager actions to a fixed point (at most `n` of them) -/
def eagerClose (A : Acceptor σ α ω) : Nat → σ → σ
  | 0, s => s
  | n + 1, s => match firstStep A.lts s (A.eager s) with
    | some s' => eagerClose A n s'
    | none => s

theorem firstStep_reach {L : Lts σ α} {s s' : σ} {acts : List α} (h : firstStep L s acts = some s') :
    ∃ a, L.step s a = some s' := by
  induction acts with
  | nil => simp [firstStep] at h
  | cons a as ih =>
    simp only [firstStep] at h
    cases hs : L.step s a with
    | none => simp [hs] at h; exact ih h
    | some t => simp [hs] at h; subst h; exact ⟨a, hs⟩

theorem eagerClose_reach (A : Acceptor σ α ω) (init : σ) (n : Nat) (s : σ) (h : Reach A.lts init s) :
    Reach A.lts init (eagerClose A n s) := by
  induction n generalizing s with
  | zero => simpa [eagerClose] using h
  | succ n ih =>
    simp only [eagerClose]
    cases hf : firstStep A.lts s (A.eager s) with
    | none => simpa using h
    | some s' =>
      obtain ⟨a, ha⟩ := firstStep_reach hf
      exact ih s' (.step h ha)

/-- one round of internal steps from every state of the frontier -/
def tauRound [BEq σ] (A : Acceptor σ α ω) (front : List σ) : List σ :=
  front.foldl (fun acc s => (A.internal s).foldl (fun acc a =>
    match A.lts.step s a with
    | some s' => insertNew acc (eagerClose A 64 s')
    | none => acc) acc) front

/-- τ-closure by iteration (fuel bounds the number of rounds; it stops at a fixed point) -/
def tauClosure [BEq σ] (A : Acceptor σ α ω) : Nat → List σ → List σ
  | 0, front => front
  | n + 1, front =>
    let next := tauRound A front
    if next.length == front.length then front else tauClosure A n next

def obsStep [BEq σ] (A : Acceptor σ α ω) (fuel : Nat) (front : List σ) (o : ω) : List σ :=
  (tauClosure A fuel front).foldl (fun acc s => (A.matching s o).foldl (fun acc a =>
    match A.lts.step s a with
    | some s' => insertNew acc (eagerClose A 64 s')
    | none => acc) acc) []

/-- `ok front` = the states compatible with the whole trace (after a final τ-closure);
`error k` = the event with index `k` cannot be explained -/
def accept [BEq σ] (A : Acceptor σ α ω) (fuel : Nat) (front : List σ) (k : Nat) : List ω → Except Nat (List σ)
  | [] => .ok (tauClosure A fuel front)
  | o :: os =>
    match obsStep A fuel front o with
    | [] => .error k
    | front' => accept A fuel front' (k + 1) os

/-! soundness of the acceptor: every state it holds is reachable -/

theorem mem_insertNew [BEq σ] {acc : List σ} {s x : σ} (h : x ∈ insertNew acc s) : x ∈ acc ∨ x = s := by
  unfold insertNew at h
  split at h
  · exact .inl h
  · simp at h; exact h

theorem tauRound_sound [BEq σ] (A : Acceptor σ α ω) (init : σ) (front : List σ)
    (h : ∀ s ∈ front, Reach A.lts init s) : ∀ s ∈ tauRound A front, Reach A.lts init s := by
  unfold tauRound
  have key : ∀ (l : List σ) (acc : List σ), (∀ s ∈ l, Reach A.lts init s) → (∀ s ∈ acc, Reach A.lts init s) →
      ∀ s ∈ l.foldl (fun acc s => (A.internal s).foldl (fun acc a =>
        match A.lts.step s a with
        | some s' => insertNew acc (eagerClose A 64 s')
        | none => acc) acc) acc, Reach A.lts init s := by
    intro l
    induction l with
    | nil => intro acc _ ha; simpa using ha
    | cons x xs ih =>
      intro acc hl ha
      simp only [List.foldl_cons]
      apply ih
      · intro s hs; exact hl s (List.mem_cons_of_mem _ hs)
      · have hx := hl x (List.mem_cons_self)
        generalize A.internal x = acts
        induction acts generalizing acc with
        | nil => simpa using ha
        | cons a as iha =>
          simp only [List.foldl_cons]
          apply iha
          cases hst : A.lts.step x a with
          | none => simpa using ha
          | some s' =>
            intro s hs
            rcases mem_insertNew hs with h1 | h1
            · exact ha s h1
            · subst h1; exact eagerClose_reach A init 64 _ (.step hx hst)
  exact key front front h h

theorem tauClosure_sound [BEq σ] (A : Acceptor σ α ω) (init : σ) (n : Nat) (front : List σ)
    (h : ∀ s ∈ front, Reach A.lts init s) : ∀ s ∈ tauClosure A n front, Reach A.lts init s := by
  induction n generalizing front with
  | zero => simpa [tauClosure] using h
  | succ n ih =>
    simp only [tauClosure]
    split
    · exact h
    · exact ih _ (tauRound_sound A init front h)

theorem obsStep_sound [BEq σ] (A : Acceptor σ α ω) (init : σ) (n : Nat) (front : List σ) (o : ω)
    (h : ∀ s ∈ front, Reach A.lts init s) : ∀ s ∈ obsStep A n front o, Reach A.lts init s := by
  unfold obsStep
  have hc := tauClosure_sound A init n front h
  generalize tauClosure A n front = cl at hc
  have key : ∀ (l : List σ) (acc : List σ), (∀ s ∈ l, Reach A.lts init s) → (∀ s ∈ acc, Reach A.lts init s) →
      ∀ s ∈ l.foldl (fun acc s => (A.matching s o).foldl (fun acc a =>
        match A.lts.step s a with
        | some s' => insertNew acc (eagerClose A 64 s')
        | none => acc) acc) acc, Reach A.lts init s := by
    intro l
    induction l with
    | nil => intro acc _ ha; simpa using ha
    | cons x xs ih =>
      intro acc hl ha
      simp only [List.foldl_cons]
      apply ih
      · intro s hs; exact hl s (List.mem_cons_of_mem _ hs)
      · have hx := hl x (List.mem_cons_self)
        generalize A.matching x o = acts
        induction acts generalizing acc with
        | nil => simpa using ha
        | cons a as iha =>
          simp only [List.foldl_cons]
          apply iha
          cases hst : A.lts.step x a with
          | none => simpa using ha
          | some s' =>
            intro s hs
            rcases mem_insertNew hs with h1 | h1
            · exact ha s h1
            · subst h1; exact eagerClose_reach A init 64 _ (.step hx hst)
  exact key cl [] hc (by simp)

/-- every state the acceptor ends with is a reachable state of the model: "accepted" means
"is a trace of the model", so invariants proved by `inv_of_reach` apply to it -/
theorem accept_sound [BEq σ] (A : Acceptor σ α ω) (init : σ) (n : Nat) (front : List σ) (k : Nat) (os : List ω)
    (h : ∀ s ∈ front, Reach A.lts init s) (res : List σ) (hr : accept A n front k os = .ok res) :
    ∀ s ∈ res, Reach A.lts init s := by
  induction os generalizing front k with
  | nil =>
    simp only [accept] at hr
    cases hr
    exact tauClosure_sound A init n front h
  | cons o os ih =>
    simp only [accept] at hr
    split at hr
    · cases hr
    · rename_i front' hne
      exact ih _ _ (obsStep_sound A init n front o h) hr

end GoSup.Core

namespace GoSup.Core
variable {σ α : Type}

/-! ## progress: absence of deadlock + a decreasing measure -/

/-- a measure that every action of a class decreases bounds the length of every execution made of such actions -/
theorem run_length_le_measure {L : Lts σ α} (isLib : α → Bool) (M : σ → Nat)
    (hdec : ∀ s a s', isLib a = true → L.step s a = some s' → M s' < M s)
    (s t : σ) (as : List α) (hall : as.all isLib = true) (hrun : run L s as = some t) : as.length + M t ≤ M s := by
  induction as generalizing s with
  | nil => simp [run] at hrun; subst hrun; simp
  | cons a as ih =>
    simp only [List.all_cons, Bool.and_eq_true] at hall
    simp only [run] at hrun
    cases hs : L.step s a with
    | none => simp [hs] at hrun
    | some s' =>
      simp only [hs, Option.bind_some] at hrun
      have h1 := ih s' hall.2 hrun
      have h2 := hdec s a s' hall.1 hs
      simp only [List.length_cons]
      omega

/-- if, on the states satisfying `P` (closed under the class), a non-final state always has an enabled action of the
class and every such action decreases the measure, then from every such state the class alone reaches a final state,
within `M s` steps -/
theorem exists_final_run {L : Lts σ α} (isLib : α → Bool) (M : σ → Nat) (P final : σ → Prop)
    (hP : ∀ s a s', P s → isLib a = true → L.step s a = some s' → P s')
    (hprog : ∀ s, P s → ¬ final s → ∃ a, isLib a = true ∧ (L.step s a).isSome = true)
    (hdec : ∀ s a s', isLib a = true → L.step s a = some s' → M s' < M s) :
    ∀ s, P s → ∃ as t, as.all isLib = true ∧ run L s as = some t ∧ final t ∧ as.length ≤ M s := by
  have key : ∀ n s, M s ≤ n → P s → ∃ as t, as.all isLib = true ∧ run L s as = some t ∧ final t ∧ as.length ≤ M s := by
    intro n
    induction n with
    | zero =>
      intro s hm hp
      by_cases hf : final s
      · exact ⟨[], s, rfl, rfl, hf, Nat.zero_le _⟩
      · obtain ⟨a, hlib, hen⟩ := hprog s hp hf
        obtain ⟨s', hs'⟩ := Option.isSome_iff_exists.mp hen
        have := hdec s a s' hlib hs'
        omega
    | succ n ih =>
      intro s hm hp
      by_cases hf : final s
      · exact ⟨[], s, rfl, rfl, hf, Nat.zero_le _⟩
      · obtain ⟨a, hlib, hen⟩ := hprog s hp hf
        obtain ⟨s', hs'⟩ := Option.isSome_iff_exists.mp hen
        have hlt := hdec s a s' hlib hs'
        obtain ⟨as, t, h1, h2, h3, h4⟩ := ih s' (by omega) (hP s a s' hp hlib hs')
        refine ⟨a :: as, t, by simp [hlib, h1], by simp [run, hs', h2], h3, ?_⟩
        simp only [List.length_cons]
        omega
  intro s hp
  exact key (M s) s (Nat.le_refl _) hp

end GoSup.Core
