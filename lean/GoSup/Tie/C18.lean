import GoSup.Props.C18
import GoSup.Generated.Goroutines
import GoSup.Expected.GoroutineClasses
/-! # C18 — every goroutine the library starts (regenerated table) has a safe alternative at every blocking point -/
namespace GoSup.Tie.C18
open GoSup.Props.C18

theorem tie_goroutines : tableSafe GoSup.Expected.goroutineClasses GoSup.Expected.goroutineOrder
    GoSup.Generated.goroutines = true := by decide +kernel

end GoSup.Tie.C18
