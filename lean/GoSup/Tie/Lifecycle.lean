import GoSup.Generated.Tables
/-!
# Tie: the bundled runners use `lifecycle.StartStop` the way the C07 lift needs

Regenerated table `Generated.lifecycleUse`: for composite, httpserver and httpcluster,
`Run` begins with `done := r.lc.Started(); defer done()` (so the model's `runStart`/`runEnd`
bracket the whole of `Run`), its main `select` has a `case <-r.lc.StopCh():` (a closed stop
channel wakes `Run`), and `Stop()`'s body is exactly `r.lc.Stop()` (so the runner's `Stop` *is*
the modelled `Stop`).
-/
namespace GoSup.Tie.Lifecycle
open GoSup.Generated

def runOk (e : String × List String × Bool) : Bool :=
  e.2.1 == ["done := r.lc.Started()", "defer done()"] && e.2.2

def stopOk (e : String × List String × Bool) : Bool :=
  e.2.1 == ["r.lc.Stop()"]

def usesLifecycle (t : List (String × List String × Bool)) : Bool :=
  ["composite", "httpserver", "httpcluster"].all fun pkg =>
    (t.any fun e => e.1 == pkg ++ ".Runner.Run" && runOk e) &&
    (t.any fun e => e.1 == pkg ++ ".Runner.Stop" && stopOk e)

theorem runners_use_lifecycle : usesLifecycle lifecycleUse = true := by decide +kernel

end GoSup.Tie.Lifecycle
