import GoSup.Props.C17
import GoSup.Generated.Accesses
import GoSup.Expected.Guards
/-! # C17 — the regenerated access table obeys the lock discipline -/
namespace GoSup.Tie.C17
open GoSup.Props.C17

/-- **The bundled runners, the supervisor and the lifecycle helper obey the discipline** (table
regenerated from the source on every run; kernel-evaluated) -/
theorem tie_discipline : disciplined GoSup.Generated.exportedMethods GoSup.Generated.mutexes GoSup.Generated.selfCalls
    GoSup.Generated.accesses GoSup.Expected.protocolFields = true := by decide +kernel

/-- the pinned code did not (finding C17-F1): a write under a read lock is rejected by the check -/
example : fieldOk ["httpcluster.Runner.GetServerCount"] ["mu"] []
    [("httpcluster.Runner", "currentEntries", "W", "httpcluster.Runner.shutdown", ["mu:R"], ""),
     ("httpcluster.Runner", "currentEntries", "M:count", "httpcluster.Runner.GetServerCount", ["mu:R"], "")] []
    "httpcluster.Runner" "currentEntries" = false := by decide +kernel

end GoSup.Tie.C17
