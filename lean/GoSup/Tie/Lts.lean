import GoSup.Model.Fsm
import GoSup.Model.CompLts
import GoSup.Model.HttpLts
import GoSup.Generated.Tables
/-!
# Ties of the concurrent models to regenerated tables

`CompLts.allowed` and `HttpLts.allowed` — the transition tables the two concurrent models use for
`Transition(...)` — are the *extracted* table `transitions.Typical` of the pinned go-fsm module.
-/
namespace GoSup.Tie.Lts
open GoSup.CompSeq (Fsm)

def fsmName : Fsm → String
  | .new => "New" | .booting => "Booting" | .running => "Running" | .reloading => "Reloading"
  | .stopping => "Stopping" | .stopped => "Stopped" | .error => "Error"

def allFsm : List Fsm := [.new, .booting, .running, .reloading, .stopping, .stopped, .error]

/-- the composite model's table is the extracted one, entry by entry -/
theorem tie_comp_table :
    (allFsm.all fun a => allFsm.all fun b =>
      GoSup.CompLts.allowed a b == GoSup.Fsm.allowed GoSup.Generated.typical (fsmName a) (fsmName b)) = true := by
  decide +kernel

/-- the HTTP server model's table is the extracted one, entry by entry -/
theorem tie_http_table :
    (allFsm.all fun a => allFsm.all fun b =>
      GoSup.HttpLts.allowed a b == GoSup.Fsm.allowed GoSup.Generated.typical (fsmName a) (fsmName b)) = true := by
  decide +kernel

end GoSup.Tie.Lts
