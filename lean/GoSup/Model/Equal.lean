/-!
# Model of `httpserver.Config.Equal` / `Routes.Equal` / `Route.Equal` (C13)
1:1 with `config.go` / `routes.go`, including the comparison of the sorted name lists through
`fmt.Sprintf("%v", …)` and the path map in which the last route of a path wins.
-/
namespace GoSup.Equal

structure Route where
  name : String
  path : String
  deriving DecidableEq, Repr

structure Config where
  addr   : String
  drain  : Int
  read   : Int
  write  : Int
  idle   : Int
  routes : List Route
  deriving DecidableEq, Repr

/-- `routeMap[route.Path] = route` for every route in order: the last one of a path wins -/
def lookupLast (rs : List Route) (p : String) : Option Route :=
  rs.reverse.find? fun r => r.path == p

def sortedNames (rs : List Route) : List String :=
  (rs.map (·.name)).mergeSort (fun a b => decide (a ≤ b))

/-- `fmt.Sprintf("%v", names)` -/
def sprintV (l : List String) : String := "[" ++ " ".intercalate l ++ "]"

/-- `Route.Equal` -/
def routeEqual (a b : Route) : Bool := a.path == b.path && a.name == b.name

/-- `Routes.Equal` -/
def routesEqual (r o : List Route) : Bool :=
  r.length == o.length
  && sprintV (sortedNames r) == sprintV (sortedNames o)
  && o.all fun x =>
      match lookupLast r x.path with
      | some y => routeEqual y x
      | none => false

/-- `Config.Equal` (receiver `c`, argument `o`, both non-nil) -/
def configEqual (c o : Config) : Bool :=
  c.addr == o.addr && c.drain == o.drain && routesEqual c.routes o.routes
  && c.read == o.read && c.write == o.write && c.idle == o.idle

end GoSup.Equal
