import GoSup.Core.Lts
/-!
# Model of one state subscription (`finitestate.Machine.getStateChanInternal`) (C08, C06)

The state machine changes state (`change v`: the new state is stored and published to every registered
subscriber inside the machine's write lock — one atomic action); a subscriber (i) registers with the
broadcast manager (`register`: from now on every change is queued for it), (ii) reads the current state
(`readCurrent`) and hands it to its reader first, then forwards the queue in order.  `delivered` is what
the reader receives; `changes` is the history of the state variable since `init`.

`readFirst := true` is the variant of the seeded changes C08-m3 / C06-m4: the current state is read
*before* the registration.
-/
namespace GoSup.FsmSub
open GoSup.Core

abbrev State := Nat

inductive Pc where | start | registered | readDone (initial : State) | reading (initial : State) | streaming
  deriving DecidableEq, Repr

structure St where
  cur       : State
  hist      : List State := []       -- every value the state variable took after the start, in order
  pc        : Pc := .start
  queue     : List State := []       -- published to this subscriber and not yet forwarded
  delivered : List State := []       -- what the reader has received
  regAt     : Option Nat := none     -- ghost: length of `hist` at the registration
  readAt    : Option Nat := none     -- ghost: length of `hist` when the current state was read
  deriving DecidableEq, Repr

inductive Act where
  | change (v : State)
  | register | readCurrent | forward
  deriving DecidableEq, Repr

def isRegistered (s : St) : Bool := match s.pc with | .registered | .reading _ | .streaming => true | _ => false

/-- `readFirst = false`: the code as it is (register, then read); `true`: read, then register -/
def step (readFirst : Bool) (s : St) : Act → Option St
  | .change v =>
    some { s with cur := v, hist := s.hist ++ [v], queue := if isRegistered s then s.queue ++ [v] else s.queue }
  | .register =>
    match readFirst, s.pc with
    | false, .start => some { s with pc := .registered, regAt := some s.hist.length }
    | true, .readDone i => some { s with pc := .reading i, regAt := some s.hist.length }
    | _, _ => none
  | .readCurrent =>
    match readFirst, s.pc with
    | false, .registered => some { s with pc := .reading s.cur, readAt := some s.hist.length }
    | true, .start => some { s with pc := .readDone s.cur, readAt := some s.hist.length }
    | _, _ => none
  | .forward =>
    match s.pc with
    | .reading i => some { s with pc := .streaming, delivered := s.delivered ++ [i] }     -- `wrappedCh <- currentState`
    | .streaming =>
      (match s.queue with
       | v :: rest => some { s with queue := rest, delivered := s.delivered ++ [v] }
       | [] => none)
    | _ => none

def lts (readFirst : Bool) : Lts St Act := ⟨step readFirst⟩

def init (c : State) : St := { cur := c }

/-- the subscriber has received everything that was published for it -/
def drained (s : St) : Bool := s.pc == .streaming && s.queue.isEmpty

end GoSup.FsmSub
