/-!
# Supervisor state cache of one Stateable runnable (C06)

The cache entry `stateMap[r]`, its writers and the monitor goroutine of `startStateMonitor`, for one
runnable (entries of different runnables are independent: `sync.Map`, one monitor per runnable).

* the runnable: `tru` is what `GetState()` returns; `change v` is a state change, `emitDup` a repeated
  emission of the same state.  `GetStateChan` contract: the channel delivers the state at
  subscription time first and then every later emission, in order (`chan`, a FIFO);
* the monitor: subscribes (`subscribe`), discards the first value and takes `lastState` from the
  cache (`monFirst`), then for every value: skip if equal to `lastState`, else `Swap` + broadcast;
* the other writers read `GetState()` and store it in two steps (`wRead`, then `wStoreB` for the launch
  store of `startRunnable` and the post-reload store, which broadcast, or `wStore` for Shutdown's
  post-Stop stores, which do not); any number may be in flight.

`dirty` is a ghost flag: it records that a state change fell between a writer's read and its store
(the stale-store window, finding C06-F2).  The pinned code had a second window (C06-F1: a change
between the launch store and the monitor's subscription), closed by the repair of `monFirst`;
`monFirstPinned` keeps the old behaviour for the witness theorem.
-/
namespace GoSup.SupState

abbrev State := Nat

inductive Mon where
  | notSub | awaitFirst | loop (last : Option State) | exited
  deriving DecidableEq, Repr

structure St where
  tru   : State
  chan  : List State := []
  mon   : Mon := .notSub
  cache : Option State := none
  pend  : List State := []          -- values read by writers and not yet stored
  snap  : Option State := none      -- this runnable's entry in the most recent broadcast snapshot
  bcasts : Nat := 0                  -- broadcasts caused by this runnable's monitor
  ctx   : Bool := false
  dirty : Bool := false
  silent : Bool := false            -- ghost: a store without broadcast has happened (only Shutdown's post-Stop stores do that)
  deriving DecidableEq, Repr

inductive Act where
  | change (v : State) | emitDup
  | subscribe | monFirst | monRecv | monExit
  | wRead | wStore (k : Nat)
  | wStoreB (k : Nat)                -- the launch store and the post-reload store: followed by a broadcast (at least)
                                     -- when they change the entry (repaired code, C06-F3 and C06-F4)
  | otherBcast                       -- another runnable's monitor broadcasts (snapshot of the whole map)
  | cancel
  deriving DecidableEq, Repr

def subscribed (s : St) : Bool := match s.mon with | .awaitFirst | .loop _ => true | _ => false

def step (s : St) : Act → Option St
  | .change v =>
    if v = s.tru then none
    else if subscribed s then
      some { s with tru := v, chan := s.chan ++ [v], dirty := s.dirty || !s.pend.isEmpty }
    else
      some { s with tru := v, dirty := s.dirty || !s.pend.isEmpty }
  | .emitDup =>
    if subscribed s then some { s with chan := s.chan ++ [s.tru] } else none
  | .subscribe =>
    if s.mon == .notSub && !s.ctx then some { s with mon := .awaitFirst, chan := [s.tru] } else none
  | .monFirst =>
    -- repaired code (finding C06-F1): the first value is applied when it differs from the recorded state
    match s.mon, s.chan with
    | .awaitFirst, x :: rest =>
      match s.cache with
      | some c =>
        if c = x then some { s with mon := .loop (some c), chan := rest }
        else some { s with mon := .loop (some x), chan := rest, cache := some x, snap := some x, bcasts := s.bcasts + 1 }
      | none => some { s with mon := .loop none, chan := rest }
    | _, _ => none
  | .monRecv =>
    match s.mon, s.chan with
    | .loop last, x :: rest =>
      if some x = last then some { s with chan := rest }
      else some { s with chan := rest, mon := .loop (some x), cache := some x, snap := some x, bcasts := s.bcasts + 1 }
    | _, _ => none
  | .monExit =>
    if s.ctx && subscribed s then some { s with mon := .exited } else none
  | .wRead => some { s with pend := s.pend ++ [s.tru] }
  | .wStore k =>
    match s.pend[k]? with
    | some v => some { s with cache := some v, pend := s.pend.eraseIdx k, silent := true }
    | none => none
  | .wStoreB k =>
    match s.pend[k]? with
    | some v => some { s with cache := some v, pend := s.pend.eraseIdx k,
                              snap := if s.cache = some v then s.snap else some v }
    | none => none
  | .otherBcast => some { s with snap := s.cache }
  | .cancel => some { s with ctx := true }

inductive Reach (t0 : State) : St → Prop where
  | init : Reach t0 { tru := t0 }
  | step {s s' a} : Reach t0 s → step s a = some s' → Reach t0 s'

/-- the system is at rest while running: the monitor is in its loop with an empty channel and no
writer is between its read and its store -/
def Quiescent (s : St) : Prop := (∃ l, s.mon = .loop l) ∧ s.chan = [] ∧ s.pend = []

/-- the value the channel ends with (the monitor's `lastState` when it is empty) -/
def endVal (last : Option State) (chan : List State) : Option State :=
  match chan.getLast? with | some x => some x | none => last

end GoSup.SupState

namespace GoSup.SupState

/-- the pinned code's handling of the first value: discarded unconditionally -/
def monFirstPinned (s : St) : Option St :=
  match s.mon, s.chan with
  | .awaitFirst, _ :: rest => some { s with mon := .loop s.cache, chan := rest }
  | _, _ => none

def stepPinned (s : St) (a : Act) : Option St := if a = .monFirst then monFirstPinned s else step s a

def runPinned (s : St) : List Act → Option St
  | [] => some s
  | a :: as => (stepPinned s a).bind fun s' => runPinned s' as

def run (s : St) : List Act → Option St
  | [] => some s
  | a :: as => (step s a).bind fun s' => run s' as

theorem reach_of_run {t0 : State} {s t : St} (hs : Reach t0 s) {as : List Act} (h : run s as = some t) : Reach t0 t := by
  induction as generalizing s with
  | nil => simp [run] at h; subst h; exact hs
  | cons a as ih =>
    simp only [run] at h
    cases hst : step s a with
    | none => simp [hst] at h
    | some s' => simp [hst] at h; exact ih (.step hs hst) h

end GoSup.SupState

/-!
# Subscription channels: broadcast vs. unsubscribe + close (C06 e)

One subscription channel of `SubscribeStateChanges`, any number of broadcasting monitor goroutines,
and the closer goroutine (`<-ctx.Done(); unsubCallback(); close(ch)`).  `subscriberMutex` is held
for the whole of `broadcastState` and for the map delete of `unsubscribeState`.
-/
namespace GoSup.SubProto

inductive Owner where | bcast (i : Nat) | closer
  deriving DecidableEq, Repr

inductive CPc where | waitCtx | inLock | deleted | unlocked | done
  deriving DecidableEq, Repr

structure St where
  holder     : Option Owner := none
  subscribed : Bool := true          -- `AddStateSubscriber` has stored the channel
  closed     : Bool := false
  closes     : Nat := 0
  sends      : Nat := 0
  ctxDone    : Bool := false
  closer     : CPc := .waitCtx
  panicked   : Bool := false
  deriving DecidableEq, Repr

inductive Act where
  | bLock (i : Nat) | bSend (i : Nat) | bUnlock (i : Nat)
  | ctxCancel | cLock | cDelete | cUnlock | cClose
  deriving DecidableEq, Repr

def step (s : St) : Act → Option St
  | .bLock i => if s.holder.isNone then some { s with holder := some (.bcast i) } else none
  | .bSend i =>
    -- `stateSubscribers.Range`: sends (non-blocking) to every channel still in the map
    if s.holder = some (.bcast i) then
      if s.subscribed then
        if s.closed then some { s with panicked := true }          -- send on closed channel
        else some { s with sends := s.sends + 1 }
      else some s
    else none
  | .bUnlock i => if s.holder = some (.bcast i) then some { s with holder := none } else none
  | .ctxCancel => some { s with ctxDone := true }
  | .cLock => if s.closer = .waitCtx && s.ctxDone && s.holder.isNone then some { s with holder := some .closer, closer := .inLock } else none
  | .cDelete => if s.closer = .inLock then some { s with subscribed := false, closer := .deleted } else none
  | .cUnlock => if s.closer = .deleted then some { s with holder := none, closer := .unlocked } else none
  | .cClose =>
    if s.closer = .unlocked then
      if s.closed then some { s with panicked := true, closer := .done }     -- close of closed channel
      else some { s with closed := true, closes := s.closes + 1, closer := .done }
    else none

inductive Reach : St → Prop where
  | init : Reach {}
  | step {s s' a} : Reach s → step s a = some s' → Reach s'

end GoSup.SubProto
