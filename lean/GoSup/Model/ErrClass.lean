/-!
# Model of error classification (C04, C10): `errors.Is(err, context.Canceled) ||
errors.Is(err, context.DeadlineExceeded)` over the shapes of error values a runnable can return.
-/
namespace GoSup.ErrClass

inductive Err where
  | leaf (id : Nat)                       -- errors.New("…")
  | canceled                              -- context.Canceled
  | deadline                              -- context.DeadlineExceeded
  | wrap (e : Err)                        -- fmt.Errorf("…: %w", e)
  | join (a b : Err)                      -- errors.Join(a, b) / fmt.Errorf("%w %w", a, b)
  | custom (claimsCancel : Bool) (e : Err) -- a type with Is(target) = claimsCancel (for
                                          -- context.Canceled only) and Unwrap() = e
  deriving DecidableEq, Repr

inductive Target where | canceled | deadline
  deriving DecidableEq

/-- `errors.Is(e, target)`: pre-order, depth-first walk of the Unwrap tree -/
def is : Err → Target → Bool
  | .leaf _, _ => false
  | .canceled, t => t == .canceled
  | .deadline, t => t == .deadline
  | .wrap e, t => is e t
  | .join a b, t => is a t || is b t
  | .custom c e, t => (c && t == .canceled) || is e t

/-- the filter of `supervisor.startRunnable` and `composite.startRunnable` -/
def isCancel (e : Err) : Bool := is e .canceled || is e .deadline

end GoSup.ErrClass
