import GoSup.Core.Lts
import GoSup.Model.CompSeq
/-!
# Concurrent model of the HTTP server runner (`runnables/httpserver/runner.go`, `reload.go`) (C12–C14, C18)

One `Run()` on a fresh runner, any number of `Reload()` callers (serialised by `r.mutex`, which `Reload` holds from
beginning to end), any number of `Stop()` callers, a cancellable parent context, any number of server instances.
One action per critical section / blocking operation:

| thread | action | code |
|---|---|---|
| Run | `runEnter` | `lc.Started()`, `runCtx`, `r.ctx = runCtx` under `r.mutex`, `Transition(Booting)` |
|     | `runBootBegin res ok` | `r.mutex.Lock()`, `boot()`: `getConfig()` (callback: `res`), `NewConfig` (`ok`), `createServer`, `serverCloseOnce` reset, the serving goroutine is started |
|     | `runProbeOk` / `runProbeFail` | `serverReadinessProbe` returns nil / an error (then `stopServer`, `setStateError`, return) ; `r.mutex.Unlock()` |
|     | `runToRunning` | `Transition(Running)` |
|     | `runSelCtx` / `runSelStop` / `runSelErr` | the three arms of the `select`; the error arm returns without stopping anything |
|     | `runToStopping` | `shutdown`: `Transition(Stopping)` (a failure is only logged) |
|     | `runStopServer d` | `r.mutex.Lock(); stopServer(); r.mutex.Unlock()`; `d`: the drain ended in time / timed out |
|     | `runFinish` | `Transition(Stopped)` or `setStateError`; deferred `runCancel()`, `done()` |
| Reload | `rlEnter` | `r.mutex.Lock()`, `Transition(Reloading)`; on failure unlock and return (no `setStateError`) |
|     | `rlConfig res same`, `rlAfterCb` | `reloadConfig()`: the callback returns; then (a separate step: other threads run in between) callback error / nil: `setStateError`, return; equal to the stored one (`same`): `Transition(Running)`, return; else `setConfig` |
|     | `rlStopOld d` | `stopServer()`; an error: `setStateError`, return |
|     | `rlBootBegin ok` | `boot()` as above |
|     | `rlProbeOk` / `rlProbeFail` | readiness; `Transition(Running)` resp. `stopServer`, `setStateError`; unlock |
| env | `instBind i` / `instBindFail i` | the serving goroutine of instance `i` binds its address / fails to (the error goes to `serverErrors`) |
|     | `stopCall`, `cancelCtx`, `reloadCall`, `reloadAck st`, `retAck r st`, `stopDone`, `observe st` | what callers do and see |

Assumptions of the model (named in DESIGN.md): the readiness probe succeeds only while the runner's context is live
and the instance it waits for is listening (no foreign listener answers on the address — side observation 3); an
instance fails only when it binds.
-/
namespace GoSup.HttpLts
open GoSup.Core GoSup.CompSeq

def allowed : Fsm → Fsm → Bool
  | .new, .booting | .new, .error => true
  | .booting, .running | .booting, .error => true
  | .running, .reloading | .running, .stopping | .running, .error => true
  | .reloading, .running | .reloading, .error => true
  | .stopping, .stopped | .stopping, .error => true
  | .stopped, .new | .stopped, .error => true
  | .error, .error | .error, .stopping | .error, .stopped => true
  | _, _ => false

/-- a server instance: created (its goroutine has not bound the address yet), listening, failed to bind, shut down -/
inductive ISt where | created | listening | failed | closed
  deriving DecidableEq, Repr

def ISt.isOpen : ISt → Bool
  | .created | .listening => true
  | _ => false

/-- what `Run()` returned -/
inductive RRet where | nil | transition | boot | serverErr | drain
  deriving DecidableEq, Repr

inductive RunPc where
  | idle | entered | bootFailed | probing | booted | select | afterSelect | toStop | stopped (drainErr : Bool) | returned (r : RRet)
  deriving DecidableEq, Repr

inductive Cb where | ok (cfg : Nat) | err | nil
  deriving DecidableEq, Repr

inductive RlPc where
  | idle | entered | cbReturned (res : Cb) (same : Bool) | stopOld | toBoot | probing
  deriving DecidableEq, Repr

inductive Owner where | run | reload
  deriving DecidableEq, Repr

structure St where
  fsm       : Fsm := .new
  cfg       : Option Nat := none       -- r.config (a configuration identity)
  srv       : Option Nat := none       -- r.server
  onceUsed  : Bool := false            -- serverCloseOnce has fired since its last reset
  insts     : List ISt := []
  errs      : List Nat := []           -- serverErrors
  mu        : Option Owner := none     -- r.mutex
  rctx      : Bool := false
  runCancelled : Bool := false
  parentDone : Bool := false
  stopReq   : Bool := false
  run       : RunPc := .idle
  rl        : RlPc := .idle
  reloads   : Nat := 0
  pendingRl : Nat := 0
  acked     : Nat := 0
  retAcked  : Bool := false
  deriving DecidableEq, Repr


inductive Act where
  | runEnter | runBootBegin (res : Cb) (ok : Bool) | runBootFail | runProbeOk | runProbeFail (consume : Bool) | runToRunning
  | runSelCtx | runSelStop | runSelErr | runToStopping | runStopServer (inTime : Bool) | runFinish
  | rlEnter | rlConfig (res : Cb) (same : Bool) | rlAfterCb | rlStopOld (inTime : Bool) | rlBootBegin (ok : Bool) | rlProbeOk | rlProbeFail (consume : Bool)
  | instBind (i : Nat) | instBindFail (i : Nat)
  | stopCall | cancelCtx | stopDone | reloadCall | reloadAck (st : Fsm) | retAck (r : RRet) (st : Fsm) | observe (st : Fsm) | observeInst (i : Nat)
  deriving DecidableEq, Repr

def tr (s : St) (to : Fsm) : Option Fsm := if allowed s.fsm to then some to else none

/-- `createServer`, `serverCloseOnce = sync.Once{}`, `go ListenAndServe` -/
def create (s : St) : St :=
  { s with insts := s.insts ++ [.created], srv := some s.insts.length, onceUsed := false }

/-- `stopServer`: `Shutdown` of the current instance at most once per guard, then `r.server = nil` -/
def stopServer (s : St) : St :=
  if s.onceUsed then { s with srv := none }
  else match s.srv with
    | some i => { s with onceUsed := true, srv := none, insts := s.insts.modify i fun _ => .closed }
    | none => { s with onceUsed := true, srv := none }

/-- the error `stopServer` reports: the drain timed out, or there was no server (`ErrServerNotRunning`) -/
def stopErr (s : St) (inTime : Bool) : Bool := !s.onceUsed && (s.srv.isNone || !inTime)

def listening (s : St) : Bool :=
  match s.srv with
  | some i => s.insts[i]? == some .listening
  | none => false

def step (s : St) : Act → Option St
  -- ---------------- Run ----------------
  | .runEnter =>
    if s.run != .idle || s.mu.isSome then none else
    match tr s .booting with
    | some f => some { s with rctx := true, fsm := f, run := .entered, runCancelled := s.parentDone }
    | none => some { s with rctx := true, run := .returned .transition, runCancelled := true }
  | .runBootBegin res ok =>
    if s.run != .entered || s.mu.isSome then none else
    let fail : St := { s with run := .bootFailed }     -- the callback's answer is seen; `setStateError()` comes later
    match s.cfg, res with
    | some _, _ => if ok then some { create s with mu := some .run, run := .probing } else some fail
    | none, .ok c => if ok then some { create { s with cfg := some c } with mu := some .run, run := .probing }
                     else some { fail with cfg := some c }
    | none, _ => some fail
  | .runBootFail =>
    if s.run != .bootFailed then none else some { s with fsm := .error, run := .returned .boot, runCancelled := true }
  | .runProbeOk =>
    if s.run == .probing && listening s && !s.runCancelled then some { s with mu := none, run := .booted } else none
  | .runProbeFail consume =>
    if s.run != .probing then none else
    -- the probe saw a server error (consumed), its context end, or its own timeout
    let s1 := stopServer { s with errs := if consume then s.errs.drop 1 else s.errs }
    some { s1 with mu := none, fsm := .error, run := .returned .boot, runCancelled := true }
  | .runToRunning =>
    if s.run != .booted then none else
    match tr s .running with
    | some f => some { s with fsm := f, run := .select }
    | none => some { s with fsm := .error, run := .returned .transition, runCancelled := true }
  | .runSelCtx => if s.run == .select && s.runCancelled then some { s with run := .afterSelect } else none
  | .runSelStop => if s.run == .select && s.stopReq then some { s with run := .afterSelect, runCancelled := true } else none
  | .runSelErr =>
    if s.run != .select then none else
    match s.errs with
    | _ :: rest => some { s with errs := rest, fsm := .error, run := .returned .serverErr, runCancelled := true }
    | [] => none
  | .runToStopping =>
    if s.run != .afterSelect then none else
    some { s with fsm := (tr s .stopping).getD s.fsm, run := .toStop }
  | .runStopServer inTime =>
    if s.run != .toStop || s.mu.isSome then none else
    some { stopServer s with run := .stopped (stopErr s inTime) }
  | .runFinish =>
    match s.run with
    | .stopped true => some { s with fsm := .error, run := .returned .drain, runCancelled := true }
    | .stopped false =>
      (match tr s .stopped with
       | some f => some { s with fsm := f, run := .returned .nil, runCancelled := true }
       | none => some { s with fsm := .error, run := .returned .transition, runCancelled := true })
    | _ => none
  -- ---------------- Reload ----------------
  | .rlEnter =>
    if s.rl != .idle || s.pendingRl == 0 || s.mu.isSome then none else
    match tr s .reloading with
    | some f => some { s with fsm := f, rl := .entered, mu := some .reload, pendingRl := s.pendingRl - 1 }
    | none => some { s with reloads := s.reloads + 1, pendingRl := s.pendingRl - 1 }
  | .rlConfig res same =>
    -- the callback is seen (by the harness) while it runs; what `reloadConfig` does with its result comes afterwards
    if s.rl != .entered then none else some { s with rl := .cbReturned res same }
  | .rlAfterCb =>
    match s.rl with
    | .cbReturned (.ok c) same =>
      if s.cfg.isSome && same then
        some { s with fsm := (tr s .running).getD .error, rl := .idle, mu := none, reloads := s.reloads + 1 }
      else some { s with cfg := some c, rl := .stopOld }
    | .cbReturned _ _ => some { s with fsm := .error, rl := .idle, mu := none, reloads := s.reloads + 1 }
    | _ => none
  | .rlStopOld inTime =>
    if s.rl != .stopOld then none else
    if stopErr s inTime then some { stopServer s with fsm := .error, rl := .idle, mu := none, reloads := s.reloads + 1 }
    else some { stopServer s with rl := .toBoot }
  | .rlBootBegin ok =>
    if s.rl != .toBoot then none else
    if ok then some { create s with rl := .probing }
    else some { s with fsm := .error, rl := .idle, mu := none, reloads := s.reloads + 1 }
  | .rlProbeOk =>
    if s.rl == .probing && listening s && !s.runCancelled then
      some { s with fsm := (tr s .running).getD .error, rl := .idle, mu := none, reloads := s.reloads + 1 }
    else none
  | .rlProbeFail consume =>
    if s.rl != .probing then none else
    let s1 := stopServer { s with errs := if consume then s.errs.drop 1 else s.errs }
    some { s1 with fsm := .error, rl := .idle, mu := none, reloads := s.reloads + 1 }
  -- ---------------- environment ----------------
  | .instBind i =>
    if s.insts[i]? == some .created then some { s with insts := s.insts.modify i fun _ => .listening } else none
  | .instBindFail i =>
    if s.insts[i]? == some .created then some { s with insts := s.insts.modify i fun _ => .failed, errs := s.errs ++ [i] } else none
  | .stopCall => some { s with stopReq := true }
  | .cancelCtx => some { s with parentDone := true, runCancelled := s.runCancelled || s.rctx }
  | .stopDone => (match s.run with | .returned _ => some s | _ => none)
  | .reloadCall => some { s with pendingRl := s.pendingRl + 1 }
  | .reloadAck st => if s.acked < s.reloads && s.fsm == st then some { s with acked := s.acked + 1 } else none
  | .retAck r st =>
    if s.retAcked then none else
    (match s.run with
     | .returned r' => if r' == r && s.fsm == st then some { s with retAcked := true } else none
     | _ => none)
  | .observe st => if s.fsm == st then some s else none
  | .observeInst i => if i < s.insts.length then some s else none      -- the creator function was called for instance `i`

def lts : Lts St Act := ⟨step⟩

def init : St := {}

/-- instance `i` holds (or is about to hold) the listen address -/
def isOpenAt (s : St) (i : Nat) : Bool := ((s.insts[i]?).map ISt.isOpen).getD false

end GoSup.HttpLts
