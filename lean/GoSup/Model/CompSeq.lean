import GoSup.Model.Member
/-!
# Operation-level model of the composite runner (C09–C11)

The abstract specification the composite must refine when operations do not overlap: a state
(`cfg`, the set of running children, the FSM state, whether `Run` has returned) and one atomic
transition per public operation / child event.  The interleaving of overlapping operations is
not in this model; it is exercised by the correspondence harness (yield point inside
`reloadWithRestart`, random timing) with the Lean statements of `Spec/Comp.lean` as oracle.
-/
namespace GoSup.CompSeq

inductive Fsm where | new | booting | running | reloading | stopping | stopped | error
  deriving DecidableEq, Repr

inductive CbRes where | ok (entries : List (Nat × Nat)) | err | nil
  deriving DecidableEq, Repr

inductive Out where | nil | cancelErr | realErr
  deriving DecidableEq, Repr

inductive Ret where | none | nil | failed (c : Nat)
  deriving DecidableEq, Repr

structure St where
  cfg     : List (Nat × Nat) := []    -- (child, config value) in configuration order
  running : List Nat := []            -- children whose Run is active, sorted
  fsm     : Fsm := .new
  ret     : Ret := .none
  deriving DecidableEq, Repr

inductive Op where
  | run (first : CbRes) | reload (r : CbRes) | stop | cancel | childExit (c : Nat) (o : Out)
  deriving DecidableEq, Repr

def names (cfg : List (Nat × Nat)) : List Nat := cfg.map (·.1)

/-- insertion sort (structural, so that concrete runs reduce in the kernel) -/
def insertNat (a : Nat) : List Nat → List Nat
  | [] => [a]
  | b :: t => if a ≤ b then a :: b :: t else b :: insertNat a t

def sortNat (l : List Nat) : List Nat := l.foldr insertNat []

/-- `hasMembershipChanged` on child identities (children are identified by their index) -/
def changed (old new : List Nat) : Bool :=
  old.length != new.length || new.any fun x => !old.contains x

def step (s : St) : Op → St
  | .run first =>
    if s.fsm != .new then s else      -- a single Run on a fresh runner
    match first with
    | .ok es => { s with cfg := es, running := sortNat (names es), fsm := .running }
    | _ => { s with fsm := .error, ret := .failed 0 }   -- boot fails: ErrConfigMissing
  | .reload r =>
    if s.ret != .none then s                       -- Run has returned: Transition fails, state is kept or Error
    else if s.fsm != .running then { s with fsm := .error }
    else match r with
      | .err | .nil => { s with fsm := .error }
      | .ok es =>
        if changed (names s.cfg) (names es)
        then { s with cfg := es, running := sortNat (names es) }   -- stop all, then boot all
        else { s with cfg := es }                                   -- in place
  | .stop | .cancel =>
    if s.ret != .none then s
    else { s with running := [], fsm := .stopped, ret := .nil }
  | .childExit c o =>
    if s.ret != .none || !s.running.contains c then s
    else match o with
      | .realErr => { s with running := [], fsm := .error, ret := .failed c }
      | _ => { s with running := s.running.erase c }

def run (s : St) (ops : List Op) : St := ops.foldl step s

end GoSup.CompSeq
