import GoSup.Core.Lts
/-!
# Model of joining the supervisor's state subscribers (`AddStateSubscriber` against `broadcastState`) (C06)

The state map (abstracted to one value `cache`) changes (`change v`: a monitor's or a writer's store), and every
change is followed by a broadcast (`bcast`: under `subscriberMutex`, snapshot := the *current* map, sent to every
registered subscriber).  A subscriber joins: as the code does it, in one critical section under the same mutex
(`add`: register, send the initial snapshot); `split = true` is the variant of seeded change C06-m5 — the initial
snapshot is computed before the mutex is taken (`snap`, then `reg`).
-/
namespace GoSup.SubAdd
open GoSup.Core

inductive Pc where | start | snapTaken (v : Nat) | registered
  deriving DecidableEq, Repr

structure St where
  cache   : Nat
  owed    : Nat := 0            -- changes whose broadcast has not happened yet
  pc      : Pc := .start
  last    : Option Nat := none  -- the last snapshot the subscriber received
  deriving DecidableEq, Repr

inductive Act where | change (v : Nat) | bcast | add | snap | reg
  deriving DecidableEq, Repr

def step (split : Bool) (s : St) : Act → Option St
  | .change v => some { s with cache := v, owed := s.owed + 1 }
  | .bcast =>
    if s.owed = 0 then none
    else some { s with owed := s.owed - 1, last := if s.pc = .registered then some s.cache else s.last }
  | .add => if !split && s.pc = .start then some { s with pc := .registered, last := some s.cache } else none
  | .snap => if split && s.pc = .start then some { s with pc := .snapTaken s.cache } else none
  | .reg =>
    match split, s.pc with
    | true, .snapTaken v => some { s with pc := .registered, last := some v }
    | _, _ => none

def lts (split : Bool) : Lts St Act := ⟨step split⟩

def init (c : Nat) : St := { cache := c }

end GoSup.SubAdd
