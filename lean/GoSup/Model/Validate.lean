/-!
# Model of the public constructors' validation (C19)

`ServeMux.Handle` panics as a deterministic function of the sequence of registered patterns; the
model keeps that function abstract (`muxPanics : List String → Bool`).  The correspondence check
learns its value for every generated sequence from the real mux and hands it to the model, so the
comparison is about the runner logic around it.
-/
namespace GoSup.Validate

structure RouteArg where
  name : String
  path : String
  deriving DecidableEq, Repr

inductive Construct where | routeRejected | configRejected | accepted
  deriving DecidableEq, Repr

/-- `newRoute`: name and path non-empty (at least one handler is always supplied by
`NewRouteFromHandlerFunc`) -/
def newRouteAccepts (r : RouteArg) : Bool := r.name != "" && r.path != ""

/-- `NewConfig` (repaired): non-empty route list whose patterns the mux accepts -/
def newConfigAccepts (muxPanics : List String → Bool) (rs : List RouteArg) : Bool :=
  !rs.isEmpty && !muxPanics (rs.map (·.path))

def construct (muxPanics : List String → Bool) (rs : List RouteArg) : Construct :=
  if !rs.all newRouteAccepts then .routeRejected
  else if !newConfigAccepts muxPanics rs then .configRejected
  else .accepted

/-- building the real mux at boot (`getMux`) registers exactly the configured paths, in order -/
def bootPanics (muxPanics : List String → Bool) (rs : List RouteArg) : Bool := muxPanics (rs.map (·.path))

/-- `boot()` re-validates through `NewConfig`: a configuration that reaches `getMux` was accepted -/
def bootOutcome (muxPanics : List String → Bool) (rs : List RouteArg) : String :=
  if !newConfigAccepts muxPanics rs then "ErrCreateConfig"           -- Error state, no panic
  else if bootPanics muxPanics rs then "panic" else "boots"

end GoSup.Validate
