import GoSup.Core.Lts
/-!
# Model of `supervisor/lifecycle.StartStop` (C07)

Any number `k` of concurrent `Stop()` callers, any number of consecutive `Run` cycles.  One
action per critical section / blocking receive of `startstop.go`:

| action        | code                                                                         |
|---------------|------------------------------------------------------------------------------|
| `stopEnter i` | first critical section of `Stop`: set `stopped`, close `stopCh`, capture `startedCh` |
| `stopPass i`  | `<-startedCh` succeeds                                                       |
| `stopRead i`  | second critical section: if the cycle was reset since the capture, return; else read `doneCh` |
| `stopDone i`  | `<-doneCh` succeeds, `Stop` returns                                          |
| `runStart`    | `Started()` of the next `Run` (whole body is one critical section)           |
| `runEnd`      | the `done()` callback of the active `Run`                                    |

Channels are represented by generations (`gen` for `stopCh`/`startedCh`) and run indices
(`doneCh` of run `r` is closed iff `r < finished`).  Ghost field `t` of a Stop thread is the run
it *targets*: the run active at the call, else the last finished one, else run 0.
-/
namespace GoSup.Lifecycle
open GoSup.Core

inductive StopPc where
  | idle
  | waitStarted (g t : Nat)     -- after the 1st critical section; captured startedCh of generation g
  | midway (g t : Nat)          -- passed <-startedCh, before the 2nd critical section
  | waitDone (g r t : Nat)      -- captured doneCh of run r, blocked on it
  | ret (t : Nat)               -- returned
  deriving DecidableEq, Repr, BEq

structure St where
  gen       : Nat          -- generation of stopCh/startedCh
  stopped   : Bool         -- l.stopped (stopCh of the current generation is closed)
  startedCl : Bool         -- startedCh of the current generation is closed
  cur       : Option Nat   -- the run l.doneCh belongs to
  started   : Nat          -- number of Run cycles whose Started() executed
  finished  : Nat          -- number of Run cycles whose done() executed
  stops     : List StopPc
  deriving DecidableEq, Repr, BEq

inductive Act where
  | stopEnter (i : Nat) | stopPass (i : Nat) | stopRead (i : Nat) | stopDone (i : Nat)
  | runStart | runEnd
  deriving DecidableEq, Repr

def init (k : Nat) : St :=
  { gen := 0, stopped := false, startedCl := false, cur := none, started := 0, finished := 0,
    stops := List.replicate k .idle }

def St.startedClosed (s : St) (g : Nat) : Bool := g < s.gen || (g == s.gen && s.startedCl)
def St.doneClosed (s : St) (r : Nat) : Bool := r < s.finished

def step (s : St) : Act → Option St
  | .stopEnter i =>
    match s.stops[i]? with
    | some .idle =>
      some { s with stopped := true, stops := s.stops.set i (.waitStarted s.gen (s.cur.getD 0)) }
    | _ => none
  | .stopPass i =>
    match s.stops[i]? with
    | some (.waitStarted g t) =>
      if s.startedClosed g then some { s with stops := s.stops.set i (.midway g t) } else none
    | _ => none
  | .stopRead i =>
    match s.stops[i]? with
    | some (.midway g t) =>
      if g != s.gen then some { s with stops := s.stops.set i (.ret t) }   -- cycle was reset: return
      else match s.cur with
        | some r => some { s with stops := s.stops.set i (.waitDone g r t) }
        | none => none
    | _ => none
  | .stopDone i =>
    match s.stops[i]? with
    | some (.waitDone _ r t) =>
      if s.doneClosed r then some { s with stops := s.stops.set i (.ret t) } else none
    | _ => none
  | .runStart =>
    if s.started = s.finished then          -- consecutive cycles
      let reset : Bool := match s.cur with
        | some p => s.doneClosed p
        | none => false
      some { s with gen := if reset then s.gen + 1 else s.gen,
                    stopped := if reset then false else s.stopped,
                    startedCl := true, cur := some s.started, started := s.started + 1 }
    else none
  | .runEnd =>
    if s.finished < s.started then some { s with finished := s.finished + 1 } else none

def lts : Lts St Act := ⟨step⟩

abbrev Reachable (k : Nat) (s : St) : Prop := Reach lts (init k) s

/-- the next action of Stop thread `i`, if it has one -/
def nextOf (s : St) (i : Nat) : Option Act :=
  match s.stops[i]? with
  | some .idle => some (.stopEnter i)
  | some (.waitStarted _ _) => some (.stopPass i)
  | some (.midway _ _) => some (.stopRead i)
  | some (.waitDone _ _ _) => some (.stopDone i)
  | _ => none

end GoSup.Lifecycle
