import GoSup.Model.Planner
/-!
# Model of one cluster configuration update (`processConfigUpdate` / `executeActions`) (C16)

`applyUpdate fate cur des next` = plan (`buildPending`), stop phase (`stopServers`: every entry to
stop that has a runner is stopped and its runtime cleared), start phase (`startServers`: factory,
run, readiness), `commit`.  `fate id` says what happens when the cluster tries to start id:

* `.ok`          factory succeeds, `Run` is launched, the server becomes ready: the entry gets its runtime;
* `.factoryErr`  `runnerFactory` returns an error: nothing was started, the entry is removed;
* `.notReady`    the server is created and its `Run` launched but `waitForIsRunning` gives up: the
                 instance is stopped again (`serverCancel(); runner.Stop()`) and the entry removed.

Effects are logged as `Eff`; instances are numbered in the order of creation (`next`), a new
runner object per `createAndStartServer` call.  `shutdown` is the update to the empty map
(`Runner.shutdown`: `newEntries(empty)`, `buildPendingEntries`, `executeActions`, `commit`).
`runCluster` is a whole `Run()`: any sequence of maps, each with its own fates (failures may be
transient), then the shutdown.
-/
namespace GoSup.Cluster
open GoSup.Planner

inductive Fate where | ok | factoryErr | notReady
  deriving DecidableEq, Repr

inductive Eff where
  | stop (inst : Nat)                     -- Stop() called on a running instance and returned
  | start (id : String) (cfg inst : Nat)  -- factory + Run of a new instance
  | dropped (id : String)                 -- the start failed: entry removed
  deriving DecidableEq, Repr

structure Res where
  entries : Entries
  effects : List Eff
  next    : Nat

def stopStep (acc : Entries × List Eff) (k : String) : Entries × List Eff :=
  match get acc.1 k with
  | some e => match e.runner with
    | some inst => (clearRuntime acc.1 k, acc.2 ++ [.stop inst])
    | none => acc
  | none => acc

def stopPhase (p : Entries) : Entries × List Eff :=
  (toStop p).foldl stopStep (p, [])

def startStep (fate : String → Fate) (acc : Res) (k : String) : Res :=
  match get acc.entries k with
  | some e =>
    match fate e.id with
    | .ok => { entries := setRuntime acc.entries k acc.next, effects := acc.effects ++ [.start e.id e.cfg acc.next], next := acc.next + 1 }
    | .factoryErr => { acc with entries := removeEntry acc.entries k, effects := acc.effects ++ [.dropped e.id] }
    | .notReady => { entries := removeEntry acc.entries k,
                     effects := acc.effects ++ [.start e.id e.cfg acc.next, .stop acc.next, .dropped e.id], next := acc.next + 1 }
  | none => acc

def startPhase (fate : String → Fate) (p : Entries) (next : Nat) : Res :=
  (toStart p).foldl (startStep fate) { entries := p, effects := [], next := next }

def applyUpdate (fate : String → Fate) (cur : Entries) (des : List (String × Nat)) (next : Nat) : Res :=
  let p := buildPending cur des
  let s := stopPhase p
  let r := startPhase fate s.1 next
  { entries := commit r.entries, effects := s.2 ++ r.effects, next := r.next }

/-- an update cut short: the run context ended while `executeActions` waited out `restartDelay` after its stop phase;
it returns what it has, nothing is started, and `commit` keeps the entries that were to be started without a runner
(the event loop then sees the ended context and shuts down) -/
def applyUpdateCut (cur : Entries) (des : List (String × Nat)) (next : Nat) : Res :=
  let s := stopPhase (buildPending cur des)
  { entries := commit s.1, effects := s.2, next := next }

/-- `Runner.shutdown`: the update to the empty map (no start can happen, the fates are irrelevant) -/
def shutdown (cur : Entries) (next : Nat) : Res := applyUpdate (fun _ => .ok) cur [] next

/-- the servers the cluster runs after an update: id, configuration, instance -/
def running (m : Entries) : List (String × Nat × Nat) :=
  m.filterMap fun (_, e) => e.runner.map fun inst => (e.id, e.cfg, inst)

/-- one processed configuration map: the desired configurations and what starting each id leads to this time -/
structure Step where
  des  : List (String × Nat)
  fate : String → Fate

/-- the event loop of `Run()` over any sequence of maps, accumulating all effects -/
def runSteps (steps : List Step) (acc : Res) : Res :=
  steps.foldl (fun a s =>
    let r := applyUpdate s.fate a.entries s.des a.next
    { entries := r.entries, effects := a.effects ++ r.effects, next := r.next }) acc

/-- a whole `Run()`: boot with no servers, process the maps, shut down -/
def runCluster (steps : List Step) : Res :=
  let a := runSteps steps { entries := [], effects := [], next := 1 }
  let r := shutdown a.entries a.next
  { entries := r.entries, effects := a.effects ++ r.effects, next := r.next }

/-- a whole `Run()` whose last update is cut short by the end of the context -/
def runClusterCut (steps : List Step) (last : List (String × Nat)) : Res :=
  let a := runSteps steps { entries := [], effects := [], next := 1 }
  let c := applyUpdateCut a.entries last a.next
  let r := shutdown c.entries c.next
  { entries := r.entries, effects := a.effects ++ c.effects ++ r.effects, next := r.next }

/-- "started and not yet stopped", read off an effect log (every instance is created once) -/
def Live (effs : List Eff) (i : Nat) : Prop :=
  (∃ id c, Eff.start id c i ∈ effs) ∧ Eff.stop i ∉ effs

end GoSup.Cluster
