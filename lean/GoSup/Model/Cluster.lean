import GoSup.Model.Planner
/-!
# Model of one cluster configuration update (`processConfigUpdate` / `executeActions`) (C16)

`applyUpdate cur des fails` = plan (`buildPending`), stop phase (every entry to stop that has a
runner is stopped and its runtime cleared), start phase (factory, run, readiness; a server whose
factory fails or that never becomes ready is dropped from the entries), `commit`.  Effects are
logged as `Eff`.  `fails id` says that id cannot be started (factory error or readiness timeout).
-/
namespace GoSup.Cluster
open GoSup.Planner

inductive Eff where
  | stop (inst : Nat)                     -- Stop() called on a running instance and returned
  | start (id : String) (cfg inst : Nat)  -- factory + Run of a new instance
  | dropped (id : String)                 -- the start failed: entry removed
  deriving DecidableEq, Repr

structure Res where
  entries : Entries
  effects : List Eff
  next    : Nat

def stopPhase (p : Entries) : Entries × List Eff :=
  (toStop p).foldl (fun (acc : Entries × List Eff) k =>
    match get acc.1 k with
    | some e => match e.runner with
      | some inst => (clearRuntime acc.1 k, acc.2 ++ [.stop inst])
      | none => acc
    | none => acc) (p, [])

def startPhase (fails : String → Bool) (p : Entries) (next : Nat) : Res :=
  (toStart p).foldl (fun (acc : Res) k =>
    match get acc.entries k with
    | some e =>
      if fails e.id then { acc with entries := removeEntry acc.entries k, effects := acc.effects ++ [.dropped e.id] }
      else { entries := setRuntime acc.entries k acc.next, effects := acc.effects ++ [.start e.id e.cfg acc.next], next := acc.next + 1 }
    | none => acc) { entries := p, effects := [], next := next }

def applyUpdate (fails : String → Bool) (cur : Entries) (des : List (String × Nat)) (next : Nat) : Res :=
  let p := buildPending cur des
  let (p1, e1) := stopPhase p
  let r := startPhase fails p1 next
  { entries := commit r.entries, effects := e1 ++ r.effects, next := r.next }

/-- the servers the cluster runs after an update: id, configuration, instance -/
def running (m : Entries) : List (String × Nat × Nat) :=
  m.filterMap fun (_, e) => e.runner.map fun inst => (e.id, e.cfg, inst)

end GoSup.Cluster
