import GoSup.Core.Lts
/-!
# Model of the supervisor's reload path (C05): `ReloadAll`, the SIGHUP arm of `reap`,
`startReloadManager` with its ReloadSender listeners, `reloadAllRunnables`

The unbuffered `reloadListener` is a rendezvous: `handoff*` is enabled iff a requester is blocked
in its send and the manager is in its `select`.  Requesters: `ReloadAll()` callers and the
`go p.ReloadAll()` goroutines spawned by SIGHUP (interchangeable: a counter), and one listener per
ReloadSender.  `reloadable : List Bool` is the capability per registered runnable.
-/
namespace GoSup.SupReload
open GoSup.Core

inductive Ev where
  | allCall | allReturn          -- a direct ReloadAll() caller
  | hup                          -- SIGHUP injected
  | trigIntent (j : Nat)         -- someone starts sending on ReloadSender j's trigger channel
  | trigDelivered (j : Nat)      -- that send completed (the supervisor's listener received it)
  | reloadInvoke (i : Nat) | reloadReturn (i : Nat)
  deriving DecidableEq, Repr

inductive Mgr where
  | absent | idle | pass (i : Nat) (inReload : Bool) | exited
  deriving DecidableEq, Repr

structure St where
  reloadable : List Bool
  sender     : List Bool
  mgr        : Mgr := .absent
  ctx        : Bool := false
  pendAll    : Nat := 0          -- direct callers blocked in `p.reloadListener <- struct{}{}`
  pendHup    : Nat := 0          -- SIGHUP goroutines blocked in the same send
  hupQueued  : Nat := 0          -- SIGHUPs sent, not yet turned into a goroutine by `reap`
  retOwed    : Nat := 0          -- direct callers whose send was accepted and who have not returned yet
  intents    : List Nat := []    -- senders currently trying to send a trigger to listener j
  delivOwed  : List Nat := []    -- trigger sends that completed, not yet observed as delivered
  holding    : List Nat := []    -- listeners that received a trigger and are blocked forwarding it
  exitedL    : List Nat := []    -- listeners that have exited (context cancelled)
  handed     : Nat := 0          -- requests accepted by the manager
  passes     : Nat := 0          -- passes completed
  log        : List Ev := []
  deriving DecidableEq, Repr

def St.n (s : St) : Nat := s.reloadable.length

def initSt (reloadable sender : List Bool) : St :=
  { reloadable := reloadable, sender := sender,
    mgr := if reloadable.any id then .idle else .absent }

/-- listener `j` exists (a manager was started and runnable `j` is a ReloadSender), has not exited
and is waiting in its outer `select` -/
def St.listening (s : St) (j : Nat) : Bool :=
  s.sender.getD j false && s.reloadable.any id && !s.holding.contains j && !s.exitedL.contains j

inductive Act where
  | allCall | allReturn | hup | hupSpawn | hupDrop
  | trigIntent (j : Nat) | trigRecv (j : Nat) | trigDelivered (j : Nat)
  | handoffAll | handoffHup | handoffL (j : Nat)
  | passStep | reloadReturn
  | ctxCancel | mgrExit | listenerExit (j : Nat)
  deriving DecidableEq, Repr

def St.emit (s : St) (e : Ev) : St := { s with log := s.log ++ [e] }

def step (s : St) : Act → Option St
  | .allCall => some ({ s with pendAll := s.pendAll + 1 }.emit .allCall)
  | .allReturn => if 0 < s.retOwed then some ({ s with retOwed := s.retOwed - 1 }.emit .allReturn) else none
  | .hup => some ({ s with hupQueued := s.hupQueued + 1 }.emit .hup)
  | .hupSpawn => if 0 < s.hupQueued then some { s with hupQueued := s.hupQueued - 1, pendHup := s.pendHup + 1 } else none
  | .hupDrop =>
    -- a SIGHUP that `reap` never turns into a reload: only once the supervisor is going down
    if 0 < s.hupQueued && s.ctx then some { s with hupQueued := s.hupQueued - 1 } else none
  | .trigIntent j => some ({ s with intents := s.intents ++ [j] }.emit (.trigIntent j))
  | .trigRecv j =>
    if s.listening j && s.intents.contains j then
      some { s with holding := j :: s.holding, intents := s.intents.erase j, delivOwed := s.delivOwed ++ [j] }
    else none
  | .trigDelivered j =>
    if s.delivOwed.contains j then some ({ s with delivOwed := s.delivOwed.erase j }.emit (.trigDelivered j)) else none
  | .handoffAll =>
    if s.mgr == .idle && 0 < s.pendAll then
      some { s with mgr := .pass 0 false, pendAll := s.pendAll - 1, retOwed := s.retOwed + 1, handed := s.handed + 1 }
    else none
  | .handoffHup =>
    if s.mgr == .idle && 0 < s.pendHup then
      some { s with mgr := .pass 0 false, pendHup := s.pendHup - 1, handed := s.handed + 1 }
    else none
  | .handoffL j =>
    if s.mgr == .idle && s.holding.contains j then
      some { s with mgr := .pass 0 false, holding := s.holding.erase j, handed := s.handed + 1 }
    else none
  | .passStep =>
    match s.mgr with
    | .pass i false =>
      if i < s.n then
        if s.reloadable.getD i false then some ({ s with mgr := .pass i true }.emit (.reloadInvoke i))
        else some { s with mgr := .pass (i + 1) false }
      else some { s with mgr := .idle, passes := s.passes + 1 }
    | _ => none
  | .reloadReturn =>
    match s.mgr with
    | .pass i true => some ({ s with mgr := .pass (i + 1) false }.emit (.reloadReturn i))
    | _ => none
  | .ctxCancel => if !s.ctx then some { s with ctx := true } else none
  | .mgrExit => if s.mgr == .idle && s.ctx then some { s with mgr := .exited } else none
  | .listenerExit j =>
    if s.ctx && !s.exitedL.contains j && s.sender.getD j false
    then some { s with holding := s.holding.erase j, exitedL := j :: s.exitedL } else none

def lts : Lts St Act := ⟨step⟩

abbrev Reachable (reloadable sender : List Bool) (s : St) : Prop := Reach lts (initSt reloadable sender) s

end GoSup.SupReload
