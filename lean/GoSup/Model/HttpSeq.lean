import GoSup.Model.Equal
/-!
# Operation-level model of the HTTP server runner (C12–C14, result clause of C08)

State: which configuration is active, how many server instances were created, which address (if
any) the runner's own live instance is bound to, the FSM state, whether `Run` has returned.
One atomic transition per public operation.  The port table is abstract: `bindable` says whether
the new address can be bound (no foreign holder).  Kernel behaviour (TIME_WAIT, accept queue) and
wall-clock drain bounds are not in the model: they are measured by the harness.
-/
namespace GoSup.HttpSeq

inductive Fsm where | new | booting | running | reloading | stopping | stopped | error
  deriving DecidableEq, Repr

inductive Ret where | none | nil | err
  deriving DecidableEq, Repr

structure St where
  active    : Option Nat := none      -- index of the configuration being served
  stored    : Option Nat := none      -- index of the configuration the runner holds (`r.config`)
  created   : Nat := 0                -- server instances created so far
  listening : Option Nat := none      -- address index the runner's live instance is bound to
  fsm       : Fsm := .new
  ret       : Ret := .none
  deriving DecidableEq, Repr

/-- what the callback delivered at a reload: `equal` = `Config.Equal(new, stored)`,
`bindable` = the new address can be bound -/
inductive Res where
  | err | nil
  | ok (v addr : Nat) (equal bindable : Bool)
  deriving DecidableEq, Repr

inductive Op where
  | run (v addr : Nat) (bindable : Bool) | reload (r : Res) | stop (drainTimeout : Bool)
  deriving DecidableEq, Repr

def step (s : St) : Op → St
  | .run v addr bindable =>
    if s.fsm != .new then s
    else if bindable then { s with active := some v, stored := some v, created := 1, listening := some addr, fsm := .running }
    else { s with stored := some v, created := 1, fsm := .error, ret := .err }
  | .reload r =>
    if s.ret != .none || s.fsm != .running then s           -- `Transition(Reloading)` fails: logged, nothing else
    else match r with
      | .err | .nil => { s with fsm := .error }
      | .ok v addr equal bindable =>
        if equal then s                                       -- ErrOldConfig: live instance untouched
        else if bindable then
          { s with active := some v, stored := some v, created := s.created + 1, listening := some addr }
        else { s with stored := some v, created := s.created + 1, listening := none, active := none, fsm := .error }
  | .stop drainTimeout =>
    if s.ret != .none then s
    else if drainTimeout && s.listening.isSome then { s with listening := none, fsm := .error, ret := .err }
    else { s with listening := none, fsm := .stopped, ret := .nil }

def run (s : St) (ops : List Op) : St := ops.foldl step s

end GoSup.HttpSeq
