import GoSup.Core.Lts
/-!
# Model of the supervisor `PIDZero`: `Run`, `blockUntilRunnableReady`, `reap`, `Shutdown`,
`startRunnable`, `SendSignal`, `startShutdownManager` (C01–C04, supervisor part of C18)

A labelled transition system over-approximating every schedule of: the main goroutine
(`Run` → startup loop with readiness gates → `reap`), one goroutine per launched runnable, the
three manager goroutines, one listener per `ShutdownSender`, any number of external callers of
`Shutdown()`, signal senders and the parent context.  The atomic actions are the code between
two synchronisation operations; a `select` is a nondeterministic choice among its *ready*
branches.  Calls into a runnable are split into a library action (`…Invoke`) and an environment
action (`…Return`), so theorems hold for *any* runnable behaviour unless an assumption is stated.

History variable `log` records the observable events (newest last); the theorems of C01/C03/C04
are statements about `log` in every reachable state.
-/
namespace GoSup.Sup
open GoSup.Core

structure Caps where
  stateable      : Bool := false
  reloadable     : Bool := false
  reloadSender   : Bool := false
  shutdownSender : Bool := false
  deriving DecidableEq, Repr

/-- what a runnable's `Run` returned: nil, an error that is/wraps context.Canceled/
DeadlineExceeded (filtered by `startRunnable`), or a real error with identity `e` -/
inductive Outcome where
  | nil | cancelErr | realErr (e : Nat)
  deriving DecidableEq, Repr

inductive Sig where | int | term | hup | other
  deriving DecidableEq, Repr

/-- result of `PIDZero.Run()` -/
inductive Res where
  | nil
  | err (e : Nat)             -- an error value received from `errorChan`
  | startupTimeout            -- "timeout waiting for runnable to start: context deadline exceeded"
  | spuriousTimeout           -- the same message wrapping context.Canceled: never produced by the
                              -- repaired code (finding C04-F1); kept so that such a result can be named
  deriving DecidableEq, Repr

inductive Owner where | main | user (u : Nat) | listener (j : Nat)
  deriving DecidableEq, Repr

inductive Ev where
  | runInvoke (i : Nat) | runReturn (i : Nat) (o : Outcome)
  | stopInvoke (i : Nat) | stopReturn (i : Nat)
  | poll (i : Nat) (b : Bool)
  | ctxSeen (i : Nat)                    -- runnable i observed its context cancelled
  | mainReturn (r : Res)
  | userCall (u : Nat) | userReturn (u : Nat)
  | sigSent (s : Sig) | parentCancel | triggerSent (j : Nat)
  deriving DecidableEq, Repr

inductive MainPc where
  | init
  | launch (i : Nat)          -- about to `p.wg.Go` runnable i
  | gateSleep (i : Nat)       -- `time.Sleep(startupInitial)`
  | gatePoll (i : Nat)        -- about to call `IsRunning()` at the top of the loop
  | gateSelect (i : Nat)      -- in the `select`
  | gateTick (i : Nat)        -- `ticker.C` fired: about to call `IsRunning()` again
  | reap
  | sdCall (r : Res)          -- inside `p.Shutdown()`; will return `r` afterwards
  | returned (r : Res)
  deriving DecidableEq, Repr

inductive Rg where
  | none | spawned | inRun | returned (o : Outcome) | sending (e : Nat) | done
  deriving DecidableEq, Repr

inductive Once where | fresh | running (o : Owner) | done
  deriving DecidableEq, Repr

/-- the body of `Shutdown` (executed by the owner of the Once) -/
inductive Sd where
  | idle
  | stopping (k : Nat) (inStop : Bool)   -- k runnables still to stop; next is k-1
  | waiting                              -- after `p.cancel()`, in `select { done | timeout }`
  | afterWait (timedOut : Bool)
  | finished
  deriving DecidableEq, Repr

inductive Mgr where | absent | running | exited
  deriving DecidableEq, Repr

inductive UserPc where | idle | calling | returned
  deriving DecidableEq, Repr

inductive LPc where | absent | waitTrig | exited
  deriving DecidableEq, Repr

structure St where
  caps       : List Caps
  main       : MainPc := .init
  rg         : List Rg
  errQ       : List Nat := []
  errClosed  : Bool := false
  sigQ       : Option Sig := none
  sigPending : List Sig := []         -- SendSignal callers blocked in their select
  ctx        : Bool := false          -- supervisor context cancelled
  parent     : Bool := false          -- parent context cancelled
  byShutdown : Bool := false          -- `p.cancel()` of Shutdown has run
  once       : Once := .fresh
  sd         : Sd := .idle
  reloadMgr  : Mgr := .absent
  stateMon   : Mgr := .absent
  sdMgr      : Mgr := .absent
  listeners  : List LPc               -- one slot per runnable; `absent` unless ShutdownSender
  trig       : List Bool              -- trigger of runnable j was sent and not yet consumed
  det        : List UserPc            -- the `go p.Shutdown()` goroutine started by listener j
  users      : List UserPc
  hup        : Nat := 0               -- `go p.ReloadAll()` goroutines spawned by SIGHUP
  stTimeout  : Bool := false          -- the startup timer of the current gate has fired
  panicked   : Bool := false
  log        : List Ev := []
  deriving DecidableEq, Repr

def St.n (s : St) : Nat := s.caps.length

def initSt (caps : List Caps) (users : Nat) : St :=
  { caps := caps, rg := List.replicate caps.length .none,
    listeners := List.replicate caps.length .absent, trig := List.replicate caps.length false,
    det := List.replicate caps.length .idle,
    users := List.replicate users .idle }

inductive Act where
  -- environment
  | sendSig (s : Sig) | sigDeliver (k : Nat) | sigDrop (k : Nat) | parentCancel
  | userCall (u : Nat) | trigger (j : Nat)
  | runReturn (i : Nat) (o : Outcome) | stopReturn | pollAns (i : Nat) (b : Bool) | tickAns (i : Nat) (b : Bool)
  | ctxSeen (i : Nat)
  | shutdownTimeout | startupTimeoutFire
  -- main goroutine
  | mainStart | mainLaunch (i : Nat) | gateWake (i : Nat)
  | gateErr (i : Nat) | gateTimeout (i : Nat) | gateCtx (i : Nat) | gateTickFire (i : Nat)
  | reapErr | reapCtx | reapSig
  | mainReturn
  -- runnable goroutines
  | rgInvoke (i : Nat) | rgFinish (i : Nat) | rgSend (i : Nat)
  -- Shutdown
  | onceEnter (o : Owner) | sdStopInvoke | sdCancel | sdWaitDone | sdClose
  | userReturn (u : Nat)
  -- managers
  | mgrExit (m : Nat)               -- 0 reload manager, 1 state monitor, 2 shutdown manager
  | listenerFire (j : Nat) | listenerCtx (j : Nat) | listenerDone (j : Nat)
  deriving DecidableEq, Repr

def St.emit (s : St) (e : Ev) : St := { s with log := s.log ++ [e] }

def capAt (s : St) (i : Nat) : Caps := s.caps.getD i {}

/-- where the startup loop goes after runnable `i` passed (or has no) gate -/
def St.next (s : St) (i : Nat) : MainPc := if i + 1 < s.n then .launch (i + 1) else .reap

/-- the WaitGroup counter is zero: every launched runnable goroutine finished and every
manager exited (derived, never a free counter) -/
def St.wgZero (s : St) : Bool :=
  s.rg.all (fun r => r == .none || r == .done)
  && s.reloadMgr != .running && s.stateMon != .running && s.sdMgr != .running

/-- the thread `o` is at a call of `p.Shutdown()` -/
def St.atCall (s : St) : Owner → Bool
  | .main => match s.main with | .sdCall _ => true | _ => false
  | .user u => s.users[u]? == some .calling
  | .listener j => s.det[j]? == some .calling

def anyCap (s : St) (f : Caps → Bool) : Bool := s.caps.any f

def step (s : St) : Act → Option St
  -- ---------------------------------------------------------------- environment
  | .sendSig g =>
    -- a goroutine calls SendSignal(g): it is now in `select { p.signalChan <- g | <-p.ctx.Done() }`
    some ({ s with sigPending := s.sigPending ++ [g] }.emit (.sigSent g))
  | .sigDeliver k =>
    match s.sigPending[k]? with
    | some g => if s.sigQ.isNone then some { s with sigQ := some g, sigPending := s.sigPending.eraseIdx k } else none
    | none => none
  | .sigDrop k =>
    if s.ctx && k < s.sigPending.length then some { s with sigPending := s.sigPending.eraseIdx k } else none
  | .parentCancel =>
    if !s.parent then some ({ s with parent := true, ctx := true }.emit .parentCancel) else none
  | .userCall u =>
    if s.users[u]? == some .idle then some ({ s with users := s.users.set u .calling }.emit (.userCall u)) else none
  | .trigger j =>
    if (capAt s j).shutdownSender && s.trig[j]? == some false
    then some ({ s with trig := s.trig.set j true }.emit (.triggerSent j)) else none
  | .runReturn i o =>
    if s.rg[i]? == some .inRun then some ({ s with rg := s.rg.set i (.returned o) }.emit (.runReturn i o)) else none
  | .stopReturn =>
    match s.sd with
    | .stopping k true => some ({ s with sd := .stopping (k - 1) false }.emit (.stopReturn (k - 1)))
    | _ => none
  | .pollAns i b =>
    if s.main == .gatePoll i then
      some ({ s with main := if b then s.next i else .gateSelect i, stTimeout := if b then false else s.stTimeout }.emit (.poll i b))
    else none
  | .tickAns i b =>
    if s.main == .gateTick i then
      some ({ s with main := if b then s.next i else .gateSelect i, stTimeout := if b then false else s.stTimeout }.emit (.poll i b))
    else none
  | .ctxSeen i =>
    if s.ctx && s.rg[i]? == some .inRun then some (s.emit (.ctxSeen i)) else none
  | .shutdownTimeout =>
    if s.sd == .waiting then some { s with sd := .afterWait true } else none
  | .startupTimeoutFire =>
    match s.main with
    | .gateSleep _ | .gatePoll _ | .gateSelect _ | .gateTick _ => some { s with stTimeout := true }
    | _ => none
  -- ---------------------------------------------------------------- main goroutine
  | .mainStart =>
    -- `goTracked` (repaired code, finding C02-F4): nothing is added to the WaitGroup once Shutdown has
    -- begun.  The three manager launches are one step here (no runnable exists yet, so only a direct
    -- Shutdown() call can fall between them).
    if s.main == .init && 0 < s.n then
      if s.once == .fresh then
        some { s with main := .launch 0,
                      reloadMgr := if anyCap s (·.reloadable) then .running else .absent,
                      stateMon := if anyCap s (·.stateable) then .running else .absent,
                      sdMgr := if anyCap s (·.shutdownSender) then .running else .absent,
                      listeners := s.caps.map fun c => if c.shutdownSender then .waitTrig else .absent }
      else some { s with main := .launch 0 }
    else none
  | .mainLaunch i =>
    -- `goTracked(startRunnable r_i)`: refused once Shutdown has begun; Run then leaves the start-up loop.
    -- An addition while Shutdown's `wg.Wait()` is in progress is the WaitGroup misuse that panicked
    -- the pinned code (`panicked` records it; unreachable with the guard).
    if s.main == .launch i && i < s.n then
      if s.once == .fresh then
        some { s with rg := s.rg.set i .spawned, stTimeout := false,
                      panicked := s.panicked || s.sd == .waiting,
                      main := if (capAt s i).stateable then .gateSleep i else s.next i }
      else some { s with main := .reap }
    else none
  | .gateWake i =>
    if s.main == .gateSleep i then some { s with main := .gatePoll i } else none
  | .gateErr i =>
    if s.main == .gateSelect i then
      match s.errQ with
      | e :: rest => some { s with errQ := rest, main := .sdCall (.err e) }
      | [] => none
    else none
  | .gateTimeout i =>
    -- `case <-startupCtx.Done()`: the startup timer fired (C04-F1 repaired: when the
    -- supervisor context is cancelled this branch returns nil instead of a timeout error)
    if s.main == .gateSelect i && (s.stTimeout || s.ctx) then
      if s.ctx then some { s with main := s.next i, stTimeout := false }
      else some { s with main := .sdCall .startupTimeout }
    else none
  | .gateCtx i =>
    if s.main == .gateSelect i && s.ctx then some { s with main := s.next i, stTimeout := false } else none
  | .gateTickFire i =>
    if s.main == .gateSelect i then some { s with main := .gateTick i } else none
  | .reapErr =>
    if s.main == .reap then
      match s.errQ with
      | e :: rest => some { s with errQ := rest, main := .sdCall (.err e) }
      | [] => none
    else none
  | .reapCtx =>
    if s.main == .reap && s.ctx then some { s with main := .sdCall .nil } else none
  | .reapSig =>
    if s.main == .reap then
      match s.sigQ with
      | some .int | some .term => some { s with sigQ := none, main := .sdCall .nil }
      | some .hup => some { s with sigQ := none, hup := s.hup + 1 }
      | some .other => some { s with sigQ := none }
      | none => none
    else none
  | .mainReturn =>
    match s.main with
    | .sdCall r => if s.once == .done then some ({ s with main := .returned r }.emit (.mainReturn r)) else none
    | _ => none
  -- ---------------------------------------------------------------- runnable goroutines
  | .rgInvoke i =>
    if s.rg[i]? == some .spawned then some ({ s with rg := s.rg.set i .inRun }.emit (.runInvoke i)) else none
  | .rgFinish i =>
    match s.rg[i]? with
    | some (.returned (.realErr e)) => some { s with rg := s.rg.set i (.sending e) }
    | some (.returned _) => some { s with rg := s.rg.set i .done }
    | _ => none
  | .rgSend i =>
    match s.rg[i]? with
    | some (.sending e) =>
      if s.errClosed then some { s with panicked := true, rg := s.rg.set i .done }   -- send on closed channel
      else if s.errQ.length < 2 * s.n then some { s with errQ := s.errQ ++ [e], rg := s.rg.set i .done }
      else none
    | _ => none
  -- ---------------------------------------------------------------- Shutdown()
  | .onceEnter o =>
    if s.once == .fresh && s.atCall o then some { s with once := .running o, sd := .stopping s.n false } else none
  | .sdStopInvoke =>
    match s.sd with
    | .stopping k false => if 0 < k then some ({ s with sd := .stopping k true }.emit (.stopInvoke (k - 1))) else none
    | _ => none
  | .sdCancel =>
    if s.sd == .stopping 0 false then some { s with sd := .waiting, ctx := true, byShutdown := true } else none
  | .sdWaitDone =>
    if s.sd == .waiting && s.wgZero then some { s with sd := .afterWait false } else none
  | .sdClose =>
    match s.sd with
    -- (the repaired code no longer closes errorChan here: finding C02-F3)
    | .afterWait _ => some { s with sd := .finished, once := .done }
    | _ => none
  | .userReturn u =>
    if s.users[u]? == some .calling && s.once == .done
    then some ({ s with users := s.users.set u .returned }.emit (.userReturn u)) else none
  -- ---------------------------------------------------------------- managers
  | .mgrExit m =>
    if !s.ctx then none else
    match m with
    | 0 => if s.reloadMgr == .running then some { s with reloadMgr := .exited } else none
    | 1 => if s.stateMon == .running then some { s with stateMon := .exited } else none
    | 2 => if s.sdMgr == .running && s.listeners.all (fun l => l == .absent || l == .exited)
           then some { s with sdMgr := .exited } else none
    | _ => none
  | .listenerFire j =>
    -- the listener starts `go p.Shutdown()` and exits (repaired code: finding C02-F1)
    if s.listeners[j]? == some .waitTrig && s.trig[j]? == some true
    then some { s with listeners := s.listeners.set j .exited, trig := s.trig.set j false, det := s.det.set j .calling }
    else none
  | .listenerCtx j =>
    if s.listeners[j]? == some .waitTrig && s.ctx then some { s with listeners := s.listeners.set j .exited } else none
  | .listenerDone j =>
    if s.det[j]? == some .calling && s.once == .done
    then some { s with det := s.det.set j .returned } else none

def lts : Lts St Act := ⟨step⟩

abbrev Reachable (caps : List Caps) (users : Nat) (s : St) : Prop := Reach lts (initSt caps users) s

end GoSup.Sup
