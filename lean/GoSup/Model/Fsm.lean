/-!
# Model of the state machine used by the bundled runnables (C08)

`go-fsm` semantics over an arbitrary transition table `tbl` (the real one, `transitions.Typical`
of the pinned module, is *extracted* into `Generated.typical` and plugged in by the tie theorems):
`Transition x` follows a table edge or fails and leaves the state unchanged; `SetState x` forces
`x`; `TransitionIfCurrentState a b` is `Transition b` guarded by the current state.
-/
namespace GoSup.Fsm

abbrev Table := List (String × List String)

def allowed (tbl : Table) (a b : String) : Bool :=
  match tbl.find? (·.1 == a) with
  | some (_, ts) => ts.contains b
  | none => false

inductive Call where
  | transition (x : String)               -- Transition / TransitionBool
  | transitionIf (cur x : String)         -- TransitionIfCurrentState
  | setState (x : String)                 -- SetState (bypasses the table)
  deriving DecidableEq, Repr

def apply (tbl : Table) (s : String) : Call → String
  | .transition x => if allowed tbl s x then x else s
  | .transitionIf cur x => if s == cur && allowed tbl s x then x else s
  | .setState x => x

/-- the successive values of the state variable -/
def states (tbl : Table) (s : String) : List Call → List String
  | [] => [s]
  | c :: cs => s :: states tbl (apply tbl s c) cs

/-- the graph of the property: table edges, staying put, and entering `Error` from anywhere -/
def edge (tbl : Table) (a b : String) : Bool := a == b || b == "Error" || allowed tbl a b

def isWalk (tbl : Table) : List String → Bool
  | a :: b :: t => edge tbl a b && isWalk tbl (b :: t)
  | _ => true

/-- the calls a runner is allowed to make: `SetState` only with `Error` -/
def disciplined : Call → Bool
  | .setState x => x == "Error"
  | _ => true

end GoSup.Fsm
