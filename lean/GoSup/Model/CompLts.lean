import GoSup.Core.Lts
import GoSup.Model.CompSeq
/-!
# Concurrent model of the composite runner (`runner.go`, `reload.go`) (C09–C11, C18)

One `Run()` on a fresh runner, any number of `Reload()` callers (serialised by `reloadMu`: one is
active at a time), any number of `Stop()` callers and a cancellable parent context, any number of
generations of children.  One action per critical section / blocking operation:

| thread  | action            | code                                                                                   |
|---------|-------------------|----------------------------------------------------------------------------------------|
| Run     | `runEnter`        | `lc.Started()`, `runCtx := WithCancel(ctx)`, `r.ctx = runCtx` under `runnablesMu`, `Transition(Booting)` |
|         | `runBoot res`, `runBootFail` | `boot(runCtx)` under `runnablesMu` (`getConfig()` calls the callback: `res`); launches one goroutine per entry; no configuration: `setStateError()` and return, a separate step |
|         | `runToRunning`    | `Transition(Running)`; on failure `setStateError()` and return                          |
|         | `runSelCtx` / `runSelStop` / `runSelErr` | the three arms of the `select`                                  |
|         | `runToStopping`   | `TransitionIfCurrentState(Running, Stopping)`                                          |
|         | `runStopBegin`    | `stopAllRunnables()`: lock, `getConfig()`, one `Stop()` goroutine per entry of the *current* configuration |
|         | `runStopEnd`      | all `Stop()`s returned: cancel the generation, unlock                                   |
|         | `runFinish`       | `Transition(Stopped)` (or `setStateError`), deferred `runCancel()` and `done()`         |
| Reload  | `rlEnter`         | `reloadMu.Lock()`, `Transition(Reloading)`; on failure `setStateError()`, return        |
|         | `rlCallback res`, `rlAfterCb` | `configCallback()` returns `res`; then: error / nil: `setStateError()`, return (two steps: other threads run in between) |
|         | `rlDecide`        | `getConfig()`, `hasMembershipChanged`                                                   |
|         | `rlStopBegin` / `rlStopEnd` | `stopAllRunnables()` of `reloadWithRestart`                                    |
|         | `rlSetConfig`     | `setConfig(newConfig)` (either path)                                                    |
|         | `rlBoot`          | `boot(r.ctx)`                                                                           |
|         | `rlChildReload`   | `reloadSkipRestart`: `ReloadWithConfig` / `Reload` of every child, in order             |
|         | `rlFinish`        | `Transition(Running)`; on failure `setStateError()`; `reloadMu.Unlock()`                |
| env     | `stopCall`, `cancelCtx` | a `Stop()` caller closes the stop channel; the parent context ends                |
|         | `childRun g c`    | the goroutine of child `c` of generation `g` calls the child's `Run`                    |
|         | `childExit g c o` | that `Run` returns (`o`: nil / cancellation error / real error) — at any time: children are arbitrary; `childExitDropped`: a real error that did not fit into `serverErrors` |
|         | `childStopRet c`  | a pending `Stop()` of child `c` returns (they run in parallel); a *blocking* child (`lifecycle.StartStop` style) only once its `Run` has been invoked and has returned, or if its last `Run` had finished when the `Stop()` was entered (`childStopInv`, `okd`) |
|         | `reloadCall`, `reloadAck st`, `retAck r st`, `stopDone`, `observe st`, `childStopInv c` | what callers see: a `Reload()` is called (waits for `reloadMu`) / has returned and `GetState()` read `st`; `Run()` has returned `r` with state `st`; a `Stop()` caller is released; a state query; a child's `Stop()` is entered |

A generation's context is derived from the context `boot` was given: `runCtx` in `Run`, the field
`r.ctx` in `reloadWithRestart` (`none` = the field was never set: `WithCancel(nil)` panics).
-/
namespace GoSup.CompLts
open GoSup.Core GoSup.CompSeq

def allowed : Fsm → Fsm → Bool
  | .new, .booting | .new, .error => true
  | .booting, .running | .booting, .error => true
  | .running, .reloading | .running, .stopping | .running, .error => true
  | .reloading, .running | .reloading, .error => true
  | .stopping, .stopped | .stopping, .error => true
  | .stopped, .new | .stopped, .error => true
  | .error, .error | .error, .stopping | .error, .stopped => true
  | _, _ => false

/-- what `Run()` returned: nil, `ErrRunnableFailed` naming child `c`, any other error -/
inductive RRet where | nil | failed (c : Nat) | other
  deriving DecidableEq, Repr

inductive ChildSt where | launched | running | exited (o : Out)
  deriving DecidableEq, Repr

structure Gen where
  children  : List (Nat × ChildSt)     -- child identity, state of its goroutine
  fromRun   : Bool                     -- the context given to boot derives from runCtx (false: nil context)
  cancelled : Bool                     -- childCancel() was called
  deriving DecidableEq, Repr

inductive RunPc where
  | idle | entered | bootFailed | booted | select | afterSelect | toStop | stopping (pending : List Nat) | stopped
  | failToStop (c : Nat)                             -- the serverErrors arm: setStateError() done, before stopAllRunnables
  | failStopping (pending : List Nat) (c : Nat)      -- ... its stopAllRunnables, then return
  | returned (r : RRet)
  deriving DecidableEq, Repr

inductive RlPc where
  | idle | entered | cbReturned (res : CbRes) | gotConfig (cfg : List (Nat × Nat)) | restart (cfg : List (Nat × Nat)) | skip (cfg : List (Nat × Nat))
  | stopping (cfg : List (Nat × Nat)) (pending : List Nat) | stoppedOld (cfg : List (Nat × Nat)) | configSet | children | finishing
  deriving DecidableEq, Repr

inductive Owner where | run | reload
  deriving DecidableEq, Repr

structure St where
  fsm       : Fsm := .new
  cfg       : Option (List (Nat × Nat)) := none      -- r.currentConfig
  rctx      : Bool := false                          -- r.ctx has been set
  runCancelled : Bool := false                       -- runCtx is done (parent ended, runCancel called)
  parentDone : Bool := false
  stopReq   : Bool := false                          -- the lifecycle stop channel is closed
  mu        : Option Owner := none                   -- runnablesMu
  live      : Option Nat := none                     -- r.childCancel belongs to this generation
  gens      : List Gen := []
  errs      : List Nat := []                         -- serverErrors (children that reported a real error)
  run       : RunPc := .idle
  rl        : RlPc := .idle
  reloads   : Nat := 0                               -- completed Reload() calls
  pendingRl : Nat := 0                               -- Reload() callers waiting for `reloadMu`
  acked     : Nat := 0                               -- Reload() returns seen by their callers
  retAcked  : Bool := false                          -- the return of Run() was seen by its caller
  blockers  : List Nat := []                         -- children whose Stop() is lifecycle.StartStop style
  okd       : List Nat := []                         -- pending lifecycle-style Stop()s that found their last Run finished when they were entered
  nilBoot   : Bool := false                          -- ghost: boot was given a nil context
  deriving DecidableEq, Repr

inductive Act where
  | runEnter | runBoot (res : CbRes) | runBootFail | runToRunning | runSelCtx | runSelStop | runSelErr
  | runToStopping | runStopBegin | runStopEnd | runFinish
  | rlEnter | rlCallback (res : CbRes) | rlAfterCb | rlDecide | rlStopBegin | rlStopEnd | rlSetConfig | rlBoot
  | rlChildReload | rlFinish
  | stopCall | cancelCtx | stopDone
  | reloadCall | reloadAck (st : Fsm) | retAck (r : RRet) (st : Fsm) | observe (st : Fsm)
  | childStopInv (c : Nat)
  | childRun (g c : Nat) | childExit (g c : Nat) (o : Out) | childExitDropped (g c : Nat) | childStopRet (c : Nat)
  deriving DecidableEq, Repr

def tr (s : St) (to : Fsm) : Option Fsm := if allowed s.fsm to then some to else none

def newGen (fromRun : Bool) (cfg : List (Nat × Nat)) : Gen :=
  { children := (names cfg).map fun c => (c, .launched), fromRun := fromRun, cancelled := false }

/-- `boot(ctx)` with the configuration `cfg` in force (lock held by the caller of this helper) -/
def boot (s : St) (fromRun : Bool) (cfg : List (Nat × Nat)) : St :=
  if cfg.isEmpty then s
  else { s with gens := s.gens ++ [newGen fromRun cfg], live := some s.gens.length, nilBoot := s.nilBoot || !fromRun }

/-- cancel the generation `r.childCancel` belongs to, `r.childCancel = nil` -/
def cancelLive (s : St) : St :=
  match s.live with
  | none => s
  | some g => { s with live := none, gens := s.gens.modify g fun x => { x with cancelled := true } }

def setChild (s : St) (g c : Nat) (st : ChildSt) : St :=
  { s with gens := s.gens.modify g fun x => { x with children := x.children.map fun p => if p.1 == c then (c, st) else p } }

def childSt (s : St) (g c : Nat) : Option ChildSt :=
  (s.gens[g]?).bind fun x => (x.children.find? (·.1 == c)).map (·.2)

/-- has some `Run` of child `c` been invoked and has every invoked one returned? (what a `lifecycle.StartStop` Stop waits for) -/
def ranAndReturned (s : St) (c : Nat) : Bool :=
  let sts := s.gens.flatMap fun x => (x.children.filter (·.1 == c)).map (·.2)
  sts.any (fun st => match st with | .exited _ => true | _ => false)
  && sts.all (fun st => match st with | .running => false | _ => true)

def step (s : St) : Act → Option St
  -- ---------------- Run ----------------
  | .runEnter =>
    if s.run != .idle || s.mu.isSome then none else
    match tr s .booting with
    | some f => some { s with rctx := true, fsm := f, run := .entered, runCancelled := s.parentDone }
    | none => some { s with rctx := true, run := .returned .other, runCancelled := true }
  | .runBoot res =>
    if s.run != .entered || s.mu.isSome then none else
    match s.cfg, res with
    | some cfg, _ => some { boot s true cfg with run := .booted }
    | none, .ok cfg => some { boot { s with cfg := some cfg } true cfg with run := .booted }
    | none, _ => some { s with run := .bootFailed }     -- the callback's answer is seen; `setStateError()` comes later
  | .runBootFail =>
    if s.run != .bootFailed then none else some { s with fsm := .error, run := .returned .other, runCancelled := true }
  | .runToRunning =>
    if s.run != .booted then none else
    match tr s .running with
    | some f => some { s with fsm := f, run := .select }
    | none => some { s with fsm := .error, run := .returned .other, runCancelled := true }
  | .runSelCtx => if s.run == .select && s.runCancelled then some { s with run := .afterSelect } else none
  | .runSelStop => if s.run == .select && s.stopReq then some { s with run := .afterSelect, runCancelled := true } else none
  | .runSelErr =>
    if s.run != .select then none else
    match s.errs with
    | c :: rest => some { s with errs := rest, fsm := .error, run := .failToStop c }
    | [] => none
  | .runToStopping =>
    if s.run != .afterSelect then none else
    some { s with fsm := if s.fsm == .running then .stopping else s.fsm, run := .toStop }
  | .runStopBegin =>
    if s.mu.isSome then none else
    match s.run, s.cfg with
    | .toStop, some cfg => some { s with mu := some .run, run := .stopping (names cfg).reverse }
    | .failToStop c, some cfg => some { s with mu := some .run, run := .failStopping (names cfg).reverse c }
    | _, _ => none
  | .runStopEnd =>
    match s.run with
    | .stopping [] => some { cancelLive s with mu := none, run := .stopped }
    | .failStopping [] c => some { cancelLive s with mu := none, run := .returned (.failed c), runCancelled := true }
    | _ => none
  | .runFinish =>
    if s.run != .stopped then none else
    match tr s .stopped with
    | some f => some { s with fsm := f, run := .returned .nil, runCancelled := true }
    | none => some { s with fsm := .error, run := .returned .other, runCancelled := true }
  -- ---------------- Reload ----------------
  | .rlEnter =>
    if s.rl != .idle || s.pendingRl == 0 then none else
    match tr s .reloading with
    | some f => some { s with fsm := f, rl := .entered, pendingRl := s.pendingRl - 1 }
    | none => some { s with fsm := .error, reloads := s.reloads + 1, pendingRl := s.pendingRl - 1 }
  | .rlCallback res =>
    -- the callback is seen (by the harness) while it runs; what `Reload` does with its result comes afterwards
    if s.rl != .entered then none else some { s with rl := .cbReturned res }
  | .rlAfterCb =>
    match s.rl with
    | .cbReturned (.ok cfg) => some { s with rl := .gotConfig cfg }
    | .cbReturned _ => some { s with fsm := .error, rl := .idle, reloads := s.reloads + 1 }
    | _ => none
  | .rlDecide =>
    match s.rl with
    | .gotConfig cfg =>
      let old := (s.cfg.getD [])
      some { s with rl := if changed (names old) (names cfg) then .restart cfg else .skip cfg }
    | _ => none
  | .rlStopBegin =>
    match s.rl, s.mu, s.cfg with
    | .restart cfg, none, some cur => some { s with mu := some .reload, rl := .stopping cfg (names cur).reverse }
    | _, _, _ => none
  | .rlStopEnd =>
    match s.rl with
    | .stopping cfg [] => some { cancelLive s with mu := none, rl := .stoppedOld cfg }
    | _ => none
  | .rlSetConfig =>
    match s.rl with
    | .stoppedOld cfg => some { s with cfg := some cfg, rl := .configSet }
    | .skip cfg => some { s with cfg := some cfg, rl := .children }
    | _ => none
  | .rlBoot =>
    if s.rl != .configSet || s.mu.isSome then none else
    match s.cfg with
    | some cfg => some { boot s s.rctx cfg with rl := .finishing }
    | none => none
  | .rlChildReload => if s.rl == .children then some { s with rl := .finishing } else none
  | .rlFinish =>
    if s.rl != .finishing then none else
    match tr s .running with
    | some f => some { s with fsm := f, rl := .idle, reloads := s.reloads + 1 }
    | none => some { s with fsm := .error, rl := .idle, reloads := s.reloads + 1 }
  -- ---------------- environment ----------------
  | .stopCall => some { s with stopReq := true }
  | .stopDone => (match s.run with | .returned _ => some s | _ => none)      -- a Stop() caller is released by `done()`
  | .reloadCall => some { s with pendingRl := s.pendingRl + 1 }
  | .reloadAck st => if s.acked < s.reloads && s.fsm == st then some { s with acked := s.acked + 1 } else none
  | .retAck r st =>
    if s.retAcked then none else
    (match s.run with
     | .returned r' => if r' == r && s.fsm == st then some { s with retAcked := true } else none
     | _ => none)
  | .observe st => if s.fsm == st then some s else none
  | .childStopInv c =>
    -- a lifecycle-style Stop() that is entered while the child's last Run has finished (and the next one has not begun)
    -- returns at once, whatever begins afterwards: remember what it saw
    let s' : St := if ranAndReturned s c then { s with okd := c :: s.okd } else s
    (match s.run, s.rl with
     | .stopping p, _ => if p.contains c then some s' else none
     | .failStopping p _, _ => if p.contains c then some s' else none
     | _, .stopping _ p => if p.contains c then some s' else none
     | _, _ => none)
  | .cancelCtx => some { s with parentDone := true, runCancelled := s.runCancelled || s.rctx }
  | .childRun g c =>
    match childSt s g c with
    | some .launched => some (setChild s g c .running)
    | _ => none
  | .childExit g c o =>
    match childSt s g c with
    | some .running =>
      let s' := setChild s g c (.exited o)
      some (if o == .realErr then { s' with errs := s'.errs ++ [c] } else s')
    | _ => none
  | .childExitDropped g c =>          -- a real error that does not fit into serverErrors is logged and dropped
    match childSt s g c with
    | some .running => some (setChild s g c (.exited .realErr))
    | _ => none
  | .childStopRet c =>       -- the Stop() goroutines run in parallel: any pending one may return
    let ok := !s.blockers.contains c || ranAndReturned s c || s.okd.contains c
    match s.run, s.rl with
    | .stopping p, _ => if p.contains c && ok then some { s with run := .stopping (p.erase c), okd := s.okd.erase c } else none
    | .failStopping p e, _ => if p.contains c && ok then some { s with run := .failStopping (p.erase c) e, okd := s.okd.erase c } else none
    | _, .stopping cfg p => if p.contains c && ok then some { s with rl := .stopping cfg (p.erase c), okd := s.okd.erase c } else none
    | _, _ => none

def lts : Lts St Act := ⟨step⟩

def init (blockers : List Nat) : St := { blockers := blockers }

/-- a generation's context is done: its own cancel was called, or the run context it derives from is done -/
def Gen.done (s : St) (g : Gen) : Bool := g.cancelled || (g.fromRun && s.runCancelled)

end GoSup.CompLts
