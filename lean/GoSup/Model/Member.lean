/-!
# Model of `composite.hasMembershipChanged` (C11), over the list of child identities
(`entry.Runnable.String()`), 1:1 with `reload.go`.
-/
namespace GoSup.Member

def changed (old new : List String) : Bool :=
  old.length != new.length || new.any fun x => !old.contains x

end GoSup.Member
