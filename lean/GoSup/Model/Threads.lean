/-!
# Goroutine inventory: nothing stays parked after termination (C18)

An abstract machine of the goroutines a library starts.  A goroutine belongs to a *site* (one `go`
statement) and is always parked at one of the site's *blocking points*; a blocking point is a list
of alternatives (one for a bare receive / send / call, several for a `select`).  Alternatives are
classified:

* `nb`      never blocks (buffered by construction, `default`);
* `term`    enabled for ever once the termination conditions hold (cancelled context, closed channel,
            a call into a component that returns after it has been stopped);
* `wait S`  enabled when no goroutine of the sites `S` is alive (`WaitGroup.Wait`);
* `peer`    needs a partner that may never come (a send/receive on a channel nobody has to service).

Control flow is over-approximated: an enabled goroutine may move to *any* point of its site or
finish.  Sites, points and threads are unbounded.
-/
namespace GoSup.Threads

inductive Cls (σ : Type) where
  | nb | term | wait (sites : List σ) | peer
  deriving Repr

structure Thread (σ : Type) where
  site : σ
  pt   : List (Cls σ)

structure St (σ : Type) where
  term   : Bool              -- termination conditions established (irreversible)
  live   : List (Thread σ)
  offers : Nat               -- partners currently offering to communicate (environment)

variable {σ : Type} [DecidableEq σ]

def altEnabled (s : St σ) : Cls σ → Bool
  | .nb => true
  | .term => s.term
  | .wait S => s.live.all fun t => !S.contains t.site
  | .peer => decide (0 < s.offers)

def enabled (s : St σ) (t : Thread σ) : Bool := t.pt.any (altEnabled s)

/-- the machine; `pts site` = the blocking points of a site -/
inductive Step (pts : σ → List (List (Cls σ))) : St σ → St σ → Prop where
  | spawn (s : St σ) (site : σ) (p : List (Cls σ)) : s.term = false → p ∈ pts site →
      Step pts s { s with live := ⟨site, p⟩ :: s.live }
  | move (s : St σ) (i : Nat) (h : i < s.live.length) (p : List (Cls σ)) : enabled s s.live[i] = true →
      p ∈ pts (s.live[i]).site → Step pts s { s with live := s.live.set i ⟨(s.live[i]).site, p⟩ }
  | finish (s : St σ) (i : Nat) (h : i < s.live.length) : enabled s s.live[i] = true →
      Step pts s { s with live := s.live.eraseIdx i }
  | terminate (s : St σ) : Step pts s { s with term := true }
  | offer (s : St σ) (n : Nat) : Step pts s { s with offers := n }

inductive Reach (pts : σ → List (List (Cls σ))) : St σ → Prop where
  | init : Reach pts { term := false, live := [], offers := 0 }
  | step {s s'} : Reach pts s → Step pts s s' → Reach pts s'

/-- an alternative that cannot leave a goroutine parked for ever after termination -/
def safeAlt (rank : σ → Nat) (site : σ) : Cls σ → Bool
  | .nb => true
  | .term => true
  | .wait S => S.all fun x => decide (rank x < rank site)
  | .peer => false

def safePoint (rank : σ → Nat) (site : σ) (p : List (Cls σ)) : Bool := p.any (safeAlt rank site)

/-- every blocking point of every site has a safe alternative -/
def SafeTable (pts : σ → List (List (Cls σ))) (rank : σ → Nat) : Prop :=
  ∀ site, ∀ p ∈ pts site, safePoint rank site p = true

/-- no goroutine can take a step (what a goroutine dump at quiescence shows) -/
def Quiescent (s : St σ) : Prop := ∀ t ∈ s.live, enabled s t = false

end GoSup.Threads
