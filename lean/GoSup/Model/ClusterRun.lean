import GoSup.Model.CompLts
/-!
# The state machine of a cluster's `Run()` (C08 for `httpcluster.Runner`)

Every state change of an `httpcluster.Runner` is made by the goroutine that executes `Run()` (`Run`, `processConfigUpdate`,
`shutdown`, `setStateError`); nothing else writes the state.  So the state walk of one `Run()` is a sequential program:

* `Transition(Booting)`, `Transition(Running)` — on a refusal `setStateError()` and an error is returned;
* per configuration map received: `IsRunning()` (else the map is ignored), `Transition(Reloading)` (a refusal returns from
  the update), the plan is executed, `TransitionIfCurrentState(Reloading, Running)` — on a refusal `setStateError()`;
* `shutdown`: `Transition(Stopping)`, the plan to the empty map, `Transition(Stopped)` — refusals are logged only — and
  `Run()` returns nil.

`runWalk start n` is the walk from state `start` with `n` maps processed: the states entered, in order, and whether
`Run()` returns nil.  The table is the one of `CompLts` (`tie_comp_table`: the extracted `transitions.Typical`).
-/
namespace GoSup.ClusterRun
open GoSup.CompSeq (Fsm)
open GoSup.CompLts (allowed)

def tr (f to : Fsm) : Option Fsm := if allowed f to then some to else none

/-- one processed configuration map: the state afterwards and the states entered -/
def update (f : Fsm) : Fsm × List Fsm :=
  if f != .running then (f, []) else
  match tr f .reloading with
  | none => (f, [])
  | some r =>
    match (if r == .reloading then tr r .running else none) with
    | some x => (x, [r, x])
    | none => (.error, [r, .error])

def updates : Nat → Fsm → Fsm × List Fsm
  | 0, f => (f, [])
  | n + 1, f => let (f1, v1) := update f; let (f2, v2) := updates n f1; (f2, v1 ++ v2)

def shutdown (f : Fsm) : Fsm × List Fsm :=
  let (f1, v1) := match tr f .stopping with | some x => (x, [x]) | none => (f, [])
  match tr f1 .stopped with | some x => (x, v1 ++ [x]) | none => (f1, v1)

structure Res where
  final   : Fsm
  visited : List Fsm
  nil     : Bool      -- `Run()` returned nil
  deriving DecidableEq, Repr

def runWalk (start : Fsm) (n : Nat) : Res :=
  match tr start .booting with
  | none => { final := .error, visited := [.error], nil := false }
  | some b =>
    match tr b .running with
    | none => { final := .error, visited := [b, .error], nil := false }
    | some r =>
      let (f1, v1) := updates n r
      let (f2, v2) := shutdown f1
      { final := f2, visited := [b, r] ++ v1 ++ v2, nil := true }

end GoSup.ClusterRun
