/-!
# Model of `internal/networking.ValidatePort` (C20)

Go strings are byte sequences, so the model works over `List UInt8` (all 256 byte values, any
length, invalid UTF-8 included).  `splitHostPort`, `atoi` and `joinHostPort` are byte-exact
ports of `net.SplitHostPort`, `strconv.Atoi` (its *error / no error + value* behaviour) and
`net.JoinHostPort` of the pinned Go toolchain; they are validated differentially against the
real functions by the correspondence check (`harness pure port`).  `validatePort` follows
`port.go` line by line.
-/
namespace GoSup.Port

abbrev Bytes := List UInt8

def cColon : UInt8 := 58
def cLbr   : UInt8 := 91
def cRbr   : UInt8 := 93
def cMinus : UInt8 := 45
def cPlus  : UInt8 := 43
def cZero  : UInt8 := 48

/-- `strings.HasPrefix` -/
def hasPrefix : Bytes → Bytes → Bool
  | _, [] => true
  | [], _ :: _ => false
  | a :: s, b :: p => a == b && hasPrefix s p

/-- `strings.Contains` -/
def containsSub : Bytes → Bytes → Bool
  | [], p => p.isEmpty
  | a :: s, p => hasPrefix (a :: s) p || containsSub s p

/-- `strings.Contains(s, string(c))` / `IndexByteString(s, c) >= 0` -/
def hasByte (s : Bytes) (c : UInt8) : Bool := s.contains c

/-- split at the last occurrence of `c`: `(before, after)`; `none` when `c` does not occur.
(`i := LastIndexByteString(s, c)`, `s[:i]`, `s[i+1:]`) -/
def splitLast : Bytes → UInt8 → Option (Bytes × Bytes)
  | [], _ => none
  | a :: s, c =>
    match splitLast s c with
    | some (x, y) => some (a :: x, y)
    | none => if a == c then some ([], s) else none

/-- split at the first occurrence of `c` (`IndexByteString`) -/
def splitFirst : Bytes → UInt8 → Option (Bytes × Bytes)
  | [], _ => none
  | a :: s, c => if a == c then some ([], s) else (splitFirst s c).map fun (x, y) => (a :: x, y)

inductive SplitErr where
  | missingPort | tooManyColons | missingRbr | unexpectedLbr | unexpectedRbr
  deriving DecidableEq, Repr

/-- `net.SplitHostPort`.  Index arithmetic of the Go source re-expressed structurally:
`i` = last colon ⇒ `hp = pre ++ ':' :: port`; for a leading `'['`, `end` = first `']'` ⇒
`hp = '[' :: inner ++ ']' :: after`; `end+1 == len` ⇔ `after = []`; `end+1 == i` ⇔
`after = ':' :: p2` with no colon in `p2`; `hostport[end+1] == ':'` ⇔ `after` starts with a colon.
Validated byte-for-byte against the real function by the correspondence check. -/
def splitHostPort (hp : Bytes) : Except SplitErr (Bytes × Bytes) :=
  match splitLast hp cColon with
  | none => .error .missingPort
  | some (pre, port) =>
    match hp with
    | [] => .error .missingPort
    | c :: rest =>
      if c == cLbr then
        match splitFirst rest cRbr with
        | none => .error .missingRbr
        | some (inner, after) =>
          match after with
          | [] => .error .missingPort
          | d :: p2 =>
            if d == cColon then
              if hasByte p2 cColon then .error .tooManyColons
              else if hasByte inner cLbr || hasByte after cLbr then .error .unexpectedLbr
              else if hasByte after cRbr then .error .unexpectedRbr
              else .ok (inner, p2)
            else .error .missingPort
      else
        if hasByte pre cColon then .error .tooManyColons
        else if hasByte hp cLbr then .error .unexpectedLbr
        else if hasByte hp cRbr then .error .unexpectedRbr
        else .ok (pre, port)

/-- `net.JoinHostPort` -/
def joinHostPort (host port : Bytes) : Bytes :=
  if hasByte host cColon then [cLbr] ++ host ++ [cRbr, cColon] ++ port
  else host ++ [cColon] ++ port

def isDigit (c : UInt8) : Bool := cZero ≤ c && c ≤ 57

/-- value of a non-empty all-digit string (most significant first), `none` otherwise -/
def digitsValAux : Bytes → Nat → Option Nat
  | [], acc => some acc
  | c :: s, acc => if isDigit c then digitsValAux s (acc * 10 + (c.toNat - 48)) else none

def digitsVal (s : Bytes) : Option Nat :=
  if s.isEmpty then none else digitsValAux s 0

/-- `strconv.Atoi` on a 64-bit platform: `some v` iff Go returns `(v, nil)`.
Syntax errors and range errors (outside int64) are both `none`. -/
def atoi (s : Bytes) : Option Int :=
  match s with
  | [] => none
  | c :: rest =>
    let neg := c == cMinus
    let ds := if c == cMinus || c == cPlus then rest else s
    match digitsVal ds with
    | none => none
    | some n =>
      if neg then (if n ≤ 2 ^ 63 then some (-(n : Int)) else none)
      else (if n < 2 ^ 63 then some (n : Int) else none)

inductive VErr where
  | emptyPort | invalidFormat | outOfRange
  deriving DecidableEq, Repr

/-- `networking.ValidatePort`, line by line (current `/repo` source: the result is
`net.JoinHostPort(host, port)`-shaped only when the tie `Tie/Port.lean` says so; see
`resultOf`). -/
def normalise (s : Bytes) : Bytes := if hasByte s cColon then s else cColon :: s

/-- how the final result is assembled from host and port.  `joined = true` models the repaired
code (`net.JoinHostPort`), `false` the original (`host + ":" + port`). -/
def resultOf (joined : Bool) (host port : Bytes) : Bytes :=
  if host.isEmpty then cColon :: port
  else if joined then joinHostPort host port
  else host ++ [cColon] ++ port

def validatePortG (joined : Bool) (s : Bytes) : Except VErr Bytes :=
  if s.isEmpty then .error .emptyPort
  else if containsSub s [cColon, cMinus] || (hasPrefix s [cMinus] && !hasByte s cColon) then
    .error .invalidFormat
  else
    match splitHostPort (normalise s) with
    | .error _ => .error .invalidFormat
    | .ok (host, port) =>
      match atoi port with
      | none =>
        -- `errors.Is(err, strconv.ErrRange) && strings.Trim(port, "0123456789") == ""`:
        -- a non-empty all-digit numeral fails `Atoi` only by range (repaired code only)
        if joined && !port.isEmpty && port.all isDigit then .error .outOfRange
        else .error .invalidFormat
      | some n =>
        if n < 1 || n > 65535 then .error .outOfRange
        else .ok (resultOf joined host port)

end GoSup.Port

namespace GoSup.Port
/-- The model of the code as it stands in `/repo` (after the two `fix:` commits recorded in
`KNOWN_FINDINGS.json`).  `validatePortG false` is the code as originally pinned. -/
def validatePort : Bytes → Except VErr Bytes := validatePortG true
end GoSup.Port
