/-!
# Model of the httpserver middleware chain and `responseWriter` (C15)

* `Writer` — the wrapper `responseWriter` (`status`, `written`, `size`) on top of an *underlying
  writer* with the `httptest.ResponseRecorder` contract (first `WriteHeader` fixes the code and
  snapshots the headers, invalid code panics, `Write` implies 200, returns `0` for codes that do
  not allow a body).
* `Act` — the action alphabet of handler programs; built-in middlewares are handler *schemas*
  desugared into the same alphabet (`recovery`, `headersNew`, `headersOps`, `wildcard`, `state`,
  `observer` for logger/metrics).
* `execImpl` — the Go code literally: an integer `index`, `Next` = `index++; for index < len
  { handlers[index](rp); index++ }`, `Abort` = `index = len`; re-entrant; fuel for termination.
* `execSpec` — the reference interpreter: recursion over the list of handlers not yet started;
  no index.
-/
namespace GoSup.Middleware

abbrev Hdr := List (String × List String)

def hGet (h : Hdr) (k : String) : List String :=
  match h with
  | [] => []
  | (k', vs) :: t => if k' == k then vs else hGet t k

def hDel (h : Hdr) (k : String) : Hdr := h.filter fun p => p.1 != k

def hAdd (h : Hdr) (k v : String) : Hdr :=
  match h with
  | [] => [(k, [v])]
  | (k', vs) :: t => if k' == k then (k', vs ++ [v]) :: t else (k', vs) :: hAdd t k v

def hSet (h : Hdr) (k v : String) : Hdr := hAdd (hDel h k) k v

structure Writer where
  hdr     : Hdr := []     -- live header map (shared by wrapper and underlying writer)
  uWrote  : Bool := false -- underlying: header written
  uCode   : Nat := 0      -- underlying: the status code fixed by the first WriteHeader
  uSnap   : Hdr := []     -- underlying: headers as sent (snapshot at header time)
  uBytes  : Nat := 0      -- underlying: sum of the `n` returned by Write (bytes accepted for the client)
  uBody   : Nat := 0      -- underlying: bytes handed to Write (the recorder buffers them regardless)
  cap     : Nat := 1000000 -- underlying: bytes the connection accepts before failing; a Write
                          -- crossing the limit delivers the part that fits and returns an error
  status  : Nat := 0      -- wrapper fields of `responseWriter`
  written : Bool := false
  size    : Nat := 0
  deriving DecidableEq, Repr

def bodyAllowed (c : Nat) : Bool := !((100 ≤ c && c ≤ 199) || c == 204 || c == 304)

/-- underlying `WriteHeader`; second component `true` = panicked (invalid code) -/
def uWriteHeader (w : Writer) (c : Nat) : Writer × Bool :=
  if w.uWrote then (w, false)
  else if c < 100 || c > 999 then (w, true)
  else ({ w with uWrote := true, uCode := c, uSnap := w.hdr }, false)

/-- underlying `Write(n bytes)`: implies 200; returns the writer and the `n` it reports -/
def uWrite (w : Writer) (n : Nat) : Writer × Nat :=
  let w := (uWriteHeader w 200).1
  let w := { w with uBody := w.uBody + n }
  if bodyAllowed w.uCode then
    let k := min n (w.cap - w.uBytes)
    ({ w with uBytes := w.uBytes + k }, k)
  else (w, 0)

/-- `responseWriter.WriteHeader` -/
def wWriteHeader (w : Writer) (c : Nat) : Writer × Bool :=
  if !w.written then uWriteHeader { w with status := c, written := true } c else (w, false)

/-- `responseWriter.Write` -/
def wWrite (w : Writer) (n : Nat) : Writer × Bool :=
  let (w, p) := if !w.written then wWriteHeader w 200 else (w, false)
  if p then (w, true) else
  let (w, k) := uWrite w n
  ({ w with size := w.size + k }, false)

/-- `responseWriter.Status()` -/
def wStatus (w : Writer) : Nat := if w.status == 0 && w.written then 200 else w.status

/-- `http.Error(w, msg, code)` with `len(msg)+1 = n` -/
def httpError (w : Writer) (code n : Nat) : Writer × Bool :=
  let w := { w with hdr := hSet (hSet (hDel w.hdr "Content-Length") "Content-Type" "text/plain; charset=utf-8")
                              "X-Content-Type-Options" "nosniff" }
  let (w, p) := wWriteHeader w code
  if p then (w, true) else wWrite w n

inductive Act where
  | next | abort
  | writeHeader (c : Nat) | write (n : Nat)
  | setH (k v : String) | addH (k v : String) | delH (k : String)
  | setQ (k v : String) | addQ (k v : String) | delQ (k : String)   -- request headers
  | panic
  | mark (id : Nat)
  | obsReq (k : String)         -- observe a request header
  | obsPath                     -- observe the request path
  | observe                     -- logger / metrics: read Status() and Size()
  | tryNext                     -- recovery: Next under recover(); on panic http.Error 500 + Abort
  | wild (pfx : String)         -- wildcard: prefix test, 404 + Abort + return, or trim + Next
  deriving DecidableEq, Repr

abbrev Handler := List Act

inductive Ev where
  | enter (i : Nat) | leave (i : Nat) | mark (id : Nat)
  | obs (status size : Nat) | reqH (k : String) (vs : List String) | path (p : String)
  | recovered
  | aborted (i : Nat)           -- handler i called Abort()
  | sent (code : Nat)           -- the underlying writer received its (first) header
  deriving DecidableEq, Repr

structure St where
  w     : Writer := {}
  path  : String := "/"
  reqH  : Hdr := []
  trace : List Ev := []     -- newest last
  deriving DecidableEq, Repr

def St.emit (s : St) (e : Ev) : St := { s with trace := s.trace ++ [e] }

/-- install a new writer; if the underlying header went out in this step, log `sent code` -/
def St.setW (s : St) (w : Writer) : St :=
  let s' := { s with w := w }
  if !s.w.uWrote && w.uWrote then s'.emit (.sent w.uCode) else s'

/-- built-in middlewares as handler programs -/
def recovery : Handler := [.tryNext]
def wildcardNorm (p : String) : String :=
  let p := if p == "" then "/" else p
  let p := if p.startsWith "/" then p else "/" ++ p
  if p != "/" && !p.endsWith "/" then p ++ "/" else p
def wildcard (p : String) : Handler := [.wild (wildcardNorm p)]
def stateMw (v : String) : Handler := [.setH "X-Server-State" v, .next]
def observer : Handler := [.next, .observe]
def headersNew (kvs : List (String × String)) : Handler := kvs.map (fun kv => Act.addH kv.1 kv.2) ++ [.next]
/-- `NewWithOperations`: remove → set → add on the request, then on the response, then `Next`.
`set` entries are `(key, values)`: delete then add each value. -/
def headersOps (rmQ : List String) (setQ : List (String × List String)) (addQ : List (String × String))
    (rm : List String) (set : List (String × List String)) (add : List (String × String)) : Handler :=
  rmQ.map Act.delQ
  ++ (setQ.map fun kv => Act.delQ kv.1 :: kv.2.map (Act.addQ kv.1)).flatten
  ++ addQ.map (fun kv => Act.addQ kv.1 kv.2)
  ++ rm.map Act.delH
  ++ (set.map fun kv => Act.delH kv.1 :: kv.2.map (Act.addH kv.1)).flatten
  ++ add.map (fun kv => Act.addH kv.1 kv.2)
  ++ [.next]

/-- effect of an action that does not touch the chain; `true` = panicked -/
def simpleAct (a : Act) (s : St) : St × Bool :=
  match a with
  | .writeHeader c => let (w, p) := wWriteHeader s.w c; (s.setW w, p)
  | .write n => let (w, p) := wWrite s.w n; (s.setW w, p)
  | .setH k v => ({ s with w := { s.w with hdr := hSet s.w.hdr k v } }, false)
  | .addH k v => ({ s with w := { s.w with hdr := hAdd s.w.hdr k v } }, false)
  | .delH k => ({ s with w := { s.w with hdr := hDel s.w.hdr k } }, false)
  | .setQ k v => ({ s with reqH := hSet s.reqH k v }, false)
  | .addQ k v => ({ s with reqH := hAdd s.reqH k v }, false)
  | .delQ k => ({ s with reqH := hDel s.reqH k }, false)
  | .panic => (s, true)
  | .mark id => (s.emit (.mark id), false)
  | .obsReq k => (s.emit (.reqH k (hGet s.reqH k)), false)
  | .obsPath => (s.emit (.path s.path), false)
  | .observe => (s.emit (.obs (wStatus s.w) s.w.size), false)
  | _ => (s, false)

/-- what recovery does after catching a panic: `http.Error(500)`, then `Abort()`.
(`http.Error` itself can only panic through an invalid code, 500 is valid.) -/
def recoverEffect (s : St) : St :=
  let (w, _) := httpError s.w 500 22
  (s.emit .recovered).setW w

/-- wildcard miss: `http.NotFound` -/
def notFoundEffect (s : St) : St × Bool :=
  let (w, p) := httpError s.w 404 19
  (s.setW w, p)

/-! ## Implementation model (index based) -/

structure Impl where
  s   : St
  pos : Nat        -- `rp.index + 1` (the Go field starts at -1; the model stores it shifted by one)
  deriving DecidableEq, Repr

inductive Out (α : Type) where
  | ok (a : α) | panic (a : α) | fuel
  deriving DecidableEq, Repr

mutual
/-- `rp.Next()`: `rp.index++`, then the loop -/
def implNext (fuel : Nat) (hs : List Handler) (m : Impl) : Out Impl :=
  match fuel with
  | 0 => .fuel
  | f + 1 => implLoop f hs { m with pos := m.pos + 1 }
/-- `for rp.index < len(rp.handlers) { rp.handlers[rp.index](rp); rp.index++ }` -/
def implLoop (fuel : Nat) (hs : List Handler) (m : Impl) : Out Impl :=
  match fuel with
  | 0 => .fuel
  | f + 1 =>
    if 1 ≤ m.pos ∧ m.pos ≤ hs.length then      -- 0 ≤ index < len
      let i := m.pos - 1
      match implActs f hs i (hs.getD i []) { m with s := m.s.emit (.enter i) } with
      | .ok m' => implLoop f hs { m' with s := m'.s.emit (.leave i), pos := m'.pos + 1 }
      | r => r
    else .ok m
/-- the body of handler `i` -/
def implActs (fuel : Nat) (hs : List Handler) (i : Nat) (acts : List Act) (m : Impl) : Out Impl :=
  match fuel with
  | 0 => .fuel
  | f + 1 =>
    match acts with
    | [] => .ok m
    | .next :: as =>
      match implNext f hs m with
      | .ok m' => implActs f hs i as m'
      | r => r
    | .abort :: as =>      -- `rp.index = len(rp.handlers)`
      implActs f hs i as { m with s := m.s.emit (.aborted i), pos := hs.length + 1 }
    | .tryNext :: as =>
      match implNext f hs m with
      | .ok m' => implActs f hs i as m'
      | .panic m' => implActs f hs i as { m' with s := recoverEffect m'.s, pos := hs.length + 1 }
      | .fuel => .fuel
    | .wild p :: as =>
      if m.s.path.startsWith p then
        match implNext f hs { m with s := { m.s with path := (m.s.path.drop p.length).toString } } with
        | .ok m' => implActs f hs i as m'
        | r => r
      else
        let (s, pn) := notFoundEffect m.s
        if pn then .panic { m with s := s } else .ok { m with s := s, pos := hs.length + 1 }   -- Abort(); return
    | a :: as =>
      let (s, pn) := simpleAct a m.s
      if pn then .panic { m with s := s } else implActs f hs i as { m with s := s }
end

/-- `Route.ServeHTTP`: `index = -1; rp.Next()` -/
def execImpl (fuel : Nat) (hs : List Handler) (s : St) : Out St :=
  match implNext fuel hs { s := s, pos := 0 } with
  | .ok m => .ok m.s
  | .panic m => .panic m.s
  | .fuel => .fuel

/-- enough fuel for any program: every call consumes one unit -/
def fuelFor (hs : List Handler) : Nat := 4 * ((hs.map List.length).sum + hs.length + 2) * (hs.length + 2)

end GoSup.Middleware

namespace GoSup.Middleware

/-! ## Reference interpreter (no index)

`specActs i acts rest s` runs the remaining actions of handler number `i` with `rest` = the
handlers registered after it that have not been started.  It returns the state and whether the
rest of the chain was *consumed* (by `Next` — which runs all of them — or by `Abort`).
`specRun i rest s` runs the handlers `rest` (numbered from `i`) in registration order. -/

/-- the chain was consumed by an earlier `Next`/`Abort` of this handler -/
def consumed : Out (St × Bool) → Out (St × Bool)
  | .ok (s, _) => .ok (s, true)
  | .panic (s, _) => .panic (s, true)
  | .fuel => .fuel

mutual
def specActs (i : Nat) (acts : List Act) (rest : List Handler) (s : St) : Out (St × Bool) :=
  match acts with
  | [] => .ok (s, false)
  | .next :: as =>
    match specRun (i + 1) rest s with
    | .ok s' => consumed (specActs i as [] s')
    | .panic s' => .panic (s', true)
    | .fuel => .fuel
  | .abort :: as => consumed (specActs i as [] (s.emit (.aborted i)))
  | .tryNext :: as =>
    match specRun (i + 1) rest s with
    | .ok s' => consumed (specActs i as [] s')
    | .panic s' => consumed (specActs i as [] (recoverEffect s'))
    | .fuel => .fuel
  | .wild p :: as =>
    if s.path.startsWith p then
      match specRun (i + 1) rest { s with path := (s.path.drop p.length).toString } with
      | .ok s' => consumed (specActs i as [] s')
      | .panic s' => .panic (s', true)
      | .fuel => .fuel
    else
      let (s', pn) := notFoundEffect s
      if pn then .panic (s', false) else .ok (s', true)
  | a :: as =>
    let (s', pn) := simpleAct a s
    if pn then .panic (s', false) else specActs i as rest s'
termination_by (rest.length, acts.length + 1)
decreasing_by all_goals simp_wf <;> first | omega | (simp [Prod.lex_def]; omega)

def specRun (i : Nat) (rest : List Handler) (s : St) : Out St :=
  match rest with
  | [] => .ok s
  | h :: t =>
    match specActs i h t (s.emit (.enter i)) with
    | .ok (s', true) => .ok (s'.emit (.leave i))
    | .ok (s', false) => specRun (i + 1) t (s'.emit (.leave i))
    | .panic (s', _) => .panic s'
    | .fuel => .fuel
termination_by (rest.length, 0)
decreasing_by all_goals simp_wf <;> first | omega | (simp [Prod.lex_def]; omega)
end

def execSpec (hs : List Handler) (s : St) : Out St := specRun 0 hs s

end GoSup.Middleware
