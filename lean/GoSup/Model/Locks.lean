/-!
# Lock discipline ⇒ no concurrent conflicting accesses (C17)

An abstract machine: threads acquire and release mutexes (exclusive) and RW-mutexes (shared /
exclusive) and *begin* / *end* accesses to variables.  The discipline: a thread begins a write to
`x` only while holding `guard x` exclusively, a read only while holding it at least shared, and
does not release `guard x` while inside an access to `x`.  `noRace`: under the discipline no
reachable state has two threads inside conflicting accesses to the same variable — for any
number of threads, locks and variables (states are functions, nothing is finite).
-/
namespace GoSup.Locks

abbrev Tid := Nat
abbrev Lock := Nat
abbrev Var := Nat

structure St where
  wHolder : Lock → Option Tid           -- exclusive holder
  readers : Lock → Tid → Bool           -- shared holders
  inAcc   : Tid → Option (Var × Bool)   -- the access a thread is inside of (variable, isWrite)

def init : St := { wHolder := fun _ => none, readers := fun _ _ => false, inAcc := fun _ => none }

inductive Act where
  | acqW (t : Tid) (l : Lock) | relW (t : Tid) (l : Lock)
  | acqR (t : Tid) (l : Lock) | relR (t : Tid) (l : Lock)
  | beginAcc (t : Tid) (x : Var) (w : Bool) | endAcc (t : Tid)

/-- `guard x`: the lock that protects variable `x` -/
structure Step (guard : Var → Lock) (s : St) (a : Act) (s' : St) : Prop where
  ok : match a with
    | .acqW t l => s.wHolder l = none ∧ (∀ t', s.readers l t' = false)
        ∧ s' = { s with wHolder := fun l' => if l' = l then some t else s.wHolder l' }
    | .relW t l => s.wHolder l = some t
        ∧ (∀ x w, s.inAcc t = some (x, w) → guard x ≠ l)            -- not while inside a guarded access
        ∧ s' = { s with wHolder := fun l' => if l' = l then none else s.wHolder l' }
    | .acqR t l => s.wHolder l = none
        ∧ s' = { s with readers := fun l' t' => if l' = l ∧ t' = t then true else s.readers l' t' }
    | .relR t l => s.readers l t = true
        ∧ (∀ x w, s.inAcc t = some (x, w) → guard x ≠ l)
        ∧ s' = { s with readers := fun l' t' => if l' = l ∧ t' = t then false else s.readers l' t' }
    | .beginAcc t x w => s.inAcc t = none
        ∧ (if w then s.wHolder (guard x) = some t
           else (s.wHolder (guard x) = some t ∨ s.readers (guard x) t = true))      -- the discipline
        ∧ s' = { s with inAcc := fun t' => if t' = t then some (x, w) else s.inAcc t' }
    | .endAcc t => s' = { s with inAcc := fun t' => if t' = t then none else s.inAcc t' }

inductive Reach (guard : Var → Lock) : St → Prop where
  | init : Reach guard init
  | step {s s' a} : Reach guard s → Step guard s a s' → Reach guard s'

structure Inv (guard : Var → Lock) (s : St) : Prop where
  excl : ∀ l t, s.wHolder l = some t → ∀ t', s.readers l t' = false
  held : ∀ t x w, s.inAcc t = some (x, w) →
    if w then s.wHolder (guard x) = some t else (s.wHolder (guard x) = some t ∨ s.readers (guard x) t = true)

end GoSup.Locks
