/-!
# Model of the httpcluster diff planner (`entries.go`) (C16)

Finite maps are association lists kept in the order of insertion; `put` overrides an existing
key (Go map assignment).  Go's map iteration order is arbitrary: `buildPending` takes the
current entries **in the order given** (= one possible iteration order), so that statements can
quantify over every order (`plan_order_free`).  Configurations are abstract identities
(`cfg : Nat`, `Equal` = `==`; the correspondence check uses configurations that differ in their
listen address), runners are instance numbers.
-/
namespace GoSup.Planner

inductive Action where | none | start | stop
  deriving DecidableEq, Repr

structure Entry where
  id     : String
  cfg    : Nat
  runner : Option Nat
  action : Action
  deriving DecidableEq, Repr

abbrev Entries := List (String × Entry)

def get (m : Entries) (k : String) : Option Entry :=
  match m with
  | [] => none
  | (k', e) :: t => if k' == k then some e else get t k

def del (m : Entries) (k : String) : Entries := m.filter fun p => p.1 != k

/-- `servers[k] = e` -/
def put (m : Entries) (k : String) (e : Entry) : Entries :=
  if (get m k).isSome then m.map fun p => if p.1 == k then (k, e) else p else m ++ [(k, e)]

/-- `newEntries`: nil configurations are skipped (`desired` lists only non-nil ones) -/
def newEntries (desired : List (String × Nat)) : Entries :=
  desired.foldl (fun m d => put m d.1 { id := d.1, cfg := d.2, runner := none, action := .start }) []

/-- `processExistingServer` — the key/entry pairs it yields, in order -/
def processExisting (id : String) (old : Entry) (want : Option Nat) : List (String × Entry) :=
  match want with
  | none => if old.runner.isSome then [(id, { old with action := .stop })] else []
  | some c =>
    if old.cfg == c then [(id, { old with action := .none })]
    else if old.runner.isSome then
      [(id ++ ":stop", { old with action := .stop }),
       (id, { id := id, cfg := c, runner := none, action := .start })]
    else [(id, { id := id, cfg := c, runner := none, action := .start })]

def lookupD (desired : List (String × Nat)) (k : String) : Option Nat :=
  match desired with
  | [] => none
  | (k', c) :: t => if k' == k then some c else lookupD t k

/-- `buildPendingEntries`: first loop over the current entries (in the given order), second loop
over the desired configurations (in the given order) adding the ids absent from `cur`. -/
def buildPending (cur : Entries) (desired : List (String × Nat)) : Entries :=
  let m1 := cur.foldl (fun m p => (processExisting p.1 p.2 (lookupD desired p.1)).foldl (fun m q => put m q.1 q.2) m) []
  desired.foldl (fun m d =>
    if (get cur d.1).isNone then put m d.1 { id := d.1, cfg := d.2, runner := none, action := .start } else m) m1

def toStart (m : Entries) : List String := (m.filter fun p => p.2.action == .start).map (·.1)
def toStop (m : Entries) : List String := (m.filter fun p => p.2.action == .stop).map (·.1)

/-- `commit`: drop stop entries, reset every action -/
def commit (m : Entries) : Entries :=
  (m.filter fun p => p.2.action != .stop).map fun p => (p.1, { p.2 with action := .none })

def setRuntime (m : Entries) (k : String) (inst : Nat) : Entries :=
  m.map fun p => if p.1 == k then (p.1, { p.2 with runner := some inst }) else p

def clearRuntime (m : Entries) (k : String) : Entries :=
  m.map fun p => if p.1 == k then (p.1, { p.2 with runner := none }) else p

def removeEntry (m : Entries) (k : String) : Entries := del m k

/-- the precondition under which the planner is order independent and leak free: no id of the
current state has its `":stop"` key among the current or desired ids -/
def noClash (cur : Entries) (desired : List (String × Nat)) : Bool :=
  cur.all fun p => (get cur (p.1 ++ ":stop")).isNone && (lookupD desired (p.1 ++ ":stop")).isNone

end GoSup.Planner
