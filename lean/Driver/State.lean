import GoSup.Spec.C06
import Driver.Util
namespace Driver.State
open Driver GoSup.Spec.C06

def kvOf (ws : List String) (k : String) : Option String :=
  ws.findSome? fun w => if w.startsWith (k ++ "=") then some ((w.drop (k.length + 1)).toString) else none

def parseMap (s : String) : Option (List (String × String)) :=
  if s == "none" then some [] else (s.splitOn ",").mapM fun p =>
    match p.splitOn ":" with
    | [k, v] => some (k, v)
    | _ => none

def flag (w : String) (pfx : String) : Option Bool :=
  if w == pfx ++ "1" then some true else if w == pfx ++ "0" then some false else none

def parseSub (s : String) : Option Sub :=
  match s.splitOn "." with
  | [_, slow, stayed, full, n, eq, closed, early] => do
    some { slow := ← flag slow "slow", stayed := ← flag stayed "stayed", full := ← flag full "full",
           n := ← (n.drop 1).toString.toNat?, eq := ← flag eq "eq", closed := ← flag closed "closed", early := ← flag early "early" }
  | _ => none

def handle : List String → Option String
  | "c06holds" :: rest => do
    let subsS ← kvOf rest "subs"
    let subs ← if subsS == "none" then some [] else (subsS.splitOn ",").mapM parseSub
    let o : Obs := { quietMap := ← parseMap (← kvOf rest "quietmap"), quietTrue := ← parseMap (← kvOf rest "quiettrue"),
                     finalMap := ← parseMap (← kvOf rest "finalmap"), atStop := ← parseMap (← kvOf rest "atstop"),
                     bound := ← (← kvOf rest "bound").toNat?, subs }
    some (toString (holds o))
  | _ => none

end Driver.State
