import GoSup.Spec.Comp
import Driver.Util
namespace Driver.Comp
open GoSup.Spec.Comp GoSup.CompSeq Driver

def parseOut : String → Option Out
  | "n" => some .nil | "c" => some .cancelErr | "e" => some .realErr | "j" => some .realErr | _ => none

def nat? (cs : List Char) : Option Nat := (String.ofList cs).toNat?

def parseEv (w : String) : Option Ev :=
  match w.splitOn ":" with
  | [a] =>
    match a.toList with
    | ['R', 'U', 'N'] => some .run
    | ['C', 'X'] => some .cancel
    | ['Y'] => some .yieldPt
    | 'R' :: 'I' :: r => match (String.ofList r).splitOn "." with
      | [c, g] => do some (.runInv (← c.toNat?) (← g.toNat?))
      | _ => none
    | 'S' :: 'I' :: r => (nat? r).map .stopInv
    | 'S' :: 'R' :: r => (nat? r).map .stopRet
    | 'R' :: 'L' :: r => (nat? r).map .rl
    | 'L' :: 'C' :: r => (nat? r).map .reloadCall
    | 'T' :: 'C' :: r => (nat? r).map .stopCall
    | 'T' :: 'R' :: r => (nat? r).map .stopDone
    | _ => none
  | [a, b] =>
    match a.toList with
    | 'C' :: 'B' :: r => do
      let k ← nat? r
      match b with
      | "err" => some (.cb k (some none))
      | "nil" => some (.cb k none)
      | _ => some (.cb k (some (some (← b.toNat?))))
    | 'R' :: 'R' :: r => match (String.ofList r).splitOn "." with
      | [c, g] => do some (.runRet (← c.toNat?) (← g.toNat?) (← parseOut b))
      | _ => none
    | 'W' :: 'C' :: r => do some (.wc (← nat? r) (← b.toNat?))
    | 'L' :: 'T' :: r => do some (.reloadRet (← nat? r) b)
    | 'F' :: 'X' :: r => do some (.inject (← nat? r) (← parseOut b))
    | ['C', 'W'] => some (.cbWait (b == "done"))
    | _ => none
  | [a, b, c] =>
    match a.toList with
    | ['R', 'E', 'T'] =>
      let f : Option (Option Nat) :=
        if b == "nil" then none
        else if b.startsWith "failed" then some (some (((b.drop 6).toString.toNat?).getD 0))
        else some none
      some (.ret f c)
    | 'S' :: 'N' :: tag =>
      let run := if c == "" then [] else (c.splitOn ".").filterMap String.toNat?
      some (.snap (String.ofList tag) b run)
    | _ => none
  | _ => none

def parseCfg (w : String) : CbRes :=
  if w == "err" then .err else if w == "nil" then .nil else
  let body := (w.drop 2).toString
  .ok (if body == "" then [] else (body.splitOn ".").filterMap fun e =>
    match e.splitOn "-" with
    | [c, v] => do some (← c.toNat?, ← v.toNat?)
    | _ => none)

def kvOf (ws : List String) (k : String) : Option String :=
  ws.findSome? fun w => if w.startsWith (k ++ "=") then some ((w.drop (k.length + 1)).toString) else none

def parseInfo (ws : List String) : Option Info := do
  let pool := ((← kvOf ws "pool").splitOn ",").filterMap fun c =>
    match c.splitOn ":" with
    | [n, s, cap] => some { name := (strOfHex n).getD "", lifecycleStop := s == "l", cap := cap : Child }
    | _ => none
  let cfgs := ((← kvOf ws "cfgs").splitOn ",").map parseCfg
  let e := (← kvOf ws "end").splitOn "."
  let flag (p : String) : Nat := (e.findSome? fun f => if f.startsWith p then (f.drop p.length).toString.toNat? else none).getD 0
  some { pool := pool, cfgs := cfgs, seq := kvOf ws "seq" == some "1", hung := flag "hung" > 0, live := flag "live",
         final := e.getLast?.getD "" }

def parseAll (ws : List String) : Option (Info × List Ev) := do
  let i ← parseInfo ws
  let evs ← (ws.filter fun w => !(w.contains '=') && !(w.contains '~')).mapM parseEv
  some (i, evs)

def fsmName : Fsm → String
  | .new => "New" | .booting => "Booting" | .running => "Running" | .reloading => "Reloading"
  | .stopping => "Stopping" | .stopped => "Stopped" | .error => "Error"

/-- replay a sequential history on the operation-level model and compare every observation -/
def compseq (i : Info) (t : List Ev) : String :=
  if !i.seq || i.hung || t.contains .yieldPt then "agree" else   -- not a sequential history: not this check's business
  let first := i.cfgs.headD .nil
  let rec go (fuel : Nat) (s : St) (cbNext : Nat) (k : Nat) (t : List Ev) : String :=
    match fuel with
    | 0 => "agree"
    | fuel + 1 =>
    match t with
    | [] => "agree"
    | e :: rest =>
      match e with
      | .reloadCall _ =>
        -- the configuration this reload fetches: the next callback result, if the callback is reached
        let r := (i.cfgs[cbNext]?).getD ((i.cfgs.getLast?).getD .nil)
        let fetched := rest.any fun e' => match e' with | .cb n _ => n == cbNext | _ => false
        let s' := if fetched || s.fsm != .running || s.ret != .none then step s (.reload r) else s
        go fuel s' (if fetched then cbNext + 1 else cbNext) (k + 1) rest
      | .reloadRet _ st =>
        if s.ret == .none && st != fsmName s.fsm then s!"differ@{k}:state {st} model {fsmName s.fsm}" else go fuel s cbNext (k + 1) rest
      | .snap _ st run =>
        if s.ret == .none && (st != fsmName s.fsm || sortNat run != s.running)
        then s!"differ@{k}:snapshot {st} {run} model {fsmName s.fsm} {s.running}" else go fuel s cbNext (k + 1) rest
      | .stopCall _ => go fuel (step s .stop) cbNext (k + 1) rest
      | .cancel => go fuel (step s .cancel) cbNext (k + 1) rest
      | .inject c o => go fuel (step s (.childExit c o)) cbNext (k + 1) rest
      | .ret f st =>
        let want : Ret := match f with | none => .nil | some (some c) => .failed c | some none => .failed 0
        let ok := match s.ret, want with
          | .nil, .nil => true
          | .failed _, .failed _ => true
          | _, _ => false
        if !ok || st != fsmName s.fsm then s!"differ@{k}:return {st} model {fsmName s.fsm}" else go fuel s cbNext (k + 1) rest
      | _ => go fuel s cbNext (k + 1) rest
  go (t.length + 1) (step {} (.run first)) 1 0 t

def handle : List String → Option String
  | "c09holds" :: rest => do let (i, t) ← parseAll rest; some (toString (holdsC09 i t))
  | "c10holds" :: rest => do let (i, t) ← parseAll rest; some (toString (holdsC10 i t))
  | "c11holds" :: rest => do let (i, t) ← parseAll rest; some (toString (holdsC11 i t))
  | "known" :: "C09-F1" :: rest => do let (i, t) ← parseAll rest; some (toString (knownC09F1 i t))
  | "compseq" :: rest => do let (i, t) ← parseAll rest; some (compseq i t)
  | _ => none

end Driver.Comp
