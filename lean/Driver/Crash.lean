import GoSup.Spec.C19
import Driver.Util
namespace Driver.Crash
open Driver GoSup.Validate

def kvOf (ws : List String) (k : String) : Option String :=
  ws.findSome? fun w => if w.startsWith (k ++ "=") then some ((w.drop (k.length + 1)).toString) else none

def parseRoutes (s : String) : List RouteArg :=
  if s == "-" then [] else (s.splitOn ",").filterMap fun r =>
    match r.splitOn ":" with
    | [n, p] => do some { name := ← strOfHex n, path := ← strOfHex p }
    | _ => none

def handle : List String → Option String
  | "c19holds" :: kind :: rest => do
    let outcome := (rest.getLast?.getD "").splitOn ";"
    let rs := parseRoutes ((kvOf rest "first").getD "-")
    some (toString (GoSup.Spec.C19.holds kind rs (kvOf rest "mux1" == some "true") outcome))
  | _ => none

end Driver.Crash
