import GoSup.Model.Equal
import GoSup.Model.Member
import GoSup.Model.ErrClass
import GoSup.Model.Planner
import GoSup.Spec.C13
import GoSup.Spec.C11
import GoSup.Spec.C16
import Driver.Util
namespace Driver.Pure
open Driver

def listOf (s : String) (sep : String) : List String := if s == "-" || s == "" then [] else s.splitOn sep

/-! ### Equal -/
open GoSup.Equal in
def parseRoute (s : String) : Option Route :=
  match s.splitOn ":" with
  | [n, p] => do some { name := ← strOfHex n, path := ← strOfHex p }
  | _ => none

open GoSup.Equal in
def parseConfig (s : String) : Option Config :=
  match s.splitOn ";" with
  | [a, d, r, w, i, rs] => do
    some { addr := ← strOfHex a, drain := ← d.toInt?, read := ← r.toInt?, write := ← w.toInt?, idle := ← i.toInt?,
           routes := ← (listOf rs ",").mapM parseRoute }
  | _ => none

/-! ### ErrClass -/
open GoSup.ErrClass in
partial def parseErr (cs : List Char) : Option (Err × List Char) :=
  match cs with
  | 'C' :: r => some (.canceled, r)
  | 'D' :: r => some (.deadline, r)
  | 'L' :: r =>
    let ds := r.takeWhile Char.isDigit
    (String.ofList ds).toNat?.map fun n => (.leaf n, r.dropWhile Char.isDigit)
  | 'W' :: '(' :: r => do
    let (e, r') ← parseErr r
    match r' with | ')' :: r'' => some (.wrap e, r'') | _ => none
  | 'X' :: b :: '(' :: r => do
    let (e, r') ← parseErr r
    match r' with | ')' :: r'' => some (.custom (b == '1') e, r'') | _ => none
  | 'J' :: '(' :: r => do
    let (a, r1) ← parseErr r
    match r1 with
    | ',' :: r2 => do
      let (b, r3) ← parseErr r2
      match r3 with | ')' :: r4 => some (.join a b, r4) | _ => none
    | _ => none
  | _ => none

/-! ### Planner -/
open GoSup.Planner in
def parseAction : String → Option Action
  | "none" => some .none | "start" => some .start | "stop" => some .stop | _ => none
open GoSup.Planner in
def showAction : Action → String | .none => "none" | .start => "start" | .stop => "stop"

open GoSup.Planner in
def parseEntry (s : String) : Option (String × Entry) :=
  match s.splitOn ":" with
  | [k, i, c, r, a] => do
    let rn : Option Nat ← if r == "-" then some none else r.toNat?.map some
    some (← strOfHex k, { id := ← strOfHex i, cfg := ← c.toNat?, runner := rn, action := ← parseAction a })
  | _ => none

def parseDes (s : String) : Option (String × Nat) :=
  match s.splitOn ":" with
  | [i, c] => do some (← strOfHex i, ← c.toNat?)
  | _ => none

def sortStrs (l : List String) : List String := l.mergeSort (fun a b => decide (a ≤ b))

open GoSup.Planner in
def showEntries (m : Entries) : String :=
  let l := m.map fun (k, e) => s!"{hexOfStr k}:{hexOfStr e.id}:{e.cfg}:{match e.runner with | some n => toString n | none => "-"}:{showAction e.action}"
  if l.isEmpty then "-" else ",".intercalate (sortStrs l)

def showIds (l : List String) : String := if l.isEmpty then "-" else ",".intercalate (sortStrs (l.map hexOfStr))

open GoSup.Planner in
def showPlan (cur : Entries) (des : List (String × Nat)) : String :=
  let p := buildPending cur des
  s!"P={showEntries p} S={showIds (toStart p)} T={showIds (toStop p)} C={showEntries (commit p)}"

def perms {α} : List α → List (List α)
  | [] => [[]]
  | a :: t => (perms t).flatMap fun p => (List.range (p.length + 1)).map fun i => p.take i ++ a :: p.drop i

def field (ws : List String) (k : String) : Option String :=
  ws.findSome? fun w => if w.startsWith (k ++ "=") then some ((w.drop (k.length + 1)).toString) else none

def handle : List String → Option String
  | ["equal", a, b] => do
    some (toString (GoSup.Equal.configEqual (← parseConfig a) (← parseConfig b)))
  | ["c13equalholds", a, b, r] => do
    some (toString (GoSup.Spec.C13.holdsEqual (← parseConfig a) (← parseConfig b) (r == "true")))
  | ["member", a, b] => do
    let old ← (listOf a ",").mapM strOfHex
    let new ← (listOf b ",").mapM strOfHex
    some (toString (GoSup.Member.changed old new))
  | ["c11memberholds", a, b, r] => do
    let old ← (listOf a ",").mapM strOfHex
    let new ← (listOf b ",").mapM strOfHex
    some (toString (GoSup.Spec.C11.holdsMember old new (r == "true")))
  | ["known", "C11-F1", a, b, _] => do
    let old ← (listOf a ",").mapM strOfHex
    let new ← (listOf b ",").mapM strOfHex
    some (toString (GoSup.Spec.C11.knownDup old new))
  | ["iscancel", e] => do
    let (x, rest) ← parseErr e.toList
    if rest.isEmpty then some (toString (GoSup.ErrClass.isCancel x)) else none
  | ["plan", c, d] => do
    let cur ← (listOf c ",").mapM parseEntry
    let des ← (listOf d ",").mapM parseDes
    some (showPlan cur des)
  | "planany" :: c :: d :: out => do
    let cur ← (listOf c ",").mapM parseEntry
    let des ← (listOf d ",").mapM parseDes
    let want := " ".intercalate out
    some (toString ((perms cur).any fun pc => (perms des).any fun pd => showPlan pc pd == want))
  | "c16planholds" :: c :: d :: out => do
    let cur ← (listOf c ",").mapM parseEntry
    let des ← (listOf d ",").mapM parseDes
    let p ← (listOf (← field out "P") ",").mapM parseEntry
    let cm ← (listOf (← field out "C") ",").mapM parseEntry
    some (toString (GoSup.Spec.C16.planOk cur des p cm))
  | "known" :: "C16-F1" :: c :: d :: _ => do
    let cur ← (listOf c ",").mapM parseEntry
    let des ← (listOf d ",").mapM parseDes
    some (toString (!GoSup.Planner.noClash cur des))
  | _ => none

end Driver.Pure
