import GoSup.Model.Port
import GoSup.Spec.C20
import Driver.Util
namespace Driver.Port
open GoSup.Port Driver

def showSplitErr : SplitErr → String
  | .missingPort => "missingPort" | .tooManyColons => "tooManyColons" | .missingRbr => "missingRbr"
  | .unexpectedLbr => "unexpectedLbr" | .unexpectedRbr => "unexpectedRbr"

def showVErr : VErr → String
  | .emptyPort => "ErrEmptyPort" | .invalidFormat => "ErrInvalidFormat" | .outOfRange => "ErrPortOutOfRange"

def parseVErr : String → Option VErr
  | "ErrEmptyPort" => some .emptyPort | "ErrInvalidFormat" => some .invalidFormat
  | "ErrPortOutOfRange" => some .outOfRange | _ => none

def parseSplitErr : String → Option SplitErr
  | "missingPort" => some .missingPort | "tooManyColons" => some .tooManyColons | "missingRbr" => some .missingRbr
  | "unexpectedLbr" => some .unexpectedLbr | "unexpectedRbr" => some .unexpectedRbr | _ => none

def parseV (w : String) : Option (Except VErr Bytes) :=
  match w.splitOn "=" with
  | ["ok", h] => (bytesOfHex h).map .ok
  | ["err", c] => (parseVErr c).map .error
  | _ => none

def parseS (w : String) : Option (Except SplitErr (Bytes × Bytes)) :=
  match w.splitOn "=" with
  | ["ok", a, b] => do let x ← bytesOfHex a; let y ← bytesOfHex b; some (.ok (x, y))
  | ["err", c] => (parseSplitErr c).map .error
  | _ => none

/-- `port <joined:0|1> <hex>` ; `split <hex>` ; `atoi <hex>` ; `join <hex> <hex>` -/
def handle : List String → Option String
  | ["port", h] => do
    let s ← bytesOfHex h
    match validatePort s with
    | .ok r => some s!"ok {hexOfBytes r}"
    | .error e => some s!"err {showVErr e}"
  | ["split", h] => do
    let s ← bytesOfHex h
    match splitHostPort s with
    | .ok (a, b) => some s!"ok {hexOfBytes a} {hexOfBytes b}"
    | .error e => some s!"err {showSplitErr e}"
  | ["atoi", h] => do
    let s ← bytesOfHex h
    match atoi s with
    | some v => some s!"ok {v}"
    | none => some "err"
  | ["join", a, b] => do
    let x ← bytesOfHex a
    let y ← bytesOfHex b
    some s!"ok {hexOfBytes (joinHostPort x y)}"
  | ["c20holds", h, f, s2, sp] => do
    let s ← bytesOfHex h
    let first ← parseV f
    let second ← if s2 == "na" then some (.error .emptyPort) else parseV s2
    let split2 ← if sp == "na" then some (.error .missingPort) else parseS sp
    some (toString (GoSup.Spec.C20.holds s first second split2))
  | _ => none

end Driver.Port
