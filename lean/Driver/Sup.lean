import GoSup.Model.Sup
import GoSup.Spec.Sup
import Driver.Util
namespace Driver.Sup
open GoSup.Sup GoSup.Core

def parseCaps (w : String) : Option Caps :=
  match w.toList with
  | [a, b, c, d] => some { stateable := a == '1', reloadable := b == '1', reloadSender := c == '1', shutdownSender := d == '1' }
  | _ => none

def parseOutcome (w : String) : Option Outcome :=
  match w.toList with
  | ['n'] => some .nil
  | ['c'] => some .cancelErr
  | 'e' :: r => (String.ofList r).toNat?.map .realErr
  | _ => none

def parseRes (w : String) : Option Res :=
  match w with
  | "nil" => some .nil | "T" => some .startupTimeout | "Tc" => some .spuriousTimeout
  | _ => match w.toList with
    | 'e' :: r => (String.ofList r).toNat?.map .err
    | _ => none

def parseSig : String → Option Sig
  | "int" => some .int | "term" => some .term | "hup" => some .hup | "other" => some .other | _ => none

def parseEv (w : String) : Option Ev :=
  match w.splitOn ":" with
  | [a] =>
    match a.toList with
    | ['P', 'C'] => some .parentCancel
    | 'R' :: 'I' :: r => (String.ofList r).toNat?.map .runInvoke
    | 'S' :: 'I' :: r => (String.ofList r).toNat?.map .stopInvoke
    | 'S' :: 'R' :: r => (String.ofList r).toNat?.map .stopReturn
    | 'C' :: 'S' :: r => (String.ofList r).toNat?.map .ctxSeen
    | 'U' :: 'C' :: r => (String.ofList r).toNat?.map .userCall
    | 'U' :: 'R' :: r => (String.ofList r).toNat?.map .userReturn
    | 'T' :: 'S' :: r => (String.ofList r).toNat?.map .triggerSent
    | _ => none
  | [a, b] =>
    match a.toList with
    | ['M', 'R'] => (parseRes b).map .mainReturn
    | ['S', 'G'] => (parseSig b).map .sigSent
    | 'R' :: 'R' :: r => do some (.runReturn (← (String.ofList r).toNat?) (← parseOutcome b))
    | 'P' :: r => do some (.poll (← (String.ofList r).toNat?) (b == "1"))
    | _ => none
  | _ => none

structure Scn where
  info  : GoSup.Spec.Sup.Info
  users : Nat
  evs   : List Ev

def kvOf (w : String) : Option (String × String) :=
  match w.splitOn "=" with
  | [k, v] => some (k, v)
  | _ => none

/-- words: `caps=1000.0000 stop=l.f wb=1 users=2 end=hung0.late0.panic0.live0 <events…>` -/
def parseScn (ws : List String) : Option Scn := do
  let kvs := ws.filterMap kvOf
  let get (k : String) : Option String := (kvs.find? (·.1 == k)).map (·.2)
  let caps ← ((← get "caps").splitOn ".").mapM parseCaps
  let stop := ((get "stop").getD "").splitOn "." |>.map (· == "l")
  let users := ((get "users").bind String.toNat?).getD 0
  let flags := ((get "end").getD "").splitOn "."
  let flag (p : String) : Nat := (flags.findSome? fun f => if f.startsWith p then (f.drop p.length).toString.toNat? else none).getD 0
  let evs ← (ws.filter fun w => !(w.contains '=') && !(w.contains '~')).mapM parseEv
  some { info := { caps := caps, lifecycleStop := stop, wb := get "wb" == some "1", complete := (get "end").isSome,
                   hung := flag "hung" > 0, late := flag "late" > 0, panicked := flag "panic" > 0, liveRg := flag "live",
                   gateLate := flag "gl" },
         users := users, evs := evs }

/-- model step that must emit exactly the expected observation (or none) -/
def stepObs (s : St) (ao : Act × Option Ev) : Option St :=
  (step s ao.1).bind fun s' =>
    match ao.2 with
    | none => if s'.log.length == s.log.length then some s' else none
    | some e => if s'.log.length == s.log.length + 1 && s'.log.getLast? == some e then some s' else none

def internalActs (s : St) : List (Act × Option Ev) :=
  let n := s.n
  let idx := List.range n
  let base : List Act := [.shutdownTimeout, .startupTimeoutFire, .mainStart, .reapErr, .reapCtx, .reapSig,
    .sdCancel, .sdWaitDone, .onceEnter .main]
  let per : List Act := idx.flatMap fun i =>
    [.mainLaunch i, .gateWake i, .gateErr i, .gateTimeout i, .gateCtx i, .gateTickFire i, .rgSend i,
     .listenerFire i, .listenerCtx i, .onceEnter (.listener i)]
  let us : List Act := (List.range s.users.length).map fun u => Act.onceEnter (.user u)
  let sg : List Act := (List.range s.sigPending.length).flatMap fun k => [Act.sigDeliver k, Act.sigDrop k]
  (base ++ per ++ us ++ sg).map fun a => (a, none)

def matchingActs (_s : St) (e : Ev) : List (Act × Option Ev) :=
  let acts : List Act := match e with
    | .runInvoke i => [.rgInvoke i]
    | .runReturn i o => [.runReturn i o]
    | .stopInvoke _ => [.sdStopInvoke]
    | .stopReturn _ => [.stopReturn]
    | .poll i b => [.pollAns i b, .tickAns i b]
    | .ctxSeen i => [.ctxSeen i]
    | .mainReturn _ => [.mainReturn]
    | .userCall u => [.userCall u]
    | .userReturn u => [.userReturn u]
    | .sigSent g => [.sendSig g]
    | .parentCancel => [.parentCancel]
    | .triggerSent j => [.trigger j]
  acts.map fun a => (a, some e)

/-- thread-local progress that commutes with everything and disables nothing: a runnable
goroutine running to its end, managers exiting after cancellation, the detached Shutdown() goroutine
returning, the owner leaving the Once.  A trigger listener exiting on the cancelled context
(`listenerCtx j`) conflicts with exactly one action, `listenerFire j`, which needs a trigger of
runnable `j`: it is eager only for the listeners whose runnable sends no trigger anywhere in the
trace being replayed (`trigs` = the runnables that do); for the others Go's `select` may take either
branch and both are explored. -/
def eagerActs (trigs : List Nat) (s : St) : List (Act × Option Ev) :=
  let per : List Act := (List.range s.n).flatMap fun i =>
    [.rgFinish i, .listenerDone i] ++ (if trigs.contains i then [] else [.listenerCtx i])
  ([Act.mgrExit 0, .mgrExit 1, .mgrExit 2, .sdClose] ++ per).map fun a => (a, none)

def acceptor (trigs : List Nat) : Acceptor St (Act × Option Ev) Ev :=
  { lts := ⟨stepObs⟩, internal := internalActs, matching := matchingActs, eager := eagerActs trigs }

def handle : List String → Option String
  | "supaccept" :: rest => do
    let sc ← parseScn rest
    let trigs := sc.evs.filterMap fun e => match e with | .triggerSent j => some j | _ => none
    match accept (acceptor trigs) 64 [initSt sc.info.caps sc.users] 0 sc.evs with
    | .ok _ => some "accepted"
    | .error k => some s!"rejected@{k}"
  | "c01holds" :: rest => do let sc ← parseScn rest; some (toString (GoSup.Spec.Sup.holdsC01 sc.info sc.evs))
  | "c02holds" :: rest => do let sc ← parseScn rest; some (toString (GoSup.Spec.Sup.holdsC02 sc.info sc.evs))
  | "c03holds" :: rest => do let sc ← parseScn rest; some (toString (GoSup.Spec.Sup.holdsC03 sc.info sc.evs))
  | "c04holds" :: rest => do let sc ← parseScn rest; some (toString (GoSup.Spec.Sup.holdsC04 sc.info sc.evs))
  | "known" :: "C02-F2" :: rest => do let sc ← parseScn rest; some (toString (GoSup.Spec.Sup.knownF2 sc.info sc.evs))
  | _ => none

end Driver.Sup
