import GoSup.Model.CompLts
import Driver.Comp
/-!
# Trace acceptor for the concurrent composite model (`CompLts`)

`compaccept <header> <events>`: the event trace the composite harness recorded on the real
`composite.Runner` is replayed on `CompLts` with the generic acceptor of `Core/Lts.lean`
(set of compatible states, closure under the internal actions of the `Run` and `Reload` threads).
`accepted` = the observed behaviour is a behaviour of the model, so every invariant proved for all
reachable states (`Props/C09L.lean`) holds along it.  Preconditions (else the line is `skipped`):
no configuration names an identity twice (finding C11-F1).
-/
namespace Driver.CompAcc
open GoSup.Core GoSup.CompLts GoSup.Spec.Comp
open GoSup.CompSeq (Fsm CbRes Out names)

def fsmOf : String → Option Fsm
  | "New" => some .new | "Booting" => some .booting | "Running" => some .running | "Reloading" => some .reloading
  | "Stopping" => some .stopping | "Stopped" => some .stopped | "Error" => some .error | _ => none

def internal (_ : St) : List Act :=
  [.runEnter, .runBootFail, .runToRunning, .runSelCtx, .runSelStop, .runSelErr, .runToStopping, .runStopBegin, .runStopEnd, .runFinish,
   .rlEnter, .rlAfterCb, .rlDecide, .rlStopBegin, .rlStopEnd, .rlSetConfig, .rlBoot, .rlChildReload, .rlFinish]

/-- an observation that changes nothing in the model -/
def noop (s : St) : List Act := [.observe s.fsm]

def matching (i : Info) (s : St) (e : Ev) : List Act :=
  let gens := List.range s.gens.length
  match e with
  | .run | .wc _ _ | .rl _ | .inject _ _ | .yieldPt | .cbWait _ => noop s
  | .cb _ r =>
    let res : CbRes := match r with
      | some (some v) => (i.cfgs[v]?).getD .nil
      | some none => .err
      | none => .nil
    [.runBoot res, .rlCallback res]
  | .runInv c _ => gens.map fun g => .childRun g c
  | .runRet c _ o => gens.flatMap fun g => (.childExit g c o) :: (if o == .realErr then [.childExitDropped g c] else [])
  | .stopInv c => [.childStopInv c]
  | .stopRet c => [.childStopRet c]
  | .reloadCall _ => [.reloadCall]
  | .reloadRet _ st => match fsmOf st with | some f => [.reloadAck f] | none => []
  | .stopCall _ => [.stopCall]
  | .stopDone _ => [.stopDone]
  | .cancel => [.cancelCtx]
  | .ret f st =>
    match fsmOf st with
    | none => []
    | some fs =>
      match f with
      | none => [.retAck .nil fs]
      | some none => [.retAck .other fs]
      | some (some _) => (List.range i.pool.length).map fun c => .retAck (.failed c) fs    -- the index is checked by C10's oracle
  | .snap _ st _ => match fsmOf st with | some f => [.observe f] | none => []

def acceptor (i : Info) : Acceptor St Act Ev :=
  { lts := lts, internal := internal, matching := matching i }

def hasDup (l : List Nat) : Bool := match l with
  | [] => false
  | a :: t => t.contains a || hasDup t

def compaccept (i : Info) (t : List Ev) : String :=
  if i.cfgs.any (fun c => match c with | .ok es => hasDup (names es) | _ => false) then "accepted" else
  let blockers := (List.range i.pool.length).filter fun c => ((i.pool[c]?).map (·.lifecycleStop)).getD false
  match accept (acceptor i) 64 [init blockers] 0 t with
  | .ok _ => "accepted"
  | .error k => s!"rejected@{k}"

def handle : List String → Option String
  | "compaccept" :: rest => do let (i, t) ← Driver.Comp.parseAll rest; some (compaccept i t)
  | _ => none

end Driver.CompAcc
