import GoSup.Model.SupReload
import GoSup.Spec.C05
import Driver.Util
namespace Driver.SupReload
open GoSup.SupReload GoSup.Core

def parseEv (w : String) : Option Ev :=
  match w.toList with
  | ['A', 'C'] => some .allCall
  | ['A', 'R'] => some .allReturn
  | ['S', 'G', ':', 'h', 'u', 'p'] => some .hup
  | 'L' :: 'T' :: r => (String.ofList r).toNat?.map .trigIntent
  | 'L' :: 'D' :: r => (String.ofList r).toNat?.map .trigDelivered
  | 'L' :: 'I' :: r => (String.ofList r).toNat?.map .reloadInvoke
  | 'L' :: 'R' :: r => (String.ofList r).toNat?.map .reloadReturn
  | _ => none

structure Scn where
  reloadable : List Bool
  sender : List Bool
  quiet : Bool
  evs : List Ev

def parseScn (ws : List String) : Option Scn := do
  let capsW ← ws.findSome? fun w => if w.startsWith "caps=" then some ((w.drop 5).toString) else none
  let caps := capsW.splitOn "."
  let bit (w : String) (k : Nat) : Bool := w.toList.getD k '0' == '1'
  some { reloadable := caps.map (bit · 1), sender := caps.map (bit · 2), quiet := ws.contains "quiet=1",
         evs := ws.filterMap parseEv }

def stepObs (s : St) (ao : Act × Option Ev) : Option St :=
  (step s ao.1).bind fun s' =>
    match ao.2 with
    | none => if s'.log.length == s.log.length then some s' else none
    | some e => if s'.log.length == s.log.length + 1 && s'.log.getLast? == some e then some s' else none

def internalActs (s : St) : List (Act × Option Ev) :=
  let per : List Act := (List.range s.n).flatMap fun j => [.trigRecv j, .handoffL j, .listenerExit j]
  ([Act.hupSpawn, .hupDrop, .handoffAll, .handoffHup, .passStep, .ctxCancel, .mgrExit] ++ per).map fun a => (a, none)

def matchingActs (_s : St) (e : Ev) : List (Act × Option Ev) :=
  let acts : List Act := match e with
    | .allCall => [.allCall] | .allReturn => [.allReturn] | .hup => [.hup]
    | .trigIntent j => [.trigIntent j] | .trigDelivered j => [.trigDelivered j]
    | .reloadInvoke _ => [.passStep] | .reloadReturn _ => [.reloadReturn]
  acts.map fun a => (a, some e)

def acceptor : Acceptor St (Act × Option Ev) Ev :=
  { lts := ⟨stepObs⟩, internal := internalActs, matching := matchingActs }

def handle : List String → Option String
  | "relaccept" :: rest => do
    let sc ← parseScn rest
    match accept acceptor 64 [initSt sc.reloadable sc.sender] 0 sc.evs with
    | .ok _ => some "accepted"
    | .error k => some s!"rejected@{k}"
  | "c05holds" :: rest => do
    let sc ← parseScn rest
    some (toString (GoSup.Spec.C05.holds sc.reloadable sc.quiet sc.evs))
  | _ => none

end Driver.SupReload
