/-! Line-protocol helpers shared by all driver commands (core-only, no Mathlib). -/
namespace Driver

def hexDigit (n : Nat) : Char :=
  if n < 10 then Char.ofNat (48 + n) else Char.ofNat (87 + n)

def hexOfBytes (bs : List UInt8) : String :=
  if bs.isEmpty then "-" else
  String.ofList (bs.foldr (fun b acc => hexDigit (b.toNat / 16) :: hexDigit (b.toNat % 16) :: acc) [])

def hexVal (c : Char) : Option Nat :=
  if '0' ≤ c ∧ c ≤ '9' then some (c.toNat - 48)
  else if 'a' ≤ c ∧ c ≤ 'f' then some (c.toNat - 87)
  else if 'A' ≤ c ∧ c ≤ 'F' then some (c.toNat - 55)
  else none

def bytesOfHexAux : List Char → List UInt8 → Option (List UInt8)
  | [], acc => some acc.reverse
  | [_], _ => none
  | a :: b :: rest, acc =>
    match hexVal a, hexVal b with
    | some x, some y => bytesOfHexAux rest (UInt8.ofNat (x * 16 + y) :: acc)
    | _, _ => none

/-- "-" is the empty string; otherwise pairs of hex digits -/
def bytesOfHex (s : String) : Option (List UInt8) :=
  if s == "-" then some [] else bytesOfHexAux s.toList []

def strOfHex (s : String) : Option String :=
  (bytesOfHex s).map fun bs => String.ofList (bs.map fun b => Char.ofNat b.toNat)

def hexOfStr (s : String) : String := hexOfBytes (s.toList.map fun c => UInt8.ofNat c.toNat)

def words (line : String) : List String :=
  (line.splitOn " ").filter (· ≠ "")

end Driver
