import GoSup.Model.Lifecycle
import GoSup.Spec.C07
import Driver.Util
namespace Driver.Lifecycle
open GoSup.Lifecycle

inductive Tok where
  | enter (i : Nat) | pass (i : Nat) | read (i : Nat) | ret (i : Nat) | runStart | runEnd
  | final (stopClosed : Bool) (blocked : List Nat)

def parseTok (w : String) : Option Tok :=
  match w.toList with
  | ['S'] => some .runStart
  | ['E'] => some .runEnd
  | 'e' :: r => (String.ofList r).toNat?.map .enter
  | 'p' :: r => (String.ofList r).toNat?.map .pass
  | 'r' :: r => (String.ofList r).toNat?.map .read
  | 'x' :: r => (String.ofList r).toNat?.map .ret
  | 'F' :: b :: ':' :: r =>
    let l := (String.ofList r).splitOn "."
    (l.filter (· ≠ "")).mapM String.toNat? |>.map (.final (b == '1'))
  | _ => none

/-- replay one observed event on the model state; `none` = the model cannot do that -/
def replay (s : St) : Tok → Option St
  | .enter i => step s (.stopEnter i)
  | .pass i => step s (.stopPass i)
  | .read i =>
    -- the thread reached the point after the second critical section: it must now wait on doneCh
    match step s (.stopRead i) with
    | some s' => match s'.stops[i]? with
      | some (.waitDone _ _ _) => some s'
      | _ => none
    | none => none
  | .ret i =>
    match s.stops[i]? with
    | some (.midway _ _) =>          -- returned straight from the second critical section
      match step s (.stopRead i) with
      | some s' => match s'.stops[i]? with
        | some (.ret _) => some s'
        | _ => none
      | none => none
    | some (.waitDone _ _ _) => step s (.stopDone i)
    | _ => none
  | .runStart => step s .runStart
  | .runEnd => step s .runEnd
  | .final stopClosed blocked =>
    -- quiescent end state: the threads that have not returned are exactly the model's threads
    -- that are neither idle nor returned, each of them is disabled in the model, and the stop
    -- channel of the current generation is closed iff the model says so
    let k := s.stops.length
    let ok := (List.range k).all fun j =>
      match s.stops[j]? with
      | some (.ret _) => !blocked.contains j
      | some .idle => blocked.contains j      -- never released by the controller: still "not returned"
      | some _ => blocked.contains j && (match nextOf s j with
          | some a => (step s a).isNone
          | none => false)
      | none => false
    if ok && stopClosed == s.stopped then some s else none

def acceptLoop (s : St) (k : Nat) : List Tok → String
  | [] => "accepted"
  | t :: ts =>
    match replay s t with
    | some s' => acceptLoop s' (k + 1) ts
    | none => s!"rejected@{k}"

def toSpecEv : Tok → GoSup.Spec.C07.Ev
  | .enter i => .enter i | .pass i => .pass i | .read i => .read i | .ret i => .ret i
  | .runStart => .runStart | .runEnd => .runEnd | .final b _ => .final b

def handle : List String → Option String
  | "lcaccept" :: k :: _sched :: evs => do
    let toks ← evs.mapM parseTok
    some (acceptLoop (init (← k.toNat?)) 0 toks)
  | "c07holds" :: _k :: _sched :: evs => do
    let toks ← evs.mapM parseTok
    some (toString (GoSup.Spec.C07.holds (toks.map toSpecEv)))
  | "c07liftholds" :: rest => do
    let hung := rest.contains "hung=true"
    let evs := rest.filter fun w => !(w.contains '=') && !(w.contains '~')
    let num (w : String) (n : Nat) : Nat := ((w.drop n).toString.takeWhile Char.isDigit).toString.toNat?.getD 0
    let t := evs.map fun w =>
      if w.startsWith "RI" then GoSup.Spec.C07.LEv.runInv (num w 2)
      else if w.startsWith "RR" then .runRet (num w 2)
      else if w.startsWith "SC" then .stopCall (num w 2)
      else if w.startsWith "SR" then
        .stopRet (num w 2) (match w.splitOn ":" with | [_, g] => g.toNat? | _ => none)
      else .other
    some (toString (GoSup.Spec.C07.liftHolds hung t))
  | _ => none

end Driver.Lifecycle
