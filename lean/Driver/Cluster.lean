import GoSup.Spec.Cluster
import GoSup.Model.ClusterRun
import Driver.Util
namespace Driver.Cluster
open GoSup.Spec.Cluster Driver

def nat? (cs : List Char) : Option Nat := (String.ofList cs).toNat?

def parseEv (w : String) : Option Ev :=
  match w.splitOn ":" with
  | [a] =>
    match a.toList with
    | ['R', 'U', 'N'] => some .run
    | ['T', 'C'] | ['T', 'R'] | ['C', 'X'] | ['C', 'L'] => some .endOp
    | 'P' :: 'U' :: r => (nat? r).map .push
    | 'R' :: 'I' :: r => (nat? r).map .runInv
    | 'R' :: 'R' :: r => (nat? r).map .runRet
    | 'S' :: 'I' :: r => (nat? r).map .stopInv
    | 'S' :: 'R' :: r => (nat? r).map .stopRet
    | _ => none
  | [a, b] => if a == "FE" then (strOfHex b).map .factoryErr else none
  | [a, b, c] =>
    match a.toList with
    | ['R', 'E', 'T'] => some (.ret b c)
    | 'C' :: 'N' :: r => do some (.count (← nat? r) (← b.toNat?) c)
    | _ => none
  | [a, b, c, d] => if a == "FA" then do some (.factory (← strOfHex b) (← c.toNat?) (← d.toNat?)) else none
  | _ => none

def kvOf (ws : List String) (k : String) : Option String :=
  ws.findSome? fun w => if w.startsWith (k ++ "=") then some ((w.drop (k.length + 1)).toString) else none

def parseMap (s : String) : List (String × Option Nat) :=
  if s == "empty" then [] else (s.splitOn "+").filterMap fun e =>
    match e.splitOn ":" with
    | [id, v] => do
      let i ← strOfHex id
      some (i, if v == "-1" then none else v.toNat?)
    | _ => none

def parseIds (s : String) : List String :=
  if s == "none" then [] else (s.splitOn "+").filterMap strOfHex

def parseAll (ws : List String) : Option (Info × List Ev) := do
  let maps := ((← kvOf ws "maps").splitOn ",").map parseMap
  let e := (← kvOf ws "end").splitOn "."
  let flag (p : String) : Nat := (e.findSome? fun f => if f.startsWith p then (f.drop p.length).toString.toNat? else none).getD 0
  let evs ← (ws.filter fun w => !(w.contains '=') && !(w.contains '~')).mapM parseEv
  some ({ maps := maps, ff := parseIds ((kvOf ws "ff").getD "none"), fo := parseIds ((kvOf ws "fo").getD "none"),
          nr := parseIds ((kvOf ws "nr").getD "none"),
          hung := flag "hung" > 0, live := flag "live", second := (kvOf ws "second").getD "none" }, evs)

def fsmName : GoSup.CompSeq.Fsm → String
  | .new => "New" | .booting => "Booting" | .running => "Running" | .reloading => "Reloading"
  | .stopping => "Stopping" | .stopped => "Stopped" | .error => "Error"

open GoSup.ClusterRun in
/-- the state machine side of a cluster history against `ClusterRun`: the state after every processed map, the result
and final state of `Run()`, and what a second `Run()` of the same runner does -/
def walkDiffers (i : Info) (t : List Ev) : Option String :=
  let counts := t.filterMap fun e => match e with | .count k _ st => some (k, st) | _ => none
  -- every map is delivered twice: 2 (k + 1) updates have been processed when the k-th count is taken
  match counts.find? (fun (k, st) => st != fsmName (updates (2 * (k + 1)) .running).1) with
  | some (k, st) => some s!"differ@{k}:state {st} model {fsmName (updates (2 * (k + 1)) .running).1}"
  | none =>
    let w := runWalk .new (2 * counts.length)
    match t.find? (fun e => match e with | .ret _ _ => true | _ => false) with
    | some (.ret cls st) =>
      let mcls := if w.nil then "nil" else "err"
      if cls != mcls || st != fsmName w.final then some s!"differ:ret {cls}.{st} model {mcls}.{fsmName w.final}"
      else if i.second == "none" then none
      else
        let w2 := runWalk w.final 0
        let m2 := (if w2.nil then "nil" else "err") ++ "." ++ fsmName w2.final
        if i.second != m2 then some s!"differ:second {i.second} model {m2}" else none
    | _ => none

open GoSup.Planner GoSup.Cluster in
/-- replay the pushed maps on the model (`applyUpdate`) and compare the running servers and the
count after every update -/
def clusterseq (i : Info) (t : List Ev) : String :=
  if i.hung || knownClash i t then "agree" else
  let fateOf (fo : List String) (id : String) : Fate :=
    if i.ff.contains id || fo.contains id then .factoryErr else if i.nr.contains id then .notReady else .ok
  -- every map is delivered twice by the harness; an id whose factory fails once is dropped by the first
  -- delivery that wants to start it and started by the next one
  let rec go (k : Nat) (cur : Entries) (next : Nat) (foLeft : List String) (maps : List (List (String × Option Nat))) : String :=
    match maps with
    | [] => (walkDiffers i t).getD "agree"
    | m :: rest =>
      match t.find? (fun e => match e with | .count k' _ _ => k' == k | _ => false) with
      | some (.count _ cnt _) =>
        let des := m.filterMap fun (id, v) => v.map fun c => (id, c)
        let r1 := applyUpdate (fateOf foLeft) cur des next
        let failed := r1.effects.filterMap fun e => match e with | .dropped id => some id | _ => none
        let foLeft' := foLeft.filter fun id => !failed.contains id
        let r := applyUpdate (fateOf foLeft') r1.entries des r1.next
        let failed2 := r.effects.filterMap fun e => match e with | .dropped id => some id | _ => none
        let model := sortPairs ((running r.entries).map fun (id, c, _) => (id, c))
        let act := sortPairs ((alive (prefixTo t k)).map fun (id, c, _) => (id, c))
        -- the servers this update created (factory calls that succeeded), as a multiset of (id, configuration):
        -- what the model's two deliveries started is what the implementation's factory was asked for
        let window := ((prefixTo t k).reverse.takeWhile fun e => match e with | .push k' => k' != k | _ => true).reverse
        let ostarts := sortPairs (window.filterMap fun e => match e with | .factory id c _ => some (id, c) | _ => none)
        let mstarts := sortPairs ((r1.effects ++ r.effects).filterMap fun e => match e with | .start id c _ => some (id, c) | _ => none)
        -- the servers that were running before this push and are stopped by it
        let before := t.take ((t.findIdx? (fun e => e == .push k)).getD 0)
        let oldInsts := before.filterMap fun e => match e with | .factory id c i => some (i, (id, c)) | _ => none
        let ostops := sortPairs (window.filterMap fun e => match e with
          | .stopInv i => (oldInsts.find? (·.1 == i)).map (·.2) | _ => none)
        let mold := (running cur).map fun (id, c, i) => (i, (id, c))
        let mstops := sortPairs ((r1.effects ++ r.effects).filterMap fun e => match e with
          | .stop i => (mold.find? (·.1 == i)).map (·.2) | _ => none)
        -- a server that can become ready but missed the readiness deadline this time (a loaded machine): it was started and
        -- stopped inside this window although it is not one of the never-ready ids; the retry by the second delivery is
        -- then an extra start the model's fates do not know about - starts and stops of this update are not compared
        let transient := window.any fun e => match e with
          | .factory id _ inst => !(i.nr.contains id) && window.contains (.stopInv inst)
          | _ => false
        if model != act then s!"differ@{k}:running {repr act} model {repr model}"
        else if transient then go (k + 1) r.entries r.next (foLeft'.filter fun id => !failed2.contains id) rest
        else if ostops != mstops then s!"differ@{k}:stopped {repr ostops} model {repr mstops}"
        else if ostarts != mstarts then s!"differ@{k}:started {repr ostarts} model {repr mstarts}"
        else if cnt != r.entries.length then s!"differ@{k}:count {cnt} model {r.entries.length}"
        else go (k + 1) r.entries r.next (foLeft'.filter fun id => !failed2.contains id) rest
      | _ => (walkDiffers i t).getD "agree"      -- the run was ended before this push
  go 0 [] 1 i.fo i.maps

def handle : List String → Option String
  | "c16holds" :: rest => do let (i, t) ← parseAll rest; some (toString (holds i t))
  | "known" :: "C16-F1" :: "maps" :: _ => none
  | "clusterseq" :: rest => do let (i, t) ← parseAll rest; some (clusterseq i t)
  | "knowncluster" :: rest => do let (i, t) ← parseAll rest; some (toString (knownClash i t))
  | _ => none

end Driver.Cluster
