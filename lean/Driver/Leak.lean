import GoSup.Spec.C18
import Driver.Util
namespace Driver.Leak
open Driver

def kvOf (ws : List String) (k : String) : Option String :=
  ws.findSome? fun w => if w.startsWith (k ++ "=") then some ((w.drop (k.length + 1)).toString) else none

def listOf (s : String) : List String := if s == "none" then [] else s.splitOn ","

def handle : List String → Option String
  | "c18holds" :: rest => do
    let clean ← kvOf rest "clean"
    let hung ← kvOf rest "hung"
    let samples ← (listOf (← kvOf rest "samples")).mapM String.toNat?
    let leaked := listOf (← kvOf rest "leaked")
    some (toString (GoSup.Spec.C18.holds { clean := clean == "true", hung := hung == "true", samples, leaked }))
  | _ => none

end Driver.Leak
