import Driver.Util
import Driver.Port
import Driver.Middleware
import Driver.Pure
import Driver.Lifecycle
import Driver.Sup
import Driver.SupReload
import Driver.Comp
import Driver.CompAcc
import Driver.Http
import Driver.HttpAcc
import Driver.Crash
import Driver.Cluster
import Driver.Leak
import Driver.State

/-! One request per line on stdin, one response per line on stdout.  Unknown or malformed
requests answer `bad-op` (never a default value). -/

def dispatch (ws : List String) : String :=
  match ws with
  | "port" :: _ | "split" :: _ | "atoi" :: _ | "join" :: _ | "c20holds" :: _ => (Driver.Port.handle ws).getD "bad-op"
  | "mw" :: _ | "mwspec" :: _ | "c15holds" :: _ => (Driver.Middleware.handle ws).getD "bad-op"
  | "supaccept" :: _ | "c01holds" :: _ | "c02holds" :: _ | "c03holds" :: _ | "c04holds" :: _
  | "known" :: "C02-F2" :: _ => (Driver.Sup.handle ws).getD "bad-op"
  | "relaccept" :: _ | "c05holds" :: _ => (Driver.SupReload.handle ws).getD "bad-op"
  | "httpaccept" :: _ => (Driver.HttpAcc.handle ws).getD "bad-op"
  | "compaccept" :: _ => (Driver.CompAcc.handle ws).getD "bad-op"
  | "c09holds" :: _ | "c10holds" :: _ | "c11holds" :: _ | "compseq" :: _
  | "known" :: "C09-F1" :: _ => (Driver.Comp.handle ws).getD "bad-op"
  | "c08streamholds" :: _ | "c12busyholds" :: _ | "known" :: "C12-F1" :: _ | "known" :: "C08-F1" :: _ | "c12holds" :: _ | "c13holds" :: _ | "c14holds" :: _ | "c08holds" :: _ | "httpseq" :: _ => (Driver.Http.handle ws).getD "bad-op"
  | "c16holds" :: _ | "clusterseq" :: _ | "knowncluster" :: _ => (Driver.Cluster.handle ws).getD "bad-op"
  | "known" :: "C16-F1" :: rest =>
    if rest.any (·.startsWith "maps=") then (Driver.Cluster.handle ("knowncluster" :: rest)).getD "bad-op"
    else (Driver.Pure.handle ws).getD "bad-op"
  | "c19holds" :: _ => (Driver.Crash.handle ws).getD "bad-op"
  | "equal" :: _ | "c13equalholds" :: _ | "member" :: _ | "c11memberholds" :: _ | "iscancel" :: _ | "plan" :: _
  | "planany" :: _ | "c16planholds" :: _ | "known" :: _ => (Driver.Pure.handle ws).getD "bad-op"
  | "raceprog" :: _ => "completed"
  | "c18holds" :: _ => (Driver.Leak.handle ws).getD "bad-op"
  | "c06holds" :: _ => (Driver.State.handle ws).getD "bad-op"
  | "lcaccept" :: _ | "c07holds" :: _ | "c07liftholds" :: _ => (Driver.Lifecycle.handle ws).getD "bad-op"
  | _ => "bad-op"

partial def loop (h : IO.FS.Stream) (out : IO.FS.Stream) : IO Unit := do
  let line ← h.getLine
  if line.isEmpty then return ()
  let l := String.ofList (line.toList.filter (fun c => c != (Char.ofNat 10) && c != (Char.ofNat 13)))
  out.putStrLn (dispatch (Driver.words l))
  loop h out

def main : IO Unit := do
  let stdin ← IO.getStdin
  let stdout ← IO.getStdout
  loop stdin stdout
