import GoSup.Model.Middleware
import GoSup.Spec.C15
import Driver.Util
namespace Driver.Middleware
open GoSup.Middleware Driver

def splitKV (s : String) : String × String :=
  match s.splitOn "=" with
  | [k] => (k, "")
  | k :: v :: _ => (k, v)
  | [] => ("", "")

def listOf (s : String) (sep : String) : List String := if s == "" then [] else s.splitOn sep

def parseAct (t : String) : Option Act :=
  let c := t.toList
  match c with
  | ['n'] => some .next
  | ['a'] => some .abort
  | ['p'] => some .panic
  | ['o', 'p'] => some .obsPath
  | ['o', 'b'] => some .observe
  | 'o' :: 'q' :: k => some (.obsReq (String.ofList k))
  | 'h' :: r => (String.ofList r).toNat?.map .writeHeader
  | 'w' :: r => (String.ofList r).toNat?.map .write
  | 'm' :: r => (String.ofList r).toNat?.map .mark
  | 'q' :: 's' :: r => let (k, v) := splitKV (String.ofList r); some (.setQ k v)
  | 'q' :: 'd' :: r => let (k, v) := splitKV (String.ofList r); some (.addQ k v)
  | 'q' :: 'r' :: r => some (.delQ (String.ofList r))
  | 's' :: r => let (k, v) := splitKV (String.ofList r); some (.setH k v)
  | 'd' :: r => let (k, v) := splitKV (String.ofList r); some (.addH k v)
  | 'r' :: r => some (.delH (String.ofList r))
  | _ => none

def kvList (s : String) : List (String × String) := (listOf s ";").map splitKV
def kvsList (s : String) : List (String × List String) :=
  (listOf s ";").map fun e => let (k, v) := splitKV e; (k, listOf v "^")

def parseHandler (t : String) : Option Handler :=
  match t.toList with
  | ['e'] => some []
  | ['R'] => some recovery
  | ['L'] => some observer
  | ['M'] => some [.next]      -- metrics: Next, then a debug log nobody observes
  | 'S' :: v => some (stateMw (String.ofList v))
  | 'W' :: h => (strOfHex (String.ofList h)).map wildcard
  | 'H' :: r => some (headersNew (kvList (String.ofList r)))
  | 'O' :: r =>
    match (String.ofList r).splitOn "|" with
    | [a, b, c, d, e, f] => some (headersOps (listOf a ";") (kvsList b) (kvList c) (listOf d ";") (kvsList e) (kvList f))
    | _ => none
  | _ => (t.splitOn ",").mapM parseAct

def parseProgram (s : String) : Option (List Handler) := (s.splitOn "/").mapM parseHandler

def showEv : Ev → String
  | .enter i => s!"e{i}" | .leave i => s!"l{i}" | .mark i => s!"m{i}"
  | .obs st sz => s!"o{st}:{sz}" | .reqH k vs => s!"q{k}={"^".intercalate vs}"
  | .path p => s!"p{hexOfStr p}" | .recovered => "rec" | .aborted i => s!"ab{i}" | .sent c => s!"sent{c}"

def parseEv (t : String) : Option Ev :=
  match t.toList with
  | ['r', 'e', 'c'] => some .recovered
  | 's' :: 'e' :: 'n' :: 't' :: r => (String.ofList r).toNat?.map .sent
  | 'a' :: 'b' :: r => (String.ofList r).toNat?.map .aborted
  | 'e' :: r => (String.ofList r).toNat?.map .enter
  | 'l' :: r => (String.ofList r).toNat?.map .leave
  | 'm' :: r => (String.ofList r).toNat?.map .mark
  | 'o' :: r => match (String.ofList r).splitOn ":" with
    | [a, b] => do let x ← a.toNat?; let y ← b.toNat?; some (.obs x y)
    | _ => none
  | 'q' :: r => let (k, v) := splitKV (String.ofList r); some (.reqH k (listOf v "^"))
  | 'p' :: r => (strOfHex (String.ofList r)).map .path
  | _ => none

def poolKeys : List String := ["X-A", "X-B", "X-C", "X-Server-State", "X-Content-Type-Options", "Content-Length"]

def showHdr (h : Hdr) : String :=
  "|".intercalate (poolKeys.filterMap fun k =>
    match hGet h k with
    | [] => none
    | vs => some s!"{k}:{"^".intercalate vs}")

def showOut (r : Out St) : String :=
  match r with
  | .fuel => "fuel"
  | .ok s | .panic s =>
    let tag := match r with | .panic _ => "panic" | _ => "ok"
    let w := s.w
    let sent := if w.uWrote then toString w.uCode else "none"
    let hdr := if w.uWrote then w.uSnap else w.hdr
    s!"{tag} tr={",".intercalate (s.trace.map showEv)} sent={sent} n={w.uBytes} body={w.uBody} hdr={showHdr hdr} st={wStatus w} sz={w.size} wr={w.written} path={hexOfStr s.path}"

def field (ws : List String) (k : String) : Option String :=
  ws.findSome? fun w => if w.startsWith (k ++ "=") then some ((w.drop (k.length + 1)).toString) else none

def parseOutcome (ws : List String) : Option GoSup.Spec.C15.Outcome := do
  let tag ← ws.head?
  let tr ← field ws "tr"
  let evs ← (listOf tr ",").mapM parseEv
  let sent ← field ws "sent"
  let n ← (← field ws "n").toNat?
  let st ← (← field ws "st").toNat?
  let sz ← (← field ws "sz").toNat?
  let wr ← field ws "wr"
  some { panicked := tag == "panic", trace := evs, sentCode := sent.toNat?, sentBytes := n,
         status := st, size := sz, written := wr == "true" }

/-- `mw <pathhex> <program>` (implementation model) ; `mwspec <pathhex> <program>` (reference
interpreter) ; `c15holds <outcome words…>` (property oracle on an observed outcome) -/
def handle : List String → Option String
  | ["mw", p, cap, prog] => do
    let path ← strOfHex p
    let hs ← parseProgram prog
    some (showOut (execImpl (fuelFor hs) hs { path := path, w := { cap := ← cap.toNat? } }))
  | ["mwspec", p, cap, prog] => do
    let path ← strOfHex p
    let hs ← parseProgram prog
    some (showOut (execSpec hs { path := path, w := { cap := ← cap.toNat? } }))
  | "c15holds" :: prog :: rest => do
    let hs ← parseProgram prog
    let o ← parseOutcome rest
    some (toString (GoSup.Spec.C15.holds hs o))
  | _ => none

end Driver.Middleware
