import GoSup.Spec.Http
import GoSup.Spec.C08
import GoSup.Model.HttpSeq
import Driver.Util
namespace Driver.Http
open GoSup.Spec.Http Driver

def nat? (cs : List Char) : Option Nat := (String.ofList cs).toNat?

def parseEv (w : String) : Option Ev :=
  match w.splitOn ":" with
  | [a] =>
    match a.toList with
    | ['R', 'U', 'N'] => some .run
    | ['T', 'C'] => some .stopCall
    | ['C', 'X'] => some .cancel
    | 'L' :: 'C' :: r => (nat? r).map .reloadCall
    | _ => none
  | [a, b] =>
    match a.toList with
    | 'C' :: 'B' :: r => do
      let k ← nat? r
      match b with
      | "err" => some (.cb k (some none))
      | "nil" => some (.cb k none)
      | _ => some (.cb k (some (some (← b.toNat?))))
    | 'L' :: 'T' :: r => do some (.reloadRet (← nat? r) b)
    | 'O' :: 'A' :: r => do some (.oldAddr (← nat? r) (b == "free"))
    | 'R' :: 'L' :: r => do some (.released (← nat? r) (b == "free"))
    | ['T', 'R'] => b.toNat?.map .stopRet
    | ['S', 'F'] => b.toNat?.map .stillInFlight
    | ['S', 'S'] => some (.stream (b.splitOn ">"))
    | _ => none
  | [a, b, c] =>
    match a.toList with
    | ['R', 'E', 'T'] => some (.ret b c)
    | 'C' :: 'R' :: r => do some (.created (← nat? r) (← b.toNat?) (← c.toNat?))
    | 'P' :: 'R' :: tag => some (.probe (String.ofList tag) (b == "ok") c)
    | _ => none
  | [a, b, c, d] =>
    match a.toList with
    | ['R', 'Q'] => do some (.req (← b.toNat?) c (← d.toNat?))
    | 'P' :: 'R' :: tag => some (.probe (String.ofList tag) (b == "ok") (c ++ ":" ++ d))
    | _ => none
  | _ => none

def parseCfg (w : String) : HCfg :=
  match w.splitOn ":" with
  | [kind, addr, drain, read, routes] =>
    let rs := (if routes == "" then [] else routes.splitOn "+").filterMap fun r =>
      match r.splitOn "-" with
      | [n, p] => do some ({ name := ← strOfHex n, path := ← strOfHex p } : GoSup.Equal.Route)
      | _ => none
    let a := addr.toNat?.getD 0
    let d := drain.toNat?.getD 0
    { kind := kind, addr := a, drain := d,
      cfg := { addr := toString a, drain := d, read := (read.toNat?.getD 0 : Nat), write := 0, idle := 0, routes := rs } }
  | _ => { kind := w, addr := 0, drain := 0, cfg := { addr := "", drain := 0, read := 0, write := 0, idle := 0, routes := [] } }

def kvOf (ws : List String) (k : String) : Option String :=
  ws.findSome? fun w => if w.startsWith (k ++ "=") then some ((w.drop (k.length + 1)).toString) else none

def parseAll (ws : List String) : Option (Info × List Ev) := do
  let cfgs := ((← kvOf ws "cfgs").splitOn ",").map parseCfg
  let hung := (kvOf ws "end") == some "hung1"
  let evs ← (ws.filter fun w => !(w.contains '=') && !(w.contains '~')).mapM parseEv
  some ({ cfgs := cfgs, hung := hung }, evs)

open GoSup.HttpSeq

def fsmName : Fsm → String
  | .new => "New" | .booting => "Booting" | .running => "Running" | .reloading => "Reloading"
  | .stopping => "Stopping" | .stopped => "Stopped" | .error => "Error"

/-- replay a sequential history (no requests in flight, no overlapping operations) on the
operation-level model; every reload result and the final return must agree -/
def httpseq (i : Info) (t : List Ev) : String :=
  let overlapping := t.any fun e => match e with | .req _ _ _ => true | _ => false
  -- a Stop/cancel issued while a reload is still running
  let rec overlap (open_ : Bool) : List Ev → Bool
    | [] => false
    | .reloadCall _ :: r => overlap true r
    | .reloadRet _ _ :: r => overlap false r
    | .stopCall :: r | .cancel :: r => open_ || overlap open_ r
    | _ :: r => overlap open_ r
  if i.hung || overlapping || overlap false t then "agree" else
  let c0 := (i.cfgs[0]?).getD (parseCfg "err")
  let rec go (fuel : Nat) (s : St) (cbNext : Nat) (k : Nat) (t : List Ev) : String :=
    match fuel with
    | 0 => "agree"
    | fuel + 1 =>
    match t with
    | [] => "agree"
    | e :: rest =>
      match e with
      | .reloadCall _ =>
        let fetched := rest.any fun e' => match e' with | .cb n _ => n == cbNext | _ => false
        if !fetched then go fuel (step s (.reload .err) |> fun s' => if s.fsm == .running then s' else s) cbNext (k + 1) rest else
        let cv := (i.cfgs[cbNext]?).getD ((i.cfgs.getLast?).getD c0)
        let r : Res :=
          if cv.kind == "err" then .err else if cv.kind == "nil" then .nil else
          let stored := match s.stored with | some a => (i.cfgs[a]?).getD c0 | none => c0
          .ok cbNext cv.addr (GoSup.Equal.configEqual cv.cfg stored.cfg) (cv.kind != "busy")
        go fuel (step s (.reload r)) (cbNext + 1) (k + 1) rest
      | .reloadRet _ st =>
        if s.ret == .none && st != fsmName s.fsm then s!"differ@{k}:reload state {st} model {fsmName s.fsm}"
        else go fuel s cbNext (k + 1) rest
      | .created _ a _ =>
        go fuel s cbNext (k + 1) rest |> fun r => if s.created == 0 && a != c0.addr then s!"differ@{k}:first server on address {a}" else r
      | .stopCall | .cancel => go fuel (step s (.stop false)) cbNext (k + 1) rest
      | .ret cls st =>
        -- a failed (re)boot may also end Run: the listen error is read by Run's select instead of the readiness probe
        let s := if s.ret == .none && s.fsm == .error && cls != "nil" then { s with ret := .err } else s
        let ok := match s.ret with
          | .nil => cls == "nil"
          | .err => cls != "nil"
          | .none => false
        if !ok || st != fsmName s.fsm then s!"differ@{k}:return {cls} {st} model {fsmName s.fsm}" else go fuel s cbNext (k + 1) rest
      | _ => go fuel s cbNext (k + 1) rest
  go (t.length + 1) (step {} (.run 0 c0.addr true)) 1 0 t

def handle : List String → Option String
  | "c12holds" :: rest => do let (i, t) ← parseAll rest; some (toString (holdsC12 i t))
  | "c13holds" :: rest => do let (i, t) ← parseAll rest; some (toString (holdsC13 i t))
  | "c14holds" :: rest => do let (i, t) ← parseAll rest; some (toString (holdsC14 i t))
  | "c08holds" :: rest => do let (i, t) ← parseAll rest; some (toString (holdsC08 i t))
  | "known" :: "C12-F1" :: rest => do let (i, t) ← parseAll rest; some (toString (knownC12F1 i t))
  | "c08streamholds" :: rest => do
    -- ss=<a>b>c> sb=<…> ret=<cls>:<state>|none closed=<0|1> single=<0|1>
    let ss := ((kvOf rest "ss").getD "").splitOn ">" |>.filter (· ≠ "")
    let sb := ((kvOf rest "sb").getD "").splitOn ">" |>.filter (· ≠ "")
    let ret := (kvOf rest "ret").getD "none"
    let (hasRet, cls, st) := match ret.splitOn ":" with
      | [c, s] => (true, c, s)
      | _ => (false, "", "")
    let sx := match kvOf rest "sx" with
      | some "none" | none => []
      | some v => (v.splitOn "|").map fun x => (x.splitOn ">").filter (· ≠ "")
    some (toString (GoSup.Spec.C08.holdsStream ss sb hasRet cls st (kvOf rest "closed" == some "1") (kvOf rest "single" != some "0") sx))
  | "c12busyholds" :: rest => do
    -- every configured address is held by a foreign listener: the runner never reports Running
    let ss := ((kvOf rest "ss").getD "").splitOn ">" |>.filter (· ≠ "")
    let sb := ((kvOf rest "sb").getD "").splitOn ">" |>.filter (· ≠ "")
    some (toString (!ss.contains "Running" && !sb.contains "Running"))
  | "known" :: "C08-F1" :: rest => do
    let ss := ((kvOf rest "ss").getD "").splitOn ">" |>.filter (· ≠ "")
    let sb := ((kvOf rest "sb").getD "").splitOn ">" |>.filter (· ≠ "")
    let ret := (kvOf rest "ret").getD "none"
    let (hasRet, cls, st) := match ret.splitOn ":" with
      | [c, s] => (true, c, s)
      | _ => (false, "", "")
    let sx := match kvOf rest "sx" with
      | some "none" | none => []
      | some v => (v.splitOn "|").map fun x => (x.splitOn ">").filter (· ≠ "")
    some (toString (GoSup.Spec.C08.knownC08F1 ss sb hasRet cls st (kvOf rest "closed" == some "1") (kvOf rest "single" != some "0") sx))
  | "httpseq" :: rest => do let (i, t) ← parseAll rest; some (httpseq i t)
  | _ => none

end Driver.Http
