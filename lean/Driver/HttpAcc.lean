import GoSup.Model.HttpLts
import Driver.Http
/-!
# Trace acceptor for the concurrent HTTP server model (`HttpLts`)

`httpaccept <header> <events>`: the event trace the HTTP harness recorded on the real `httpserver.Runner` (loopback
TCP) is replayed on `HttpLts` with the generic acceptor of `Core/Lts.lean`.  What the harness does not observe — the
serving goroutine binding its address, `stopServer`, the transitions of `Run` — is internal.  Precondition (else the
line is accepted without replay): no configuration of the history is bound to an address a foreign listener holds
(`busy`): there the model's assumption "the probe succeeds only if the instance listens" does not apply.
-/
namespace Driver.HttpAcc
open GoSup.Core GoSup.HttpLts GoSup.Spec.Http
open GoSup.CompSeq (Fsm)

def fsmOf : String → Option Fsm
  | "New" => some .new | "Booting" => some .booting | "Running" => some .running | "Reloading" => some .reloading
  | "Stopping" => some .stopping | "Stopped" => some .stopped | "Error" => some .error | _ => none

def internal (s : St) : List Act :=
  [.runEnter, .runBootFail, .runProbeOk, .runProbeFail true, .runProbeFail false, .runToRunning, .runSelCtx, .runSelStop, .runSelErr,
   .runToStopping, .runStopServer true, .runStopServer false, .runFinish,
   .rlEnter, .rlAfterCb, .rlStopOld true, .rlStopOld false, .rlBootBegin true, .rlBootBegin false, .rlProbeOk, .rlProbeFail true, .rlProbeFail false]
  ++ (List.range s.insts.length).flatMap fun i => [.instBind i, .instBindFail i]

def noop (s : St) : List Act := [.observe s.fsm]

def matching (s : St) (e : Ev) : List Act :=
  match e with
  | .run | .probe _ _ _ | .oldAddr _ _ | .req _ _ _ | .released _ _ | .stream _ | .stillInFlight _ => noop s
  | .cb _ r =>
    let res : Cb := match r with
      | some (some v) => .ok v
      | some none => .err
      | none => .nil
    [.runBootBegin res true, .runBootBegin res false, .rlConfig res true, .rlConfig res false]
  | .created id _ _ => [.observeInst (id - 1)]
  | .reloadCall _ => [.reloadCall]
  | .reloadRet _ st => match fsmOf st with | some f => [.reloadAck f] | none => []
  | .stopCall => [.stopCall]
  | .stopRet _ => [.stopDone]
  | .cancel => [.cancelCtx]
  | .ret cls st =>
    match fsmOf st with
    | none => []
    | some f => if cls == "nil" then [.retAck .nil f] else [.retAck .transition f, .retAck .boot f, .retAck .serverErr f, .retAck .drain f]

def acceptor : Acceptor St Act Ev := { lts := lts, internal := internal, matching := matching }

def httpaccept (i : Info) (t : List Ev) : String :=
  if i.cfgs.any (fun c => c.kind == "busy") then "accepted" else
  match accept acceptor 64 [init] 0 t with
  | .ok _ => "accepted"
  | .error k => s!"rejected@{k}"

def handle : List String → Option String
  | "httpaccept" :: rest => do let (i, t) ← Driver.Http.parseAll rest; some (httpaccept i t)
  | _ => none

end Driver.HttpAcc
