import GoSup.Model.Middleware
open GoSup.Middleware
example (i : Nat) (rest : List Handler) (s : St) : specActs i [] rest s = .ok (s, false) := by
  rw [specActs]
example (i : Nat) (as : List Act) (rest : List Handler) (s : St) :
    specActs i (.abort :: as) rest s = consumed (specActs i as [] (s.emit (.aborted i))) := by
  rw [specActs]
example (i : Nat) (s : St) : specRun i [] s = .ok s := by rw [specRun]
example (i : Nat) (h : Handler) (t : List Handler) (s : St) :
    specRun i (h :: t) s = (match specActs i h t (s.emit (.enter i)) with
    | .ok (s', true) => .ok (s'.emit (.leave i))
    | .ok (s', false) => specRun (i + 1) t (s'.emit (.leave i))
    | .panic (s', _) => .panic s'
    | .fuel => .fuel) := by rw [specRun]
example (i : Nat) (as : List Act) (rest : List Handler) (s : St) (k v : String) :
    specActs i (.setH k v :: as) rest s = (let (s', pn) := simpleAct (.setH k v) s
    if pn then .panic (s', false) else specActs i as rest s') := by
  rw [specActs]
#check @specActs.eq_def
