import GoSup.Model.Port
import GoSup.Spec.C20
import GoSup.Props.C20
import GoSup.Model.Middleware
import GoSup.Spec.C15
import GoSup.Props.C15
