import GoSup.Model.Port
import GoSup.Spec.C20
import GoSup.Props.C20
