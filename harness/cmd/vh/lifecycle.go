package main

import (
	"bytes"
	"fmt"
	"runtime"
	"strconv"
	"strings"
	"sync"
	"time"

	"github.com/robbyt/go-supervisor/supervisor/lifecycle"
)

func init() { commands["lifecycle"] = runLifecycle }

func goid() int64 {
	var buf [64]byte
	n := runtime.Stack(buf[:], false)
	f := bytes.Fields(buf[:n])
	id, _ := strconv.ParseInt(string(f[1]), 10, 64)
	return id
}

// lcCtl is the yield-point controller: every controlled goroutine reports its arrival at a point
// and then blocks until the controller releases it.
type lcCtl struct {
	mu       sync.Mutex
	byGid    map[int64]int // goroutine id -> logical thread (stop threads 0..k-1, run thread = k)
	arrivals chan lcArrival
	release  []chan struct{}
	free     bool // pass-through (cleanup phase)
}

type lcArrival struct {
	th    int
	point string
}

func (c *lcCtl) yield(point string) {
	c.mu.Lock()
	th, ok := c.byGid[goid()]
	free := c.free
	c.mu.Unlock()
	if !ok || free {
		return
	}
	c.arrivals <- lcArrival{th, point}
	<-c.release[th]
}

type lcScenario struct {
	k, m  int
	steps int
	seed  uint64
}

// runLcScenario executes one controlled schedule on a fresh StartStop and returns the event trace.
func runLcScenario(ctl *lcCtl, sc lcScenario, r interface{ IntN(int) int }, choices []int) (trace []string, made []int, err error) {
	lc := lifecycle.New()
	k := sc.k
	ctl.mu.Lock()
	ctl.byGid = map[int64]int{}
	ctl.free = false
	ctl.arrivals = make(chan lcArrival, 64)
	ctl.release = make([]chan struct{}, k+1)
	for i := range ctl.release {
		ctl.release[i] = make(chan struct{})
	}
	ctl.mu.Unlock()
	var wg sync.WaitGroup
	reg := func(th int) {
		ctl.mu.Lock()
		ctl.byGid[goid()] = th
		ctl.mu.Unlock()
	}
	for i := 0; i < k; i++ {
		wg.Add(1)
		go func(i int) {
			defer wg.Done()
			reg(i)
			ctl.yield("stop.before")
			lc.Stop()
			ctl.yield("stop.ret")
		}(i)
	}
	cleanupRuns := make(chan struct{})
	wg.Add(1)
	go func() {
		defer wg.Done()
		reg(k)
		for c := 0; c < sc.m; c++ {
			ctl.yield("run.before")
			done := lc.Started()
			ctl.yield("run.started")
			done()
		}
		ctl.yield("run.finished")
		// cleanup: if Stop threads are still waiting for a Run, give them one
		<-cleanupRuns
		done := lc.Started()
		done()
	}()

	// position of each thread: the point it is parked at, "" = in flight (running or blocked)
	pos := make([]string, k+1)
	finished := make([]bool, k+1)
	parkedCount := 0
	note := func(a lcArrival) {
		pos[a.th] = a.point
		parkedCount++
		// the event is what the thread completed to get here
		switch a.point {
		case "stop.afterFirst":
			trace = append(trace, fmt.Sprintf("e%d", a.th))
		case "stop.afterStarted":
			trace = append(trace, fmt.Sprintf("p%d", a.th))
		case "stop.afterSecond":
			trace = append(trace, fmt.Sprintf("r%d", a.th))
		case "stop.ret":
			trace = append(trace, fmt.Sprintf("x%d", a.th))
			finished[a.th] = true
		case "run.started":
			trace = append(trace, "S")
		case "run.finished":
			finished[a.th] = true
		}
	}
	collect := func(d time.Duration) bool {
		select {
		case a := <-ctl.arrivals:
			note(a)
			return true
		case <-time.After(d):
			return false
		}
	}
	// initial arrivals: k stop threads at stop.before, run thread at run.before
	for i := 0; i < k+1; i++ {
		if !collect(5 * time.Second) {
			return nil, nil, fmt.Errorf("initial arrival missing")
		}
	}
	trace = trace[:0]
	step := func(th int) error {
		from := pos[th]
		pos[th] = ""
		parkedCount--
		ctl.release[th] <- struct{}{}
		blocking := from == "stop.afterFirst" || from == "stop.afterSecond"
		wait := 5 * time.Second
		if blocking {
			wait = 600 * time.Microsecond
		} else if th < k {
			wait = 60 * time.Millisecond
		}
		deadline := time.After(wait)
		var early []lcArrival
		arrived := false
	loop:
		for {
			select {
			case a := <-ctl.arrivals:
				if a.th == th {
					// the run goroutine's done() shows as its arrival at run.before / run.finished
					if th == k && from == "run.started" {
						trace = append(trace, "E")
					}
					note(a)
					arrived = true
					break loop
				}
				early = append(early, a)
			case <-deadline:
				break loop
			}
		}
		if !arrived && !blocking && th == k {
			return fmt.Errorf("thread %d released from %s did not arrive", th, from)
		}
		// a Stop thread that does not reach its next yield point although the code between the two does not
		// block in the model is recorded as blocked there (the acceptor's final comparison will say so);
		// its late arrival, if any, is still recorded when it happens
		for _, a := range early {
			note(a)
		}
		// settle: threads unblocked by this step arrive now
		for collect(300 * time.Microsecond) {
		}
		return nil
	}
	ci := 0
	for s := 0; s < sc.steps; s++ {
		var cand []int
		for th := 0; th <= k; th++ {
			if pos[th] != "" && !finished[th] {
				cand = append(cand, th)
			}
		}
		if len(cand) == 0 {
			break
		}
		var th int
		if ci < len(choices) {
			th = choices[ci]
			ok := false
			for _, c := range cand {
				if c == th {
					ok = true
				}
			}
			if !ok {
				th = cand[0]
			}
		} else {
			th = cand[r.IntN(len(cand))]
		}
		ci++
		made = append(made, th)
		if err := step(th); err != nil {
			return trace, made, err
		}
	}
	// final phase: let every Stop thread run as far as it can (one at a time), Run stays where it is
	for {
		moved := false
		for th := 0; th < k; th++ {
			if pos[th] != "" && !finished[th] {
				if err := step(th); err != nil {
					return trace, made, err
				}
				moved = true
			}
		}
		if !moved {
			break
		}
	}
	// quiescence: nothing arrives for a while
	for collect(3 * time.Millisecond) {
	}
	for th := 0; th < k; th++ { // late arrivals may have parked again
		for pos[th] != "" && !finished[th] {
			if err := step(th); err != nil {
				return trace, made, err
			}
		}
	}
	for collect(3 * time.Millisecond) {
	}
	stopClosed := 0
	select {
	case <-lc.StopCh():
		stopClosed = 1
	default:
	}
	var blocked []string
	for th := 0; th < k; th++ {
		if !finished[th] {
			blocked = append(blocked, strconv.Itoa(th))
		}
	}
	trace = append(trace, fmt.Sprintf("F%d:%s", stopClosed, strings.Join(blocked, ".")))
	// cleanup: free-run everything to termination
	ctl.mu.Lock()
	ctl.free = true
	ctl.mu.Unlock()
	for th := 0; th <= k; th++ {
		if pos[th] != "" {
			ctl.release[th] <- struct{}{}
		}
	}
	close(cleanupRuns)
	doneCh := make(chan struct{})
	go func() { wg.Wait(); close(doneCh) }()
	for {
		select {
		case <-doneCh:
			return trace, made, nil
		case a := <-ctl.arrivals:
			// a goroutine that was in flight when free mode was switched on
			ctl.release[a.th] <- struct{}{}
		case <-time.After(5 * time.Second):
			return trace, made, fmt.Errorf("cleanup did not terminate")
		}
	}
}

func runLifecycle(o Opts) {
	e := NewEmitter(o.Out, "lifecycle")
	defer e.Close(o.Out, "lifecycle", nil)
	ctl := &lcCtl{}
	lifecycle.VerifYield = func(_ *lifecycle.StartStop, point string) { ctl.yield(point) }
	r := newRand(o.Seed, 7)
	emit := func(sc lcScenario, choices []int, kind string) {
		tr, made, err := runLcScenario(ctl, sc, r, choices)
		if err != nil {
			fmt.Println("vh lifecycle: scenario error:", err)
			must(err)
		}
		ev := strings.Join(tr, " ")
		mk := make([]string, len(made))
		for i, c := range made {
			mk[i] = strconv.Itoa(c)
		}
		e.Stats["gen:"+kind]++
		e.Stats[fmt.Sprintf("k=%d", sc.k)]++
		e.Stats[fmt.Sprintf("m=%d", sc.m)]++
		// sched=<choices> is carried so that a failing case can be replayed; the driver ignores it
		e.Case(fmt.Sprintf("lcaccept %d sched=%s %s", sc.k, strings.Join(mk, "."), ev), "accepted")
		e.Case(fmt.Sprintf("c07holds %d sched=%s.m%d %s", sc.k, strings.Join(mk, "."), sc.m, ev), "true")
		// non-trivial: some Stop overlapped a Run (entered while a run was active or before it started)
		if strings.Contains(ev, "S") && strings.Contains(ev, "e") {
			e.Nontrivial(ev)
		}
		if strings.Contains(ev, "F0:") || strings.Contains(ev, "F1:") {
			if !strings.HasSuffix(ev, ":") {
				e.Stats["final:blocked_threads"]++
			}
		}
	}
	if o.Replay != "" {
		for _, l := range replayLines(o.Replay) {
			f := strings.Fields(l)
			if len(f) < 3 || !strings.HasPrefix(f[2], "sched=") {
				continue
			}
			k, _ := strconv.Atoi(f[1])
			var choices []int
			m := 4
			for _, c := range strings.Split(strings.TrimPrefix(f[2], "sched="), ".") {
				if strings.HasPrefix(c, "m") {
					m, _ = strconv.Atoi(c[1:])
				} else if c != "" {
					n, _ := strconv.Atoi(c)
					choices = append(choices, n)
				}
			}
			emit(lcScenario{k: k, m: m, steps: len(choices)}, choices, "replay")
		}
		return
	}
	// corpus: the overlap-with-next-cycle schedule (finding C07-F1, fixed) and the basic shapes
	emit(lcScenario{k: 1, m: 2, steps: 6}, []int{1, 0, 0, 1, 1, 0}, "corpus")
	emit(lcScenario{k: 1, m: 1, steps: 4}, []int{0, 1, 0, 0}, "corpus")
	emit(lcScenario{k: 2, m: 1, steps: 3}, []int{0, 1, 1}, "corpus")
	n := 1500
	if o.Thorough {
		n = 20000
	}
	if o.N > 0 {
		n = o.N
	}
	for i := 0; i < n; i++ {
		sc := lcScenario{k: 1 + r.IntN(4), m: 1 + r.IntN(4)}
		sc.steps = r.IntN(4*sc.k + 2*sc.m + 2)
		emit(sc, nil, "random")
	}
}
