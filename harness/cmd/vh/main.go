// Command vh is the correspondence harness (tie T2): it runs the real go-supervisor code on
// generated inputs / scenarios and writes (a) the request lines for the Lean driver and (b) what
// the implementation answered, so that the orchestrator can diff the two streams.
package main

import (
	"bufio"
	"encoding/hex"
	"encoding/json"
	"flag"
	"fmt"
	"math/rand/v2"
	"os"
	"path/filepath"
	"sort"
)

// Emitter writes request lines (for the Lean driver) and implementation answers side by side.
type Emitter struct {
	in, out  *bufio.Writer
	fin, fo  *os.File
	N        int
	Stats    map[string]int
	Samples  []string
	seen     map[string]struct{}
	Distinct int
}

func NewEmitter(dir, name string) *Emitter {
	must(os.MkdirAll(dir, 0o755))
	fin, err := os.Create(filepath.Join(dir, name+".in"))
	must(err)
	fo, err := os.Create(filepath.Join(dir, name+".impl"))
	must(err)
	return &Emitter{in: bufio.NewWriterSize(fin, 1<<20), out: bufio.NewWriterSize(fo, 1<<20), fin: fin, fo: fo,
		Stats: map[string]int{}, seen: map[string]struct{}{}}
}

// Case records one request and the implementation's canonical answer.
func (e *Emitter) Case(req, ans string) {
	fmt.Fprintln(e.in, req)
	fmt.Fprintln(e.out, ans)
	e.N++
}

// Nontrivial counts a distinct non-trivial case (by key) and keeps a few samples.
func (e *Emitter) Nontrivial(key string) {
	if _, ok := e.seen[key]; ok {
		return
	}
	e.seen[key] = struct{}{}
	e.Distinct++
	if len(e.Samples) < 6 {
		e.Samples = append(e.Samples, key)
	}
}

func (e *Emitter) Close(dir, name string, extra map[string]any) {
	must(e.in.Flush())
	must(e.out.Flush())
	must(e.fin.Close())
	must(e.fo.Close())
	keys := make([]string, 0, len(e.Stats))
	for k := range e.Stats {
		keys = append(keys, k)
	}
	sort.Strings(keys)
	m := map[string]any{"cases": e.N, "distinct_nontrivial": e.Distinct, "distribution": e.Stats, "samples": e.Samples}
	for k, v := range extra {
		m[k] = v
	}
	b, err := json.MarshalIndent(m, "", " ")
	must(err)
	must(os.WriteFile(filepath.Join(dir, name+".stats.json"), b, 0o644))
}

func hx(s string) string {
	if s == "" {
		return "-"
	}
	return hex.EncodeToString([]byte(s))
}

func must(err error) {
	if err != nil {
		fmt.Fprintln(os.Stderr, "vh: fatal:", err)
		os.Exit(2)
	}
}

func newRand(seed uint64, stream uint64) *rand.Rand {
	return rand.New(rand.NewPCG(seed, stream))
}

type Opts struct {
	Seed     uint64
	Thorough bool
	Out      string
	N        int
	Replay   string
}

var commands = map[string]func(o Opts){}

func main() {
	if len(os.Args) < 2 {
		fmt.Fprintln(os.Stderr, "usage: vh <command> [flags]")
		os.Exit(2)
	}
	cmd := os.Args[1]
	fs := flag.NewFlagSet(cmd, flag.ExitOnError)
	var o Opts
	fs.Uint64Var(&o.Seed, "seed", 1, "PRNG seed (VERIF_SEED)")
	fs.BoolVar(&o.Thorough, "thorough", false, "thorough tier")
	fs.StringVar(&o.Out, "out", "", "output directory")
	fs.IntVar(&o.N, "n", 0, "case count override")
	fs.StringVar(&o.Replay, "replay", "", "replay file")
	must(fs.Parse(os.Args[2:]))
	f, ok := commands[cmd]
	if !ok {
		fmt.Fprintln(os.Stderr, "vh: unknown command", cmd)
		os.Exit(2)
	}
	if o.Out == "" {
		fmt.Fprintln(os.Stderr, "vh: --out required")
		os.Exit(2)
	}
	f(o)
}

func hexDecode(s string) ([]byte, error) {
	if s == "-" {
		return nil, nil
	}
	return hex.DecodeString(s)
}

// replayLines returns the request lines stored in a replay file.
func replayLines(path string) []string {
	b, err := os.ReadFile(path)
	must(err)
	var rp struct {
		Inputs []string `json:"inputs"`
	}
	must(json.Unmarshal(b, &rp))
	return rp.Inputs
}
