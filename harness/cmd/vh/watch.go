package main

import (
	"context"
	"log/slog"
	"strings"
	"sync"
	"time"
)

// stateWatcher observes a runnable's state stream with two subscribers: one from the start, one
// joining later (C08).
type stateWatcher struct {
	mu       sync.Mutex
	ss, sb   []string
	cancelA  context.CancelFunc
	cancelB  context.CancelFunc
	doneA    chan struct{}
	doneB    chan struct{}
	bStarted chan struct{}
	// a burst of subscribers joining at staggered instants while the runnable goes through its first
	// transitions: each must see the state current at its subscription and then every later change
	sx      [][]string
	cancelX []context.CancelFunc
	doneX   []chan struct{}
}

const burstSubscribers = 24

func watchStates(getChan func(context.Context) <-chan string, lateAfter time.Duration) *stateWatcher {
	w := &stateWatcher{doneA: make(chan struct{}), doneB: make(chan struct{}), bStarted: make(chan struct{})}
	ctxA, ca := context.WithCancel(context.Background())
	w.cancelA = ca
	chA := getChan(ctxA)
	go func() {
		for s := range chA {
			w.mu.Lock()
			w.ss = append(w.ss, s)
			w.mu.Unlock()
		}
		close(w.doneA)
	}()
	w.sx = make([][]string, burstSubscribers)
	for k := 0; k < burstSubscribers; k++ {
		c, cf := context.WithCancel(context.Background())
		d := make(chan struct{})
		w.cancelX = append(w.cancelX, cf)
		w.doneX = append(w.doneX, d)
		go func(k int) {
			defer close(d)
			t := time.NewTimer(time.Duration(k*35) * time.Microsecond)
			select {
			case <-t.C:
			case <-c.Done():
				return
			}
			for s := range getChan(c) {
				w.mu.Lock()
				w.sx[k] = append(w.sx[k], s)
				w.mu.Unlock()
			}
		}(k)
	}
	ctxB, cb := context.WithCancel(context.Background())
	w.cancelB = cb
	go func() {
		select {
		case <-time.After(lateAfter):
		case <-ctxB.Done():
			close(w.bStarted)
			close(w.doneB)
			return
		}
		chB := getChan(ctxB)
		close(w.bStarted)
		for s := range chB {
			w.mu.Lock()
			w.sb = append(w.sb, s)
			w.mu.Unlock()
		}
		close(w.doneB)
	}()
	return w
}

// finish cancels both subscriptions and reports the streams and whether both channels were closed.
func (w *stateWatcher) finish() (ss, sb string, closed bool) {
	time.Sleep(5 * time.Millisecond) // let the last broadcast arrive
	w.cancelA()
	w.cancelB()
	for _, c := range w.cancelX {
		c()
	}
	closed = true
	for _, d := range append([]chan struct{}{w.doneA, w.doneB}, w.doneX...) {
		select {
		case <-d:
		case <-time.After(2 * time.Second):
			closed = false
		}
	}
	w.mu.Lock()
	defer w.mu.Unlock()
	return strings.Join(w.ss, ">"), strings.Join(w.sb, ">"), closed
}

func streamLine(w *stateWatcher, ret string, single bool) string {
	ss, sb, closed := w.finish()
	c, s := 0, 0
	if closed {
		c = 1
	}
	if single {
		s = 1
	}
	if ret == "" {
		ret = "none"
	}
	w.mu.Lock()
	seen := map[string]bool{}
	var xs []string
	for _, x := range w.sx {
		j := strings.Join(x, ">")
		if j != "" && !seen[j] {
			seen[j] = true
			xs = append(xs, j)
		}
	}
	w.mu.Unlock()
	sx := "none"
	if len(xs) > 0 {
		sx = strings.Join(xs, "|")
	}
	return "c08streamholds ss=" + ss + " sb=" + sb + " sx=" + sx + " ret=" + ret + " closed=" + itoa(c) + " single=" + itoa(s)
}

func itoa(i int) string {
	if i == 0 {
		return "0"
	}
	return "1"
}

// publishDelay wraps the log handler given to a runner.  go-fsm's broadcast manager builds its logger
// (`With("state", <new state>)`) at the very beginning of every publication, before it takes its own lock:
// sleeping there delays the publication of the chosen states.  With the library's FSM wrapper the publication
// happens inside the state machine's write lock, so a delay only slows the transition down; a wrapper that
// published outside that lock would let a second goroutine's change overtake the delayed one, and the state
// stream would show the two out of order.
type publishDelay struct {
	inner  slog.Handler
	states map[string]time.Duration
}

func (h publishDelay) Enabled(c context.Context, l slog.Level) bool { return h.inner.Enabled(c, l) }
func (h publishDelay) Handle(c context.Context, r slog.Record) error { return h.inner.Handle(c, r) }
func (h publishDelay) WithGroup(n string) slog.Handler              { return publishDelay{h.inner.WithGroup(n), h.states} }
func (h publishDelay) WithAttrs(as []slog.Attr) slog.Handler {
	for _, a := range as {
		if a.Key == "state" {
			if d, ok := h.states[a.Value.String()]; ok {
				time.Sleep(d)
			}
		}
	}
	return publishDelay{h.inner.WithAttrs(as), h.states}
}
