package main

import (
	"context"
	"encoding/base64"
	"encoding/json"
	"fmt"
	"net/http"
	"strings"
	"sync"
	"time"

	"github.com/robbyt/go-supervisor/runnables/composite"
	"github.com/robbyt/go-supervisor/runnables/httpcluster"
	"github.com/robbyt/go-supervisor/runnables/httpserver"
	"github.com/robbyt/go-supervisor/supervisor"
	"github.com/robbyt/go-supervisor/supervisor/lifecycle"
)

// C07 lifted to the bundled runnables: for a composite, an HTTP server and an HTTP cluster, every ordering
// of Run(), one or more Stop() callers, a Reload() before Run(), and a context cancelled before or after
// Run(): a Stop() returns only after the Run() has returned, and returns at all once a Run() was invoked.

func init() { commands["runstop"] = runRunStop }

type RsScenario struct {
	Kind string   `json:"kind"` // composite | http | cluster
	Ops  []string `json:"ops"`  // reload | run | stop | cancel | wait (5 ms); stops and run are asynchronous
}

type rsTarget struct {
	run    func(context.Context) error
	stop   func()
	reload func()
}

func rsMake(kind string) rsTarget {
	switch kind {
	case "compositefail":
		// a child that fails 30 ms after it started and a sibling whose Run needs 400 ms to return once it is told to
		// stop: the composite's Run() is busy tearing down (state Error) for that long
		slow := &lcChild{name: "slow", lc: lifecycle.New(), lingerMs: 400}
		bad := &lcChild{name: "bad", lc: lifecycle.New(), failAfterMs: 30}
		cb := func() (*composite.Config[supervisor.Runnable], error) {
			return composite.NewConfig("c", []composite.RunnableEntry[supervisor.Runnable]{{Runnable: slow, Config: 1}, {Runnable: bad, Config: 1}})
		}
		rn, err := composite.NewRunner(cb, composite.WithLogHandler[supervisor.Runnable](quietLog))
		must(err)
		return rsTarget{rn.Run, rn.Stop, func() { rn.Reload(context.Background()) }}
	case "composite":
		children := []supervisor.Runnable{&lcChild{name: "a", lc: lifecycle.New()}, &lcChild{name: "b", lc: lifecycle.New()}}
		cb := func() (*composite.Config[supervisor.Runnable], error) {
			var es []composite.RunnableEntry[supervisor.Runnable]
			for _, c := range children {
				es = append(es, composite.RunnableEntry[supervisor.Runnable]{Runnable: c, Config: 1})
			}
			return composite.NewConfig("c", es)
		}
		rn, err := composite.NewRunner(cb, composite.WithLogHandler[supervisor.Runnable](quietLog))
		must(err)
		return rsTarget{rn.Run, rn.Stop, func() { rn.Reload(context.Background()) }}
	case "http":
		addr := freeAddr()
		rt, _ := httpserver.NewRouteFromHandlerFunc("r", "/", func(w http.ResponseWriter, _ *http.Request) {})
		cb := func() (*httpserver.Config, error) {
			return httpserver.NewConfig(addr, httpserver.Routes{*rt}, httpserver.WithDrainTimeout(50*time.Millisecond))
		}
		rn, err := httpserver.NewRunner(httpserver.WithConfigCallback(cb), httpserver.WithLogHandler(quietLog))
		must(err)
		return rsTarget{rn.Run, rn.Stop, func() { rn.Reload(context.Background()) }}
	default:
		rn, err := httpcluster.NewRunner(httpcluster.WithLogHandler(quietLog))
		must(err)
		return rsTarget{rn.Run, rn.Stop, func() {
			select {
			case rn.GetConfigSiphon() <- map[string]*httpserver.Config{}:
			case <-time.After(5 * time.Millisecond):
			}
		}}
	}
}

func runRsScenario(sc RsScenario) string {
	t := rsMake(sc.Kind)
	rec := &evRec{t0: time.Now()}
	ctx, cancel := context.WithCancel(context.Background())
	defer cancel()
	var wg sync.WaitGroup
	stops, runs := 0, 0
	for _, o := range sc.Ops {
		switch o {
		case "reload":
			t.reload()
			rec.add("L")
		case "run":
			k := runs
			runs++
			wg.Add(1)
			go func() {
				defer wg.Done()
				rec.add("RI%d", k)
				err := t.run(ctx)
				cls := "nil"
				if err != nil {
					cls = "err"
				}
				rec.add("RR%d:%s", k, cls)
			}()
			time.Sleep(2 * time.Millisecond)
		case "stop":
			k := stops
			stops++
			wg.Add(1)
			go func() {
				defer wg.Done()
				rec.add("SC%d", k)
				t.stop()
				rec.add("SR%d", k)
			}()
			time.Sleep(2 * time.Millisecond)
		case "cancel":
			rec.add("CX")
			cancel()
		case "wait":
			time.Sleep(5 * time.Millisecond)
		case "longwait":
			time.Sleep(400 * time.Millisecond)
		}
	}
	done := make(chan struct{})
	go func() { wg.Wait(); close(done) }()
	hung := false
	select {
	case <-done:
	case <-time.After(4 * time.Second):
		hung = true
	}
	evs, _ := rec.snapshot()
	// A Stop() returns when the Run() has executed its deferred done(); the Run() call itself returns to its caller
	// (where RR is recorded) a moment later.  Each SR carries how long after it the RR was recorded (ms; 0 if before;
	// x if the Run() never returned): the oracle allows a scheduling delay, not a Run() that is still at work.
	rec.mu.Lock()
	ts := append([]time.Duration(nil), rec.ts...)
	rec.mu.Unlock()
	var rr time.Duration = -1
	for i, e := range evs {
		if strings.HasPrefix(e, "RR") {
			rr = ts[i]
			break
		}
	}
	for i, e := range evs {
		if strings.HasPrefix(e, "SR") {
			switch {
			case rr < 0:
				evs[i] = e + ":x"
			case rr <= ts[i]:
				evs[i] = e + ":0"
			default:
				evs[i] = fmt.Sprintf("%s:%d", e, (rr - ts[i]).Milliseconds())
			}
		}
	}
	b, _ := json.Marshal(sc)
	return fmt.Sprintf("c07liftholds kind=%s ops=%s hung=%v scn~%s %s", sc.Kind, strings.Join(sc.Ops, ","), hung,
		base64.RawURLEncoding.EncodeToString(b), strings.Join(evs, " "))
}

var rsOrders = [][]string{
	{"run", "wait", "stop"},
	{"run", "wait", "stop", "stop"},
	{"stop", "wait", "run"},
	{"stop", "stop", "longwait", "run"},
	{"stop", "wait", "stop", "longwait", "run"},
	{"reload", "run", "wait", "stop"},
	{"reload", "stop", "wait", "run"},
	{"cancel", "run", "wait", "stop"},
	{"run", "wait", "cancel", "stop"},
	{"stop", "cancel", "wait", "run"},
	{"run", "stop"},
	{"run", "wait", "reload", "stop", "stop"},
}

func runRunStop(o Opts) {
	e := NewEmitter(o.Out, "runstop")
	defer e.Close(o.Out, "runstop", nil)
	var jobs []RsScenario
	if o.Replay != "" {
		for _, l := range replayLines(o.Replay) {
			for _, w := range strings.Fields(l) {
				if strings.HasPrefix(w, "scn~") {
					b, err := base64.RawURLEncoding.DecodeString(strings.TrimPrefix(w, "scn~"))
					must(err)
					var sc RsScenario
					must(json.Unmarshal(b, &sc))
					jobs = append(jobs, sc)
				}
			}
		}
	} else {
		reps := 1
		if o.Thorough {
			reps = 20
		}
		for r := 0; r < reps; r++ {
			for _, k := range []string{"composite", "http", "cluster"} {
				for _, ops := range rsOrders {
					jobs = append(jobs, RsScenario{Kind: k, Ops: ops})
				}
			}
			// Stop() while Run() is tearing down after a child's failure
			jobs = append(jobs, RsScenario{Kind: "compositefail", Ops: []string{"run", "wait", "wait", "wait", "wait", "wait", "wait", "wait", "wait", "wait", "wait", "stop"}})
			jobs = append(jobs, RsScenario{Kind: "compositefail", Ops: []string{"run", "wait", "wait", "wait", "wait", "wait", "wait", "wait", "wait", "wait", "wait", "wait", "wait", "stop", "stop"}})
		}
		rnd := newRand(o.Seed, 7)
		n := 30
		if o.Thorough {
			n = 600
		}
		for i := 0; i < n; i++ { // random orders with exactly one run
			var ops []string
			runAt := rnd.IntN(4)
			for j := 0; j < 5; j++ {
				if j == runAt {
					ops = append(ops, "run")
				}
				ops = append(ops, pick(rnd, []string{"stop", "stop", "wait", "reload", "cancel", "longwait"}))
			}
			if !in(ops, "stop") {
				ops = append(ops, "stop")
			}
			jobs = append(jobs, RsScenario{Kind: pick(rnd, []string{"composite", "http", "cluster"}), Ops: ops})
		}
	}
	lines := make([]string, len(jobs))
	var wg sync.WaitGroup
	sem := make(chan struct{}, 8)
	for i := range jobs {
		wg.Add(1)
		sem <- struct{}{}
		go func(i int) {
			defer wg.Done()
			defer func() { <-sem }()
			lines[i] = runRsScenario(jobs[i])
		}(i)
	}
	wg.Wait()
	for _, l := range lines {
		e.Case(l, "true")
		f := strings.Fields(l)
		e.Stats[f[1]]++
		e.Nontrivial(f[1] + " " + f[2])
	}
}
