package main

import (
	"context"
	"errors"
	"fmt"
	"net/http"
	"sort"
	"strconv"
	"strings"
	"sync"
	"time"

	"github.com/robbyt/go-supervisor/runnables/composite"
	"github.com/robbyt/go-supervisor/runnables/httpcluster"
	"github.com/robbyt/go-supervisor/runnables/httpserver"
	"github.com/robbyt/go-supervisor/supervisor"
)

func init() {
	commands["equal"] = runEqual
	commands["member"] = runMember
	commands["errclass"] = runErrClass
	commands["planner"] = runPlanner
}

// ---------------------------------------------------------------- C13: Config.Equal

type rt struct{ name, path string }
type cfgSpec struct {
	addr                     string
	drain, read, write, idle int64
	routes                   []rt
}

func (c cfgSpec) enc() string {
	var rs []string
	for _, r := range c.routes {
		rs = append(rs, hx(r.name)+":"+hx(r.path))
	}
	r := "-"
	if len(rs) > 0 {
		r = strings.Join(rs, ",")
	}
	return fmt.Sprintf("%s;%d;%d;%d;%d;%s", hx(c.addr), c.drain, c.read, c.write, c.idle, r)
}

func (c cfgSpec) build() *httpserver.Config {
	var routes httpserver.Routes
	for _, r := range c.routes {
		route, err := httpserver.NewRouteFromHandlerFunc(r.name, r.path, func(http.ResponseWriter, *http.Request) {})
		must(err)
		routes = append(routes, *route)
	}
	cfg, err := httpserver.NewConfig(c.addr, routes,
		httpserver.WithDrainTimeout(time.Duration(c.drain)), httpserver.WithReadTimeout(time.Duration(c.read)),
		httpserver.WithWriteTimeout(time.Duration(c.write)), httpserver.WithIdleTimeout(time.Duration(c.idle)))
	if err != nil {
		// route sets the ServeMux would reject (duplicate or conflicting patterns) are refused by NewConfig since the
		// C19 repair; Equal is defined on any Config value, so those are compared as plain values
		return &httpserver.Config{ListenAddr: c.addr, Routes: routes, DrainTimeout: time.Duration(c.drain), ReadTimeout: time.Duration(c.read),
			WriteTimeout: time.Duration(c.write), IdleTimeout: time.Duration(c.idle)}
	}
	return cfg
}

var eqNames = []string{"a", "b", "c", "a b", "b c", "v1", "v2", "", "é"}
var eqPaths = []string{"/", "/a", "/b", "/c", "/a/", "GET /a", "/x y"}
var eqAddrs = []string{":8080", ":8081", "localhost:8080", "127.0.0.1:0"}

func genCfg(r interface{ IntN(int) int }, distinct bool) cfgSpec {
	c := cfgSpec{addr: eqAddrs[r.IntN(len(eqAddrs))], drain: int64(1 + r.IntN(3)), read: int64(1 + r.IntN(2)), write: int64(1 + r.IntN(2)), idle: int64(1 + r.IntN(2))}
	n := 1 + r.IntN(4)
	perm := make([]int, len(eqPaths))
	for i := range perm {
		perm[i] = i
	}
	for i := len(perm) - 1; i > 0; i-- {
		j := r.IntN(i + 1)
		perm[i], perm[j] = perm[j], perm[i]
	}
	for i := 0; i < n; i++ {
		p := eqPaths[perm[i]]
		if !distinct && r.IntN(3) == 0 {
			p = eqPaths[r.IntN(len(eqPaths))]
		}
		name := eqNames[r.IntN(len(eqNames))]
		if name == "" {
			name = "n" + strconv.Itoa(i)
		}
		c.routes = append(c.routes, rt{name, p})
	}
	return c
}

func mutateCfg(r interface{ IntN(int) int }, c cfgSpec) (cfgSpec, string) {
	d := c
	d.routes = append([]rt{}, c.routes...)
	switch k := r.IntN(12); k {
	case 0:
		d.addr = eqAddrs[r.IntN(len(eqAddrs))]
		return d, "addr"
	case 1:
		d.drain++
		return d, "drain"
	case 2:
		d.read++
		return d, "read"
	case 3:
		d.write++
		return d, "write"
	case 4:
		d.idle++
		return d, "idle"
	case 5:
		i := r.IntN(len(d.routes))
		d.routes[i].name = eqNames[r.IntN(6)]
		return d, "name"
	case 6:
		i := r.IntN(len(d.routes))
		d.routes[i].path = eqPaths[r.IntN(len(eqPaths))]
		return d, "path"
	case 7: // permute
		for i := len(d.routes) - 1; i > 0; i-- {
			j := r.IntN(i + 1)
			d.routes[i], d.routes[j] = d.routes[j], d.routes[i]
		}
		return d, "order"
	case 8: // swap the names of two routes (same name set, same path set, different assignment)
		if len(d.routes) >= 2 {
			i, j := r.IntN(len(d.routes)), r.IntN(len(d.routes))
			d.routes[i].name, d.routes[j].name = d.routes[j].name, d.routes[i].name
		}
		return d, "swap_names"
	case 9:
		d.routes = append(d.routes, rt{eqNames[r.IntN(6)], eqPaths[r.IntN(len(eqPaths))]})
		return d, "add_route"
	case 10:
		if len(d.routes) > 1 {
			d.routes = d.routes[:len(d.routes)-1]
		}
		return d, "drop_route"
	}
	return d, "same"
}

func equalCase(e *Emitter, a, b cfgSpec, kind string) {
	res := a.build().Equal(b.build())
	e.Stats["gen:"+kind]++
	e.Stats[fmt.Sprintf("out:%v", res)]++
	e.Case("equal "+a.enc()+" "+b.enc(), strconv.FormatBool(res))
	e.Case("c13equalholds "+a.enc()+" "+b.enc()+" "+strconv.FormatBool(res), "true")
	if kind != "same" {
		e.Nontrivial(a.enc() + " " + b.enc())
	}
}

func runEqual(o Opts) {
	e := NewEmitter(o.Out, "equal")
	defer e.Close(o.Out, "equal", nil)
	r := newRand(o.Seed, 13)
	n := 20000
	if o.Thorough {
		n = 200000
	}
	for i := 0; i < n; i++ {
		a := genCfg(r, r.IntN(5) != 0)
		b, kind := mutateCfg(r, a)
		for k := r.IntN(3); k > 0; k-- {
			var k2 string
			b, k2 = mutateCfg(r, b)
			kind = kind + "+" + k2
		}
		if r.IntN(10) == 0 {
			b = genCfg(r, true)
			kind = "independent"
		}
		equalCase(e, a, b, kind)
		equalCase(e, b, a, kind+"(sym)")
	}
}

// ---------------------------------------------------------------- C11: hasMembershipChanged

type namedRunnable struct{ name string }

func (n namedRunnable) String() string            { return n.name }
func (n namedRunnable) Run(context.Context) error { return nil }
func (n namedRunnable) Stop()                     {}

func encNames(l []string) string {
	if len(l) == 0 {
		return "-"
	}
	h := make([]string, len(l))
	for i, s := range l {
		h[i] = hx(s)
		if s == "" {
			h[i] = "-"
		}
	}
	return strings.Join(h, ",")
}

func memberCase(e *Emitter, old, new []string, kind string) {
	mk := func(l []string) *composite.Config[supervisor.Runnable] {
		var rs []supervisor.Runnable
		for _, n := range l {
			rs = append(rs, namedRunnable{n})
		}
		c, err := composite.NewConfigFromRunnables("c", rs, nil)
		must(err)
		return c
	}
	res := composite.VerifHasMembershipChanged(mk(old), mk(new))
	e.Stats["gen:"+kind]++
	e.Stats[fmt.Sprintf("out:%v", res)]++
	e.Case("member "+encNames(old)+" "+encNames(new), strconv.FormatBool(res))
	e.Case("c11memberholds "+encNames(old)+" "+encNames(new)+" "+strconv.FormatBool(res), "true")
	if len(old)+len(new) > 0 {
		e.Nontrivial(encNames(old) + " " + encNames(new))
	}
}

func runMember(o Opts) {
	e := NewEmitter(o.Out, "member")
	defer e.Close(o.Out, "member", nil)
	pool := []string{"a", "b", "c", "d", "ab"}
	// exhaustive: all pairs of duplicate-free lists (as ordered lists) up to length 3 over a 4-name pool,
	// plus all lists with duplicates up to length 2/3
	var lists [][]string
	var rec func(prefix []string, max int)
	rec = func(prefix []string, max int) {
		lists = append(lists, append([]string{}, prefix...))
		if len(prefix) == max {
			return
		}
		for _, n := range pool[:4] {
			rec(append(prefix, n), max)
		}
	}
	maxL := 2
	if o.Thorough {
		maxL = 3
	}
	rec(nil, maxL)
	for _, a := range lists {
		for _, b := range lists {
			memberCase(e, a, b, "exhaustive")
		}
	}
	r := newRand(o.Seed, 11)
	n := 5000
	if o.Thorough {
		n = 50000
	}
	for i := 0; i < n; i++ {
		gen := func() []string {
			l := r.IntN(7)
			out := make([]string, 0, l)
			perm := r.Perm(len(pool))
			for j := 0; j < l; j++ {
				if j < len(pool) && r.IntN(4) != 0 {
					out = append(out, pool[perm[j]])
				} else {
					out = append(out, pool[r.IntN(len(pool))])
				}
			}
			return out
		}
		a := gen()
		b := gen()
		kind := "random"
		if r.IntN(3) == 0 { // permutation of a
			b = append([]string{}, a...)
			for i := len(b) - 1; i > 0; i-- {
				j := r.IntN(i + 1)
				b[i], b[j] = b[j], b[i]
			}
			kind = "permutation"
		}
		memberCase(e, a, b, kind)
	}
}

// ---------------------------------------------------------------- C04/C10: error classification

type customErr struct {
	claims bool
	inner  error
}

func (c customErr) Error() string { return "custom(" + c.inner.Error() + ")" }
func (c customErr) Unwrap() error { return c.inner }
func (c customErr) Is(t error) bool {
	return c.claims && t == context.Canceled
}

// genErr builds a random error tree and its encoding for the Lean driver.
func genErr(r interface{ IntN(int) int }, depth int) (error, string) {
	k := r.IntN(10)
	if depth <= 0 && k >= 4 {
		k = r.IntN(4)
	}
	switch {
	case k < 2:
		id := r.IntN(5)
		return fmt.Errorf("leaf%d", id), "L" + strconv.Itoa(id)
	case k == 2:
		return context.Canceled, "C"
	case k == 3:
		return context.DeadlineExceeded, "D"
	case k < 6:
		e, s := genErr(r, depth-1)
		return fmt.Errorf("wrap: %w", e), "W(" + s + ")"
	case k < 8:
		a, sa := genErr(r, depth-1)
		b, sb := genErr(r, depth-1)
		if r.IntN(2) == 0 {
			return errors.Join(a, b), "J(" + sa + "," + sb + ")"
		}
		return fmt.Errorf("%w and %w", a, b), "J(" + sa + "," + sb + ")"
	default:
		e, s := genErr(r, depth-1)
		c := r.IntN(2) == 0
		f := "0"
		if c {
			f = "1"
		}
		return customErr{c, e}, "X" + f + "(" + s + ")"
	}
}

func runErrClass(o Opts) {
	e := NewEmitter(o.Out, "errclass")
	defer e.Close(o.Out, "errclass", nil)
	r := newRand(o.Seed, 4)
	n := 30000
	if o.Thorough {
		n = 300000
	}
	for i := 0; i < n; i++ {
		err, enc := genErr(r, 1+r.IntN(6))
		res := errors.Is(err, context.Canceled) || errors.Is(err, context.DeadlineExceeded)
		e.Stats[fmt.Sprintf("out:%v", res)]++
		e.Stats[fmt.Sprintf("depth:%d", strings.Count(enc, "("))]++
		e.Case("iscancel "+enc, strconv.FormatBool(res))
		if strings.Contains(enc, "(") {
			e.Nontrivial(enc)
		}
	}
}

// ---------------------------------------------------------------- C16: planner

type planEntry struct {
	key, id string
	cfg     int
	runner  int // -1 none
	action  string
}

func encEntries(es []planEntry) string {
	if len(es) == 0 {
		return "-"
	}
	s := make([]string, len(es))
	for i, e := range es {
		rn := "-"
		if e.runner >= 0 {
			rn = strconv.Itoa(e.runner)
		}
		s[i] = fmt.Sprintf("%s:%s:%d:%s:%s", hx(e.key), hx(e.id), e.cfg, rn, e.action)
	}
	return strings.Join(s, ",")
}

var planCfgs = map[int]*httpserver.Config{}
var planCfgMu sync.Mutex

func planCfg(i int) *httpserver.Config {
	planCfgMu.Lock()
	defer planCfgMu.Unlock()
	if c, ok := planCfgs[i]; ok {
		return c
	}
	c := cfgSpec{addr: fmt.Sprintf("127.0.0.1:%d", 9000+i), drain: 1, read: 1, write: 1, idle: 1, routes: []rt{{"r", "/"}}}.build()
	planCfgs[i] = c
	return c
}

func cfgIndex(c *httpserver.Config) int {
	_, p, _ := strings.Cut(c.ListenAddr, ":")
	n, _ := strconv.Atoi(p)
	return n - 9000
}

func planCase(e *Emitter, cur []planEntry, des map[string]int, nilIDs []string, kind string) {
	// the shim cannot carry instance numbers; the harness keeps them by key
	var in []httpcluster.VerifEntry
	inst := map[string]int{}
	for _, c := range cur {
		in = append(in, httpcluster.VerifEntry{Key: c.key, ID: c.id, Config: planCfg(c.cfg), HasRunner: c.runner >= 0, Action: c.action})
		inst[c.id] = c.runner
	}
	d := map[string]*httpserver.Config{}
	var desEnc []string
	keys := make([]string, 0, len(des))
	for k := range des {
		keys = append(keys, k)
	}
	sort.Strings(keys)
	for _, k := range keys {
		d[k] = planCfg(des[k])
		desEnc = append(desEnc, hx(k)+":"+strconv.Itoa(des[k]))
	}
	for _, k := range nilIDs {
		if _, ok := d[k]; !ok {
			d[k] = nil
		}
	}
	pend, toStart, toStop, comm := httpcluster.VerifPlan(in, d)
	conv := func(vs []httpcluster.VerifEntry) []planEntry {
		out := make([]planEntry, len(vs))
		for i, v := range vs {
			rn := -1
			if v.HasRunner {
				rn = inst[v.ID]
			}
			out[i] = planEntry{v.Key, v.ID, cfgIndex(v.Config), rn, v.Action}
		}
		return out
	}
	sortEnc := func(es []planEntry) string {
		if len(es) == 0 {
			return "-"
		}
		parts := strings.Split(encEntries(es), ",")
		sort.Strings(parts)
		return strings.Join(parts, ",")
	}
	ids := func(l []string) string {
		if len(l) == 0 {
			return "-"
		}
		h := make([]string, len(l))
		for i, s := range l {
			h[i] = hx(s)
		}
		sort.Strings(h)
		return strings.Join(h, ",")
	}
	out := fmt.Sprintf("P=%s S=%s T=%s C=%s", sortEnc(conv(pend)), ids(toStart), ids(toStop), sortEnc(conv(comm)))
	de := "-"
	if len(desEnc) > 0 {
		de = strings.Join(desEnc, ",")
	}
	e.Stats["gen:"+kind]++
	clash := false
	for _, c := range cur {
		if _, ok := des[c.key+":stop"]; ok {
			clash = true
		}
		for _, c2 := range cur {
			if c2.key == c.key+":stop" {
				clash = true
			}
		}
	}
	if clash {
		// the result may depend on Go's map iteration order: membership in the model's result set
		e.Stats["clash"]++
		e.Case("planany "+encEntries(cur)+" "+de+" "+out, "true")
	} else {
		e.Case("plan "+encEntries(cur)+" "+de, out)
	}
	e.Case("c16planholds "+encEntries(cur)+" "+de+" "+out, "true")
	if len(toStart)+len(toStop) > 0 {
		e.Nontrivial(encEntries(cur) + " " + de)
	}
}

func runPlanner(o Opts) {
	e := NewEmitter(o.Out, "planner")
	defer e.Close(o.Out, "planner", nil)
	ids := []string{"a", "b", "a:stop", "a:stop:stop", "b:stop", "", ":stop", "ab", "a:", "stop"}
	r := newRand(o.Seed, 16)
	// corpus
	planCase(e, []planEntry{{"a", "a", 1, 10, "none"}}, map[string]int{"a": 2}, nil, "corpus")
	planCase(e, []planEntry{{"a", "a", 1, 10, "none"}}, map[string]int{"a": 2, "a:stop": 3}, nil, "corpus")
	planCase(e, []planEntry{{"a", "a", 1, 10, "none"}, {"a:stop", "a:stop", 2, 11, "none"}}, map[string]int{"a": 3, "a:stop": 2}, nil, "corpus")
	planCase(e, []planEntry{{"a", "a", 1, 10, "none"}}, map[string]int{}, []string{"a"}, "corpus")
	n := 20000
	if o.Thorough {
		n = 200000
	}
	for i := 0; i < n; i++ {
		pool := ids
		kind := "random"
		if r.IntN(3) != 0 { // mostly clash-free pools
			pool = []string{"a", "b", "ab", "", "a:", "stop", "c"}
			kind = "random_noclash"
		}
		var cur []planEntry
		used := map[string]bool{}
		nc := r.IntN(4)
		for j := 0; j < nc; j++ {
			id := pool[r.IntN(len(pool))]
			if used[id] {
				continue
			}
			used[id] = true
			rn := 10 + j
			if r.IntN(8) == 0 {
				rn = -1 // a committed entry without runner does not occur in practice but is allowed
			}
			cur = append(cur, planEntry{id, id, r.IntN(3), rn, "none"})
		}
		des := map[string]int{}
		var nils []string
		nd := r.IntN(4)
		for j := 0; j < nd; j++ {
			id := pool[r.IntN(len(pool))]
			if r.IntN(6) == 0 {
				nils = append(nils, id)
				continue
			}
			des[id] = r.IntN(3)
		}
		planCase(e, cur, des, nils, kind)
	}
}
