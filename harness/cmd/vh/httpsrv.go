package main

import (
	"context"
	"encoding/base64"
	"encoding/json"
	"errors"
	"fmt"
	"io"
	"log/slog"
	"net"
	"net/http"
	"os"
	"sort"
	"strings"
	"sync"
	"sync/atomic"
	"time"

	"github.com/robbyt/go-supervisor/runnables/httpserver"
)

func init() { commands["httpsrv"] = runHTTPSrv }

type HRoute struct {
	Name string `json:"n"`
	Path string `json:"p"`
}

type HConfig struct {
	Kind    string   `json:"kind"` // ok | err | nil | busy (address held by a foreign listener)
	Addr    int      `json:"addr"` // index into the scenario's address table
	DrainMs int      `json:"drain"`
	ReadMs  int      `json:"read"`
	Routes  []HRoute `json:"routes"`
}

type HOp struct {
	Kind  string `json:"kind"`  // reload | stop | cancel | req:<durMs> (start a request that takes durMs, do not wait for it)
	AtMs  int    `json:"at"`    // only for concurrent mode: offset after the previous op started
	Async bool   `json:"async"` // do not wait for this op before the next one
}

type HScenario struct {
	Configs []HConfig `json:"configs"`
	Ops     []HOp     `json:"ops"`
	LateMs  int       `json:"lateMs"` // when the second state subscriber joins
	// Derive: every configuration after the first one handed out is built with WithConfigCopy(previous) in front of its
	// own options (the documented way to derive a configuration); the result must not differ from a plain NewConfig
	Derive bool `json:"derive,omitempty"`
}

type hResult struct {
	events []string
	hung   bool
	stream string
	clash  bool // the machine interfered (an address believed free was taken; a drain without requests timed out): run again
}

// freeAddr hands out loopback addresses below the kernel's ephemeral range (32768-60999): a port found by
// binding :0 can be taken again, before the scenario uses it, by any outgoing connection of the harness (its
// readiness probes and HTTP clients) or by a parallel scenario.  Ports are unique within the process and
// spread by pid across processes; each is bound once to make sure nobody holds it now.
var addrCounter atomic.Int64

// portSalt differs per process and per start: two harness processes running at once (parallel checks, sweeps) walk
// different sequences of ports instead of the same lattice
var portSalt = uint64(os.Getpid())*2654435761 + uint64(time.Now().UnixNano())

func freeAddr() string {
	for tries := 0; tries < 4000; tries++ {
		n := uint64(addrCounter.Add(1))
		x := (n + portSalt) * 0x9E3779B97F4A7C15
		x ^= x >> 29
		port := 12000 + int(x%19000)
		l, err := net.Listen("tcp", fmt.Sprintf("127.0.0.1:%d", port))
		if err != nil {
			continue
		}
		a := l.Addr().String()
		_ = l.Close()
		return a
	}
	l, err := net.Listen("tcp", "127.0.0.1:0")
	must(err)
	a := l.Addr().String()
	_ = l.Close()
	return a
}

// clashHandler notices "address already in use" in the runner's log while the configuration in force is one the
// scenario believes to be bindable: the machine, not the runner, is at fault and the scenario is run again.
type clashHandler struct {
	busyNow *atomic.Bool
	clash   *atomic.Bool
	noReqs  bool // the scenario has no in-flight requests: a drain can only time out because of the machine
}

func (h clashHandler) Enabled(context.Context, slog.Level) bool { return true }
func (h clashHandler) Handle(_ context.Context, r slog.Record) error {
	if h.noReqs && (r.Message == "Failed to stop server during reload" || strings.HasPrefix(r.Message, "Shutdown timeout reached")) {
		h.clash.Store(true)
	}
	if h.busyNow.Load() {
		return nil
	}
	r.Attrs(func(a slog.Attr) bool {
		if strings.Contains(a.Value.String(), "address already in use") {
			h.clash.Store(true)
		}
		return true
	})
	return nil
}
func (h clashHandler) WithAttrs([]slog.Attr) slog.Handler { return h }
func (h clashHandler) WithGroup(string) slog.Handler      { return h }

// recordingServer wraps the real http.Server so that creations and ListenAndServe calls are visible.
type recordingServer struct {
	httpserver.HttpServer
	id int
}

func runHTTPScenario(sc HScenario) hResult {
	rec := &evRec{t0: time.Now(), last: time.Now()}
	nAddr := 0
	for _, c := range sc.Configs {
		if c.Addr+1 > nAddr {
			nAddr = c.Addr + 1
		}
	}
	addrs := make([]string, nAddr)
	for i := range addrs {
		addrs[i] = freeAddr()
	}
	var foreign []net.Listener
	defer func() {
		for _, l := range foreign {
			_ = l.Close()
		}
	}()
	var created atomic.Int32
	var inflightWg sync.WaitGroup
	var inflight atomic.Int32
	var handling atomic.Int64 // requests that have entered a route handler
	var occMu sync.Mutex
	occupied := map[int]bool{}
	var busyNow, envClash atomic.Bool
	noReqs := true
	for _, op := range sc.Ops {
		if strings.HasPrefix(op.Kind, "req:") {
			noReqs = false
		}
	}
	var lastBuilt atomic.Pointer[httpserver.Config]
	mkConfig := func(ci int) (*httpserver.Config, error) {
		c := sc.Configs[ci]
		var routes httpserver.Routes
		for _, r := range c.Routes {
			name := r.Name
			rt, err := httpserver.NewRouteFromHandlerFunc(name, r.Path, func(w http.ResponseWriter, req *http.Request) {
				handling.Add(1) // the request has reached its handler: it is in flight
				if d := req.URL.Query().Get("sleep"); d != "" {
					ms := 0
					fmt.Sscanf(d, "%d", &ms)
					time.Sleep(time.Duration(ms) * time.Millisecond)
				}
				_, _ = io.WriteString(w, "route="+name+";"+strings.Repeat("x", 2000))
			})
			if err != nil {
				return nil, err
			}
			routes = append(routes, *rt)
		}
		creator := func(addr string, h http.Handler, cfg *httpserver.Config) httpserver.HttpServer {
			id := int(created.Add(1))
			rec.add("CR%d:%d:%d", id, c.Addr, ci)
			return recordingServer{httpserver.DefaultServerCreator(addr, h, cfg), id}
		}
		opts := []httpserver.ConfigOption{
			httpserver.WithDrainTimeout(time.Duration(c.DrainMs) * time.Millisecond),
			httpserver.WithReadTimeout(time.Duration(c.ReadMs) * time.Millisecond),
			httpserver.WithServerCreator(creator)}
		if prev := lastBuilt.Load(); sc.Derive && prev != nil {
			opts = append([]httpserver.ConfigOption{httpserver.WithConfigCopy(prev)}, opts...)
		}
		cfg, err := httpserver.NewConfig(addrs[c.Addr], routes, opts...)
		if err == nil {
			lastBuilt.Store(cfg)
		}
		return cfg, err
	}
	var cbCount atomic.Int32
	cb := func() (*httpserver.Config, error) {
		k := int(cbCount.Add(1)) - 1
		idx := k
		if idx >= len(sc.Configs) {
			idx = len(sc.Configs) - 1
		}
		c := sc.Configs[idx]
		switch c.Kind {
		case "err":
			rec.add("CB%d:err", k)
			return nil, errors.New("callback failed")
		case "nil":
			rec.add("CB%d:nil", k)
			return nil, nil
		case "busy":
			l, err := net.Listen("tcp", addrs[c.Addr])
			if err == nil {
				foreign = append(foreign, l)
			}
			occMu.Lock()
			occupied[c.Addr] = true
			occMu.Unlock()
		}
		occMu.Lock()
		busyNow.Store(occupied[c.Addr])
		occMu.Unlock()
		rec.add("CB%d:%d", k, idx)
		cfg, err := mkConfig(idx)
		must(err)
		return cfg, nil
	}
	runner, err := httpserver.NewRunner(httpserver.WithConfigCallback(cb), httpserver.WithLogHandler(clashHandler{&busyNow, &envClash, noReqs}))
	if err != nil {
		return hResult{events: []string{"NEWERR"}}
	}
	ctx, cancel := context.WithCancel(context.Background())
	defer cancel()
	watch := watchStates(runner.GetStateChan, time.Duration(sc.LateMs)*time.Millisecond)
	runDone := make(chan struct{})
	go func() {
		rec.add("RUN")
		res := runner.Run(ctx)
		cls := "nil"
		if res != nil {
			if strings.Contains(res.Error(), "address already in use") && (!busyNow.Load() || !errors.Is(res, httpserver.ErrServerBoot)) {
				// an address believed free was taken - or the bind error of an address that IS held by a foreign
				// listener arrived so late (the ListenAndServe goroutine was not scheduled for 100 ms) that the
				// readiness probe had already been answered by that listener: the machine, not the scenario; run again
				envClash.Store(true)
			}
			cls = "other"
			if errors.Is(res, httpserver.ErrGracefulShutdownTimeout) {
				cls = "drainTimeout"
			}
		}
		rec.addNow(func() string { return fmt.Sprintf("RET:%s:%s", cls, runner.GetState()) })
		close(runDone)
	}()
	for i := 0; i < 4000 && !runner.IsRunning(); i++ {
		select {
		case <-runDone:
			i = 4000
		default:
			time.Sleep(500 * time.Microsecond)
		}
	}
	client := &http.Client{Timeout: 3 * time.Second, Transport: &http.Transport{DisableKeepAlives: true}}
	activeCfg := func() int {
		// the configuration the runner must be serving: the last successfully delivered one
		evs, _ := rec.snapshot()
		last := 0
		for _, e := range evs {
			var k, v int
			if n, _ := fmt.Sscanf(e, "CB%d:%d", &k, &v); n == 2 {
				last = v
			}
		}
		return last
	}
	probe := func(tag string) {
		if !runner.IsRunning() {
			return
		}
		ci := activeCfg()
		c := sc.Configs[ci]
		ok := "ok"
		detail := ""
		conn, err := net.DialTimeout("tcp", addrs[c.Addr], time.Second)
		if err != nil {
			ok, detail = "fail", "dial"
		} else {
			_ = conn.Close()
			for _, r := range c.Routes {
				path := r.Path
				if i := strings.Index(path, " "); i >= 0 {
					path = path[i+1:]
				}
				resp, err := client.Get("http://" + addrs[c.Addr] + path)
				if err != nil {
					ok, detail = "fail", "get:"+r.Name
					break
				}
				b, _ := io.ReadAll(resp.Body)
				_ = resp.Body.Close()
				if !strings.HasPrefix(string(b), "route="+r.Name+";") {
					ok, detail = "fail", "wrongroute:"+r.Name
					break
				}
			}
		}
		if !runner.IsRunning() { // the state changed under the probe: not a statement about Running
			return
		}
		rec.add("PR%s:%s:%s", tag, ok, detail)
	}
	probe("i")
	reloadNo := 0
	var ops sync.WaitGroup
	var stopIssued atomic.Bool
	doOp := func(op HOp, k int) {
		switch {
		case op.Kind == "reload":
			rec.add("LC%d", k)
			before := activeCfg()
			runner.Reload(context.Background())
			rec.addNow(func() string { return fmt.Sprintf("LT%d:%s", k, runner.GetState()) })
			probe(fmt.Sprint(k))
			// the address of the configuration that was active before must be free if the address changed
			after := activeCfg()
			if runner.IsRunning() && sc.Configs[before].Addr != sc.Configs[after].Addr {
				l, err := net.Listen("tcp", addrs[sc.Configs[before].Addr])
				if err == nil {
					_ = l.Close()
					rec.add("OA%d:free", k)
				} else {
					rec.add("OA%d:busy", k)
				}
			}
		case op.Kind == "stop":
			stopIssued.Store(true)
			rec.add("TC")
			t0 := time.Now()
			runner.Stop()
			rec.add("TR:%d", time.Since(t0).Milliseconds())
			// a request that is still in flight some time after Stop() returned was not waited for (the pause covers
			// the moment between the server's last byte and the client noticing the end of the response)
			time.Sleep(20 * time.Millisecond)
			rec.add("SF:%d", inflight.Load())
		case op.Kind == "cancel":
			if stopIssued.Swap(true) {
				return
			}
			rec.add("CX")
			cancel()
			if !op.Async { // sequential history: the next operation comes after Run has reacted
				select {
				case <-runDone:
				case <-time.After(3 * time.Second):
				}
			}
		case strings.HasPrefix(op.Kind, "req:"):
			var dur int
			fmt.Sscanf(op.Kind, "req:%d", &dur)
			ci := activeCfg()
			c := sc.Configs[ci]
			if len(c.Routes) == 0 || !runner.IsRunning() || stopIssued.Load() {
				return
			}
			path := c.Routes[0].Path
			if i := strings.Index(path, " "); i >= 0 {
				path = path[i+1:]
			}
			started := make(chan struct{})
			inflightWg.Add(1)
			inflight.Add(1)
			go func() {
				defer inflightWg.Done()
				defer inflight.Add(-1)
				t0 := time.Now()
				// make sure the request is really in flight before the next operation: dial first
				conn, err := net.DialTimeout("tcp", addrs[c.Addr], time.Second)
				if err != nil {
					close(started)
					rec.add("RQ:%d:refused:0", dur)
					return
				}
				seen := handling.Load()
				fmt.Fprintf(conn, "GET %s?sleep=%d HTTP/1.1\r\nHost: x\r\nConnection: close\r\n\r\n", path, dur)
				// the next operation comes only when the server is serving this request (a connection that was accepted
				// but not yet read when the server is shut down is closed by net/http: not what these histories are about)
				for i := 0; i < 1500 && handling.Load() == seen; i++ {
					time.Sleep(200 * time.Microsecond)
				}
				time.Sleep(time.Millisecond)
				close(started)
				b, err := io.ReadAll(conn)
				_ = conn.Close()
				out := "aborted"
				if err == nil && strings.Contains(string(b), "route="+c.Routes[0].Name+";") && strings.HasSuffix(string(b), strings.Repeat("x", 50)) {
					out = "full"
				}
				rec.add("RQ:%d:%s:%d", dur, out, time.Since(t0).Milliseconds())
			}()
			<-started
		}
	}
	opsDone := make(chan struct{})
	go func() {
		for _, op := range sc.Ops {
			k := reloadNo
			if op.Kind == "reload" {
				reloadNo++
			}
			if op.AtMs > 0 {
				time.Sleep(time.Duration(op.AtMs) * time.Millisecond)
			}
			if op.Async {
				ops.Add(1)
				go func(op HOp, k int) { defer ops.Done(); doOp(op, k) }(op, k)
			} else {
				doOp(op, k)
			}
		}
		ops.Wait()
		close(opsDone)
	}()
	res := hResult{}
	wait := func(ch chan struct{}, d time.Duration) bool {
		select {
		case <-ch:
			return true
		case <-time.After(d):
			return false
		}
	}
	if !wait(opsDone, 12*time.Second) {
		res.hung = true
	}
	if !res.hung {
		select {
		case <-runDone:
		default:
			fin := make(chan struct{})
			go func() {
				rec.add("TC")
				t0 := time.Now()
				runner.Stop()
				rec.add("TR:%d", time.Since(t0).Milliseconds())
				close(fin)
			}()
			if !wait(fin, 8*time.Second) || !wait(runDone, 8*time.Second) {
				res.hung = true
			}
		}
	}
	if !res.hung {
		// released: every address ever used can be bound again at once
		used := map[int]bool{}
		evs, _ := rec.snapshot()
		for _, e := range evs {
			var id, a, ci int
			if n, _ := fmt.Sscanf(e, "CR%d:%d:%d", &id, &a, &ci); n == 3 {
				used[a] = true
			}
		}
		keys := make([]int, 0, len(used))
		for a := range used {
			keys = append(keys, a)
		}
		sort.Ints(keys)
		for _, l := range foreign {
			_ = l.Close()
		}
		foreign = nil
		for _, a := range keys {
			l, err := net.Listen("tcp", addrs[a])
			if err == nil {
				_ = l.Close()
				rec.add("RL%d:free", a)
			} else {
				rec.add("RL%d:busy", a)
			}
		}
		done := make(chan struct{})
		go func() { inflightWg.Wait(); close(done) }()
		wait(done, 3*time.Second)
	}
	res.events, _ = rec.snapshot()
	ret := ""
	for _, e := range res.events {
		if strings.HasPrefix(e, "RET:") {
			ret = strings.TrimPrefix(e, "RET:")
		}
	}
	async := false
	for _, op := range sc.Ops {
		async = async || op.Async
	}
	res.stream = streamLine(watch, ret, !async)
	res.clash = envClash.Load()
	return res
}

func hHeader(sc HScenario, r hResult) string {
	cfgs := make([]string, len(sc.Configs))
	for i, c := range sc.Configs {
		if c.Kind == "err" || c.Kind == "nil" {
			cfgs[i] = c.Kind
			continue
		}
		rs := make([]string, len(c.Routes))
		for j, rt := range c.Routes {
			rs[j] = hx(rt.Name) + "-" + hx(rt.Path)
		}
		cfgs[i] = fmt.Sprintf("%s:%d:%d:%d:%s", c.Kind, c.Addr, c.DrainMs, c.ReadMs, strings.Join(rs, "+"))
	}
	b2i := 0
	if r.hung {
		b2i = 1
	}
	b, _ := json.Marshal(sc)
	return fmt.Sprintf("cfgs=%s end=hung%d scn~%s", strings.Join(cfgs, ","), b2i, base64.RawURLEncoding.EncodeToString(b))
}

func genHScenario(r interface {
	IntN(int) int
	Perm(int) []int
}) (HScenario, string) {
	names := []string{"alpha", "beta", "gamma", "delta"}
	paths := []string{"/", "/a", "/b", "/c/d"}
	genRoutes := func() []HRoute {
		n := 1 + r.IntN(3)
		pp := r.Perm(len(paths))
		np := r.Perm(len(names))
		var rs []HRoute
		for i := 0; i < n; i++ {
			rs = append(rs, HRoute{names[np[i]], paths[pp[i]]})
		}
		return rs
	}
	lateMs := r.IntN(60)
	base := HConfig{Kind: "ok", Addr: 0, DrainMs: []int{60, 100, 200}[r.IntN(3)], ReadMs: 1000, Routes: genRoutes()}
	sc := HScenario{Configs: []HConfig{base}, LateMs: lateMs, Derive: r.IntN(3) == 0}
	kind := "reloads"
	nops := 1 + r.IntN(4)
	cur := base
	for k := 0; k < nops; k++ {
		switch c := r.IntN(12); {
		case c < 7:
			next := cur
			next.Routes = append([]HRoute{}, cur.Routes...)
			next.Kind = "ok"
			switch r.IntN(9) {
			case 0: // unchanged
			case 1: // permuted routes (equal)
				for i := len(next.Routes) - 1; i > 0; i-- {
					j := r.IntN(i + 1)
					next.Routes[i], next.Routes[j] = next.Routes[j], next.Routes[i]
				}
			case 2:
				next.Addr = (cur.Addr + 1) % 3
			case 3:
				next.DrainMs += 10
			case 4:
				next.ReadMs += 100
			case 5:
				next.Routes = genRoutes()
			case 6: // swap the names of two routes
				if len(next.Routes) >= 2 {
					next.Routes[0].Name, next.Routes[1].Name = next.Routes[1].Name, next.Routes[0].Name
				}
			case 7:
				next = HConfig{Kind: []string{"err", "nil"}[r.IntN(2)]}
			default:
				next.Addr = 2
				next.Kind = "busy"
			}
			sc.Configs = append(sc.Configs, next)
			sc.Ops = append(sc.Ops, HOp{Kind: "reload"})
			if next.Kind == "ok" {
				cur = next
			}
		case c < 8:
			sc.Ops = append(sc.Ops, HOp{Kind: "stop"})
		case c < 9:
			sc.Ops = append(sc.Ops, HOp{Kind: "cancel"})
		default:
			// in-flight requests relative to the drain timeout, then a stop trigger
			kind = "drain"
			f := []float64{0.2, 0.5, 1.8, 3.0}[r.IntN(4)]
			nreq := 1 + r.IntN(3)
			for q := 0; q < nreq; q++ {
				sc.Ops = append(sc.Ops, HOp{Kind: fmt.Sprintf("req:%d", int(f*float64(cur.DrainMs)))})
			}
			switch r.IntN(3) {
			case 0:
				sc.Ops = append(sc.Ops, HOp{Kind: "stop"})
			case 1:
				sc.Ops = append(sc.Ops, HOp{Kind: "cancel"})
			default:
				next := cur
				next.ReadMs += 50
				sc.Configs = append(sc.Configs, next)
				sc.Ops = append(sc.Ops, HOp{Kind: "reload"})
				cur = next
			}
		}
	}
	if r.IntN(6) == 0 { // a Stop racing a reload that changes the configuration
		kind = "stop_during_reload"
		next := cur
		next.Addr = (cur.Addr + 1) % 3
		sc.Configs = append(sc.Configs, next)
		sc.Ops = append(sc.Ops, HOp{Kind: "reload", Async: true}, HOp{Kind: []string{"stop", "cancel"}[r.IntN(2)], AtMs: []int{0, 1, 5, 30, 90, 110}[r.IntN(6)]})
	}
	return sc, kind
}

var hCorpus = []HScenario{
	// a Stop() that arrives while a reload is draining the old server for a request still in flight: Stop() returns only
	// after that request has finished
	{Configs: []HConfig{{"ok", 0, 900, 1000, []HRoute{{"alpha", "/"}}}, {"ok", 0, 900, 1000, []HRoute{{"beta", "/"}}}},
		Ops: []HOp{{Kind: "req:400"}, {Kind: "reload", Async: true}, {Kind: "stop", AtMs: 60}}},
	{Configs: []HConfig{{"ok", 0, 900, 1000, []HRoute{{"alpha", "/"}}}, {"ok", 1, 900, 1000, []HRoute{{"alpha", "/"}}}},
		Ops: []HOp{{Kind: "req:300"}, {Kind: "reload", Async: true}, {Kind: "stop", AtMs: 40}}},
	// two overlapping Reload() calls, the configuration source moving on between them: the second waits for the first and
	// then fetches and applies the newest configuration
	{Configs: []HConfig{{"ok", 0, 100, 1000, []HRoute{{"alpha", "/"}}}, {"ok", 0, 100, 1000, []HRoute{{"beta", "/"}}}, {"ok", 0, 100, 1000, []HRoute{{"gamma", "/"}}}},
		Ops: []HOp{{Kind: "reload", Async: true}, {Kind: "reload", Async: true, AtMs: 15}}},
	{Configs: []HConfig{{"ok", 0, 100, 1000, []HRoute{{"alpha", "/"}}}, {"ok", 0, 100, 1200, []HRoute{{"alpha", "/"}}}, {"ok", 0, 100, 1200, []HRoute{{"alpha", "/"}, {"beta", "/b"}}}},
		Ops: []HOp{{Kind: "reload", Async: true}, {Kind: "reload", Async: true, AtMs: 30}, {Kind: "reload", Async: true, AtMs: 5}}},
	// a reload that changes nothing but the drain timeout, then a stop with a request in flight that lasts between the
	// old and the new value: the drain of the stop honours the configuration in force
	{Configs: []HConfig{{"ok", 0, 100, 1000, []HRoute{{"alpha", "/"}}}, {"ok", 0, 900, 1000, []HRoute{{"alpha", "/"}}}},
		Ops: []HOp{{Kind: "reload"}, {Kind: "req:350"}, {Kind: "stop"}}},
	{Configs: []HConfig{{"ok", 0, 900, 1000, []HRoute{{"alpha", "/"}}}, {"ok", 0, 100, 1000, []HRoute{{"alpha", "/"}}}},
		Ops: []HOp{{Kind: "reload"}, {Kind: "req:450"}, {Kind: "stop"}}},
	// a reload whose configuration was derived from the previous one (WithConfigCopy) and has other routes: the fresh
	// server serves the new routes, not the old ones
	{Derive: true, Configs: []HConfig{{"ok", 0, 100, 1000, []HRoute{{"alpha", "/"}, {"beta", "/b"}}}, {"ok", 0, 100, 1000, []HRoute{{"gamma", "/"}, {"delta", "/d"}}}},
		Ops: []HOp{{Kind: "reload"}, {Kind: "stop"}}},
	{Derive: true, Configs: []HConfig{{"ok", 0, 100, 1000, []HRoute{{"alpha", "/a"}}}, {"ok", 1, 100, 1000, []HRoute{{"alpha", "/a"}, {"beta", "/b"}}}, {"ok", 1, 100, 1000, []HRoute{{"beta", "/a"}}}},
		Ops: []HOp{{Kind: "reload"}, {Kind: "reload"}}},
	{Configs: []HConfig{{"ok", 0, 100, 1000, []HRoute{{"alpha", "/"}, {"beta", "/b"}}}, {"ok", 1, 100, 1000, []HRoute{{"alpha", "/"}, {"beta", "/b"}}}},
		Ops: []HOp{{Kind: "reload"}, {Kind: "stop"}}},
	{Configs: []HConfig{{"ok", 0, 100, 1000, []HRoute{{"alpha", "/"}, {"beta", "/b"}}}, {"ok", 0, 100, 1000, []HRoute{{"beta", "/"}, {"alpha", "/b"}}}},
		Ops: []HOp{{Kind: "reload"}}},
	{Configs: []HConfig{{"ok", 0, 80, 1000, []HRoute{{"alpha", "/"}}}}, Ops: []HOp{{Kind: "req:240"}, {Kind: "stop"}}},
	{Configs: []HConfig{{"ok", 0, 200, 1000, []HRoute{{"alpha", "/"}}}}, Ops: []HOp{{Kind: "req:40"}, {Kind: "req:60"}, {Kind: "cancel"}}},
	{Configs: []HConfig{{"ok", 0, 100, 1000, []HRoute{{"alpha", "/"}}}, {"ok", 1, 100, 1000, []HRoute{{"alpha", "/"}}}},
		Ops: []HOp{{Kind: "reload", Async: true}, {Kind: "stop", AtMs: 30}}},
	// a drain timeout of zero with a request in flight: Stop returns at once and Run reports the timeout
	{Configs: []HConfig{{"ok", 0, 0, 1000, []HRoute{{"alpha", "/"}}}}, Ops: []HOp{{Kind: "req:600"}, {Kind: "stop"}}},
	{Configs: []HConfig{{"ok", 0, 0, 1000, []HRoute{{"alpha", "/"}, {"beta", "/b"}}}}, Ops: []HOp{{Kind: "req:700"}, {Kind: "req:500"}, {Kind: "cancel"}}},
	// boot onto an address that a foreign listener holds (and answers on): never Running
	{Configs: []HConfig{{"busy", 0, 100, 1000, []HRoute{{"alpha", "/"}}}}, Ops: []HOp{{Kind: "stop"}}},
	{Configs: []HConfig{{"busy", 0, 100, 1000, []HRoute{{"alpha", "/"}, {"beta", "/b"}}}}, Ops: nil},
}

func runHTTPSrv(o Opts) {
	e := NewEmitter(o.Out, "httpsrv")
	defer e.Close(o.Out, "httpsrv", nil)
	type job struct {
		sc   HScenario
		kind string
	}
	var jobs []job
	if o.Replay != "" {
		for _, l := range replayLines(o.Replay) {
			for _, w := range strings.Fields(l) {
				if strings.HasPrefix(w, "scn~") {
					b, err := base64.RawURLEncoding.DecodeString(strings.TrimPrefix(w, "scn~"))
					must(err)
					var sc HScenario
					must(json.Unmarshal(b, &sc))
					jobs = append(jobs, job{sc, "replay"})
				}
			}
		}
	} else {
		for _, sc := range hCorpus {
			jobs = append(jobs, job{sc, "corpus"})
		}
		r := newRand(o.Seed, 12)
		n := 500
		if o.Thorough {
			n = 2500
		}
		if o.N > 0 {
			n = o.N
		}
		for i := 0; i < n; i++ {
			sc, kind := genHScenario(r)
			jobs = append(jobs, job{sc, kind})
		}
	}
	results := make([]hResult, len(jobs))
	var wg sync.WaitGroup
	var clashes atomic.Int32
	sem := make(chan struct{}, 12)
	for i := range jobs {
		wg.Add(1)
		sem <- struct{}{}
		go func(i int) {
			defer wg.Done()
			defer func() { <-sem }()
			for attempt := 0; attempt < 4; attempt++ {
				results[i] = runHTTPScenario(jobs[i].sc)
				if !results[i].clash {
					break
				}
				clashes.Add(1)
			}
		}(i)
	}
	wg.Wait()
	e.Stats["env:port-clash-reruns"] += int(clashes.Load())
	for i, j := range jobs {
		r := results[i]
		e.Stats["gen:"+j.kind]++
		if r.hung {
			e.Stats["end:hung"]++
		}
		ev := strings.Join(r.events, " ")
		h := hHeader(j.sc, r)
		zeroDrain, allBusy := false, true
		for _, c := range j.sc.Configs {
			zeroDrain = zeroDrain || c.DrainMs == 0
			allBusy = allBusy && c.Kind == "busy"
		}
		if allBusy {
			// every address the runner is given is held by somebody else: it must never report Running
			if r.stream != "" {
				e.Case("c12busyholds "+strings.TrimPrefix(r.stream, "c08streamholds ")+" scn~"+h[strings.Index(h, "scn~")+4:], "true")
				e.Nontrivial("busy " + ev)
			}
			continue
		}
		// every observed trace must be a behaviour of the concurrent model HttpLts (trace acceptor in the Lean driver)
		e.Case("httpaccept "+h+" "+ev, "accepted")
		if zeroDrain {
			// a drain timeout of zero: every stop reports the timeout, at once (the operation-level model has no such
			// configuration; only the C14 statement is evaluated)
			e.Case("c14holds "+h+" "+ev, "true")
			e.Nontrivial("drain0 " + ev)
			continue
		}
		for _, c := range []string{"c12holds", "c13holds", "c14holds"} {
			e.Case(c+" "+h+" "+ev, "true")
		}
		if r.stream != "" {
			e.Case(r.stream+" scn~"+h[strings.Index(h, "scn~")+4:], "true")
		}
		e.Case("httpseq "+h+" "+ev, "agree")
		if strings.Contains(ev, "LC") || strings.Contains(ev, "RQ") {
			e.Nontrivial(ev)
		}
	}
}
