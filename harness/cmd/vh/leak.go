package main

import (
	"bufio"
	"context"
	"encoding/base64"
	"encoding/json"
	"fmt"
	"io"
	"log/slog"
	"net"
	"net/http"
	"os"
	"os/exec"
	"regexp"
	"runtime"
	"sort"
	"strconv"
	"strings"
	"sync"
	"sync/atomic"
	"syscall"
	"time"

	"github.com/robbyt/go-supervisor/internal/finitestate"
	"github.com/robbyt/go-supervisor/runnables/composite"
	"github.com/robbyt/go-supervisor/runnables/httpcluster"
	"github.com/robbyt/go-supervisor/runnables/httpserver"
	"github.com/robbyt/go-supervisor/supervisor"
	"github.com/robbyt/go-supervisor/supervisor/lifecycle"
)

// C18: goroutine-leak oracle.  A scenario drives one live supervisor / composite / HTTP server /
// HTTP cluster / bare FSM through rounds of operations, samples the library's goroutines at
// quiescence after every round, ends it cleanly, cancels every subscription and lists the library
// goroutines that remain.  Goroutine dumps are process-wide, so scenarios run one at a time per
// process; `vh leak` fans out over child processes (`vh leakshard`).

func init() { commands["leak"] = runLeak; commands["leakshard"] = runLeakShard }

type LeakScenario struct {
	Target   string   `json:"t"`        // sup | comp | http | cluster | fsm
	Caps     []string `json:"caps"`     // sup: capability strings of the mock runnables, "flap", "http"
	Round    []string `json:"round"`    // operations of one round
	Rounds   int      `json:"rounds"`   // how many times the round is repeated
	End      string   `json:"end"`      // sup: term | int | cancel | shutdown | trig ; others: stop | cancel
	Tail     []string `json:"tail"`     // subscriptions opened just before the end and cancelled after termination
	ReloadMs int      `json:"reloadMs"` // sup: how long a mock's Reload() takes
}

var libFrame = regexp.MustCompile(`^github\.com/robbyt/(go-supervisor/(supervisor|runnables|internal)|go-fsm)`)
var durRe = regexp.MustCompile(`, \d+ minutes|, locked to thread`)

// libGoroutines lists the goroutines started by the library (or, transitively, by the http.Server
// the library created): "function@state" of the innermost library frame, sorted.
// connection goroutines of the http.Server the library created count at termination only: while the
// server runs their number is decided by the clients
var leakWithConns = true

var leakBaseline []string // library goroutines left behind by earlier scenarios of this process

func libGoroutines() []string {
	all := libGoroutinesRaw()
	if len(leakBaseline) == 0 {
		return all
	}
	rest := append([]string(nil), leakBaseline...)
	var out []string
	for _, g := range all {
		found := false
		for i, b := range rest {
			if b == g {
				rest = append(rest[:i], rest[i+1:]...)
				found = true
				break
			}
		}
		if !found {
			out = append(out, g)
		}
	}
	return out
}

func libGoroutinesRaw() []string {
	buf := make([]byte, 8<<20)
	n := runtime.Stack(buf, true)
	var out []string
	for _, blk := range strings.Split(string(buf[:n]), "\n\n") {
		lines := strings.Split(blk, "\n")
		if len(lines) < 2 || !strings.HasPrefix(lines[0], "goroutine ") {
			continue
		}
		state := durRe.ReplaceAllString(lines[0][strings.Index(lines[0], "[")+1:strings.LastIndex(lines[0], "]")], "")
		created, inner := "", ""
		for _, l := range lines[1:] {
			if strings.HasPrefix(l, "\t") {
				continue
			}
			if strings.HasPrefix(l, "created by ") {
				created = strings.TrimPrefix(l, "created by ")
				if i := strings.Index(created, " in goroutine"); i >= 0 {
					created = created[:i]
				}
				continue
			}
			f := l
			if i := strings.LastIndex(f, "("); i >= 0 {
				f = f[:i]
			}
			if inner == "" && libFrame.MatchString(f) {
				inner = f
			}
		}
		// wg.Go(f): the goroutine belongs to whoever owns f (the frame above the sync wrapper)
		if strings.HasPrefix(created, "sync.(*WaitGroup).Go") {
			entry := ""
			for _, l := range lines[1:] {
				if strings.HasPrefix(l, "\t") || strings.HasPrefix(l, "created by ") || strings.HasPrefix(l, "sync.(*WaitGroup).Go") {
					continue
				}
				entry = l
			}
			if i := strings.LastIndex(entry, "("); i >= 0 {
				entry = entry[:i]
			}
			if libFrame.MatchString(entry) {
				created = entry
			}
		}
		byLib := libFrame.MatchString(created)
		byServer := strings.HasPrefix(created, "net/http.(*Server).Serve") || strings.HasPrefix(created, "net/http.(*conn)")
		if !byLib && !(byServer && leakWithConns) {
			continue
		}
		if inner == "" {
			inner = created
		}
		inner = strings.TrimPrefix(inner, "github.com/robbyt/")
		out = append(out, inner+"@"+strings.ReplaceAll(state, " ", "_"))
	}
	sort.Strings(out)
	return out
}

// settle waits until the library goroutine multiset is unchanged for `stable` consecutive polls.
func settle(stable int, max time.Duration) []string {
	leakWithConns = false
	defer func() { leakWithConns = true }()
	deadline := time.Now().Add(max)
	prev := strings.Join(libGoroutines(), "+")
	same := 0
	for time.Now().Before(deadline) {
		time.Sleep(1500 * time.Microsecond)
		cur := strings.Join(libGoroutines(), "+")
		if cur == prev {
			same++
			if same >= stable {
				break
			}
		} else {
			same, prev = 0, cur
		}
	}
	return libGoroutines()
}

// sample counts the library goroutines at quiescence.  A goroutine that is only waiting for a timer is
// not at quiescence (the forwarder's 100 ms grace period after a cancelled subscription; go-fsm's 5 s
// delivery timeout, during which a transition and everything queued behind it is stalled): the first
// round waits until no such goroutine is visible, a later round whose count is above the first
// round's is looked at again for up to 6.5 s (16 s while something is visibly waiting for a timer), and only
// what is still there then is counted.
var leakExcess []string // goroutine list of a sample that exceeded the first round's count

func sample(prev []int) int {
	g := settle(6, 400*time.Millisecond)
	transient := func(g []string) bool {
		for _, x := range g {
			if strings.Contains(x, "getStateChanInternal") && !strings.HasSuffix(x, "@chan_receive") {
				return true
			}
			if strings.Contains(x, "broadcast.(*Manager).Broadcast") || strings.Contains(x, "broadcast.(*Manager).unsubscribe") {
				return true
			}
		}
		return false
	}
	// (a reload of an httpserver runner under a supervisor can stall for two delivery timeouts in a row)
	deadline := time.Now().Add(16 * time.Second)
	for time.Now().Before(deadline) {
		if len(prev) == 0 && !transient(g) {
			break
		}
		if len(prev) > 0 && len(g) <= prev[0] {
			break
		}
		if len(prev) > 0 && !transient(g) && time.Until(deadline) < 9500*time.Millisecond {
			break // 6.5 s without anything waiting for a timer: what is there stays there
		}
		time.Sleep(40 * time.Millisecond)
		g = settle(6, 400*time.Millisecond)
	}
	if d := os.Getenv("VH_DEBUG"); d == "1" || d == "2" {
		fmt.Fprintln(os.Stderr, "sample", len(prev), strings.Join(g, "\n   "))
	}
	if os.Getenv("VH_DEBUG") == "2" || (os.Getenv("VH_DEBUG") == "fail" && len(prev) > 0 && len(g) > prev[0]) {
		buf := make([]byte, 4<<20)
		os.Stderr.Write(buf[:runtime.Stack(buf, true)])
	}
	if len(prev) > 0 && len(g) > prev[0] {
		leakExcess = g
	}
	return len(g)
}

// drained waits for the library goroutines to disappear: quickly in the normal case, and past the
// 5 s go-fsm broadcast timeout before anything is called a leak.
func drained() []string {
	for i := 0; i < 200; i++ {
		if len(libGoroutines()) == 0 {
			return nil
		}
		time.Sleep(2 * time.Millisecond)
	}
	deadline := time.Now().Add(6500 * time.Millisecond)
	for time.Now().Before(deadline) {
		if len(libGoroutines()) == 0 {
			return nil
		}
		time.Sleep(20 * time.Millisecond)
	}
	return libGoroutines()
}

type leakResult struct {
	clean   bool
	hung    bool
	samples []int
	leaked  []string
	dump    string
}

// subscriptions opened by a scenario
type subs struct {
	mu      sync.Mutex
	cancels []context.CancelFunc
}

func (s *subs) add(cf context.CancelFunc) {
	s.mu.Lock()
	s.cancels = append(s.cancels, cf)
	s.mu.Unlock()
}
func (s *subs) cancelAll() {
	s.mu.Lock()
	for _, c := range s.cancels {
		c()
	}
	s.cancels = nil
	s.mu.Unlock()
}

// subscribe opens a state subscription: mode "d" drains until the channel is closed, "a" abandons it
// (never reads: what a consumer that selects on ctx.Done() and leaves looks like to the library).
func subscribe(get func(context.Context) <-chan string, mode string, sb *subs) {
	c, cf := context.WithCancel(context.Background())
	ch := get(c)
	if mode == "d" {
		go func() {
			for range ch {
			}
		}()
	}
	sb.add(cf)
}

var quietLog = slog.NewTextHandler(io.Discard, nil)

// compHold is a composite runner whose second configuration callback (the one a reload makes) blocks until the
// composite's own Run() has returned: the reload's restart then boots its new children after the return.
type compHold struct {
	*composite.Runner[supervisor.Runnable]
	release chan struct{}
	once    sync.Once
}

func (c *compHold) Run(ctx context.Context) error {
	err := c.Runner.Run(ctx)
	c.once.Do(func() { close(c.release) })
	return err
}

func leakSup(sc LeakScenario) leakResult {
	rec := &evRec{t0: time.Now()}
	held := make(chan struct{})
	var heldOnce sync.Once
	var live atomic.Int32
	teardown := make(chan struct{})
	defer close(teardown)
	var rs []supervisor.Runnable
	var bases []*base
	for i, c := range sc.Caps {
		switch c {
		case "flap":
			rs = append(rs, newFlapper())
		case "comphold":
			kids := []supervisor.Runnable{&lcChild{name: "ka", lc: lifecycle.New()}, &lcChild{name: "kb", lc: lifecycle.New()}, &lcChild{name: "kc", lc: lifecycle.New()}}
			ch := &compHold{release: make(chan struct{})}
			var calls atomic.Int32
			cb := func() (*composite.Config[supervisor.Runnable], error) {
				var es []composite.RunnableEntry[supervisor.Runnable]
				if calls.Add(1) == 1 {
					es = append(es, composite.RunnableEntry[supervisor.Runnable]{Runnable: kids[0], Config: 0})
				} else {
					heldOnce.Do(func() { close(held) })
					select {
					case <-ch.release:
					case <-time.After(3 * time.Second):
					}
					es = append(es, composite.RunnableEntry[supervisor.Runnable]{Runnable: kids[1], Config: 0},
						composite.RunnableEntry[supervisor.Runnable]{Runnable: kids[2], Config: 0})
				}
				return composite.NewConfig("held", es)
			}
			rn, err := composite.NewRunner(cb, composite.WithLogHandler[supervisor.Runnable](quietLog))
			must(err)
			ch.Runner = rn
			rs = append(rs, ch)
		case "http":
			addr := freeAddr()
			rt, _ := httpserver.NewRouteFromHandlerFunc("r", "/", func(w http.ResponseWriter, _ *http.Request) { _, _ = w.Write([]byte("x")) })
			cb := func() (*httpserver.Config, error) {
				return httpserver.NewConfig(addr, httpserver.Routes{*rt}, httpserver.WithDrainTimeout(50*time.Millisecond))
			}
			h, err := httpserver.NewRunner(httpserver.WithConfigCallback(cb), httpserver.WithLogHandler(quietLog))
			must(err)
			rs = append(rs, h)
		default:
			b := newBase(i, MockSpec{Caps: c, Stop: "f", Outcome: "n", ReloadMs: sc.ReloadMs}, rec, &live, teardown)
			bases = append(bases, b)
			rs = append(rs, mkRunnable(b))
		}
	}
	ctx, cancel := context.WithCancel(context.Background())
	defer cancel()
	sv, err := supervisor.New(supervisor.WithContext(ctx), supervisor.WithRunnables(rs...), supervisor.WithStartupInitial(time.Millisecond),
		supervisor.WithShutdownTimeout(2*time.Second), supervisor.WithLogHandler(quietLog))
	must(err)
	var res leakResult
	done := make(chan error, 1)
	go func() { done <- sv.Run() }()
	// wait until the start-up sequence is over (all runnables launched)
	for i := 0; i < 2000; i++ {
		if len(settle(3, 30*time.Millisecond)) > 0 && int(live.Load()) == len(bases) {
			break
		}
		time.Sleep(time.Millisecond)
	}
	time.Sleep(3 * time.Millisecond)
	sb := &subs{}
	op := func(o string) {
		switch o {
		case "hup":
			sv.SendSignal(syscall.SIGHUP)
		case "huphold": // a SIGHUP whose reload pass is parked inside the composite's configuration callback
			sv.SendSignal(syscall.SIGHUP)
			select {
			case <-held:
			case <-time.After(time.Second):
			}
		case "usr":
			sv.SendSignal(syscall.SIGUSR1)
		case "rtrig":
			for _, b := range bases {
				if b.spec.Caps[2] == '1' {
					select {
					case b.rtrigCh <- struct{}{}:
					case <-time.After(20 * time.Millisecond):
					}
					break
				}
			}
		case "sub":
			c, cf := context.WithCancel(context.Background())
			ch := sv.SubscribeStateChanges(c)
			select {
			case <-ch:
			case <-time.After(300 * time.Microsecond):
			}
			cf()
		case "subk": // kept until after termination
			c, cf := context.WithCancel(context.Background())
			_ = sv.SubscribeStateChanges(c)
			sb.add(cf)
		case "addsub":
			ch := make(chan supervisor.StateMap, 1)
			un := sv.AddStateSubscriber(ch)
			un()
		case "getmap":
			_ = sv.GetStateMap()
		}
	}
	for r := 0; r < sc.Rounds; r++ {
		for _, o := range sc.Round {
			op(o)
		}
		res.samples = append(res.samples, sample(res.samples))
	}
	for _, o := range sc.Tail {
		op(o)
	}
	switch sc.End {
	case "term":
		sv.SendSignal(syscall.SIGTERM)
	case "int":
		sv.SendSignal(syscall.SIGINT)
	case "cancel":
		cancel()
	case "trig":
		fired := false
		for _, b := range bases {
			if b.spec.Caps[3] == '1' {
				select {
				case b.trigCh <- struct{}{}:
					fired = true
				default:
				}
				break
			}
		}
		if !fired {
			go sv.Shutdown()
		}
	default:
		go sv.Shutdown()
	}
	select {
	case err := <-done:
		res.clean = err == nil
	case <-time.After(5 * time.Second):
		res.hung = true
	}
	sb.cancelAll()
	if !res.hung {
		res.leaked = drained()
	}
	return res
}

func leakComp(sc LeakScenario) leakResult {
	rec := &evRec{t0: time.Now()}
	var live atomic.Int32
	teardown := make(chan struct{})
	defer close(teardown)
	// children built on the library's own lifecycle helper: a Stop that overtakes the start of Run (the
	// composite does not wait for a child's Run to begin) still ends that Run
	var children []supervisor.Runnable
	for _, n := range []string{"a", "b", "c", "d"} {
		children = append(children, &lcChild{name: n, lc: lifecycle.New()})
	}
	_, _, _ = rec, &live, teardown
	var members atomic.Int32
	var val atomic.Int32
	members.Store(2)
	cb := func() (*composite.Config[supervisor.Runnable], error) {
		var es []composite.RunnableEntry[supervisor.Runnable]
		for i := 0; i < int(members.Load()); i++ {
			es = append(es, composite.RunnableEntry[supervisor.Runnable]{Runnable: children[i], Config: int(val.Load())})
		}
		return composite.NewConfig("c", es)
	}
	rn, err := composite.NewRunner(cb, composite.WithLogHandler[supervisor.Runnable](quietLog))
	must(err)
	return leakRunner(sc, rn.Run, rn.Stop, rn.IsRunning, rn.GetStateChan, func(o string, k int) {
		switch o {
		case "reload":
			val.Add(1)
			rn.Reload(context.Background())
		case "reloadm":
			members.Store(int32(1 + (k % 4)))
			rn.Reload(context.Background())
		case "states":
			_ = rn.GetChildStates()
		case "normalize": // back to the initial membership before the goroutines are counted
			if members.Load() != 2 {
				members.Store(2)
				rn.Reload(context.Background())
			}
		}
	})
}

type lcChild struct {
	name        string
	lc          *lifecycle.StartStop
	lingerMs    int // Run returns this long after it was told to stop
	failAfterMs int // > 0: Run returns an error after this time
}

func (c *lcChild) String() string { return c.name }
func (c *lcChild) Run(ctx context.Context) error {
	done := c.lc.Started()
	defer done()
	var fail <-chan time.Time
	if c.failAfterMs > 0 {
		fail = time.After(time.Duration(c.failAfterMs) * time.Millisecond)
	}
	select {
	case <-ctx.Done():
	case <-c.lc.StopCh():
	case <-fail:
		return fmt.Errorf("%s failed", c.name)
	}
	sleepMs(c.lingerMs)
	return nil
}
func (c *lcChild) Stop()                  { c.lc.Stop() }
func (c *lcChild) ReloadWithConfig(v any) {}

func leakHTTP(sc LeakScenario) leakResult {
	addrs := []string{freeAddr(), freeAddr()}
	rt, _ := httpserver.NewRouteFromHandlerFunc("r", "/", func(w http.ResponseWriter, _ *http.Request) { _, _ = w.Write([]byte("x")) })
	var which, variant atomic.Int32
	cb := func() (*httpserver.Config, error) {
		return httpserver.NewConfig(addrs[which.Load()%2], httpserver.Routes{*rt}, httpserver.WithDrainTimeout(50*time.Millisecond),
			httpserver.WithReadTimeout(time.Duration(1000+variant.Load())*time.Millisecond))
	}
	rn, err := httpserver.NewRunner(httpserver.WithConfigCallback(cb), httpserver.WithLogHandler(quietLog))
	must(err)
	tr := &http.Transport{DisableKeepAlives: false}
	cl := &http.Client{Transport: tr, Timeout: time.Second}
	defer tr.CloseIdleConnections()
	return leakRunner(sc, rn.Run, rn.Stop, rn.IsRunning, rn.GetStateChan, func(o string, k int) {
		switch o {
		case "reload": // unchanged configuration
			rn.Reload(context.Background())
		case "reloadc": // changed timeout: restart on the same address
			variant.Add(1)
			rn.Reload(context.Background())
		case "reloada": // other address
			which.Add(1)
			rn.Reload(context.Background())
		case "req":
			if resp, err := cl.Get("http://" + addrs[which.Load()%2] + "/"); err == nil {
				_, _ = io.Copy(io.Discard, resp.Body)
				_ = resp.Body.Close()
			}
		case "areloadc": // a restart reload left in flight (its readiness probe takes >= 100 ms): the end overlaps it
			variant.Add(1)
			go rn.Reload(context.Background())
			time.Sleep(30 * time.Millisecond)
		case "idle": // a client connection left open and idle (keep-alive) across the next operations
			if c, err := net.DialTimeout("tcp", addrs[which.Load()%2], 200*time.Millisecond); err == nil {
				time.AfterFunc(3*time.Second, func() { _ = c.Close() })
			}
		}
	})
}

func leakCluster(sc LeakScenario) leakResult {
	rn, err := httpcluster.NewRunner(httpcluster.WithLogHandler(quietLog), httpcluster.WithRestartDelay(time.Millisecond))
	must(err)
	addrs := []string{freeAddr(), freeAddr(), freeAddr()}
	rt, _ := httpserver.NewRouteFromHandlerFunc("r", "/", func(w http.ResponseWriter, _ *http.Request) { _, _ = w.Write([]byte("x")) })
	mk := func(i, variant int) *httpserver.Config {
		c, err := httpserver.NewConfig(addrs[i], httpserver.Routes{*rt}, httpserver.WithDrainTimeout(50*time.Millisecond),
			httpserver.WithReadTimeout(time.Duration(1000+variant)*time.Millisecond))
		must(err)
		return c
	}
	siphon := rn.GetConfigSiphon()
	push := func(m map[string]*httpserver.Config) {
		select {
		case siphon <- m:
		case <-time.After(8 * time.Second):
			return
		}
		// processed when the cluster is back in Running (or has left it for good)
		time.Sleep(3 * time.Millisecond)
		for i, ok := 0, 0; i < 4000 && ok < 3; i++ {
			if st := rn.GetState(); st == "Running" || st == "Error" || st == "Stopped" {
				ok++
			} else {
				ok = 0
			}
			time.Sleep(time.Millisecond)
		}
	}
	return leakRunner(sc, rn.Run, rn.Stop, rn.IsRunning, rn.GetStateChan, func(o string, k int) {
		switch o {
		case "push": // membership and configuration alternate
			m := map[string]*httpserver.Config{"a": mk(0, k%2)}
			if k%3 != 0 {
				m["b"] = mk(1, 0)
			}
			push(m)
		case "pushsame", "normalize":
			push(map[string]*httpserver.Config{"a": mk(0, 0), "c": mk(2, 0)})
		case "pushempty":
			push(map[string]*httpserver.Config{})
		}
	})
}

// leakFSM exercises internal/finitestate alone: subscriptions against a machine that changes state.
func leakFSM(sc LeakScenario) leakResult {
	m, err := finitestate.NewTypicalFSM(quietLog)
	must(err)
	run := func(ctx context.Context) error {
		_ = m.Transition(finitestate.StatusBooting)
		_ = m.Transition(finitestate.StatusRunning)
		<-ctx.Done()
		_ = m.Transition(finitestate.StatusStopping)
		return m.Transition(finitestate.StatusStopped)
	}
	stopCh := make(chan context.CancelFunc, 1)
	return leakRunner(sc, func(ctx context.Context) error {
		c, cf := context.WithCancel(ctx)
		stopCh <- cf
		return run(c)
	}, func() { (<-stopCh)() }, func() bool { return m.GetState() == finitestate.StatusRunning }, m.GetStateChan, func(o string, k int) {
		switch o {
		case "flip":
			_ = m.Transition(finitestate.StatusReloading)
			_ = m.Transition(finitestate.StatusRunning)
		}
	})
}

// leakRunner is the common driver for the bundled runnables.
func leakRunner(sc LeakScenario, run func(context.Context) error, stop func(), isRunning func() bool,
	stateChan func(context.Context) <-chan string, op func(string, int)) leakResult {
	var res leakResult
	ctx, cancel := context.WithCancel(context.Background())
	defer cancel()
	done := make(chan error, 1)
	go func() { done <- run(ctx) }()
	for i := 0; i < 4000 && !isRunning(); i++ {
		time.Sleep(500 * time.Microsecond)
	}
	sb := &subs{}
	k := 0
	do := func(o string) {
		k++
		switch o {
		case "subd":
			subscribe(stateChan, "d", sb)
		case "suba":
			subscribe(stateChan, "a", sb)
		case "unsub":
			sb.cancelAll()
			// go-fsm unsubscribes asynchronously; a broadcast that overtakes it waits up to 5 s for the
			// cancelled subscriber (go-fsm's delivery timeout), which is not what this harness measures
			time.Sleep(3 * time.Millisecond)
		default:
			op(o, k)
		}
	}
	for r := 0; r < sc.Rounds; r++ {
		for _, o := range sc.Round {
			do(o)
		}
		sb.cancelAll() // every round closes what it opened
		time.Sleep(3 * time.Millisecond)
		op("normalize", k)
		res.samples = append(res.samples, sample(res.samples))
	}
	for _, o := range sc.Tail {
		do(o)
	}
	if sc.End == "cancel" {
		cancel()
	} else {
		go stop()
	}
	select {
	case err := <-done:
		res.clean = err == nil
	case <-time.After(8 * time.Second):
		res.hung = true
	}
	sb.cancelAll()
	if !res.hung {
		res.leaked = drained()
	}
	return res
}

func runLeakScenario(sc LeakScenario) leakResult {
	leakExcess = nil
	leakBaseline = nil
	leakBaseline = libGoroutinesRaw()
	switch sc.Target {
	case "sup":
		return leakSup(sc)
	case "comp":
		return leakComp(sc)
	case "http":
		return leakHTTP(sc)
	case "cluster":
		return leakCluster(sc)
	default:
		return leakFSM(sc)
	}
}

func leakLine(sc LeakScenario, r leakResult) string {
	b, _ := json.Marshal(sc)
	enc := func(l []string) string {
		if len(l) == 0 {
			return "none"
		}
		return strings.Join(l, ",")
	}
	ss := make([]string, len(r.samples))
	for i, s := range r.samples {
		ss[i] = strconv.Itoa(s)
	}
	caps := enc(sc.Caps)
	return fmt.Sprintf("c18holds target=%s caps=%s round=%s rounds=%d tail=%s end=%s clean=%v hung=%v samples=%s leaked=%s excess=%s scn~%s",
		sc.Target, caps, enc(sc.Round), sc.Rounds, enc(sc.Tail), sc.End, r.clean, r.hung, enc(ss), enc(r.leaked), enc(leakExcess),
		base64.RawURLEncoding.EncodeToString(b))
}

func pick[T any](r interface{ IntN(int) int }, l []T) T { return l[r.IntN(len(l))] }

func genLeakScenario(r interface{ IntN(int) int }) LeakScenario {
	sc := LeakScenario{Rounds: 2 + r.IntN(3)}
	opsOf := func(pool []string, n int) []string {
		var o []string
		for i := 0; i < n; i++ {
			o = append(o, pick(r, pool))
		}
		return o
	}
	switch r.IntN(10) {
	case 0, 1, 2, 3:
		sc.Target = "sup"
		n := 1 + r.IntN(3)
		for i := 0; i < n; i++ {
			switch r.IntN(8) {
			case 0:
				sc.Caps = append(sc.Caps, "flap")
			default:
				sc.Caps = append(sc.Caps, pick(r, []string{"0000", "1000", "0100", "1100", "0010", "0110", "1110", "0001", "1001", "0101", "1111", "0011"}))
			}
		}
		if r.IntN(12) == 0 {
			sc.Caps = append(sc.Caps, "http")
		}
		sc.Round = opsOf([]string{"hup", "hup", "usr", "rtrig", "sub", "addsub", "getmap"}, 1+r.IntN(4))
		if len(sc.Caps) > 0 && sc.Caps[len(sc.Caps)-1] == "http" {
			// A reload of an httpserver runner under a supervisor can stall for go-fsm's 5 s delivery timeout
			// (Reload holds the runner's mutex while the state monitor, the subscriber the broadcast waits
			// for, calls String() which wants the same mutex). Not a C18 matter: at most one reload per
			// round, so that the stall ends within the sampling window.
			seen := false
			var ops []string
			for _, o := range sc.Round {
				if o == "hup" || o == "rtrig" {
					if seen {
						continue
					}
					seen = true
				}
				ops = append(ops, o)
			}
			sc.Round = ops
		}
		sc.End = pick(r, []string{"term", "int", "cancel", "shutdown", "trig"})
		if r.IntN(4) == 0 {
			sc.ReloadMs = 2 + r.IntN(8)
		}
		if r.IntN(3) == 0 {
			sc.Tail = opsOf([]string{"hup", "subk", "rtrig"}, 1+r.IntN(2))
			if len(sc.Caps) > 0 && sc.Caps[len(sc.Caps)-1] == "http" {
				sc.Tail = sc.Tail[:1]
			}
		}
	case 4, 5:
		sc.Target = "comp"
		sc.Round = opsOf([]string{"reload", "reloadm", "subd", "suba", "states", "unsub"}, 1+r.IntN(4))
		sc.End = pick(r, []string{"stop", "cancel"})
		if r.IntN(2) == 0 {
			sc.Tail = opsOf([]string{"subd", "suba"}, 1)
		}
	case 6, 7:
		sc.Target = "http"
		sc.Rounds = 1 + r.IntN(2)
		sc.Round = opsOf([]string{"reload", "reloadc", "reloada", "req", "idle", "subd", "suba", "unsub"}, 1+r.IntN(3))
		sc.End = pick(r, []string{"stop", "cancel"})
		if r.IntN(2) == 0 {
			sc.Tail = opsOf([]string{"subd", "suba", "req", "areloadc"}, 1)
		}
	case 8:
		sc.Target = "cluster"
		sc.Rounds = 1 + r.IntN(2)
		sc.Round = opsOf([]string{"push", "push", "pushsame", "pushempty", "subd", "suba", "unsub"}, 1+r.IntN(3))
		sc.End = pick(r, []string{"stop", "cancel"})
		if r.IntN(2) == 0 {
			sc.Tail = opsOf([]string{"subd", "suba"}, 1)
		}
	default:
		sc.Target = "fsm"
		sc.Round = opsOf([]string{"flip", "subd", "suba", "unsub"}, 1+r.IntN(4))
		sc.End = "stop"
		if r.IntN(2) == 0 {
			sc.Tail = opsOf([]string{"subd", "suba"}, 1)
		}
	}
	// an abandoned subscription absorbs two state changes before go-fsm's 5 s broadcast timeout starts to
	// delay every transition: cancel it right after the first state-changing operation that follows it
	sc.Round = tameAbandoned(sc.Round)
	return sc
}

func tameAbandoned(ops []string) []string {
	var out []string
	open, changes := false, 0
	for _, o := range ops {
		switch o {
		case "suba":
			open, changes = true, 0
		case "unsub":
			open = false
		case "reload", "reloadc", "reloada", "reloadm", "push", "pushsame", "pushempty", "flip":
			if open {
				changes++
				out = append(out, o, "unsub")
				open = false
				continue
			}
		}
		out = append(out, o)
	}
	return out
}

var leakCorpus = []LeakScenario{
	{Target: "sup", Caps: []string{"0000", "1000"}, Round: []string{"hup"}, Rounds: 3, End: "term"},                       // SIGHUP, nothing reloadable (C18-F1)
	{Target: "sup", Caps: []string{"0100"}, Round: []string{"hup", "sub"}, Rounds: 3, End: "term", Tail: []string{"hup"}}, // SIGHUP right before shutdown (C18-F2)
	{Target: "http", Round: []string{"reloadc", "req"}, Rounds: 2, End: "stop", Tail: []string{"suba"}},                   // abandoned subscription across Stop (C18-F3)
	{Target: "fsm", Round: []string{"subd", "flip"}, Rounds: 3, End: "stop", Tail: []string{"suba"}},
	{Target: "comp", Round: []string{"reloadm", "subd"}, Rounds: 3, End: "stop"},
	// SIGHUP, then SIGTERM while the composite's restart reload is still fetching its configuration: the restart boots
	// after the composite's Run() has returned; the supervisor terminates cleanly and nothing may be left behind
	{Target: "sup", Caps: []string{"comphold"}, Round: []string{"getmap"}, Rounds: 1, Tail: []string{"huphold"}, End: "term"},
	{Target: "sup", Caps: []string{"0100", "comphold"}, Round: []string{"getmap"}, Rounds: 1, Tail: []string{"huphold"}, End: "cancel"},
	{Target: "cluster", Round: []string{"push", "subd"}, Rounds: 2, End: "stop"},
	{Target: "sup", Caps: []string{"1110", "http"}, Round: []string{"hup", "rtrig", "sub"}, Rounds: 2, End: "shutdown", Tail: []string{"subk"}},
	// a reload trigger still pending (the manager is inside a slow pass) when the supervisor shuts down; the
	// manager's select is a coin flip, hence the copies
	{Target: "sup", Caps: []string{"0110"}, ReloadMs: 8, Round: []string{"getmap"}, Rounds: 1, Tail: []string{"hup", "rtrig"}, End: "term"},
	{Target: "sup", Caps: []string{"0110"}, ReloadMs: 8, Round: []string{"getmap"}, Rounds: 1, Tail: []string{"hup", "rtrig"}, End: "cancel"},
	{Target: "sup", Caps: []string{"0110", "1000"}, ReloadMs: 8, Round: []string{"usr"}, Rounds: 1, Tail: []string{"hup", "rtrig"}, End: "shutdown"},
	{Target: "sup", Caps: []string{"0110"}, ReloadMs: 8, Round: []string{"getmap"}, Rounds: 1, Tail: []string{"hup", "rtrig"}, End: "int"},
	{Target: "sup", Caps: []string{"0110"}, ReloadMs: 8, Round: []string{"usr"}, Rounds: 1, Tail: []string{"hup", "rtrig"}, End: "term"},
	{Target: "sup", Caps: []string{"1110"}, ReloadMs: 8, Round: []string{"getmap"}, Rounds: 1, Tail: []string{"hup", "rtrig"}, End: "term"},
	// Stop while a restart reload is in its readiness probe
	{Target: "http", Round: []string{"req"}, Rounds: 1, Tail: []string{"areloadc"}, End: "stop"},
	{Target: "http", Round: []string{"reload"}, Rounds: 1, Tail: []string{"areloadc"}, End: "cancel"},
}

func leakJobs(o Opts) []LeakScenario {
	var jobs []LeakScenario
	if o.Replay != "" {
		for _, l := range replayLines(o.Replay) {
			for _, w := range strings.Fields(l) {
				if strings.HasPrefix(w, "scn~") {
					b, err := base64.RawURLEncoding.DecodeString(strings.TrimPrefix(w, "scn~"))
					must(err)
					var sc LeakScenario
					must(json.Unmarshal(b, &sc))
					jobs = append(jobs, sc)
				}
			}
		}
		return jobs
	}
	jobs = append(jobs, leakCorpus...)
	r := newRand(o.Seed, 18)
	n := 160
	if o.Thorough {
		n = 3000
	}
	if o.N > 0 {
		n = o.N
	}
	for i := 0; i < n; i++ {
		jobs = append(jobs, genLeakScenario(r))
	}
	return jobs
}

// runLeakShard runs the scenarios with index = shard (mod shards) and prints "index<TAB>line".
func runLeakShard(o Opts) {
	parts := strings.Split(os.Getenv("VH_SHARD"), "/")
	shard, _ := strconv.Atoi(parts[0])
	shards := 1
	if len(parts) > 1 {
		shards, _ = strconv.Atoi(parts[1])
	}
	w := bufio.NewWriter(os.Stdout)
	defer w.Flush()
	for i, sc := range leakJobs(o) {
		if i%shards != shard {
			continue
		}
		r := runLeakScenario(sc)
		fmt.Fprintf(w, "%d\t%s\n", i, leakLine(sc, r))
		w.Flush()
	}
}

func runLeak(o Opts) {
	e := NewEmitter(o.Out, "leak")
	defer e.Close(o.Out, "leak", nil)
	shards := 12
	self, err := os.Executable()
	must(err)
	lines := map[int]string{}
	var mu sync.Mutex
	var wg sync.WaitGroup
	for s := 0; s < shards; s++ {
		wg.Add(1)
		go func(s int) {
			defer wg.Done()
			args := []string{"leakshard", "--seed", strconv.FormatUint(o.Seed, 10), "--out", o.Out}
			if o.Thorough {
				args = append(args, "--thorough")
			}
			if o.N > 0 {
				args = append(args, "--n", strconv.Itoa(o.N))
			}
			if o.Replay != "" {
				args = append(args, "--replay", o.Replay)
			}
			cmd := exec.Command(self, args...)
			cmd.Env = append(os.Environ(), fmt.Sprintf("VH_SHARD=%d/%d", s, shards))
			cmd.Stderr = os.Stderr
			out, err := cmd.Output()
			if err != nil {
				fmt.Fprintln(os.Stderr, "vh: leak shard failed:", err)
				os.Exit(2)
			}
			mu.Lock()
			for _, l := range strings.Split(string(out), "\n") {
				if i := strings.Index(l, "\t"); i > 0 {
					n, _ := strconv.Atoi(l[:i])
					lines[n] = l[i+1:]
				}
			}
			mu.Unlock()
		}(s)
	}
	wg.Wait()
	idx := make([]int, 0, len(lines))
	for i := range lines {
		idx = append(idx, i)
	}
	sort.Ints(idx)
	for _, i := range idx {
		l := lines[i]
		e.Case(l, "true")
		f := strings.Fields(l)
		e.Stats[f[1]]++
		for _, w := range f {
			if strings.HasPrefix(w, "end=") || strings.HasPrefix(w, "clean=") || w == "hung=true" {
				e.Stats[w]++
			}
			if strings.HasPrefix(w, "leaked=") && w != "leaked=none" {
				e.Stats["leaked:some"]++
			}
		}
		e.Nontrivial(strings.Join(f[1:8], " "))
	}
}
