package main

import (
	"context"
	"encoding/base64"
	"encoding/json"
	"errors"
	"fmt"
	"io"
	"log/slog"
	"sort"
	"strings"
	"sync"
	"sync/atomic"
	"time"

	"github.com/robbyt/go-supervisor/runnables/httpcluster"
	"github.com/robbyt/go-supervisor/runnables/httpserver"
)

func init() { commands["cluster"] = runCluster }

type ClScenario struct {
	IDs         []string         `json:"ids"`
	Maps        []map[string]int `json:"maps"` // id -> config variant; -1 = nil configuration
	FactoryFail []string         `json:"factoryFail"`
	FailOnce    []string         `json:"failOnce"` // the factory fails for these ids the first time it is asked, then works
	NeverReady  []string         `json:"neverReady"`
	SlowStop    []string         `json:"slowStop"`
	End         string           `json:"end"`      // stop | cancel | close
	EndAfter    int              `json:"endAfter"` // end the run after this many pushes (>= len(maps): after all)
	// CancelInStop: the parent context is cancelled from inside the first Stop() of a slow-stopping server, i.e. while
	// an update (or the shutdown) is in its stop phase with that Stop() still in flight
	CancelInStop bool `json:"cancelInStop,omitempty"`
	// CancelInFactory: the parent context is cancelled from inside the factory call for this id (the second time the
	// factory is asked for it): an update is in its start phase, servers it has already started are running
	CancelInFactory string `json:"cancelInFactory,omitempty"`
}

type clServer struct {
	id       string
	inst     int
	rec      *evRec
	ready    bool
	slowStop bool
	onStop   func() // called inside Stop() of a slow-stopping server
	stopCh   chan struct{}
	stopOnce sync.Once
	started  chan struct{}
	done     chan struct{}
	state    atomic.Value
	live     *atomic.Int32
}

func (s *clServer) String() string { return fmt.Sprintf("srv-%s-%d", s.id, s.inst) }
func (s *clServer) Run(ctx context.Context) error {
	s.rec.add("RI%d", s.inst)
	s.live.Add(1)
	close(s.started)
	if s.ready {
		s.state.Store("Running")
	} else {
		s.state.Store("Booting")
	}
	select {
	case <-ctx.Done():
	case <-s.stopCh:
	}
	if s.slowStop && s.onStop != nil {
		time.Sleep(30 * time.Millisecond) // a server that drains for a while after it was told to stop
	}
	s.state.Store("Stopped")
	s.live.Add(-1)
	s.rec.add("RR%d", s.inst)
	close(s.done)
	return nil
}
func (s *clServer) Stop() {
	s.rec.add("SI%d", s.inst)
	s.stopOnce.Do(func() { close(s.stopCh) })
	if s.slowStop {
		if s.onStop != nil {
			s.onStop()
			time.Sleep(25 * time.Millisecond)
		}
		time.Sleep(8 * time.Millisecond)
	}
	// like the real httpserver runner: Stop returns only after its Run has been invoked and returned
	<-s.started
	<-s.done
	s.rec.add("SR%d", s.inst)
}
func (s *clServer) IsRunning() bool  { return s.state.Load().(string) == "Running" }
func (s *clServer) GetState() string { return s.state.Load().(string) }
func (s *clServer) GetStateChan(ctx context.Context) <-chan string {
	ch := make(chan string, 1)
	ch <- s.GetState()
	go func() { <-ctx.Done(); close(ch) }()
	return ch
}

type clResult struct {
	events []string
	hung   bool
	live   int
	stream string
	second string // result class and state of a second Run() after the first returned
}

func in(l []string, x string) bool {
	for _, y := range l {
		if x == y {
			return true
		}
	}
	return false
}

func runClScenario(sc ClScenario) clResult {
	rec := &evRec{t0: time.Now(), last: time.Now()}
	var live atomic.Int32
	var inst atomic.Int32
	var onceMu sync.Mutex
	failedOnce := map[string]bool{}
	var cancelInStop atomic.Pointer[func()]
	var cancelled atomic.Bool
	factory := func(ctx context.Context, id string, cfg *httpserver.Config, _ slog.Handler) (httpcluster.VerifServerRunner, error) {
		if in(sc.FactoryFail, id) {
			rec.add("FE:%s", hx(id))
			return nil, errors.New("factory failed")
		}
		if in(sc.FailOnce, id) {
			onceMu.Lock()
			first := !failedOnce[id]
			failedOnce[id] = true
			onceMu.Unlock()
			if first {
				rec.add("FE:%s", hx(id))
				return nil, errors.New("factory failed (transient)")
			}
		}
		if sc.CancelInFactory != "" && sc.CancelInFactory == id {
			onceMu.Lock()
			failedOnce["#"+id] = true
			onceMu.Unlock()
			if f := cancelInStop.Load(); f != nil {
				(*f)()
			}
		}
		n := int(inst.Add(1))
		rec.add("FA:%s:%d:%d", hx(id), cfgIndex(cfg), n)
		s := &clServer{id: id, inst: n, rec: rec, ready: !in(sc.NeverReady, id), slowStop: in(sc.SlowStop, id), stopCh: make(chan struct{}),
			started: make(chan struct{}), done: make(chan struct{}), live: &live}
		if sc.CancelInFactory != "" {
			s.onStop = func() {} // a server that drains for a while after it was told to stop (or its context ended)
		}
		if sc.CancelInStop {
			s.onStop = func() {
				if f := cancelInStop.Load(); f != nil {
					(*f)()
				}
			}
		}
		s.state.Store("New")
		return s, nil
	}
	runner, err := httpcluster.NewRunner(
		httpcluster.WithLogHandler(slog.NewTextHandler(io.Discard, nil)),
		httpcluster.VerifWithRunnerFactory(factory),
		httpcluster.VerifWithDeadlineServerStart(150*time.Millisecond),
		httpcluster.WithRestartDelay(time.Millisecond))
	must(err)
	ctx, cancel := context.WithCancel(context.Background())
	defer cancel()
	var cancelOnce sync.Once
	cis := func() { cancelOnce.Do(func() { cancelled.Store(true); rec.add("CX"); cancel() }) }
	cancelInStop.Store(&cis)
	watch := watchStates(runner.GetStateChan, 5*time.Millisecond)
	runDone := make(chan struct{})
	go func() {
		rec.add("RUN")
		res := runner.Run(ctx)
		cls := "nil"
		if res != nil {
			cls = "err"
		}
		rec.add("RET:%s:%s", cls, runner.GetState())
		close(runDone)
	}()
	for i := 0; i < 400 && !runner.IsRunning(); i++ {
		time.Sleep(500 * time.Microsecond)
	}
	siphon := runner.GetConfigSiphon()
	res := clResult{}
	push := func(m map[string]*httpserver.Config) bool {
		select {
		case siphon <- m:
			return true
		case <-time.After(3 * time.Second):
			return false
		case <-runDone:
			return false
		}
	}
	mk := func(m map[string]int) map[string]*httpserver.Config {
		out := map[string]*httpserver.Config{}
		for id, v := range m {
			if v < 0 {
				out[id] = nil
			} else {
				out[id] = planCfg(v)
			}
		}
		return out
	}
	for k, m := range sc.Maps {
		if k >= sc.EndAfter {
			break
		}
		rec.add("PU%d", k)
		if !push(mk(m)) {
			res.hung = !cancelled.Load()
			break
		}
		// flush: the unbuffered siphon is received only when the previous update has been fully processed
		if !push(mk(m)) {
			res.hung = !cancelled.Load()
			break
		}
		if cancelled.Load() {
			break
		}
		// the second push is accepted when the first delivery has been processed; the second delivery is being processed
		// from now on. Wait until the subscriber present from the start has seen the cluster enter Reloading once per
		// delivered map (2 per push so far) - on a loaded machine the Run goroutine may not have got that far yet, and the
		// state would still read Running - and then until the state is no longer Reloading
		seen := func() int {
			watch.mu.Lock()
			defer watch.mu.Unlock()
			n := 0
			for _, st := range watch.ss {
				if st == "Reloading" {
					n++
				}
			}
			return n
		}
		for i := 0; i < 6000 && seen() < 2*(k+1) && !cancelled.Load(); i++ {
			time.Sleep(500 * time.Microsecond)
		}
		for i := 0; i < 6000 && runner.GetState() == "Reloading"; i++ {
			time.Sleep(500 * time.Microsecond)
		}
		time.Sleep(2 * time.Millisecond)
		rec.add("CN%d:%d:%s", k, runner.GetServerCount(), runner.GetState())
	}
	if !res.hung {
		end := sc.End
		if cancelled.Load() {
			end = "none" // the run was ended from inside a Stop()
		}
		switch end {
		case "none":
		case "cancel":
			rec.add("CX")
			cancel()
		case "close":
			rec.add("CL")
			close(siphon)
		default:
			rec.add("TC")
			done := make(chan struct{})
			go func() { runner.Stop(); rec.add("TR"); close(done) }()
			select {
			case <-done:
			case <-time.After(3 * time.Second):
				res.hung = true
			}
		}
		select {
		case <-runDone:
		case <-time.After(3 * time.Second):
			res.hung = true
		}
	}
	if !res.hung {
		for k := 0; k < 100 && live.Load() > 0; k++ {
			time.Sleep(2 * time.Millisecond)
		}
	}
	res.live = int(live.Load())
	res.events, _ = rec.snapshot()
	ret := ""
	for _, e := range res.events {
		if strings.HasPrefix(e, "RET:") {
			ret = strings.TrimPrefix(e, "RET:")
		}
	}
	res.stream = streamLine(watch, ret, true)
	if !res.hung && ret != "" {
		// a second Run() of the same runner: the model says it refuses (c08_cluster_refuses)
		second := make(chan string, 1)
		go func() {
			cls := "nil"
			if runner.Run(context.Background()) != nil {
				cls = "err"
			}
			second <- cls + "." + runner.GetState()
		}()
		select {
		case res.second = <-second:
		case <-time.After(2 * time.Second):
			res.second = "hung"
			runner.Stop()
		}
	}
	return res
}

func clHeader(sc ClScenario, r clResult) string {
	maps := make([]string, len(sc.Maps))
	for i, m := range sc.Maps {
		ks := make([]string, 0, len(m))
		for id := range m {
			ks = append(ks, id)
		}
		sort.Strings(ks)
		es := make([]string, len(ks))
		for j, id := range ks {
			es[j] = fmt.Sprintf("%s:%d", hx(id), m[id])
		}
		maps[i] = strings.Join(es, "+")
		if len(es) == 0 {
			maps[i] = "empty"
		}
	}
	enc := func(l []string) string {
		if len(l) == 0 {
			return "none"
		}
		h := make([]string, len(l))
		for i, s := range l {
			h[i] = hx(s)
		}
		return strings.Join(h, "+")
	}
	hung := 0
	if r.hung {
		hung = 1
	}
	b, _ := json.Marshal(sc)
	second := r.second
	if second == "" {
		second = "none"
	}
	return fmt.Sprintf("maps=%s ff=%s fo=%s nr=%s second=%s end=hung%d.live%d scn~%s", strings.Join(maps, ","), enc(sc.FactoryFail), enc(sc.FailOnce), enc(sc.NeverReady), second, hung, r.live,
		base64.RawURLEncoding.EncodeToString(b))
}

func genClScenario(r interface {
	IntN(int) int
	Perm(int) []int
}) (ClScenario, string) {
	kind := "noclash"
	pool := []string{"a", "b", "ab", "", "a:", "stop", "c"}
	if r.IntN(5) == 0 {
		pool = []string{"a", "a:stop", "a:stop:stop", "b", "b:stop"}
		kind = "clash_pool"
	}
	sc := ClScenario{IDs: pool, End: []string{"stop", "cancel", "close"}[r.IntN(3)]}
	n := 1 + r.IntN(6)
	for k := 0; k < n; k++ {
		m := map[string]int{}
		for _, id := range pool {
			switch r.IntN(5) {
			case 0, 1:
				m[id] = r.IntN(3)
			case 2:
				if k > 0 {
					if v, ok := sc.Maps[k-1][id]; ok {
						m[id] = v // unchanged
					}
				}
			case 3:
				if r.IntN(3) == 0 {
					m[id] = -1
				}
			}
		}
		sc.Maps = append(sc.Maps, m)
	}
	sc.EndAfter = n
	if r.IntN(6) == 0 {
		sc.EndAfter = r.IntN(n + 1)
	}
	for _, id := range pool {
		switch r.IntN(14) {
		case 0:
			sc.FactoryFail = append(sc.FactoryFail, id)
		case 1:
			sc.NeverReady = append(sc.NeverReady, id)
		case 2:
			sc.SlowStop = append(sc.SlowStop, id)
			if r.IntN(3) == 0 {
				sc.CancelInStop = true
			}
		case 3:
			sc.FailOnce = append(sc.FailOnce, id)
		}
	}
	return sc, kind
}

var clCorpus = []ClScenario{
	// the parent context ends while an update is in its start phase (from inside the factory call for the last id):
	// the servers that update has already started are stopped before Run() returns
	{IDs: []string{"a", "b", "c", "d"}, Maps: []map[string]int{{"a": 0, "b": 0, "c": 0, "d": 0}}, SlowStop: []string{"a", "b", "c"},
		CancelInFactory: "d", End: "cancel", EndAfter: 1},
	{IDs: []string{"a", "b", "c"}, Maps: []map[string]int{{"a": 0}, {"a": 0, "b": 0, "c": 0}}, SlowStop: []string{"a", "b"},
		CancelInFactory: "c", End: "cancel", EndAfter: 2},
	{IDs: []string{"a", "b", "c"}, Maps: []map[string]int{{"a": 0, "b": 0}, {"a": 1, "b": 1, "c": 0}}, SlowStop: []string{"a", "b"},
		CancelInFactory: "c", End: "stop", EndAfter: 2},
	// the parent context ends while an update is stopping a removed / a changed server whose Stop() takes its time:
	// Run() returns only after that server has stopped
	{IDs: []string{"a", "b"}, Maps: []map[string]int{{"a": 0, "b": 0}, {"b": 0}}, SlowStop: []string{"a"}, CancelInStop: true, End: "cancel", EndAfter: 2},
	{IDs: []string{"a", "b"}, Maps: []map[string]int{{"a": 0, "b": 0}, {"a": 1, "b": 0}}, SlowStop: []string{"a"}, CancelInStop: true, End: "cancel", EndAfter: 2},
	{IDs: []string{"a"}, Maps: []map[string]int{{"a": 0}, {}}, SlowStop: []string{"a"}, CancelInStop: true, End: "stop", EndAfter: 2},
	{IDs: []string{"a", "b"}, Maps: []map[string]int{{"a": 0, "b": 0}, {"a": 1, "b": 0}, {"b": 0}}, End: "stop", EndAfter: 3},
	{IDs: []string{"a", "a:stop"}, Maps: []map[string]int{{"a": 0}, {"a": 1, "a:stop": 2}}, End: "stop", EndAfter: 2}, // finding C16-F1 (open)
	{IDs: []string{"a", "b"}, Maps: []map[string]int{{"a": 0, "b": 0}, {"a": 0, "b": 1}}, FactoryFail: []string{"b"}, End: "cancel", EndAfter: 2},
	{IDs: []string{"a", "b"}, Maps: []map[string]int{{"a": 0, "b": 0}}, NeverReady: []string{"a"}, End: "close", EndAfter: 1},
	// a transient factory failure: the same map delivered again must start the missing server
	{IDs: []string{"a", "b"}, Maps: []map[string]int{{"a": 0, "b": 0}, {"a": 0, "b": 0}}, FailOnce: []string{"b"}, End: "stop", EndAfter: 2},
}

func runCluster(o Opts) {
	e := NewEmitter(o.Out, "cluster")
	defer e.Close(o.Out, "cluster", nil)
	type job struct {
		sc   ClScenario
		kind string
	}
	var jobs []job
	if o.Replay != "" {
		for _, l := range replayLines(o.Replay) {
			for _, w := range strings.Fields(l) {
				if strings.HasPrefix(w, "scn~") {
					b, err := base64.RawURLEncoding.DecodeString(strings.TrimPrefix(w, "scn~"))
					must(err)
					var sc ClScenario
					must(json.Unmarshal(b, &sc))
					jobs = append(jobs, job{sc, "replay"})
				}
			}
		}
	} else {
		for _, sc := range clCorpus {
			jobs = append(jobs, job{sc, "corpus"})
		}
		r := newRand(o.Seed, 16)
		n := 500
		if o.Thorough {
			n = 8000
		}
		if o.N > 0 {
			n = o.N
		}
		for i := 0; i < n; i++ {
			sc, kind := genClScenario(r)
			jobs = append(jobs, job{sc, kind})
		}
	}
	results := make([]clResult, len(jobs))
	var wg sync.WaitGroup
	sem := make(chan struct{}, 24)
	for i := range jobs {
		wg.Add(1)
		sem <- struct{}{}
		go func(i int) {
			defer wg.Done()
			defer func() { <-sem }()
			results[i] = runClScenario(jobs[i].sc)
		}(i)
	}
	wg.Wait()
	for i, j := range jobs {
		r := results[i]
		e.Stats["gen:"+j.kind]++
		if r.hung {
			e.Stats["end:hung"]++
		}
		ev := strings.Join(r.events, " ")
		h := clHeader(j.sc, r)
		e.Case("c16holds "+h+" "+ev, "true")
		e.Case("clusterseq "+h+" "+ev, "agree")
		if r.stream != "" && !r.hung {
			e.Case(r.stream+" scn~x", "true")
		}
		if strings.Count(ev, "PU") >= 2 {
			e.Nontrivial(ev)
		}
	}
}
