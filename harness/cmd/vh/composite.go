package main

import (
	"context"
	"encoding/base64"
	"encoding/json"
	"errors"
	"fmt"
	"io"
	"log/slog"
	"os"
	"sort"
	"strings"
	"sync"
	"sync/atomic"
	"time"

	"github.com/robbyt/go-supervisor/runnables/composite"
	"github.com/robbyt/go-supervisor/supervisor"
)

func init() { commands["composite"] = runComposite }

type ChildSpec struct {
	Name   string `json:"name"`
	Stop   string `json:"stop"` // f | l
	Cap    string `json:"cap"`  // wc | r | -
	StopMs int    `json:"stopMs"`
	// StartMs delays the child's own start: the time between the invocation of Run (by the composite's
	// goroutine) and the moment the child registers that it runs (what a runnable does before lc.Started())
	StartMs int `json:"startMs"`
}

type CompEntry struct {
	Child int `json:"c"`
	Val   int `json:"v"`
}

type CompConfig struct {
	Kind    string      `json:"kind"` // ok | err | nil
	Entries []CompEntry `json:"entries"`
}

type CompOp struct {
	AtMs int    `json:"at"`
	Kind string `json:"kind"` // reload stop cancel fail:<c>:<outcome e|c|n>
}

type CompScenario struct {
	Pool       []ChildSpec  `json:"pool"`
	Configs    []CompConfig `json:"configs"`
	Ops        []CompOp     `json:"ops"`
	YieldOp    string       `json:"yieldOp"`   // stop | cancel | "" — injected at the reloadWithRestart.beforeBoot yield point
	Sequential bool         `json:"seq"`       // operations are issued one after the other (each waits for the previous to finish)
	PreCancel  bool         `json:"preCancel"` // the context is cancelled before Run() is invoked
	// BootReload: a Reload() is issued while Run() is still booting (from inside the first configuration callback): the
	// reload is refused, the composite goes to Error, Run() starts the children, fails to enter Running and returns
	BootReload bool `json:"bootReload,omitempty"`
	// CbStop: stop | cancel | "" - issued from inside the callback of the first Reload(); the callback then waits until
	// Run() has returned before it hands out the configuration, so that the reload's restart boots after the return
	CbStop string `json:"cbStop,omitempty"`
	// CbFail: child CbFail-1 is made to fail (real error) from inside the callback of the first Reload(), and the
	// callback then waits for Run() to return: a failure propagates while a reload is parked in user code
	CbFail int `json:"cbFail,omitempty"`
	// StopErr: child StopErr-1 answers Stop() or the end of its context by returning a real error from its Run (a listener that reports "closed
	// while serving"): during the composite's own shutdown that is not a failure of a Running composite
	StopErr int `json:"stopErr,omitempty"`
	// SlowPublish: the publication of the state Reloading to the state subscribers is delayed by 3 ms (see publishDelay)
	SlowPublish bool `json:"slowPublish,omitempty"`
}

type compChild struct {
	idx           int
	spec          ChildSpec
	rec           *evRec
	mu            sync.Mutex
	gen           int
	active        int
	running       bool
	startedClosed bool
	doneClosed    bool
	stopCh        chan struct{}
	started       chan struct{}
	done          chan struct{}
	failCh        chan string
	teardown      chan struct{}
	live          *atomic.Int32
	pending       atomic.Int32 // Run invoked, child not yet registered as running (slow starters)
	stopErr       bool         // Run returns a real error when it ends because of Stop()
}

func (c *compChild) String() string { return c.spec.Name }

func (c *compChild) Run(ctx context.Context) error {
	c.pending.Add(1)
	sleepMs(c.spec.StartMs)
	c.mu.Lock()
	c.pending.Add(-1)
	c.gen++
	g := c.gen
	if c.active == 0 && c.doneClosed {
		// like lifecycle.StartStop: the cycle is reset by the Run that follows a finished one
		if c.spec.Stop == "l" {
			c.stopCh = make(chan struct{})
		}
		c.started = make(chan struct{})
		c.startedClosed = false
		c.done = make(chan struct{})
		c.doneClosed = false
	}
	c.active++
	c.running = true
	stopCh := c.stopCh
	if !c.startedClosed {
		close(c.started)
		c.startedClosed = true
	}
	c.mu.Unlock()
	c.rec.add("RI%d.%d", c.idx, g)
	c.live.Add(1)
	out := "n"
	select {
	case <-ctx.Done():
		out = "c"
		if c.stopErr { // a server that reports "listener closed" rather than the context's error
			out = "e"
		}
	case <-stopCh:
		if c.stopErr {
			out = "e"
		}
	case o := <-c.failCh:
		out = o
	case <-c.teardown:
	}
	var err error
	switch out {
	case "c":
		err = fmt.Errorf("%s: %w", c.spec.Name, context.Canceled)
	case "e":
		err = fmt.Errorf("childerr%d", c.idx)
	case "j": // a joined error that also wraps a real failure
		err = errors.Join(fmt.Errorf("childerr%d", c.idx), errors.New("second"))
	}
	if out == "j" {
		out = "e"
	}
	c.live.Add(-1)
	c.mu.Lock()
	c.active--
	c.rec.add("RR%d.%d:%s", c.idx, g, out)
	if c.active == 0 {
		c.running = false
		close(c.done)
		c.doneClosed = true
	}
	c.mu.Unlock()
	return err
}

func (c *compChild) Stop() {
	c.rec.add("SI%d", c.idx)
	c.mu.Lock()
	stopCh, started, done := c.stopCh, c.started, c.done
	if c.spec.Stop != "l" {
		c.stopCh = make(chan struct{}) // free style: Runs invoked after this Stop are not affected by it
	}
	c.mu.Unlock()
	select {
	case <-stopCh: // lifecycle style: a Stop before (or during) the Run of this cycle stays in force
	default:
		close(stopCh)
	}
	sleepMs(c.spec.StopMs)
	if c.spec.Stop == "l" {
		select {
		case <-started:
			select {
			case <-done:
			case <-c.teardown:
				return
			}
		case <-c.teardown:
			return
		}
	}
	c.rec.add("SR%d", c.idx)
}

type childWC struct{ *compChild }

func (c childWC) ReloadWithConfig(v any) { c.rec.add("WC%d:%v", c.idx, v) }

type childR struct{ *compChild }

func (c childR) Reload(context.Context) { c.rec.add("RL%d", c.idx) }

type compResult struct {
	stream string
	events []string
	hung   bool
	live   int
	final  string
}

func runCompScenario(sc CompScenario) compResult {
	rec := &evRec{t0: time.Now(), last: time.Now()}
	var live atomic.Int32
	teardown := make(chan struct{})
	children := make([]*compChild, len(sc.Pool))
	runnables := make([]supervisor.Runnable, len(sc.Pool))
	for i, sp := range sc.Pool {
		children[i] = &compChild{idx: i, spec: sp, rec: rec, stopCh: make(chan struct{}), started: make(chan struct{}), done: make(chan struct{}),
			failCh: make(chan string, 1), teardown: teardown, live: &live, stopErr: sc.StopErr == i+1}
		switch sp.Cap {
		case "wc":
			runnables[i] = childWC{children[i]}
		case "r":
			runnables[i] = childR{children[i]}
		default:
			runnables[i] = children[i]
		}
	}
	var cbCount, wantRunning atomic.Int32
	var injected atomic.Bool // a child was made to exit by itself: fewer children than configured is then expected
	var runnerRef atomic.Pointer[composite.Runner[supervisor.Runnable]]
	var cbStopFn, cbFailFn atomic.Pointer[func()]
	cb := func() (*composite.Config[supervisor.Runnable], error) {
		k := int(cbCount.Add(1)) - 1
		if k == 0 && sc.BootReload {
			if rp := runnerRef.Load(); rp != nil {
				rec.add("LC90")
				rc, rcancel := context.WithCancel(context.Background())
				rp.Reload(rc)
				rcancel()
				rec.addNow(func() string { return fmt.Sprintf("LT90:%s", rp.GetState()) })
			}
		}
		if k == 1 && sc.CbFail > 0 {
			if f := cbFailFn.Load(); f != nil {
				(*f)()
			}
		}
		if k == 1 && sc.CbStop != "" {
			if f := cbStopFn.Load(); f != nil {
				(*f)()
			}
		}
		idx := k
		if idx >= len(sc.Configs) {
			idx = len(sc.Configs) - 1
		}
		c := sc.Configs[idx]
		switch c.Kind {
		case "err":
			rec.add("CB%d:err", k)
			return nil, errors.New("callback failed")
		case "nil":
			rec.add("CB%d:nil", k)
			return nil, nil
		}
		rec.add("CB%d:%d", k, idx)
		wantRunning.Store(int32(len(c.Entries)))
		var es []composite.RunnableEntry[supervisor.Runnable]
		for _, e := range c.Entries {
			es = append(es, composite.RunnableEntry[supervisor.Runnable]{Runnable: runnables[e.Child], Config: e.Val})
		}
		cfg, err := composite.NewConfig("comp", es)
		must(err)
		return cfg, nil
	}
	var lw io.Writer = io.Discard
	if os.Getenv("VH_DEBUG") != "" {
		lw = os.Stderr
	}
	var lh slog.Handler = slog.NewTextHandler(lw, &slog.HandlerOptions{Level: slog.LevelDebug})
	if sc.SlowPublish {
		lh = publishDelay{lh, map[string]time.Duration{"Reloading": 3 * time.Millisecond}}
	}
	runner, err := composite.NewRunner(cb, composite.WithLogHandler[supervisor.Runnable](lh))
	must(err)
	runnerRef.Store(runner)
	ctx, cancel := context.WithCancel(context.Background())
	defer cancel()
	var cancelOnce sync.Once
	doCancel := func() { cancelOnce.Do(func() { rec.add("CX"); cancel() }) }
	runDone := make(chan struct{})
	cbStop := func() {
		switch sc.CbStop {
		case "stop":
			go func() { rec.add("TC7"); runner.Stop(); rec.add("TR7") }()
		case "cancel":
			doCancel()
		}
		select { // Run() reacts while the reload is parked in its callback
		case <-runDone:
		case <-time.After(400 * time.Millisecond):
		}
	}
	cbStopFn.Store(&cbStop)
	cbFail := func() {
		c := sc.CbFail - 1
		children[c].mu.Lock()
		running := children[c].running && children[c].active == 1
		children[c].mu.Unlock()
		if !running {
			return
		}
		injected.Store(true)
		rec.addIf(func() bool {
			select {
			case children[c].failCh <- "e":
				return true
			default:
				return false
			}
		}, "FX%d:%s", c, "e")
		select { // the failure must end Run() although this reload is still fetching its configuration
		case <-runDone:
			rec.add("CW:done")
		case <-time.After(400 * time.Millisecond):
			rec.add("CW:timeout")
		}
	}
	cbFailFn.Store(&cbFail)
	// the yield hook: inject Stop/cancel between setConfig and boot of a restart reload
	var yielded atomic.Bool
	compositeYield.Store(&yieldFn{f: func(point string) {
		if sc.YieldOp == "" || !yielded.CompareAndSwap(false, true) {
			return
		}
		rec.add("Y")
		switch sc.YieldOp {
		case "stop":
			go func() { rec.add("TC9"); runner.Stop(); rec.add("TR9") }()
		case "cancel":
			doCancel()
		}
		time.Sleep(3 * time.Millisecond) // let Run react while the reload is parked here
	}})
	if sc.PreCancel {
		doCancel()
	}
	watch := watchStates(runner.GetStateChan, time.Duration(len(sc.Ops)*3)*time.Millisecond)
	go func() {
		rec.add("RUN")
		res := runner.Run(ctx)
		cls := "nil"
		if res != nil {
			cls = "other"
			if errors.Is(res, composite.ErrRunnableFailed) {
				cls = "failed"
				for i := range children {
					if strings.Contains(res.Error(), fmt.Sprintf("childerr%d", i)) {
						cls = fmt.Sprintf("failed%d", i)
					}
				}
			}
		}
		rec.addNow(func() string { return fmt.Sprintf("RET:%s:%s", cls, runner.GetState()) })
		close(runDone)
	}()
	// wait until Running (or Run returned)
	for i := 0; i < 400 && !runner.IsRunning(); i++ {
		select {
		case <-runDone:
			i = 400
		default:
			time.Sleep(500 * time.Microsecond)
		}
	}
	maxStart := 0
	for _, sp := range sc.Pool {
		if sp.StartMs > maxStart {
			maxStart = sp.StartMs
		}
	}
	snapshot := func(tag string) {
		time.Sleep(4 * time.Millisecond)
		for k := 0; k < 400 && maxStart > 0; k++ { // slow starters: until every invoked Run has registered
			p := int32(0)
			for _, c := range children {
				p += c.pending.Load()
			}
			if p == 0 {
				break
			}
			time.Sleep(500 * time.Microsecond)
		}
		if maxStart > 0 {
			time.Sleep(time.Millisecond)
		}
		// the composite reports Running as soon as the children's goroutines exist; a child registers as running
		// only when its goroutine gets to call Run.  On a busy machine that can take longer than the pause above:
		// wait (never more than 150 ms) for as many children as the configuration in force has
		for k := 0; k < 300 && runner.GetState() == "Running" && !injected.Load(); k++ {
			n := int32(0)
			for _, c := range children {
				c.mu.Lock()
				n += int32(c.active)
				c.mu.Unlock()
			}
			if n >= wantRunning.Load() {
				break
			}
			time.Sleep(500 * time.Microsecond)
		}
		var run []string
		for _, c := range children {
			c.mu.Lock()
			for k := 0; k < c.active; k++ { // a child that runs twice is listed twice
				run = append(run, fmt.Sprint(c.idx))
			}
			c.mu.Unlock()
		}
		sort.Strings(run)
		rec.addNow(func() string { return fmt.Sprintf("SN%s:%s:%s", tag, runner.GetState(), strings.Join(run, ".")) })
	}
	snapshot("i")
	var ops sync.WaitGroup
	start := time.Now()
	var reloadNo, stopNo atomic.Int32
	doOp := func(op CompOp) {
		switch {
		case op.Kind == "reload" || op.Kind == "reloadx":
			// reloadx: two reloads back to back (the second is issued while the children started by the
			// first may not have begun to run)
			n := 1
			if op.Kind == "reloadx" {
				n = 2
			}
			var k int32
			for j := 0; j < n; j++ {
				k = reloadNo.Add(1) - 1
				rec.add("LC%d", k)
				// the caller's context lives exactly as long as the call (request-scoped): Reload() must not tie anything to it
				rc, rcancel := context.WithCancel(context.Background())
				runner.Reload(rc)
				rcancel()
				rec.addNow(func() string { return fmt.Sprintf("LT%d:%s", k, runner.GetState()) })
			}
			if sc.Sequential {
				snapshot(fmt.Sprint(k))
			}
		case op.Kind == "stop":
			k := stopNo.Add(1) - 1
			rec.add("TC%d", k)
			runner.Stop()
			rec.add("TR%d", k)
		case op.Kind == "cancel":
			doCancel()
		case strings.HasPrefix(op.Kind, "fail:"):
			var c int
			var o string
			fmt.Sscanf(op.Kind, "fail:%d:%s", &c, &o)
			// only a child that is running can exit
			children[c].mu.Lock()
			running := children[c].running && children[c].active == 1
			children[c].mu.Unlock()
			if running {
				injected.Store(true)
				rec.addIf(func() bool {
					select {
					case children[c].failCh <- o:
						return true
					default:
						return false
					}
				}, "FX%d:%s", c, o)
			}
		}
	}
	opsDone := make(chan struct{})
	go func() {
		for _, op := range sc.Ops {
			if sc.Sequential {
				doOp(op)
				switch {
				case op.Kind == "cancel" || strings.HasPrefix(op.Kind, "fail:"):
					// sequential history: let Run finish reacting before the next operation
					select {
					case <-runDone:
					case <-time.After(12 * time.Millisecond):
					}
				case op.Kind != "reload" && op.Kind != "reloadx":
					time.Sleep(3 * time.Millisecond)
				}
				continue
			}
			if d := time.Duration(op.AtMs)*time.Millisecond - time.Since(start); d > 0 {
				time.Sleep(d)
			}
			ops.Add(1)
			go func(op CompOp) { defer ops.Done(); doOp(op) }(op)
		}
		ops.Wait()
		close(opsDone)
	}()
	res := compResult{}
	wait := func(ch chan struct{}) bool {
		for {
			select {
			case <-ch:
				return true
			case <-time.After(20 * time.Millisecond):
				_, last := rec.snapshot()
				if time.Since(last) > 1200*time.Millisecond {
					return false
				}
			}
		}
	}
	if !wait(opsDone) {
		res.hung = true
	}
	// finish: make sure Run ends (a final Stop unless one was part of the scenario), then check what is left
	if !res.hung {
		// give the composite time to react to what happened (a failing child must end Run by itself)
		select {
		case <-runDone:
		case <-time.After(15 * time.Millisecond):
		}
		select {
		case <-runDone:
		default:
			fin := make(chan struct{})
			go func() { rec.add("TC8"); runner.Stop(); rec.add("TR8"); close(fin) }()
			if !wait(fin) || !wait(runDone) {
				res.hung = true
			}
		}
	}
	if !res.hung {
		for k := 0; k < 100 && live.Load() > 0; k++ {
			time.Sleep(2 * time.Millisecond)
		}
	}
	res.live = int(live.Load())
	res.final = runner.GetState()
	res.events, _ = rec.snapshot()
	ret := ""
	for _, e := range res.events {
		if strings.HasPrefix(e, "RET:") {
			f := strings.Split(e, ":")
			cls := "err"
			if f[1] == "nil" {
				cls = "nil"
			}
			ret = cls + ":" + f[2]
		}
	}
	// "single Run, nothing else in flight when it returned": sequential histories in which no Reload follows the return
	single := sc.Sequential && sc.YieldOp == ""
	seenRet := false
	for _, e := range res.events {
		if strings.HasPrefix(e, "RET:") {
			seenRet = true
		}
		if seenRet && strings.HasPrefix(e, "LC") {
			single = false
		}
	}
	res.stream = streamLine(watch, ret, single)
	close(teardown)
	compositeYield.Store(nil)
	return res
}

type yieldFn struct{ f func(string) }

var compositeYield atomic.Pointer[yieldFn]

func encComp(sc CompScenario) string {
	b, _ := json.Marshal(sc)
	return base64.RawURLEncoding.EncodeToString(b)
}

func compHeader(sc CompScenario, r compResult) string {
	pool := make([]string, len(sc.Pool))
	for i, c := range sc.Pool {
		pool[i] = hx(c.Name) + ":" + c.Stop + ":" + c.Cap
	}
	cfgs := make([]string, len(sc.Configs))
	for i, c := range sc.Configs {
		if c.Kind != "ok" {
			cfgs[i] = c.Kind
			continue
		}
		es := make([]string, len(c.Entries))
		for j, e := range c.Entries {
			es[j] = fmt.Sprintf("%d-%d", e.Child, e.Val)
		}
		cfgs[i] = "ok" + strings.Join(es, ".")
	}
	b2i := func(b bool) int {
		if b {
			return 1
		}
		return 0
	}
	return fmt.Sprintf("pool=%s cfgs=%s seq=%d end=hung%d.live%d.%s scn~%s", strings.Join(pool, ","), strings.Join(cfgs, ","), b2i(sc.Sequential),
		b2i(r.hung), r.live, r.final, encComp(sc))
}

func genCompScenario(r interface {
	IntN(int) int
	Perm(int) []int
}) (CompScenario, string) {
	names := []string{"a", "b", "c", "d", "e"}
	np := 2 + r.IntN(4)
	sc := CompScenario{Sequential: r.IntN(3) != 0}
	lifecycle := r.IntN(3) == 0
	for i := 0; i < np; i++ {
		cs := ChildSpec{Name: names[i], Stop: "f", Cap: []string{"wc", "wc", "r", "-"}[r.IntN(4)], StopMs: r.IntN(3)}
		if lifecycle && r.IntN(2) == 0 {
			cs.Stop = "l"
		}
		sc.Pool = append(sc.Pool, cs)
	}
	genCfg := func(dupOK bool) CompConfig {
		switch r.IntN(14) {
		case 0:
			return CompConfig{Kind: "err"}
		case 1:
			return CompConfig{Kind: "nil"}
		}
		perm := r.Perm(np)
		k := r.IntN(np + 1)
		c := CompConfig{Kind: "ok"}
		for _, ci := range perm[:k] {
			c.Entries = append(c.Entries, CompEntry{ci, r.IntN(4)})
		}
		return c
	}
	first := genCfg(false)
	for first.Kind != "ok" {
		first = genCfg(false)
	}
	sc.Configs = append(sc.Configs, first)
	nops := 1 + r.IntN(5)
	kind := "sequential"
	if !sc.Sequential {
		kind = "concurrent"
	}
	for k := 0; k < nops; k++ {
		op := CompOp{AtMs: msGrid[r.IntN(len(msGrid))] + r.IntN(3)*5}
		switch c := r.IntN(10); {
		case c < 6:
			op.Kind = "reload"
			prev := sc.Configs[len(sc.Configs)-1]
			next := genCfg(false)
			if prev.Kind == "ok" && next.Kind == "ok" && r.IntN(3) == 0 { // same membership, permuted, new values
				next = CompConfig{Kind: "ok"}
				for _, pi := range r.Perm(len(prev.Entries)) {
					next.Entries = append(next.Entries, CompEntry{prev.Entries[pi].Child, r.IntN(4)})
				}
			}
			sc.Configs = append(sc.Configs, next)
		case c < 7:
			op.Kind = "stop"
		case c < 8:
			op.Kind = "cancel"
		default:
			op.Kind = fmt.Sprintf("fail:%d:%s", r.IntN(np), []string{"e", "e", "j", "c", "n"}[r.IntN(5)])
		}
		sc.Ops = append(sc.Ops, op)
	}
	if sc.Sequential && r.IntN(5) == 0 { // slow starters and back-to-back reloads
		sc.Pool[r.IntN(np)].StartMs = 5 + r.IntN(5)
		var cfgs []CompConfig
		cfgs = append(cfgs, sc.Configs[0])
		ci := 1
		for k := range sc.Ops {
			if sc.Ops[k].Kind != "reload" {
				continue
			}
			cfgs = append(cfgs, sc.Configs[ci])
			ci++
			if r.IntN(2) == 0 {
				sc.Ops[k].Kind = "reloadx"
				next := genCfg(false)
				for next.Kind != "ok" {
					next = genCfg(false)
				}
				cfgs = append(cfgs, next)
			}
		}
		sc.Configs = cfgs
		kind += "+slowstart"
	}
	if r.IntN(5) == 0 && !lifecycle { // Stop/cancel placed inside a restart reload (free-style children: no deadlock finding)
		sc.YieldOp = []string{"stop", "cancel"}[r.IntN(2)]
		kind += "+yield"
	}
	if lifecycle {
		kind += "+lifecycle"
	}
	if r.IntN(25) == 0 && sc.YieldOp == "" {
		sc.PreCancel = true
		kind += "+precancel"
	}
	if !sc.Sequential && r.IntN(3) == 0 {
		sc.SlowPublish = true // delayed publication of Reloading: see publishDelay
	}
	return sc, kind
}

var compCorpus = []CompScenario{
	// a child that answers Stop() with a real error: Run() of the stopped composite returns nil and the state is Stopped
	{Pool: []ChildSpec{{"a", "f", "wc", 3, 0}, {"b", "f", "wc", 0, 0}},
		Configs: []CompConfig{{"ok", []CompEntry{{0, 1}, {1, 1}}}}, Ops: []CompOp{{0, "stop"}}, StopErr: 1, Sequential: true},
	{Pool: []ChildSpec{{"a", "l", "wc", 2, 0}, {"b", "l", "r", 2, 0}},
		Configs: []CompConfig{{"ok", []CompEntry{{0, 1}, {1, 1}}}}, Ops: []CompOp{{0, "cancel"}}, StopErr: 2},
	// a child fails while a Reload() is parked in the configuration callback: Run() returns the failure without waiting
	// for the reload
	{Pool: []ChildSpec{{"a", "f", "wc", 0, 0}, {"b", "f", "wc", 0, 0}},
		Configs: []CompConfig{{"ok", []CompEntry{{0, 1}, {1, 1}}}, {"ok", []CompEntry{{0, 2}, {1, 2}}}},
		Ops:     []CompOp{{0, "reload"}}, CbFail: 2},
	{Pool: []ChildSpec{{"a", "l", "wc", 0, 0}, {"b", "l", "r", 0, 0}, {"c", "f", "-", 0, 0}},
		Configs: []CompConfig{{"ok", []CompEntry{{0, 1}, {1, 1}}}, {"ok", []CompEntry{{0, 1}, {2, 1}}}},
		Ops:     []CompOp{{0, "reload"}}, CbFail: 1},
	// a child fails while a Reload() has just changed the state: the subscribers see Reloading before Error
	{Pool: []ChildSpec{{"a", "f", "wc", 0, 0}, {"b", "f", "wc", 0, 0}},
		Configs: []CompConfig{{"ok", []CompEntry{{0, 1}, {1, 1}}}, {"ok", []CompEntry{{0, 2}, {1, 2}}}},
		Ops:     []CompOp{{0, "reload"}, {1, "fail:0:e"}}, SlowPublish: true},
	{Pool: []ChildSpec{{"a", "f", "wc", 0, 0}, {"b", "f", "r", 0, 0}},
		Configs: []CompConfig{{"ok", []CompEntry{{0, 1}, {1, 1}}}, {"ok", []CompEntry{{1, 2}, {0, 2}}}},
		Ops:     []CompOp{{0, "reload"}, {1, "fail:1:e"}}, SlowPublish: true},
	{Pool: []ChildSpec{{"a", "f", "wc", 0, 0}},
		Configs: []CompConfig{{"ok", []CompEntry{{0, 1}}}, {"ok", []CompEntry{{0, 2}}}},
		Ops:     []CompOp{{0, "reload"}, {1, "stop"}}, SlowPublish: true},
	{Pool: []ChildSpec{{"a", "f", "wc", 0, 0}},
		Configs: []CompConfig{{"ok", []CompEntry{{0, 1}}}, {"ok", []CompEntry{{0, 2}}}},
		Ops:     []CompOp{{0, "reload"}, {2, "fail:0:e"}}, SlowPublish: true},
	// a Reload() while Run() is still booting: refused, Error; Run() starts the children, cannot enter Running and
	// returns - every child it started must end
	{Pool: []ChildSpec{{"a", "f", "wc", 0, 0}, {"b", "f", "wc", 0, 0}},
		Configs: []CompConfig{{"ok", []CompEntry{{0, 1}, {1, 1}}}}, BootReload: true},
	{Pool: []ChildSpec{{"a", "l", "wc", 0, 0}, {"b", "l", "r", 0, 0}, {"c", "f", "-", 0, 0}},
		Configs: []CompConfig{{"ok", []CompEntry{{0, 1}, {1, 1}, {2, 1}}}}, BootReload: true},
	// Stop / cancel while a restart reload is still fetching its configuration: Run() returns first, the reload's
	// boot comes afterwards - its children are born with a context that is done and must end
	{Pool: []ChildSpec{{"a", "f", "wc", 0, 0}, {"b", "f", "wc", 0, 0}, {"c", "f", "r", 0, 0}},
		Configs: []CompConfig{{"ok", []CompEntry{{0, 1}}}, {"ok", []CompEntry{{1, 1}, {2, 1}}}},
		Ops:     []CompOp{{0, "reload"}}, CbStop: "stop"},
	{Pool: []ChildSpec{{"a", "l", "wc", 0, 0}, {"b", "l", "wc", 0, 0}, {"c", "l", "r", 0, 0}},
		Configs: []CompConfig{{"ok", []CompEntry{{0, 1}}}, {"ok", []CompEntry{{1, 1}, {2, 1}}}},
		Ops:     []CompOp{{0, "reload"}}, CbStop: "cancel"},
	{Pool: []ChildSpec{{"a", "l", "wc", 0, 0}, {"b", "l", "wc", 0, 0}},
		Configs: []CompConfig{{"ok", []CompEntry{{0, 1}}}, {"ok", []CompEntry{{0, 1}, {1, 1}}}},
		Ops:     []CompOp{{0, "reload"}}, CbStop: "stop"},
	// grow 1 -> 3, then a new child fails (finding C10-F1, fixed)
	{Pool: []ChildSpec{{"a", "f", "wc", 0, 0}, {"b", "f", "wc", 0, 0}, {"c", "f", "r", 0, 0}},
		Configs: []CompConfig{{"ok", []CompEntry{{0, 1}}}, {"ok", []CompEntry{{0, 1}, {1, 1}, {2, 1}}}},
		Ops:     []CompOp{{0, "reload"}, {0, "fail:1:e"}}, Sequential: true},
	// permutation with new values: in-place reload
	{Pool: []ChildSpec{{"a", "f", "wc", 0, 0}, {"b", "f", "r", 0, 0}, {"c", "f", "-", 0, 0}},
		Configs: []CompConfig{{"ok", []CompEntry{{0, 1}, {1, 1}, {2, 1}}}, {"ok", []CompEntry{{2, 2}, {0, 3}, {1, 2}}}},
		Ops:     []CompOp{{0, "reload"}}, Sequential: true},
	// Stop inside a restart reload with lifecycle-style children (finding C09-F1, open)
	{Pool: []ChildSpec{{"a", "l", "wc", 0, 0}, {"b", "l", "wc", 0, 0}},
		Configs: []CompConfig{{"ok", []CompEntry{{0, 1}}}, {"ok", []CompEntry{{0, 1}, {1, 1}}}},
		Ops:     []CompOp{{0, "reload"}}, YieldOp: "stop", Sequential: true},
	// a child that is slow to start (8 ms between Run's invocation and its own start) is removed by the reload
	// that follows the one that started it (finding C09-F2, fixed)
	{Pool: []ChildSpec{{"a", "f", "wc", 0, 0}, {"b", "f", "wc", 0, 8}},
		Configs: []CompConfig{{"ok", []CompEntry{{0, 1}, {1, 1}}}, {"ok", []CompEntry{{0, 1}}}, {"ok", []CompEntry{{0, 1}, {1, 1}}}, {"ok", []CompEntry{{0, 1}}}},
		Ops:     []CompOp{{0, "reload"}, {0, "reloadx"}}, Sequential: true},
	{Pool: []ChildSpec{{"a", "l", "wc", 0, 0}, {"b", "l", "wc", 0, 8}},
		Configs: []CompConfig{{"ok", []CompEntry{{0, 1}, {1, 1}}}, {"ok", []CompEntry{{0, 1}}}, {"ok", []CompEntry{{1, 1}, {0, 1}}}, {"ok", []CompEntry{{1, 2}}}},
		Ops:     []CompOp{{0, "reload"}, {0, "reloadx"}}, Sequential: true},
	// a slow starter is added and the very next reload empties the configuration: nothing may be left running
	{Pool: []ChildSpec{{"a", "f", "wc", 0, 8}, {"b", "f", "wc", 0, 0}},
		Configs: []CompConfig{{"ok", []CompEntry{{1, 1}}}, {"ok", []CompEntry{{0, 1}, {1, 1}}}, {"ok", nil}},
		Ops:     []CompOp{{0, "reloadx"}}, Sequential: true},
	{Pool: []ChildSpec{{"a", "f", "r", 0, 6}, {"b", "f", "wc", 0, 9}},
		Configs: []CompConfig{{"ok", nil}, {"ok", []CompEntry{{0, 1}, {1, 1}}}, {"ok", nil}, {"ok", []CompEntry{{1, 2}}}},
		Ops:     []CompOp{{0, "reloadx"}, {0, "reload"}}, Sequential: true},
	// Run() invoked with an already cancelled context, children whose Stop waits for their Run (bundled style)
	{Pool: []ChildSpec{{"a", "l", "wc", 0, 0}, {"b", "l", "wc", 0, 0}}, Configs: []CompConfig{{"ok", []CompEntry{{0, 1}, {1, 1}}}}, Ops: []CompOp{{0, "stop"}}, Sequential: true, PreCancel: true},
	{Pool: []ChildSpec{{"a", "f", "wc", 0, 0}, {"b", "l", "r", 0, 0}}, Configs: []CompConfig{{"ok", []CompEntry{{0, 1}, {1, 1}}}}, Ops: nil, Sequential: true, PreCancel: true},
	// callback error then recovery
	{Pool: []ChildSpec{{"a", "f", "wc", 0, 0}, {"b", "f", "wc", 0, 0}},
		Configs: []CompConfig{{"ok", []CompEntry{{0, 1}}}, {Kind: "err"}, {"ok", []CompEntry{{1, 1}}}},
		Ops:     []CompOp{{0, "reload"}, {0, "reload"}}, Sequential: true},
}

func runComposite(o Opts) {
	e := NewEmitter(o.Out, "composite")
	defer e.Close(o.Out, "composite", nil)
	composite.VerifYield = func(point string) {
		if y := compositeYield.Load(); y != nil {
			y.f(point)
		}
	}
	type job struct {
		sc   CompScenario
		kind string
	}
	var jobs []job
	if o.Replay != "" {
		for _, l := range replayLines(o.Replay) {
			for _, w := range strings.Fields(l) {
				if strings.HasPrefix(w, "scn~") {
					b, err := base64.RawURLEncoding.DecodeString(strings.TrimPrefix(w, "scn~"))
					must(err)
					var sc CompScenario
					must(json.Unmarshal(b, &sc))
					jobs = append(jobs, job{sc, "replay"})
				}
			}
		}
	} else {
		for _, sc := range compCorpus {
			jobs = append(jobs, job{sc, "corpus"})
		}
		r := newRand(o.Seed, 9)
		n := 800
		if o.Thorough {
			n = 12000
		}
		if o.N > 0 {
			n = o.N
		}
		for i := 0; i < n; i++ {
			sc, kind := genCompScenario(r)
			jobs = append(jobs, job{sc, kind})
		}
	}
	// the yield hook is process-global: scenarios run one at a time
	for _, j := range jobs {
		r := runCompScenario(j.sc)
		e.Stats["gen:"+j.kind]++
		if r.hung {
			e.Stats["end:hung"]++
		}
		ev := strings.Join(r.events, " ")
		h := compHeader(j.sc, r)
		slow := false
		for _, sp := range j.sc.Pool {
			slow = slow || sp.StartMs > 0
		}
		// every observed trace must be a behaviour of the concurrent model CompLts (trace acceptor in the Lean driver)
		e.Case("compaccept "+h+" "+ev, "accepted")
		if j.sc.PreCancel {
			// Run() with an already cancelled context: children are started, see the cancellation, and everything
			// returns; the sequential model starts from a live context, so only the C09 statement is evaluated
			e.Case("c09holds "+h+" "+ev, "true")
			e.Nontrivial(h[:strings.Index(h, " scn~")] + " " + ev)
			continue
		}
		if slow {
			// slow starters: child events arrive after the reload that caused them returned, which the
			// per-reload statements of C10/C11 and the sequential model do not describe; C09 only
			e.Case("c09holds "+h+" "+ev, "true")
			if strings.Contains(ev, "LC") {
				e.Nontrivial(h[:strings.Index(h, " scn~")] + " " + ev)
			}
			continue
		}
		for _, c := range []string{"c09holds", "c10holds", "c11holds"} {
			e.Case(c+" "+h+" "+ev, "true")
		}
		e.Case("compseq "+h+" "+ev, "agree")
		if r.stream != "" && !r.hung {
			e.Case(r.stream+" scn~"+encComp(j.sc), "true")
		}
		if strings.Contains(ev, "LC") || strings.Contains(ev, "FX") {
			e.Nontrivial(h[:strings.Index(h, " scn~")] + " " + ev)
		}
	}
}
