package main

import (
	"encoding/hex"
	"encoding/json"
	"errors"
	"fmt"
	"net"
	"os"
	"strconv"
	"strings"

	"github.com/robbyt/go-supervisor/internal/networking"
)

func init() { commands["port"] = runPort }

func portClass(err error) string {
	switch {
	case errors.Is(err, networking.ErrEmptyPort):
		return "ErrEmptyPort"
	case errors.Is(err, networking.ErrPortOutOfRange):
		return "ErrPortOutOfRange"
	case errors.Is(err, networking.ErrInvalidFormat):
		return "ErrInvalidFormat"
	}
	return "other:" + err.Error()
}

func splitClass(err error) string {
	var ae *net.AddrError
	if errors.As(err, &ae) {
		switch ae.Err {
		case "missing port in address":
			return "missingPort"
		case "too many colons in address":
			return "tooManyColons"
		case "missing ']' in address":
			return "missingRbr"
		case "unexpected '[' in address":
			return "unexpectedLbr"
		case "unexpected ']' in address":
			return "unexpectedRbr"
		}
	}
	return "other:" + err.Error()
}

func vpAnswer(s string) string {
	r, err := networking.ValidatePort(s)
	if err != nil {
		return "err " + portClass(err)
	}
	return "ok " + hx(r)
}

// portCase emits, for one input string: the model comparison for ValidatePort, SplitHostPort and
// Atoi, and the property oracle line `c20holds` carrying everything the implementation returned
// (first validation, second validation of the result, split of the result).
func portCase(e *Emitter, s string, kind string) {
	e.Stats["gen:"+kind]++
	first := vpAnswer(s)
	e.Case("port "+hx(s), first)
	h, p, err := net.SplitHostPort(s)
	if err != nil {
		e.Case("split "+hx(s), "err "+splitClass(err))
	} else {
		e.Case("split "+hx(s), "ok "+hx(h)+" "+hx(p))
	}
	v, err := strconv.Atoi(s)
	if err != nil {
		e.Case("atoi "+hx(s), "err")
	} else {
		e.Case("atoi "+hx(s), fmt.Sprintf("ok %d", v))
	}
	// oracle line: the Lean statement of C20 evaluated on what the implementation did
	second, split2 := "na", "na"
	if strings.HasPrefix(first, "ok ") {
		r, _ := networking.ValidatePort(s)
		second = strings.ReplaceAll(vpAnswer(r), " ", "=")
		h2, p2, err2 := net.SplitHostPort(r)
		if err2 != nil {
			split2 = "err=" + splitClass(err2)
		} else {
			split2 = "ok=" + hx(h2) + "=" + hx(p2)
		}
		e.Stats["out:accepted"]++
		e.Nontrivial(s)
	} else {
		e.Stats["out:"+first[4:]]++
		if strings.ContainsAny(s, ":[]+-") || len(s) > 5 {
			e.Nontrivial(s)
		}
	}
	e.Case("c20holds "+hx(s)+" "+strings.ReplaceAll(first, " ", "=")+" "+second+" "+split2, "true")
}

var portAlphabet = []string{"0", "1", "9", "5", "6", "+", "-", ":", "[", "]", ".", "a", "%", " ", "\x00", "\xc3\xa9"}

func runPort(o Opts) {
	e := NewEmitter(o.Out, "port")
	if o.Replay != "" {
		for _, s := range replayInputs(o.Replay) {
			portCase(e, s, "replay")
		}
		e.Close(o.Out, "port", nil)
		return
	}
	// 1. corpus of boundary cases (always first)
	for _, s := range []string{"", ":", "0", "1", "65535", "65536", ":0", ":1", ":65535", ":65536", "-1", ":-1", "+80", ":+80",
		"080", "00000000000000000000080", "9223372036854775807", "9223372036854775808", ":9223372036854775808",
		"18446744073709551616", "99999999999999999999999999999x", "999999999999999999999999999999", "-9223372036854775808", "-9223372036854775809",
		"[::1]:8080", "[::1]:80", "[fe80::1%eth0]:443", "[]:80", "[a]:80", "[a:b]:1", "[:]:1", "[::1]", "[::1]:", "[::1]8080", "[::1]::80",
		"::1:8080", "a:b:80", "localhost:8080", "127.0.0.1:8080", "host:", "host:abc", "host:-1", "a[b]:80", "[a]b:80", "[a][b]:80", "[[a]:80", "[a]]:80",
		"x]:80", "x[:80", " :80", ":80 ", " 80", "80\n", "８０", ":８０", "host:0x50", "host:8_0", "1_0", "0x10", "1e3", ":-", "-", "+", ":+", "-:80", "-a:80", "a:-:80"} {
		portCase(e, s, "corpus")
	}
	// 2. exhaustive over the alphabet up to a bounded length
	maxLen := 3
	if o.Thorough {
		maxLen = 4
	}
	var rec func(prefix string, depth int)
	rec = func(prefix string, depth int) {
		if depth > 0 {
			portCase(e, prefix, fmt.Sprintf("exhaustive_len%d", depth))
		}
		if depth == maxLen {
			return
		}
		for _, a := range portAlphabet {
			rec(prefix+a, depth+1)
		}
	}
	rec("", 0)
	// 3. structured: valid forms, mutated
	r := newRand(o.Seed, 20)
	n := 20000
	if o.Thorough {
		n = 200000
	}
	if o.N > 0 {
		n = o.N
	}
	hosts := []string{"", "localhost", "127.0.0.1", "a", "host.example.com", "::1", "fe80::1%eth0", "2001:db8::1", "a-b", "-", "x:-y", "[", "]", "h h"}
	ports := []string{"1", "80", "8080", "65535", "65536", "0", "00080", "99999", "70000", "-1", "+80", "abc", "", "8080a", "9223372036854775808", "4294967376", " 80", "1_0"}
	for i := 0; i < n; i++ {
		h := hosts[r.IntN(len(hosts))]
		p := ports[r.IntN(len(ports))]
		if r.IntN(4) == 0 {
			p = strconv.Itoa(r.IntN(70000))
		}
		var s string
		switch r.IntN(5) {
		case 0:
			s = p
		case 1:
			s = ":" + p
		case 2:
			s = h + ":" + p
		case 3:
			s = "[" + h + "]:" + p
		default:
			s = net.JoinHostPort(h, p)
		}
		kind := "structured"
		// mutate
		for k := r.IntN(3); k > 0 && len(s) > 0; k-- {
			kind = "structured_mutated"
			pos := r.IntN(len(s) + 1)
			switch r.IntN(3) {
			case 0:
				s = s[:pos] + portAlphabet[r.IntN(len(portAlphabet))] + s[pos:]
			case 1:
				if pos < len(s) {
					s = s[:pos] + s[pos+1:]
				}
			default:
				if pos < len(s) {
					s = s[:pos] + portAlphabet[r.IntN(len(portAlphabet))] + s[pos+1:]
				}
			}
		}
		portCase(e, s, kind)
	}
	// 4. byte-random
	for i := 0; i < n/4; i++ {
		l := r.IntN(12)
		b := make([]byte, l)
		for j := range b {
			if r.IntN(2) == 0 {
				b[j] = byte(r.IntN(256))
			} else {
				b[j] = portAlphabet[r.IntN(13)][0]
			}
		}
		portCase(e, string(b), "byte_random")
	}
	e.Close(o.Out, "port", nil)
}

// replayInputs returns the input strings of a replay file (request lines of failed oracle cases).
func replayInputs(path string) []string {
	b, err := os.ReadFile(path)
	must(err)
	var rp struct {
		Inputs []string `json:"inputs"`
	}
	must(json.Unmarshal(b, &rp))
	var out []string
	for _, l := range rp.Inputs {
		f := strings.Fields(l)
		if len(f) >= 2 {
			if f[1] == "-" {
				out = append(out, "")
			} else if bs, err := hex.DecodeString(f[1]); err == nil {
				out = append(out, string(bs))
			}
		}
	}
	return out
}
