package main

import (
	"context"
	"fmt"
	"io"
	"log/slog"
	"net/http"
	"net/http/httptest"
	"sort"
	"strconv"
	"strings"

	"github.com/robbyt/go-supervisor/runnables/httpserver"
	"github.com/robbyt/go-supervisor/runnables/httpserver/middleware/headers"
	"github.com/robbyt/go-supervisor/runnables/httpserver/middleware/logger"
	"github.com/robbyt/go-supervisor/runnables/httpserver/middleware/metrics"
	"github.com/robbyt/go-supervisor/runnables/httpserver/middleware/recovery"
	"github.com/robbyt/go-supervisor/runnables/httpserver/middleware/state"
	"github.com/robbyt/go-supervisor/runnables/httpserver/middleware/wildcard"
)

func init() { commands["middleware"] = runMiddleware }

// ---- program representation (same textual encoding as Driver/Middleware.lean) ---------------

type mwRun struct {
	tr   []string
	rp   *httpserver.RequestProcessor
	sent int // -1: nothing reached the underlying writer
	n    int
	body int
	cap  int
	// stream: body writes are issued as io.Copy(w, <plain reader>) instead of w.Write - what a proxying or file
	// serving handler does; for the wrapper under test the two must be indistinguishable
	stream bool
}

// zeros is a plain io.Reader (no WriteTo), so io.Copy has to go through the destination
type zeros struct{}

func (zeros) Read(p []byte) (int, error) {
	for i := range p {
		p[i] = 0
	}
	return len(p), nil
}

// ReadFrom makes the underlying writer an io.ReaderFrom, as net/http's own response writer is
func (u *recW) ReadFrom(r io.Reader) (int64, error) {
	b, err := io.ReadAll(r)
	if err != nil {
		return 0, err
	}
	n, err := u.Write(b)
	return int64(n), err
}

func bodyAllowed(c int) bool { return !((c >= 100 && c <= 199) || c == 204 || c == 304) }

// recW is the underlying writer the wrapper under test talks to: an httptest.ResponseRecorder
// whose calls are logged (this is the "what was actually sent" observation point).
type recW struct {
	rec   *httptest.ResponseRecorder
	run   *mwRun
	wrote bool
}

func (u *recW) Header() http.Header { return u.rec.Header() }
func (u *recW) WriteHeader(c int) {
	u.rec.WriteHeader(c) // may panic on an invalid code
	if !u.wrote {
		u.wrote = true
		u.run.sent = c
		u.run.tr = append(u.run.tr, "sent"+strconv.Itoa(c))
	}
}
func (u *recW) Write(b []byte) (int, error) {
	if !u.wrote {
		u.wrote = true
		u.run.sent = 200
		u.run.tr = append(u.run.tr, "sent200")
	}
	u.run.body += len(b)
	// a connection that fails after `cap` bytes: the part that fits is delivered, then an error
	if room := u.run.cap - u.run.n; len(b) > room && bodyAllowed(u.rec.Code) {
		n, _ := u.rec.Write(b[:room])
		u.run.n += n
		return n, io.ErrClosedPipe
	}
	n, err := u.rec.Write(b)
	u.run.n += n
	return n, err
}

// slogRec turns log records of the built-in middlewares into trace events.
type slogRec struct{ run *mwRun }

func (h slogRec) Enabled(context.Context, slog.Level) bool { return true }
func (h slogRec) WithAttrs([]slog.Attr) slog.Handler       { return h }
func (h slogRec) WithGroup(string) slog.Handler            { return h }
func (h slogRec) Handle(_ context.Context, r slog.Record) error {
	switch r.Message {
	case "HTTP handler panic recovered":
		h.run.tr = append(h.run.tr, "rec")
	case "HTTP request":
		st, sz := int64(-1), int64(-1)
		r.Attrs(func(a slog.Attr) bool {
			switch a.Key {
			case "status":
				st = a.Value.Int64()
			case "size":
				sz = a.Value.Int64()
			}
			return true
		})
		h.run.tr = append(h.run.tr, fmt.Sprintf("o%d:%d", st, sz))
	}
	return nil
}

func kv(s string) (string, string) {
	k, v, _ := strings.Cut(s, "=")
	return k, v
}

func listOf(s, sep string) []string {
	if s == "" {
		return nil
	}
	return strings.Split(s, sep)
}

// buildHandler turns one handler token into a real HandlerFunc (user program or built-in).
func buildHandler(tok string, i int, run *mwRun) httpserver.HandlerFunc {
	var inner httpserver.HandlerFunc
	switch {
	case tok == "e":
		inner = func(rp *httpserver.RequestProcessor) {}
	case tok == "R":
		inner = recovery.New(slogRec{run})
	case tok == "L":
		inner = logger.New(slogRec{run})
	case tok == "M":
		inner = metrics.New()
	case tok[0] == 'S':
		v := tok[1:]
		inner = state.New(func() string { return v })
	case tok[0] == 'W':
		p := ""
		if tok[1:] != "-" {
			b, err := hexDecode(tok[1:])
			must(err)
			p = string(b)
		}
		inner = wildcard.New(p)
	case tok[0] == 'H':
		h := http.Header{}
		for _, e := range listOf(tok[1:], ";") {
			k, v := kv(e)
			h[k] = append(h[k], v)
		}
		inner = headers.New(h)
	case tok[0] == 'O':
		parts := strings.Split(tok[1:], "|")
		var ops []headers.HeaderOperation
		ops = append(ops, headers.WithRemoveRequest(listOf(parts[0], ";")...))
		for _, e := range listOf(parts[1], ";") {
			k, v := kv(e)
			ops = append(ops, headers.WithSetRequest(http.Header{k: listOf(v, "^")}))
		}
		for _, e := range listOf(parts[2], ";") {
			k, v := kv(e)
			ops = append(ops, headers.WithAddRequestHeader(k, v))
		}
		ops = append(ops, headers.WithRemove(listOf(parts[3], ";")...))
		for _, e := range listOf(parts[4], ";") {
			k, v := kv(e)
			ops = append(ops, headers.WithSet(http.Header{k: listOf(v, "^")}))
		}
		for _, e := range listOf(parts[5], ";") {
			k, v := kv(e)
			ops = append(ops, headers.WithAddHeader(k, v))
		}
		inner = headers.NewWithOperations(ops...)
	default:
		acts := strings.Split(tok, ",")
		inner = func(rp *httpserver.RequestProcessor) {
			for _, a := range acts {
				switch {
				case a == "n":
					rp.Next()
				case a == "a":
					run.tr = append(run.tr, "ab"+strconv.Itoa(i))
					rp.Abort()
				case a == "p":
					panic("boom")
				case a == "op":
					run.tr = append(run.tr, "p"+hx(rp.Request().URL.Path))
				case a == "ob":
					run.tr = append(run.tr, fmt.Sprintf("o%d:%d", rp.Writer().Status(), rp.Writer().Size()))
				case strings.HasPrefix(a, "oq"):
					run.tr = append(run.tr, "q"+a[2:]+"="+strings.Join(rp.Request().Header.Values(a[2:]), "^"))
				case a[0] == 'h':
					c, _ := strconv.Atoi(a[1:])
					rp.Writer().WriteHeader(c)
				case a[0] == 'w':
					n, _ := strconv.Atoi(a[1:])
					if run.stream && n > 0 && n <= 32*1024 {
						_, _ = io.Copy(rp.Writer(), io.LimitReader(zeros{}, int64(n)))
					} else {
						_, _ = rp.Writer().Write(make([]byte, n))
					}
				case a[0] == 'm':
					run.tr = append(run.tr, a)
				case strings.HasPrefix(a, "qs"):
					k, v := kv(a[2:])
					rp.Request().Header.Set(k, v)
				case strings.HasPrefix(a, "qd"):
					k, v := kv(a[2:])
					rp.Request().Header.Add(k, v)
				case strings.HasPrefix(a, "qr"):
					rp.Request().Header.Del(a[2:])
				case a[0] == 's':
					k, v := kv(a[1:])
					rp.Writer().Header().Set(k, v)
				case a[0] == 'd':
					k, v := kv(a[1:])
					rp.Writer().Header().Add(k, v)
				case a[0] == 'r':
					rp.Writer().Header().Del(a[1:])
				default:
					panic("vh: bad act " + a)
				}
			}
		}
	}
	return func(rp *httpserver.RequestProcessor) {
		run.rp = rp
		run.tr = append(run.tr, "e"+strconv.Itoa(i))
		inner(rp)
		run.tr = append(run.tr, "l"+strconv.Itoa(i))
	}
}

var mwPoolKeys = []string{"X-A", "X-B", "X-C", "X-Server-State", "X-Content-Type-Options", "Content-Length"}

// serveProgram runs the real Route.ServeHTTP on the program and renders the canonical outcome.
func serveProgram(path string, cap int, prog string) string {
	run := &mwRun{sent: -1, cap: cap, stream: (len(prog)+cap)%2 == 1}
	toks := strings.Split(prog, "/")
	hs := make([]httpserver.HandlerFunc, len(toks))
	for i, t := range toks {
		hs[i] = buildHandler(t, i, run)
	}
	route, err := httpserver.NewRouteFromHandlerFunc("r", "/", func(http.ResponseWriter, *http.Request) {})
	must(err)
	route.Handlers = hs
	rec := httptest.NewRecorder()
	u := &recW{rec: rec, run: run}
	req := httptest.NewRequest("GET", "http://example.test"+path, nil)
	tag := "ok"
	func() {
		defer func() {
			if r := recover(); r != nil {
				tag = "panic"
			}
		}()
		route.ServeHTTP(u, req)
	}()
	sent := "none"
	if run.sent >= 0 {
		sent = strconv.Itoa(run.sent)
	}
	res := rec.Result()
	var hp []string
	for _, k := range mwPoolKeys {
		if vs := res.Header.Values(k); len(vs) > 0 {
			hp = append(hp, k+":"+strings.Join(vs, "^"))
		}
	}
	w := run.rp.Writer()
	return fmt.Sprintf("%s tr=%s sent=%s n=%d body=%d hdr=%s st=%d sz=%d wr=%v path=%s", tag, strings.Join(run.tr, ","), sent,
		run.n, run.body, strings.Join(hp, "|"), w.Status(), w.Size(), w.Written(), hx(req.URL.Path))
}

func mwCase(e *Emitter, path string, cap int, prog, kind string) {
	out := serveProgram(path, cap, prog)
	e.Stats["gen:"+kind]++
	e.Case(fmt.Sprintf("mw %s %d %s", hx(path), cap, prog), out)
	e.Case(fmt.Sprintf("mwspec %s %d %s", hx(path), cap, prog), out)
	e.Case("c15holds "+prog+" "+out, "true")
	// branch statistics and non-triviality: a non-default branch of the interpreter was taken
	nt := false
	for _, m := range []string{"ab", "rec", "sent"} {
		if strings.Contains(out, m) {
			e.Stats["branch:"+m]++
			nt = true
		}
	}
	if strings.HasPrefix(out, "panic") {
		e.Stats["branch:escaped_panic"]++
		nt = true
	}
	if strings.Contains(out, "body=") && !strings.Contains(out, fmt.Sprintf("n=%s ", field(out, "body"))) {
		e.Stats["branch:short_write"]++
		nt = true
	}
	if strings.Count(prog, "n") >= 2 {
		e.Stats["branch:multi_next"]++
	}
	if nt {
		e.Nontrivial(path + " " + prog)
	}
}

var mwCodes = []int{100, 103, 200, 201, 204, 301, 304, 404, 500, 0, 99, 1000}
var mwKeys = []string{"X-A", "X-B", "X-C"}
var mwVals = []string{"v1", "v2", "json"}
var mwPaths = []string{"/", "/api", "/api/", "/api/x", "/apix", "/other/y", "/a/b/c"}
var mwPrefixes = []string{"", "/", "api", "/api", "/api/", "/other", "a/b"}

func genAct(r interface{ IntN(int) int }, coreOnly bool) string {
	k := mwKeys[r.IntN(len(mwKeys))]
	v := mwVals[r.IntN(len(mwVals))]
	switch c := r.IntN(20); {
	case c < 4:
		return "n"
	case c < 6:
		return "a"
	case c < 8:
		return "h" + strconv.Itoa(mwCodes[r.IntN(len(mwCodes))])
	case c < 10:
		return "w" + strconv.Itoa(r.IntN(65))
	case c < 11:
		return "p"
	case c < 13:
		return "m" + strconv.Itoa(r.IntN(10))
	case c < 14:
		return "s" + k + "=" + v
	case c < 15:
		return "d" + k + "=" + v
	case c < 16:
		return "r" + k
	case c < 17:
		return "ob"
	case c < 18:
		if coreOnly {
			return "n"
		}
		return []string{"qs" + k + "=" + v, "qd" + k + "=" + v, "qr" + k}[r.IntN(3)]
	case c < 19:
		return "oq" + k
	default:
		return "op"
	}
}

func genHandler(r interface{ IntN(int) int }) string {
	k := mwKeys[r.IntN(len(mwKeys))]
	v := mwVals[r.IntN(len(mwVals))]
	switch c := r.IntN(16); c {
	case 0:
		return "R"
	case 1:
		return "L"
	case 2:
		return "M"
	case 3:
		return "S" + v
	case 4:
		return "W" + hx(mwPrefixes[r.IntN(len(mwPrefixes))])
	case 5:
		n := 1 + r.IntN(3)
		var es []string
		for i := 0; i < n; i++ {
			es = append(es, mwKeys[r.IntN(len(mwKeys))]+"="+mwVals[r.IntN(len(mwVals))])
		}
		// Go map iteration order is irrelevant across distinct keys; values of one key keep order
		sort.SliceStable(es, func(a, b int) bool { ka, _ := kv(es[a]); kb, _ := kv(es[b]); return ka < kb })
		return "H" + strings.Join(es, ";")
	case 6:
		pick := func() string {
			if r.IntN(2) == 0 {
				return ""
			}
			return mwKeys[r.IntN(len(mwKeys))]
		}
		one := func() string {
			if r.IntN(2) == 0 {
				return ""
			}
			return k + "=" + v
		}
		set := func() string {
			if r.IntN(2) == 0 {
				return ""
			}
			return mwKeys[r.IntN(len(mwKeys))] + "=" + mwVals[r.IntN(3)] + "^" + mwVals[r.IntN(3)]
		}
		return "O" + strings.Join([]string{pick(), set(), one(), pick(), set(), one()}, "|")
	}
	n := r.IntN(7)
	if n == 0 {
		return "e"
	}
	as := make([]string, n)
	for i := range as {
		as[i] = genAct(r, false)
	}
	return strings.Join(as, ",")
}

func runMiddleware(o Opts) {
	e := NewEmitter(o.Out, "middleware")
	defer e.Close(o.Out, "middleware", nil)
	if o.Replay != "" {
		for _, l := range replayLines(o.Replay) {
			f := strings.Fields(l)
			if len(f) >= 4 && (f[0] == "mw" || f[0] == "mwspec") {
				b, _ := hexDecode(f[1])
				c, _ := strconv.Atoi(f[2])
				mwCase(e, string(b), c, f[3], "replay")
			}
		}
		return
	}
	// corpus: the classic shapes
	for _, c := range [][2]string{
		{"/", "m1,n,m2/m3,n,m4/m5"}, {"/", "n,n/m1"}, {"/", "a,n/m1"}, {"/", "m1/m2/m3"}, {"/", "R/h201,p"}, {"/", "R/p"},
		{"/", "n,w5/R/h201,p"}, {"/", "L/R/w3,p"}, {"/", "p"}, {"/", "h103,h201,w4"}, {"/", "h204,w4,ob"}, {"/", "h99"}, {"/", "R/h99"},
		{"/", "R/h1000,w3"}, {"/api/x", "W" + hx("/api") + "/op,w2"}, {"/apix", "W" + hx("api") + "/op"}, {"/", "Sjson/HX-A=v1;X-A=v2/ob,w1"},
		{"/", "OX-A|X-B=v1^v2|X-C=v1|X-A|X-B=v1^v2|X-C=v2/oqX-B,oqX-C,w1"}, {"/", "n/a/m1"}, {"/", "R/n,p/m1,a/m2"}, {"/", "w0,ob"}, {"/", "L/M/e"},
		{"/", "R/R/p"}, {"/", "n,p/R/p"},
	} {
		mwCase(e, c[0], 1000000, c[1], "corpus")
		mwCase(e, c[0], 2, c[1], "corpus")
	}
	// exhaustive small programs over the core alphabet
	core := []string{"n", "a", "h201", "w3", "p", "m1"}
	maxH, maxA := 2, 2
	if o.Thorough {
		maxH, maxA = 3, 2
	}
	var handlers []string
	var recH func(prefix []string)
	recH = func(prefix []string) {
		if len(prefix) > 0 {
			handlers = append(handlers, strings.Join(prefix, ","))
		}
		if len(prefix) == maxA {
			return
		}
		for _, a := range core {
			recH(append(append([]string{}, prefix...), a))
		}
	}
	recH(nil)
	handlers = append(handlers, "e", "R")
	var recP func(prefix []string)
	recP = func(prefix []string) {
		if len(prefix) > 0 {
			mwCase(e, "/", 1000000, strings.Join(prefix, "/"), fmt.Sprintf("exhaustive_h%d", len(prefix)))
		}
		if len(prefix) == maxH {
			return
		}
		for _, h := range handlers {
			recP(append(append([]string{}, prefix...), h))
		}
	}
	recP(nil)
	// seeded random programs with built-ins
	r := newRand(o.Seed, 15)
	n := 20000
	if o.Thorough {
		n = 200000
	}
	if o.N > 0 {
		n = o.N
	}
	for i := 0; i < n; i++ {
		nh := 1 + r.IntN(6)
		hs := make([]string, nh)
		for j := range hs {
			hs[j] = genHandler(r)
		}
		cap := 1000000
		if r.IntN(4) == 0 {
			cap = r.IntN(80)
		}
		mwCase(e, mwPaths[r.IntN(len(mwPaths))], cap, strings.Join(hs, "/"), "random")
	}
}

func field(out, k string) string {
	for _, w := range strings.Fields(out) {
		if strings.HasPrefix(w, k+"=") {
			return w[len(k)+1:]
		}
	}
	return ""
}
